/-
C13, part (a): the conditional-directive machine of `preprocessor_t`
(src/occa/internal/lang/preprocessor.cpp: pushStatus/popStatus/swapReadingStatus,
processIf/Ifdef/Ifndef/Elif/Else/Endif) and the reference semantics of nested groups
(C11 6.10.1: only the first group whose condition is true is kept; conditions of skipped groups and
of `#elif`s after a taken group are NOT evaluated).

The status word is a bit set over the five `ppStatus` flags; the translator checks that they are
five distinct single bits (translate/gen_pp.py), so a record of five booleans is an exact
representation (`Status.word` gives the integer back).  Core Lean only.
-/
import OccaGen.PpStatus

namespace Occa.Cpp

/-- which variant of the code is modelled (read from the source by translate/gen_pp.py) -/
structure Cfg where
  /-- processElif tests finishedIf / reading before it evaluates the condition (F17 repaired) -/
  elifFirst : Bool
  /-- lineIsTrue() itself pushes `ignoring|foundIf` on a malformed condition (original code) -/
  litPushes : Bool
  /-- binaryOpNode::evaluate short-circuits && and || (F18 repaired) -/
  shortCircuit : Bool
  /-- __VA_ARGS__ keeps the separating commas (F61 repaired) -/
  vaCommas : Bool
  /-- `defined X` without parentheses is supported (F64 repaired) -/
  definedBare : Bool
  deriving DecidableEq, Repr

/-- the tree under test -/
def Cfg.current : Cfg :=
  ⟨Gen.Pp.elifChecksStateFirst, Gen.Pp.lineIsTruePushes, Gen.Pp.shortCircuit, Gen.Pp.vaArgsKeepCommas,
   Gen.Pp.definedWithoutParens⟩
/-- the tree with the C13 repairs (F17, F61, F64) and C14's F18 -/
def Cfg.repaired : Cfg := ⟨true, false, true, true, true⟩
/-- the pinned tree -/
def Cfg.original : Cfg := ⟨false, true, false, false, false⟩

/-- `int status`: a set of ppStatus flags -/
structure Status where
  reading : Bool := false
  ignoring : Bool := false
  foundIf : Bool := false
  foundElse : Bool := false
  finishedIf : Bool := false
  deriving DecidableEq, Repr

def Status.word (s : Status) : Nat :=
  (if s.reading then Gen.Pp.readingFlag else 0) + (if s.ignoring then Gen.Pp.ignoringFlag else 0) +
  (if s.foundIf then Gen.Pp.foundIfFlag else 0) + (if s.foundElse then Gen.Pp.foundElseFlag else 0) +
  (if s.finishedIf then Gen.Pp.finishedIfFlag else 0)

/-- what evaluating the condition of a `#if`/`#elif` line WOULD give:
    true / false / malformed expression (lineIsTrue returns false) / a crash (SIGFPE, exception) -/
inductive CR where
  | tt | ff | err | trap
  deriving DecidableEq, Repr

/-- a conditional directive; `ifdef b` / `ifndef b`: `b` = the macro is defined -/
inductive Dir where
  | if_ (c : CR)
  | ifdef (defd : Bool)
  | ifndef (defd : Bool)
  | elif (c : CR)
  | else_
  | endif
  deriving DecidableEq, Repr

/-- preprocessor_t's conditional state: `status`, `statusStack`, `errors`; `crashed` = the process died
    while evaluating a condition; `pops0` counts executions of popStatus() on an EMPTY statusStack and
    `popsBase` pops that returned the entry pushed by init() (the uninitialised `status` member) -/
structure CM where
  status : Status := { reading := true }
  stack : List Status := [{}]          -- init(): pushStatus(reading) pushes the uninitialised member
  errors : Nat := 0
  crashed : Bool := false
  pops0 : Nat := 0
  popsBase : Nat := 0
  deriving DecidableEq, Repr

def CM.init : CM := {}

/-- statusStack.push_back(status); status = s -/
def CM.push (m : CM) (s : Status) : CM := { m with stack := m.status :: m.stack, status := s }

/-- popStatus(): `if (statusStack.size() == 0) return 0;  status = back; pop_back` -/
def CM.pop (m : CM) : CM :=
  match m.stack with
  | [] => { m with pops0 := m.pops0 + 1 }
  | [s] => { m with status := s, stack := [], popsBase := m.popsBase + 1 }
  | s :: r => { m with status := s, stack := r }

/-- swapReadingStatus() -/
def Status.swapReading (s : Status) : Status :=
  if s.reading then { s with reading := false, ignoring := true }
  else { s with ignoring := false, reading := true }

def nestedSkip : Status := { ignoring := true, foundIf := true, finishedIf := true }
def ifStatus (isTrue : Bool) : Status :=
  { foundIf := true, reading := isTrue, ignoring := !isTrue }

/-- processIf (with lineIsTrue inlined at the level of its result) -/
def CM.doIf (m : CM) (c : CR) : CM × Bool :=
  if m.status.ignoring then (m.push nestedSkip, false)
  else match c with
    | .trap => ({ m with crashed := true }, true)
    | .err => (m.push { ignoring := true, foundIf := true }, true)
    | .tt => (m.push (ifStatus true), true)
    | .ff => (m.push (ifStatus false), true)

/-- processIfdef / processIfndef (`isTrue` already accounts for the `n`) -/
def CM.doIfdef (m : CM) (isTrue : Bool) : CM :=
  if m.status.ignoring then m.push nestedSkip else m.push (ifStatus isTrue)

/-- the tail of processElif once the condition's value is known -/
def CM.elifAfterEval (m : CM) (isTrue : Bool) : CM :=
  if m.status.finishedIf then m
  else if m.status.reading then { m with status := { m.status.swapReading with finishedIf := true } }
  else if isTrue then { m with status := { foundIf := true, reading := true } }
  else m

/-- processElif -/
def CM.doElif (cfg : Cfg) (m : CM) (c : CR) : CM × Bool :=
  if !m.status.foundIf then ({ m with errors := m.errors + 1 }, false)
  else if m.status.foundElse then
    ({ m with errors := m.errors + 1,
              status := { m.status with reading := false, ignoring := true, finishedIf := true } }, false)
  else if cfg.elifFirst then
    -- repaired: the state is looked at first, the line is skipped when a group was already taken
    if m.status.finishedIf then (m, false)
    else if m.status.reading then
      ({ m with status := { m.status.swapReading with finishedIf := true } }, false)
    else match c with
      | .trap => ({ m with crashed := true }, true)
      | .err => (m, true)
      | .tt => ({ m with status := { foundIf := true, reading := true } }, true)
      | .ff => (m, true)
  else
    -- original: lineIsTrue() first
    match c with
    | .trap => ({ m with crashed := true }, true)
    | .err => (if cfg.litPushes then m.push { ignoring := true, foundIf := true } else m, true)
    | .tt => (m.elifAfterEval true, true)
    | .ff => (m.elifAfterEval false, true)

/-- processElse -/
def CM.doElse (m : CM) : CM :=
  if !m.status.foundIf then { m with errors := m.errors + 1 }
  else if m.status.foundElse then
    { m with errors := m.errors + 1,
             status := { m.status with reading := false, ignoring := true, finishedIf := true } }
  else
    let s := { m.status with foundElse := true }
    if s.finishedIf then { m with status := s }
    else if s.reading then { m with status := { s.swapReading with finishedIf := true } }
    else { m with status := s.swapReading }

/-- processEndif -/
def CM.doEndif (m : CM) : CM :=
  if !m.status.foundIf then { m with errors := m.errors + 1 } else m.pop

/-- one conditional directive; the Bool says whether the condition was EVALUATED
    (macro-expanded, parsed and `evaluate()`d).  A crashed machine stays crashed. -/
def CM.step (cfg : Cfg) (m : CM) (d : Dir) : CM × Bool :=
  if m.crashed then (m, false) else
  match d with
  | .if_ c => m.doIf c
  | .ifdef b => (m.doIfdef b, false)
  | .ifndef b => (m.doIfdef (!b), false)
  | .elif c => m.doElif cfg c
  | .else_ => (m.doElse, false)
  | .endif => (m.doEndif, false)

/-- text lines are dropped iff the status has `ignoring` (processToken tests only that flag) -/
def CM.keeps (m : CM) : Bool := !m.status.ignoring && !m.crashed

/-! ### lines: conditional directives and text lines -/

inductive Line where
  | dir (d : Dir)
  | text (id : Nat)
  deriving DecidableEq, Repr

/-- result of running the machine over a list of lines: for every text line (in order) whether it is
    kept, and for every condition-carrying directive (in order) whether its condition was evaluated -/
structure Run where
  m : CM
  kept : List (Nat × Bool)
  evaluated : List Bool
  deriving DecidableEq, Repr

def runLines (cfg : Cfg) : CM → List Line → Run
  | m, [] => ⟨m, [], []⟩
  | m, .text id :: r =>
      let x := runLines cfg m r
      { x with kept := (id, m.keeps) :: x.kept }
  | m, .dir d :: r =>
      let (m', ev) := m.step cfg d
      let x := runLines cfg m' r
      match d with
      | .if_ _ | .elif _ => { x with evaluated := ev :: x.evaluated }
      | _ => x

/-! ### reference semantics: the C standard's if-sections as trees -/

inductive Cnd where
  | expr (c : CR)
  | ifdef (defd : Bool)
  | ifndef (defd : Bool)
  deriving DecidableEq, Repr

/-- truth of a condition that the standard evaluates (only meaningful for tt/ff) -/
def Cnd.truth : Cnd → Bool
  | .expr .tt => true
  | .expr _ => false
  | .ifdef b => b
  | .ifndef b => !b

/-- the condition evaluates cleanly (no malformed expression, no crash) -/
def Cnd.clean : Cnd → Bool
  | .expr .tt | .expr .ff => true
  | .expr _ => false
  | _ => true

mutual
  /-- a group: a sequence of text lines and if-sections -/
  inductive Items where
    | nil
    | text (id : Nat) (rest : Items)
    | sect (c : Cnd) (body : Items) (tail : Tail) (rest : Items)
  /-- what follows the first group of an if-section -/
  inductive Tail where
    | endif
    | else_ (body : Items)                               -- #else body #endif
    | elif (c : CR) (body : Items) (tail : Tail)
end

mutual
  /-- the directive/text lines a tree stands for (well nested by construction) -/
  def Items.flatten : Items → List Line
    | .nil => []
    | .text id r => .text id :: r.flatten
    | .sect c b t r =>
        (match c with
         | .expr e => Line.dir (.if_ e)
         | .ifdef d => Line.dir (.ifdef d)
         | .ifndef d => Line.dir (.ifndef d)) :: (b.flatten ++ (t.flatten ++ r.flatten))
  def Tail.flatten : Tail → List Line
    | .endif => [.dir .endif]
    | .else_ b => .dir .else_ :: (b.flatten ++ [.dir .endif])
    | .elif c b t => .dir (.elif c) :: (b.flatten ++ t.flatten)
end

mutual
  /-- C11 6.10.1p6: `act` = the enclosing group is being processed.  For every text line whether it
      is kept. -/
  def Items.keepRef (act : Bool) : Items → List (Nat × Bool)
    | .nil => []
    | .text id r => (id, act) :: r.keepRef act
    | .sect c b t r =>
        let taken := act && c.truth
        b.keepRef taken ++ (t.keepRef act taken ++ r.keepRef act)
  /-- `done` = a previous group of this if-section was taken -/
  def Tail.keepRef (act done : Bool) : Tail → List (Nat × Bool)
    | .endif => []
    | .else_ b => b.keepRef (act && !done)
    | .elif c b t =>
        let taken := act && !done && (Cnd.expr c).truth
        b.keepRef taken ++ t.keepRef act (done || taken)
end

mutual
  /-- which `#if`/`#elif` conditions the standard evaluates (in document order): those of groups that are
      not skipped, up to and including the first true one -/
  def Items.evalRef (act : Bool) : Items → List Bool
    | .nil => []
    | .text _ r => r.evalRef act
    | .sect c b t r =>
        let taken := act && c.truth
        (match c with | .expr _ => [act] | _ => []) ++
          (b.evalRef taken ++ (t.evalRef act taken ++ r.evalRef act))
  def Tail.evalRef (act done : Bool) : Tail → List Bool
    | .endif => []
    | .else_ b => b.evalRef (act && !done)
    | .elif c b t =>
        let taken := act && !done && (Cnd.expr c).truth
        (act && !done) :: (b.evalRef taken ++ t.evalRef act (done || taken))
end

mutual
  /-- every condition that the standard EVALUATES is clean; the others may be anything
      (malformed, or crash if they were evaluated) -/
  def Items.evalClean (act : Bool) : Items → Bool
    | .nil => true
    | .text _ r => r.evalClean act
    | .sect c b t r =>
        let taken := act && c.truth
        (!act || c.clean) && b.evalClean taken && t.evalClean act taken && r.evalClean act
  def Tail.evalClean (act done : Bool) : Tail → Bool
    | .endif => true
    | .else_ b => b.evalClean (act && !done)
    | .elif c b t =>
        let taken := act && !done && (Cnd.expr c).truth
        (!(act && !done) || (Cnd.expr c).clean) && b.evalClean taken && t.evalClean act (done || taken)
end

end Occa.Cpp
