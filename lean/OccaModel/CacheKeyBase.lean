/-
Vocabulary of the generated table OccaGen/CacheKeyFields.lean (see translate/gen_cachekey.py).
-/
namespace Occa.CacheKeyBase

/-- how the parts of a key are combined: `xor` of the hashes of the parts, or the hash of ONE
    object that labels every part with its name -/
inductive Comb
  | xor
  | labelled
deriving DecidableEq, Repr

/-- where a part of the kernel key assembled by device::setupKernelInfo comes from -/
inductive KeyPart
  | deviceHash                 -- device::hash()
  | modeHash                   -- modeDevice->kernelHash(kernelProps)
  | headerHash                 -- kernelHeaderHash(kernelProps)
  | sourceHash                 -- hash of the kernel source text
  | prop (name : String)       -- kernelProps[name] itself
deriving DecidableEq, Repr

/-- how a hash_t is turned into a string before it is hashed again:
    getFullString (all 256 bits) or getString (the first 64 bits) -/
inductive Render
  | full
  | short
deriving DecidableEq, Repr

end Occa.CacheKeyBase
