/-
Model of occa::lang::tokenizer_t  (src/occa/internal/lang/tokenizer.cpp), of the token printers
(token/stringToken.cpp, charToken.cpp, …), of escape/unescape (utils/string.cpp) and of the scanner
part of primitive::load (src/types/primitive.cpp), written after the C++ statement by statement —
the REPAIRED code (fix: F16, FL1..FL6; `Gen.sourceShape` says whether the current source has the
shapes this file assumes, theorem C12_source_shape checks it).

Representation.  The source is a C string: the buffer is `s ++ [NUL]` with `s` NUL-free (a byte
string is cut at its first NUL, `cstr`).  The tokenizer's position `fp.start` is represented by
the suffix `r : Str` of `s` that is still unread; `r = []` means `*fp.start == '\0'`.
 * `rd r k`  is the indexed read `fp.start[k]`: in bounds iff `k ≤ r.length` (index `r.length` is the
   terminator — the one assumption, that of `std::string::c_str()`), otherwise `Trap.oob`.
 * `adv r k` is `fp.start += k`, `Trap.oob` when it would leave the buffer.
Every look-ahead at an offset ≥ 1 and every advance that the C++ does not guard syntactically by a
successful comparison of `*fp.start` with a non-NUL character goes through `rd`/`adv`, so "never
reads out of bounds" is the statement `… ≠ .error .oob`.  Loops whose every `++c` sits in a branch
that has just matched `*c` against a non-NUL character (digit loops, `lex::skipWhitespace`, the
trie walk) are pattern matches / `dropWhile`: they cannot leave the buffer by construction.
 * the `isEmpty()` loop takes fuel `s.length + 1`; running out is `Trap.fuel` (= does not terminate).

Not modelled: line/column bookkeeping, comment `spacingType` (`emptyLinesBefore/After`: bounds-checked
pointer walks over file_t::content), the origin stack, `#include` sources (pushSource/popSource),
the numeric value of primitives (C14).
-/
import OccaGen.Operators
import OccaGen.Charsets

namespace Occa.Lex
open Occa.Gen

abbrev Str := List Char

def NUL : Char := Char.ofNat 0

inductive Trap
  | oob    -- a read or a pointer advance beyond the terminating NUL
  | fuel   -- the token loop did not finish within `length + 1` iterations
deriving Repr, DecidableEq

abbrev M := Except Trap

instance {α : Type} [DecidableEq α] : DecidableEq (M α) := fun a b =>
  match a, b with
  | .ok x, .ok y => if h : x = y then isTrue (by rw [h]) else isFalse (fun e => h (Except.ok.inj e))
  | .error x, .error y => if h : x = y then isTrue (by rw [h]) else isFalse (fun e => h (Except.error.inj e))
  | .ok _, .error _ => isFalse (fun e => by cases e)
  | .error _, .ok _ => isFalse (fun e => by cases e)

/-- `fp.start[k]` -/
def rd (r : Str) (k : Nat) : M Char :=
  if k ≤ r.length then .ok (r.getD k NUL) else .error .oob

/-- `fp.start += k` -/
def adv (r : Str) (k : Nat) : M Str :=
  if k ≤ r.length then .ok (r.drop k) else .error .oob

/-- `*fp.start` (the position is always inside the buffer) -/
def hd (r : Str) : Char := r.headD NUL

/-- the C string seen through a `const char*`: everything before the first NUL -/
def cstr (s : Str) : Str := s.takeWhile (· != NUL)

/-- `str()`: the characters between a pushed position `r` and the current one `r'` -/
def consumed (r r' : Str) : Str := r.take (r.length - r'.length)

/-! ### tokenizer_t::skipTo / skipFrom -/

/-- The three skip loops of tokenizer_t share one body; they differ in the stop test:
    `skipTo(d)`: `c == d`, `skipTo(ds)`: `c ∈ ds`, `skipFrom(ds)`: `c ∉ ds`.
    A backslash always skips the next character: `fp.start += 1 + (fp.start[1] != '\0')`. -/
def skipUntil (stop : Char → Bool) : Str → M Str
  | [] => .ok []
  | c :: t =>
    if c = '\\' then
      match rd (c :: t) 1 with
      | .error e => .error e
      | .ok d =>
        if d != NUL then
          match t with                      -- fp.start += 2
          | [] => .error .oob
          | _ :: t' => skipUntil stop t'
        else skipUntil stop t               -- fp.start += 1
    else if stop c then .ok (c :: t)
    else skipUntil stop t

def skipToChar (d : Char) (r : Str) : M Str := skipUntil (· == d) r
def skipTo (ds : List Char) (r : Str) : M Str := skipUntil (ds.contains ·) r
def skipFrom (ds : List Char) (r : Str) : M Str := skipUntil (fun c => !ds.contains c) r
def skipWhitespace (r : Str) : M Str := skipFrom whitespaceNoNewline r

/-! ### escape / unescape (utils/string.cpp), escapeChar = '\\' -/

/-- `escape(str, q)` after fix F16: a backslash before every `q` -/
def escape (q : Char) : Str → Str
  | [] => []
  | c :: t => if c = q then '\\' :: q :: escape q t else c :: escape q t

/-- `unescape(str, q)`: drops a backslash iff the next character is `q`
    (`cstr[i+1]` at the last index reads the string's own terminator) -/
def unescape (q : Char) : Str → Str
  | [] => []
  | c :: t => if c = '\\' ∧ hd t = q then unescape q t else c :: unescape q t

/-! ### encoding prefixes -/

/-- getEncodingType: the loop over the prefix letters; `enc` and `cnt` are `encoding`, `encodingCount` -/
def encLoop : Str → Nat → Nat → Nat
  | [], enc, cnt => if cnt = 1 ∨ (cnt = 2 ∧ enc &&& encR ≠ 0) then enc else encNone
  | 'u' :: '8' :: t, enc, cnt => if enc &&& encu8 ≠ 0 then encNone else encLoop t (enc ||| encu8) (cnt + 1)
  | 'u' :: t, enc, cnt => if enc &&& encu ≠ 0 then encNone else encLoop t (enc ||| encu) (cnt + 1)
  | 'U' :: t, enc, cnt => if enc &&& encU ≠ 0 then encNone else encLoop t (enc ||| encU) (cnt + 1)
  | 'L' :: t, enc, cnt => if enc &&& encL ≠ 0 then encNone else encLoop t (enc ||| encL) (cnt + 1)
  | 'R' :: t, enc, cnt => if enc &&& encR ≠ 0 then encNone else encLoop t (enc ||| encR) (cnt + 1)
  | _ :: _, _, _ => encNone

def getEncodingType (s : Str) : Nat := encLoop s 0 0
def getStringEncoding (s : Str) : Nat := getEncodingType s
def getCharacterEncoding (s : Str) : Nat :=
  let e := getEncodingType s
  if e = 0 ∨ e &&& (encu8 ||| encR) ≠ 0 then encNone else e

/-! ### the scanner part of primitive::load -/

def isDigit (c : Char) : Bool := '0' ≤ c && c ≤ '9'
def isBin (c : Char) : Bool := c == '0' || c == '1'
/-- loadHex: `uppercase(*c)` in '0'..'9' or 'A'..'F' -/
def isHex (c : Char) : Bool := isDigit c || ('a' ≤ c && c ≤ 'f') || ('A' ≤ c && c ≤ 'F')
/-- `uppercase(*c) == 'L' || uppercase(*c) == 'U'` -/
def isLU (c : Char) : Bool := c == 'l' || c == 'L' || c == 'u' || c == 'U'
def isF (c : Char) : Bool := c == 'f' || c == 'F'
def isE (c : Char) : Bool := c == 'e' || c == 'E'
def isDigitOrDot (c : Char) : Bool := isDigit c || c == '.'

def startsWith (p r : Str) : Bool := p.isPrefixOf r

/-- the suffix loop of a number that is not hex/binary: L, U, F are consumed, E hands the rest to a
    recursive `load` (`ld`; on failure the callee has reset `c` to just after the E), anything else stops -/
def suffixLoop (ld : Str → Option Str) : Str → Str
  | [] => []
  | c :: t =>
    if isLU c then suffixLoop ld t
    else if isE c then (ld t).getD t
    else if isF c then suffixLoop ld t
    else c :: t

/-- `if ((*c == '+') || (*c == '-'))` -/
def isSigned (r : Str) : Bool := hd r == '+' || hd r == '-'

/-- `++c; lex::skipWhitespace(c);` after a sign -/
def loadSignSkip (r : Str) : Str :=
  if isSigned r then (r.drop 1).dropWhile (lexWhitespace.contains ·) else r

/-- loadBinary / loadHex: the digits; no digit at all gives type none -/
def loadDigits (p : Char → Bool) (t : Str) : Option Str :=
  if (t.takeWhile p).isEmpty then none else some (t.dropWhile p)

/-- the `0b…` / `0x…` branch: `none` = not taken, `some none` = taken and failed -/
def loadFormatted : Str → Option (Option Str)
  | '0' :: x :: t =>
    if x == 'b' || x == 'B' then some (loadDigits isBin t)
    else if x == 'x' || x == 'X' then some (loadDigits isHex t)
    else none
  | _ => none

/-- everything after the optional sign; `ld` is the recursive `load` used for an exponent -/
def loadBody (ld : Str → Option Str) (r1 : Str) : Option Str :=
  match loadFormatted r1 with
  | some none => none
  | some (some r2) => some (r2.dropWhile isLU)          -- hex and binary only take U, L
  | none =>
    -- digits and dots; at least one digit is needed
    if (r1.takeWhile isDigitOrDot).any isDigit then
      some (suffixLoop ld (r1.dropWhile isDigitOrDot))
    else none

/-- `primitive::load(c, includeSign)`: `none` = the result has type none (and `c` is unchanged),
    `some r'` = a primitive was read and `c` is left at `r'`.  Fuel bounds the exponent recursion. -/
def loadF : Nat → Bool → Str → Option Str
  | 0, _, _ => none
  | f + 1, includeSign, r =>
    if startsWith ['t', 'r', 'u', 'e'] r then some (r.drop 4)
    else if startsWith ['f', 'a', 'l', 's', 'e'] r then some (r.drop 5)
    else if isSigned r && !includeSign then none
    else loadBody (loadF f true) (loadSignSkip r)

def loadScan (includeSign : Bool) (r : Str) : Option Str := loadF (r.length + 1) includeSign r

/-! ### operators -/

/-- `operators.getLongest(fp.start)`: id and length of the longest registered spelling that is a
    prefix of the input (the trie itself is the subject of C28; here the table is searched directly) -/
def longestIn : List (List Char) → Nat → Str → Option (Nat × Nat) → Option (Nat × Nat)
  | [], _, _, best => best
  | sp :: rest, i, r, best =>
    let best' :=
      if sp.isPrefixOf r && sp.length > (match best with | some (_, l) => l | none => 0)
      then some (i, sp.length) else best
    longestIn rest (i + 1) r best'

def longestOp (r : Str) : Option (Nat × Nat) := longestIn registered 0 r none

/-- the first characters of the registered operators that are not identifierStart characters -/
def operatorCharcodes : List Char :=
  (registered.filterMap List.head?).filter (fun c => !identifierStart.contains c)

/-! ### tokens -/

inductive Tok
  | ident (v : Str)
  | prim (spelling : Str)
  | op (id : Nat)
  | newline
  | str (enc : Nat) (v udf : Str)
  | chr (enc : Nat) (v udf : Str)
  | comment (v : Str)
  | unknown (c : Char)
deriving Repr, DecidableEq

inductive Kind
  | none | ident | prim | op | newline | str (enc : Nat) | chr (enc : Nat)
deriving Repr, DecidableEq

/-- the primitive test of shallowPeek (after FL3): `primitive::load(pos, false)` succeeds and the literal
    is not the beginning of an identifier (`true_var`, `true1`, `1abc`) -/
def isPrimitiveAt (r : Str) : Bool :=
  match loadScan false r with
  | some pos =>
    !identifierStart.contains (hd pos)
      && !(identifierStart.contains (hd r) && identifier.contains (hd pos))
  | none => false

/-- the rest of shallowPeek: the token type suggested by the first character -/
def classifyChar (c : Char) : Kind :=
  if identifierStart.contains c then .ident
  else if operatorCharcodes.contains c then .op
  else if c = '\n' then .newline
  else if c = '"' then .str 0
  else if c = '\'' then .chr 0
  else .none

/-- tokenizer_t::shallowPeek (it skips whitespace itself, the position is returned) -/
def shallowPeek (r : Str) : M (Kind × Str) := do
  let r ← skipWhitespace r
  if hd r = NUL then return (.none, r)
  if isPrimitiveAt r then return (.prim, r)
  return (classifyChar (hd r), r)

/-- tokenizer_t::peekForIdentifier (after FL2): `r` starts with an identifierStart character -/
def peekForIdentifier (r : Str) : M Kind := do
  let r1 ← adv r 1
  let r1 ← skipFrom identifier r1
  let ident := consumed r r1
  let next := hd r1
  if registered.contains ident then return .op
  if next = '"' ∧ getStringEncoding ident ≠ 0 then return .str (getStringEncoding ident)
  if next = '\'' ∧ getCharacterEncoding ident ≠ 0 then return .chr (getCharacterEncoding ident)
  return .ident

/-- tokenizer_t::peek; the Boolean is "printError was called" -/
def peek (r : Str) : M (Kind × Bool × Str) := do
  let (k, r) ← shallowPeek r
  match k with
  | .ident => return (← peekForIdentifier r, false, r)
  | .op => match longestOp r with
    | some _ => return (.op, false, r)
    | none => return (.none, true, r)
  | k => return (k, false, r)

/-- tokenizer_t::getIdentifier -/
def getIdentifier (r : Str) : M (Str × Str) := do
  if !identifierStart.contains (hd r) then return ([], r)
  let r1 ← adv r 1
  let r1 ← skipFrom identifier r1
  return (consumed r r1, r1)

/-- the result of one getToken(): the token (none = NULL), the number of printError calls, the position -/
abbrev Step := Option Tok × Nat × Str

def getIdentifierToken (r : Str) : M Step := do
  if !identifierStart.contains (hd r) then return (none, 1, r)
  let (v, r1) ← getIdentifier r
  return (some (.ident v), 0, r1)

/-- countSkippedLines over a primitive's characters: the only reads that are not at the scan
    position are `fp.start[1]`, made when a backslash is met -/
def countSkippedLines (text r1 : Str) : M Unit :=
  if text.contains '\\' then (rd r1 1).map (fun _ => ()) else .ok ()

def getPrimitiveToken (r : Str) : M Step :=
  match loadScan true r with
  | none => .ok (none, 1, r)
  | some r1 => do
    countSkippedLines (consumed r r1) r1
    return (some (.prim (consumed r r1)), 0, r1)

/-- the body of a block comment after FL4/FL5: find `*/` character by character -/
def blockLoop : Str → M Str
  | [] => .ok []
  | c :: t =>
    if c = '*' then
      match rd (c :: t) 1 with
      | .error e => .error e
      | .ok d => if d = '/' then adv (c :: t) 2 else blockLoop t
    else blockLoop t

def getOperatorToken (r : Str) : M Step :=
  match longestOp r with
  | none => .ok (none, 1, r)
  | some (id, len) =>
    if id = lineCommentId then do
      let r1 ← skipToChar '\n' r
      return (some (.comment (consumed r r1)), 0, r1)
    else if id = blockCommentId then do
      let r1 ← adv r 2
      let r1 ← blockLoop r1
      return (some (.comment (consumed r r1)), 0, r1)
    else do
      let r1 ← adv r len
      return (some (.op id), 0, r1)

/-- does `m` occur at the position: the comparison loop `fp.start[mi] != m[mi]` of getRawString,
    `k` is `mi` -/
def matchAt (r : Str) : Str → Nat → M Bool
  | [], _ => .ok true
  | x :: m', k =>
    match rd r k with
    | .error e => .error e
    | .ok c => if c != x then .ok false else matchAt r m' (k + 1)

/-- the search for the end pattern of a raw string -/
def rawLoop (m : Str) : Str → M Str
  | [] => .ok []
  | c :: t =>
    match matchAt (c :: t) m 0 with
    | .error e => .error e
    | .ok true => .ok (c :: t)
    | .ok false => rawLoop m t

/-- tokenizer_t::getRawString (after FL1); on failure the position is rewound and the value stays empty -/
def getRawString (r : Str) : M (Str × Str) := do
  if hd r ≠ '"' then return ([], r)
  let r1 ← adv r 1
  let r2 ← skipTo ['(', '\n'] r1
  if hd r2 ≠ '(' then return ([], r)
  let pat := ')' :: (consumed r1 r2 ++ ['"'])
  let r3 ← adv r2 1
  let r4 ← rawLoop pat r3
  if hd r4 = NUL then return ([], r)
  let r5 ← adv r4 pat.length
  return (consumed r3 r4, r5)

/-- tokenizer_t::getString (after FL1): value, success, printError count, position -/
def getString (enc : Nat) (r : Str) : M (Str × Bool × Nat × Str) := do
  if enc &&& encR ≠ 0 then
    let (v, r') ← getRawString r
    return (v, true, 0, r')
  if hd r ≠ '"' then return ([], false, 0, r)
  let r1 ← adv r 1
  let r2 ← skipTo ['"', '\n'] r1
  if hd r2 ≠ '"' then return ([], false, 1, r2)
  let r3 ← adv r2 1
  return (unescape '"' (consumed r1 r2), true, 0, r3)

def getUdf (r : Str) : M (Str × Str) :=
  if hd r = '_' then getIdentifier r else .ok ([], r)

def getStringToken (enc : Nat) (r : Str) : M Step := do
  let (_, r1) ← if enc ≠ 0 then getIdentifier r else pure ([], r)
  if hd r1 ≠ '"' then return (none, 1, r1)
  let (v, ok, e, r2) ← getString enc r1
  if !ok then return (none, e, r2)
  let (udf, r3) ← getUdf r2
  return (some (.str enc v udf), e, r3)

def getCharToken (enc : Nat) (r : Str) : M Step := do
  let (_, r1) ← if enc ≠ 0 then getIdentifier r else pure ([], r)
  if hd r1 ≠ '\'' then return (none, 1, r1)
  let r2 ← adv r1 1
  let r3 ← skipTo ['\'', '\n'] r2
  if hd r3 ≠ '\'' then return (none, 1, r2)        -- popAndRewind(): back to just after the quote
  let r4 ← adv r3 1
  let (udf, r5) ← getUdf r4
  return (some (.chr enc (unescape '\'' (consumed r2 r3)) udf), 0, r5)

/-- the second half of getToken: the call selected by the peeked type -/
def dispatch (k : Kind) (r : Str) : M Step :=
  match k with
  | .ident => getIdentifierToken r
  | .prim => getPrimitiveToken r
  | .op => getOperatorToken r
  | .newline => do let r1 ← adv r 1; return (some .newline, 0, r1)
  | .chr enc => getCharToken enc r
  | .str enc => getStringToken enc r
  | .none => do let r1 ← adv r 1; return (some (.unknown (hd r)), 0, r1)

/-- tokenizer_t::getToken on a position that is not the end (`reachedTheEnd()` is tested by the loop) -/
def getToken (r : Str) : M Step := do
  let r ← skipWhitespace r
  if r.isEmpty then return (some .newline, 0, r)          -- finishedSource
  let (k, err, r) ← peek r
  let (t, e, r') ← dispatch k r
  return (t, (if err then 1 else 0) + e, r')

/-- tokenizer_t::getHeader (used for `#include`; after FL1): the header name (empty on a malformed
    header), printError count, position -/
def getHeader (r : Str) : M (Str × Nat × Str) := do
  let (k, r1) ← shallowPeek r
  let isQuoted := match k with | .str _ => true | _ => false
  let isAngleBracket := match k with | .op => true | _ => false
  if !isQuoted && !isAngleBracket then return ([], 1, r1)
  if isQuoted then
    let (v, _, e, r2) ← getString 0 r1
    return (v, e, r2)
  let r2 ← adv r1 1                       -- skip <
  let r3 ← skipTo ['>', '\n'] r2
  if hd r3 ≠ '>' then return ([], 1, r3)
  let r4 ← adv r3 1
  return (consumed r2 r3, 0, r4)

structure Result where
  toks : List Tok
  errors : Nat
deriving Repr, DecidableEq

/-- the `isEmpty()`/`setNext()` loop: getToken until `reachedTheEnd()` -/
def tokenizeF : Nat → Str → Nat → List Tok → M Result
  | _, [], errs, acc => .ok ⟨acc.reverse, errs⟩
  | 0, _ :: _, _, _ => .error .fuel
  | f + 1, c :: t, errs, acc =>
    match getToken (c :: t) with
    | .error e => .error e
    | .ok (tok, e, r') =>
      tokenizeF f r' (errs + e) (match tok with | some x => x :: acc | none => acc)

def tokenize (s : Str) : M Result := tokenizeF (s.length + 1) s 0 []

/-- tokenizing a byte string: the tokenizer sees the C string before the first NUL -/
def tokenizeBytes (s : Str) : M Result := tokenize (cstr s)

/-! ### printers -/

def encPrefix (enc : Nat) : Str :=
  if enc &&& encux ≠ 0 then
    if enc &&& encu8 ≠ 0 then ['u', '8']
    else if enc &&& encu ≠ 0 then ['u']
    else if enc &&& encU ≠ 0 then ['U']
    else if enc &&& encL ≠ 0 then ['L']
    else []
  else []

def charPrefix (enc : Nat) : Str :=
  if enc &&& encu ≠ 0 then ['u']
  else if enc &&& encU ≠ 0 then ['U']
  else if enc &&& encL ≠ 0 then ['L']
  else []

/-- `value.find(p) != npos` -/
def hasInfix (p : Str) : Str → Bool
  | [] => p.isEmpty
  | c :: t => p.isPrefixOf (c :: t) || hasInfix p t

/-- FL6: the shortest run of '_' such that `)delimiter"` does not occur in the value -/
def pickDelim (v : Str) : Nat → Str → Str
  | 0, d => d
  | f + 1, d => if hasInfix (')' :: (d ++ ['"'])) v then pickDelim v f ('_' :: d) else d

def printTok : Tok → Str
  | .ident v => v
  | .prim s => s
  | .op id => registered.getD id []
  | .newline => ['\n']
  | .str enc v udf =>
    if enc &&& encR ≠ 0 then
      let d := pickDelim v (v.length + 1) []
      encPrefix enc ++ ['R', '"'] ++ d ++ ['('] ++ v ++ [')'] ++ d ++ ['"'] ++ udf
    else encPrefix enc ++ ['"'] ++ escape '"' v ++ ['"'] ++ udf
  | .chr enc v udf => charPrefix enc ++ ['\''] ++ escape '\'' v ++ ['\''] ++ udf
  | .comment v => v
  | .unknown c => [c]

end Occa.Lex
