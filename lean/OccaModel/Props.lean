/-
Model of the property layering of src/core/device.cpp: getModeSpecificProps,
getObjectSpecificProps, initialObjectProps, device::setup (the JSON it hands to the mode device),
device::kernelProperties/memoryProperties/streamProperties(additionalProps), and of
occa::settings() (src/occa/internal/utils/env.cpp).  All of them are compositions of the JSON
operations of JsonPath.lean; path strings are built by concatenation and split like the C++ does.
-/
import OccaModel.JsonPath

namespace Occa.Json

def sModes : Bytes := [109, 111, 100, 101, 115]          -- "modes"
def sMode : Bytes := [109, 111, 100, 101]                -- "mode"
def sDevice : Bytes := [100, 101, 118, 105, 99, 101]     -- "device"
def sKernel : Bytes := [107, 101, 114, 110, 101, 108]    -- "kernel"
def sMemory : Bytes := [109, 101, 109, 111, 114, 121]    -- "memory"
def sStream : Bytes := [115, 116, 114, 101, 97, 109]     -- "stream"
def sSerial : Bytes := [83, 101, 114, 105, 97, 108]      -- "Serial"
def sOpenMP : Bytes := [79, 112, 101, 110, 77, 80]       -- "OpenMP"

/-- `props[path]` on a const json -/
def readP (path : Bytes) (j : Json) : Json := readK (splitPath path) j

/-- `j.remove(path)` -/
def removeP (path : Bytes) (j : Json) : Json := removeK (splitPath path) j

/-- getModeSpecificProps(mode, props) = (props + props["modes/" + mode]) minus "modes" -/
def modeSpecific (mode : Bytes) (props : Json) : Except Err Json :=
  match add props (readP (sModes ++ [cSlash] ++ mode) props) with
  | .ok all => .ok (removeP sModes all)
  | .error e => .error e

/-- getObjectSpecificProps(mode, object, props) -/
def objectSpecific (mode object : Bytes) (props : Json) : Except Err Json :=
  match add3 (readP object props)
             (readP (object ++ [cSlash] ++ sModes ++ [cSlash] ++ mode) props)
             (readP (sModes ++ [cSlash] ++ mode ++ [cSlash] ++ object) props) with
  | .ok all => .ok (removeP sModes (removeP (object ++ [cSlash] ++ sModes) all))
  | .error e => .error e

/-- initialObjectProps(mode, object, props) with the global settings passed explicitly -/
def initialObject (settings : Json) (mode object : Bytes) (props : Json) : Except Err Json :=
  match objectSpecific mode object settings, objectSpecific mode object props with
  | .ok s, .ok u =>
    (match add s u with
     | .ok o => write [sMode] (.str mode) o
     | .error e => .error e)
  | .error e, _ => .error e
  | _, .error e => .error e

/-- occa::settings(): an empty (size 0) value is replaced by env::baseSettings() -/
def effSettings (base cur : Json) : Json := if size cur = 0 then base else cur

def lower (c : UInt8) : UInt8 := if 65 ≤ c && c ≤ 90 then c + 32 else c

/-- getModeFromProps + setModeProp: the registered mode whose lower-cased name matches,
    Serial otherwise (only Serial and OpenMP are enabled in the build under test) -/
def canonicalMode (name : Bytes) : Bytes :=
  if name.map lower = sOpenMP.map lower then sOpenMP else sSerial

/-- the JSON device::setup(props) hands to the mode device, i.e. device.properties().
    Statement order as in the C++ (the right-hand side of each assignment is evaluated first). -/
def deviceProps (settings props : Json) : Except Err Json := do
  let mode := toStringJ (readP sMode props)
  let d ← objectSpecific mode sDevice settings
  let m ← modeSpecific mode props
  let dp ← add d m
  let k ← initialObject settings mode sKernel props
  let dp ← write [sKernel] k dp
  let me ← initialObject settings mode sMemory props
  let dp ← write [sMemory] me dp
  let st ← initialObject settings mode sStream props
  let dp ← write [sStream] st dp
  -- newModeDevice: mode looked up from the assembled props, then setModeProp
  write [sMode] (.str (canonicalMode (toStringJ (readP sMode dp)))) dp

/-- device::kernelProperties(extra) etc.: stored[object] + getModeSpecificProps(mode(), extra) -/
def perCall (devProps : Json) (object : Bytes) (extra : Json) : Except Err Json :=
  let mode := toStringJ (readP sMode devProps)
  match modeSpecific mode extra with
  | .ok m => add (readP object devProps) m
  | .error e => .error e

end Occa.Json
