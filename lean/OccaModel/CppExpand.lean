/-
C13, part (d): macro expansion.

`expand*`  : OCCA's algorithm (preprocessor_t::processToken / processIdentifier / expandMacro /
             clearExpandedMacros, macro_t::expand / loadArgs / checkArgs, macroArgument::expand,
             definedMacro::expand, the stream operators `>>` / withOutputCache::isEmpty):
             the expansion of a macro is pushed back onto the input, the macro is entered in
             `expandedMacros` (disabled) until the LAST token of its expansion has passed through
             processToken (`expandedMacroEnd`, keyed by token pointer: here the list of macros that end at
             a token travels with the token); when the last token is itself a macro invocation its end
             list is moved to the last token of the nested expansion.  Arguments are read with
             `pp >> token`, i.e. they are macro-expanded while they are read.
             All functions take fuel (the C++ is a set of mutually recursive member functions).
`expandR`  : the reference: the C standard's rescanning rule in Prosser's hide-set formulation
             (object-like, function-like, variadic; no `#`, `##`).
Core Lean only.
-/
import OccaModel.CppCond

namespace Occa.Cpp

inductive TKind where
  | ident | num | op | nl
  deriving DecidableEq, Repr

structure Tok where
  kind : TKind
  text : String
  deriving DecidableEq, Repr

def Tok.isOp (t : Tok) (s : String) : Bool := decide (t.kind = .op) && t.text == s
def Tok.isIdent (t : Tok) : Bool := decide (t.kind = .ident)
def Tok.isNl (t : Tok) : Bool := decide (t.kind = .nl)

/-- macroToken: macroRawToken / macroArgument(arg >= 0) / macroArgument(arg = -1, __VA_ARGS__) -/
inductive BTok where
  | raw (t : Tok)
  | arg (i : Nat)
  | va
  deriving DecidableEq, Repr

/-- macro_t (`special`: the built-in `defined`) -/
structure Macro where
  name : String
  isFn : Bool
  nparams : Nat            -- argCount(): named parameters
  variadic : Bool
  body : List BTok
  special : Bool := false
  deriving DecidableEq, Repr

def definedMacro : Macro := { name := "defined", isFn := true, nparams := 1, variadic := false, body := [], special := true }

/-- getMacro(): sourceMacros first, then compilerMacros (of which only `defined` is modelled) -/
def lookup (tbl : List Macro) (n : String) : Option Macro :=
  match tbl.find? (fun m => m.name == n) with
  | some m => some m
  | none => if n == "defined" then some definedMacro else none

/-- a token in the input cache together with its `expandedMacroEnd` entry -/
structure ITok where
  tok : Tok
  ends : List String := []
  deriving DecidableEq, Repr

structure PP where
  input : List ITok := []        -- inputCache followed by the rest of the source line
  output : List Tok := []        -- outputCache
  disabled : List String := []   -- expandedMacros
  table : List Macro := []       -- sourceMacros
  expanding : Bool := true       -- expandingMacros
  errors : Nat := 0
  deriving DecidableEq, Repr

/-- which variant of the expansion code is modelled -/
structure XCfg where
  /-- __VA_ARGS__ keeps the separating commas (F61 repaired) -/
  vaCommas : Bool
  /-- `defined X` without parentheses is handled in processIdentifier (F64 repaired) -/
  definedBare : Bool
  deriving DecidableEq, Repr

inductive Res (α : Type) where
  | ok (a : α)
  | outOfFuel
  | trap          -- null dereference / out-of-bounds access in the C++
  deriving DecidableEq, Repr

/-- clearExpandedMacros: `expandedMacros.erase(m)` for every macro ending at the token -/
def PP.clear (s : PP) (ends : List String) : PP :=
  { s with disabled := s.disabled.filter (fun m => !ends.contains m) }

def PP.pushOut (s : PP) (t : Tok) : PP := { s with output := s.output ++ [t] }

/-- the second half of macro_t::loadArgs: split the collected tokens at top-level commas.
    `none`: "Too many arguments" / "Macro does not take arguments" -/
def splitArgs (nparams : Nat) (variadic : Bool) :
    List Tok → (done : List (List Tok)) → (cur : Option (List Tok)) → (pc : Nat) → Option (List (List Tok))
  | [], done, cur, _ =>
      some ((match cur with | some c => c.reverse :: done | none => done).reverse)
  | t :: ts, done, cur, pc =>
      -- `if (argIndex >= args.size()) { args.push_back(...); if (!hasVarArgs && argIndex >= argc) error }`
      if cur.isNone && !variadic && done.length ≥ nparams then none
      else
        let c := cur.getD []
        if t.isOp "," && pc == 0 then splitArgs nparams variadic ts (c.reverse :: done) none pc
        else
          let pc' := if t.isOp "(" then pc + 1 else if t.isOp ")" then pc - 1 else pc
          splitArgs nparams variadic ts done (some (t :: c)) pc'

/-- macro_t::checkArgs -/
def checkArgs (m : Macro) (args : List (List Tok)) : Bool :=
  !(args.length < m.nparams || (args.length > m.nparams && !m.variadic))

def commaTok : Tok := ⟨.op, ","⟩

/-- the substitution loop of macro_t::expand (macroRawToken / macroArgument::expand) -/
def subst (vaCommas : Bool) (m : Macro) (args : List (List Tok)) : List Tok :=
  m.body.flatMap fun b =>
    match b with
    | .raw t => [t]
    | .arg i => args.getD i []
    | .va =>
        let rest := args.drop m.nparams
        if vaCommas then
          match rest with
          | [] => []
          | a :: r => a ++ r.flatMap (fun x => commaTok :: x)
        else rest.flatten

/-- the next raw input token is an identifier -/
def peekIsIdent (s : PP) : Bool :=
  match s.input with
  | op :: _ => op.tok.isIdent
  | [] => false

/-- `defined X` (repaired, F64): consume the operand, output `true` / `false`, clear the operand's end list -/
def definedBareStep (s : PP) : PP :=
  match s.input with
  | op :: rest =>
    (({ s with input := rest }).pushOut
      ⟨.num, if (lookup s.table op.tok.text).isSome then "true" else "false"⟩).clear op.ends
  | [] => s

mutual
  /-- `pp >> token` (withOutputCache::setNext): none = nothing left -/
  def next (vc : XCfg) : Nat → PP → Res (Option Tok × PP)
    | 0, _ => .outOfFuel
    | f + 1, s =>
      match fill vc f s with
      | .ok s' =>
        (match s'.output with
         | [] => .ok (none, s')
         | t :: r => .ok (some t, { s' with output := r }))
      | .outOfFuel => .outOfFuel
      | .trap => .trap

  /-- withOutputCache::isEmpty: `while (!inputIsEmpty() && outputCache.empty()) fetchNext();` -/
  def fill (vc : XCfg) : Nat → PP → Res PP
    | 0, _ => .outOfFuel
    | f + 1, s =>
      if !s.output.isEmpty then .ok s
      else match s.input with
        | [] => .ok s
        | t :: r =>
          match processToken vc f t { s with input := r } with
          | .ok s' => fill vc f s'
          | .outOfFuel => .outOfFuel
          | .trap => .trap

  /-- preprocessor_t::processToken (status = reading) -/
  def processToken (vc : XCfg) : Nat → ITok → PP → Res PP
    | 0, _, _ => .outOfFuel
    | f + 1, t, s =>
      if t.tok.isIdent then
        match processIdentifier vc f t s with
        | .ok (s', ends) => .ok (s'.clear ends)
        | .outOfFuel => .outOfFuel
        | .trap => .trap
      else .ok ((s.pushOut t.tok).clear t.ends)

  /-- preprocessor_t::processIdentifier; also returns what is left of the token's expandedMacroEnd
      entry (expandMacro moves it to the end of the expansion) -/
  def processIdentifier (vc : XCfg) : Nat → ITok → PP → Res (PP × List String)
    | 0, _, _ => .outOfFuel
    | f + 1, t, s =>
      match (if s.expanding then lookup s.table t.tok.text else none) with
      | none => .ok (s.pushOut t.tok, t.ends)
      | some m =>
        if s.disabled.contains m.name then .ok (s.pushOut t.tok, t.ends)
        else if vc.definedBare && m.special && peekIsIdent s then
          -- `defined X`: the operand is fetched with getSourceToken(), i.e. it is not macro-expanded
          .ok (definedBareStep s, t.ends)
        else if !m.isFn then expandMacro vc f t m s
        else if s.input.isEmpty then .ok (s.pushOut t.tok, t.ends)
        else
          match next vc f s with
          | .ok (none, _) => .trap                        -- nextToken stays NULL and is dereferenced
          | .ok (some nt, s') =>
            if nt.isOp "(" then expandMacro vc f t m s'
            else .ok ({ s'.pushOut t.tok with input := ⟨nt, []⟩ :: s'.input }, t.ends)
          | .outOfFuel => .outOfFuel
          | .trap => .trap

  /-- preprocessor_t::expandMacro -/
  def expandMacro (vc : XCfg) : Nat → ITok → Macro → PP → Res (PP × List String)
    | 0, _, _, _ => .outOfFuel
    | f + 1, t, m, s =>
      match macroExpand vc f m s with
      | .ok (toks, s') =>
        (match toks.getLast? with
         | none => .ok (s', t.ends)                       -- `if (!tokenCount) return;`
         | some l =>
           let ends := t.ends ++ [m.name]
           let itoks := toks.dropLast.map (fun x => (⟨x, []⟩ : ITok)) ++ [⟨l, ends⟩]
           .ok ({ s' with disabled := if s'.disabled.contains m.name then s'.disabled else m.name :: s'.disabled,
                           input := itoks ++ s'.input }, []))
      | .outOfFuel => .outOfFuel
      | .trap => .trap

  /-- macro_t::expand / definedMacro::expand: the tokens of the expansion ([] after an argument error) -/
  def macroExpand (vc : XCfg) : Nat → Macro → PP → Res (List Tok × PP)
    | 0, _, _ => .outOfFuel
    | f + 1, m, s =>
      if m.special then
        match loadArgs vc f m { s with expanding := false } with
        | .ok (none, s') => .ok ([], { s' with expanding := true })
        | .ok (some args, s') =>
          let s'' := { s' with expanding := true }
          (match args.head? with
           | none => .trap
           | some a =>
             match a with
             | [] => .trap                                 -- args[0] of an empty vector
             | [x] => if x.isIdent then
                        .ok ([⟨.num, if (lookup s''.table x.text).isSome then "true" else "false"⟩], s'')
                      else .ok ([], s'')                   -- "Expected a token name identifier" (printed only)
             | _ => .ok ([], s''))                         -- "Expected one macro name" (printed only)
        | .outOfFuel => .outOfFuel
        | .trap => .trap
      else
        match loadArgs vc f m s with
        | .ok (none, s') => .ok ([], s')
        | .ok (some args, s') => .ok (subst vc.vaCommas m args, s')
        | .outOfFuel => .outOfFuel
        | .trap => .trap

  /-- macro_t::loadArgs followed by checkArgs; none = an error was reported -/
  def loadArgs (vc : XCfg) : Nat → Macro → PP → Res (Option (List (List Tok)) × PP)
    | 0, _, _ => .outOfFuel
    | f + 1, m, s =>
      if !m.isFn then .ok (some [], s)
      else
        match collect vc f 1 [] s with
        | .ok (toks, s') =>
          (match splitArgs m.nparams m.variadic toks [] none 0 with
           | none => .ok (none, { s' with errors := s'.errors + 1 })
           | some args =>
             if checkArgs m args then .ok (some args, s')
             else .ok (none, { s' with errors := s'.errors + 1 }))
        | .outOfFuel => .outOfFuel
        | .trap => .trap

  /-- the first loop of loadArgs: pull tokens up to the closing parenthesis -/
  def collect (vc : XCfg) : Nat → Nat → List Tok → PP → Res (List Tok × PP)
    | 0, _, _, _ => .outOfFuel
    | f + 1, pc, acc, s =>
      match next vc f s with
      | .ok (none, s') => .ok (acc.reverse, { s' with errors := s'.errors + 1 })   -- "Not able to find a closing )"
      | .ok (some t, s') =>
        if t.isOp "(" then collect vc f (pc + 1) (t :: acc) s'
        else if t.isOp ")" then
          (if pc ≤ 1 then .ok (acc.reverse, s') else collect vc f (pc - 1) (t :: acc) s')
        else collect vc f pc (t :: acc) s'
      | .outOfFuel => .outOfFuel
      | .trap => .trap
end

/-- the consumer of the preprocessor: `while (!stream.isEmpty()) stream >> token` -/
def drain (vc : XCfg) : Nat → PP → List Tok → Res (List Tok × PP)
  | 0, _, _ => .outOfFuel
  | f + 1, s, acc =>
    match next vc f s with
    | .ok (none, s') => .ok (acc.reverse, s')
    | .ok (some t, s') => drain vc f s' (t :: acc)
    | .outOfFuel => .outOfFuel
    | .trap => .trap

def nlTok : Tok := ⟨.nl, "\\n"⟩

/-- preprocess one source line (its tokens followed by the newline token) -/
def expandLine (vc : XCfg) (fuel : Nat) (s : PP) (toks : List Tok) : Res (List Tok × PP) :=
  drain vc fuel { s with input := (toks ++ [nlTok]).map (fun t => (⟨t, []⟩ : ITok)) } []

/-! ### reference: hide sets -/

structure HTok where
  tok : Tok
  hs : List String := []
  deriving DecidableEq, Repr

def hsUnion (a b : List String) : List String := a ++ b.filter (fun x => !a.contains x)
def hsInter (a b : List String) : List String := a.filter (fun x => b.contains x)

/-- split `( a1 , a2 , ... )` that follows a function-like macro name: the tokens of the top-level
    arguments, the hide set of the closing parenthesis and the remaining tokens.
    `ts` starts AFTER the opening parenthesis. -/
def refArgs : List HTok → (pc : Nat) → (cur : List HTok) → (done : List (List HTok)) →
    Option (List (List HTok) × List String × List HTok)
  | [], _, _, _ => none
  | t :: ts, pc, cur, done =>
    if t.tok.isOp ")" then
      if pc = 0 then some ((cur.reverse :: done).reverse, t.hs, ts)
      else refArgs ts (pc - 1) (t :: cur) done
    else if t.tok.isOp "(" then refArgs ts (pc + 1) (t :: cur) done
    else if t.tok.isOp "," && pc = 0 then refArgs ts pc [] (cur.reverse :: done)
    else refArgs ts pc (t :: cur) done

inductive RRes (α : Type) where
  | ok (a : α)
  | outOfFuel
  | error          -- constraint violation (wrong number of arguments, unterminated invocation)
  deriving DecidableEq, Repr

/-- named arguments and the variable part (joined with its commas) -/
def refSplitVa (m : Macro) (args : List (List HTok)) : List (List HTok) × List HTok :=
  let named := args.take m.nparams
  let rest := args.drop m.nparams
  (named, match rest with
          | [] => []
          | a :: r => a ++ r.flatMap (fun x => (⟨commaTok, []⟩ : HTok) :: x))

/-- the replacement list of an object-like macro with the new hide set -/
def refBody (m : Macro) (hs : List String) : List HTok :=
  m.body.filterMap fun b => match b with | .raw x => some ⟨x, hs⟩ | _ => none

mutual
  /-- C11 6.10.3.4 in Prosser's formulation -/
  def expandR : Nat → List Macro → List HTok → RRes (List HTok)
    | 0, _, _ => .outOfFuel
    | _ + 1, _, [] => .ok []
    | f + 1, tbl, t :: ts =>
      let keep : RRes (List HTok) :=
        match expandR f tbl ts with
        | .ok r => .ok (t :: r)
        | e => e
      if !t.tok.isIdent then keep else
      match tbl.find? (fun m => m.name == t.tok.text) with
      | none => keep
      | some m =>
        if t.hs.contains m.name then keep
        else if !m.isFn then
          expandR f tbl (refBody m (hsUnion t.hs [m.name]) ++ ts)
        else
          match ts with
          | p :: ts' =>
            if !p.tok.isOp "(" then keep else
            match refArgs ts' 0 [] [] with
            | none => .error
            | some (args0, hsClose, rest) =>
              -- `f()` has one empty argument for a one-parameter macro and none for a zero-parameter one
              let args := if m.nparams = 0 && !m.variadic && args0 == [[]] then [] else args0
              if args.length < m.nparams || (args.length > m.nparams && !m.variadic) then .error else
              let hs := hsUnion (hsInter t.hs hsClose) [m.name]
              let (named, va) := refSplitVa m args
              -- every argument is completely macro-expanded before it is substituted
              match expandArgsR f tbl named, expandR f tbl va with
              | .ok en, .ok ev =>
                let body : List HTok := m.body.flatMap fun b =>
                  match b with
                  | .raw x => [⟨x, hs⟩]
                  | .arg i => (en.getD i []).map fun y => { y with hs := hsUnion y.hs hs }
                  | .va => ev.map fun y => { y with hs := hsUnion y.hs hs }
                expandR f tbl (body ++ rest)
              | .outOfFuel, _ => .outOfFuel
              | _, .outOfFuel => .outOfFuel
              | _, _ => .error
          | [] => keep

  /-- the complete expansion of every argument -/
  def expandArgsR : Nat → List Macro → List (List HTok) → RRes (List (List HTok))
    | 0, _, _ => .outOfFuel
    | _ + 1, _, [] => .ok []
    | f + 1, tbl, a :: r =>
      match expandR f tbl a, expandArgsR f tbl r with
      | .ok x, .ok y => .ok (x :: y)
      | .outOfFuel, _ => .outOfFuel
      | _, .outOfFuel => .outOfFuel
      | _, _ => .error
end

end Occa.Cpp
