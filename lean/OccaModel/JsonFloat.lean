/-
Exact decimal printing and reading of IEEE-754 binary32/binary64 values, as used by
occa::toString<float/double> (`std::scientific << std::setprecision(8|16)`, i.e. glibc's
`%.8e` / `%.16e`) and by occa::parseFloat / parseDouble (`atof`, `sscanf("%lf")`).

Everything is integer arithmetic on the bit pattern (no `Float`): a finite value is
`m * 2^e`; printing rounds the exact value to the requested number of significant digits
(ties to even, glibc in the default rounding mode), reading rounds the exact decimal to the
nearest representable value (ties to even).  Floating point is never reasoned about in the
proofs (DESIGN section 3); these functions exist so that the correspondence run covers
float-typed JSON numbers.  Core Lean only.
-/
namespace Occa.JsonFloat

abbrev Bytes := List UInt8

/-- IEEE format parameters: exponent bits, mantissa bits -/
structure Fmt where
  ebits : Nat
  mbits : Nat

def f32 : Fmt := ⟨8, 23⟩
def f64 : Fmt := ⟨11, 52⟩

def Fmt.bias (f : Fmt) : Nat := 2 ^ (f.ebits - 1) - 1
def Fmt.emax (f : Fmt) : Nat := 2 ^ f.ebits - 1

inductive Cls
  | nan (neg : Bool)
  | inf (neg : Bool)
  | fin (neg : Bool) (m : Nat) (e : Int)     -- value = (-1)^neg * m * 2^e
deriving Repr, DecidableEq

def decode (f : Fmt) (bits : Nat) : Cls :=
  let neg := (bits / 2 ^ (f.ebits + f.mbits)) % 2 = 1
  let e := (bits / 2 ^ f.mbits) % 2 ^ f.ebits
  let m := bits % 2 ^ f.mbits
  if e = f.emax then (if m = 0 then .inf neg else .nan neg)
  else if e = 0 then .fin neg m (1 - (f.bias : Int) - f.mbits)
  else .fin neg (2 ^ f.mbits + m) ((e : Int) - f.bias - f.mbits)

/-! ### printing -/

def digitsRev : Nat → Nat → List UInt8
  | 0, _ => []
  | fuel+1, n => (48 + n % 10).toUInt8 :: (if n < 10 then [] else digitsRev fuel (n / 10))

/-- decimal digits of a natural number (most significant first) -/
def natDec (n : Nat) : Bytes := (digitsRev 400 n).reverse

/-- `num/den` rounded to the nearest integer, ties to even -/
def roundHalfEven (num den : Nat) : Nat :=
  let q := num / den
  let r := num % den
  if 2 * r < den then q else if 2 * r > den then q + 1 else (if q % 2 = 0 then q else q + 1)

/-- largest `k` (searched downwards from `hi`) with `10^k * den ≤ num` (for num/den ≥ 1),
    i.e. floor(log10(num/den)); `fuel` bounds the search -/
def log10Up (num den : Nat) : Nat → Nat → Nat
  | 0, k => k
  | fuel+1, k => if 10 ^ (k + 1) * den ≤ num then log10Up num den fuel (k + 1) else k

/-- for num/den < 1: smallest `k ≥ 1` with `num * 10^k ≥ den` -/
def log10Down (num den : Nat) : Nat → Nat → Nat
  | 0, k => k
  | fuel+1, k => if den ≤ num * 10 ^ k then k else log10Down num den fuel (k + 1)

def pad2 (n : Nat) : Bytes := if n < 10 then 48 :: natDec n else natDec n

/-- `%.{p}e` of the positive rational num/den (num > 0) -/
def sciPos (p : Nat) (num den : Nat) : Bytes :=
  -- decimal exponent k with 10^k ≤ x < 10^(k+1)
  let k : Int := if den ≤ num then (log10Up num den 400 0 : Nat) else - (log10Down num den 400 1 : Nat)
  -- scaled = x / 10^(k-p)
  let s : Int := k - p
  let (n2, d2) := if s ≥ 0 then (num, den * 10 ^ s.toNat) else (num * 10 ^ (-s).toNat, den)
  let r := roundHalfEven n2 d2
  let (r, k) := if r ≥ 10 ^ (p + 1) then (r / 10, k + 1) else (r, k)
  let ds := natDec r
  let mant := match ds with
    | [] => []
    | d :: rest => if p = 0 then [d] else d :: 46 :: rest
  mant ++ [101, if k < 0 then 45 else 43] ++ pad2 k.natAbs

def zeros (n : Nat) : Bytes := List.replicate n 48

/-- glibc `%.{p}e` of the value with bit pattern `bits` -/
def sci (f : Fmt) (p : Nat) (bits : Nat) : Bytes :=
  match decode f bits with
  | .nan neg => (if neg then [45] else []) ++ [110, 97, 110]
  | .inf neg => (if neg then [45] else []) ++ [105, 110, 102]
  | .fin neg m e =>
    let sign : Bytes := if neg then [45] else []
    if m = 0 then sign ++ [48] ++ (if p = 0 then [] else 46 :: zeros p) ++ [101, 43, 48, 48]
    else
      let (num, den) := if e ≥ 0 then (m * 2 ^ e.toNat, 1) else (m, 2 ^ (-e).toNat)
      sign ++ sciPos p num den

/-! ### reading -/

/-- bit length -/
def blen : Nat → Nat → Nat
  | 0, _ => 0
  | fuel+1, n => if n = 0 then 0 else 1 + blen fuel (n / 2)

/-- nearest value of format `f` to the positive rational num/den (ties to even); result is
    the bit pattern without sign -/
def encodePos (f : Fmt) (num den : Nat) : Nat :=
  if num = 0 then 0 else
  -- find e2 with 2^(mbits) ≤ x / 2^e2 < 2^(mbits+1), clamped to the subnormal exponent
  let ln : Int := blen 5000 num
  let ld : Int := blen 5000 den
  let est : Int := ln - ld - f.mbits - 1       -- x ≈ 2^(ln-ld); first guess of e2 (may be low by one)
  let emin : Int := 1 - (f.bias : Int) - f.mbits
  let scaled (e2 : Int) : Nat × Nat := if e2 ≥ 0 then (num, den * 2 ^ e2.toNat) else (num * 2 ^ (-e2).toNat, den)
  let fix (e2 : Int) : Int :=
    let (n, d) := scaled e2
    if n / d ≥ 2 ^ (f.mbits + 1) then e2 + 1 else e2
  let e2 := fix (fix est)
  let e2 := if e2 < emin then emin else e2
  let (n, d) := scaled e2
  let q := roundHalfEven n d
  -- rounding may carry to 2^(mbits+1)
  let (q, e2) := if q ≥ 2 ^ (f.mbits + 1) then (q / 2, e2 + 1) else (q, e2)
  if q < 2 ^ f.mbits then q        -- subnormal (e2 = emin) or zero
  else
    let be : Int := e2 + f.bias + f.mbits
    if be ≥ f.emax then f.emax * 2 ^ f.mbits      -- overflow -> inf
    else be.toNat * 2 ^ f.mbits + (q - 2 ^ f.mbits)

def signBit (f : Fmt) (neg : Bool) : Nat := if neg then 2 ^ (f.ebits + f.mbits) else 0

/-- the value `(-1)^neg * mant * 10^e10` rounded to format `f` -/
def ofDecimal (f : Fmt) (neg : Bool) (mant : Nat) (e10 : Int) : Nat :=
  let (num, den) := if e10 ≥ 0 then (mant * 10 ^ e10.toNat, 1) else (mant, 10 ^ (-e10).toNat)
  signBit f neg + encodePos f num den

/-- double -> float conversion (round to nearest even), on bit patterns -/
def f64ToF32 (bits : Nat) : Nat :=
  match decode f64 bits with
  | .nan neg => signBit f32 neg + 0x7fc00000
  | .inf neg => signBit f32 neg + 0x7f800000
  | .fin neg m e =>
    let (num, den) := if e ≥ 0 then (m * 2 ^ e.toNat, 1) else (m, 2 ^ (-e).toNat)
    signBit f32 neg + encodePos f32 num den

/-- the exact value of a finite number as a rational, truncated toward zero to an integer
    (C++ conversion float -> integer when in range) -/
def truncToInt (f : Fmt) (bits : Nat) : Option Int :=
  match decode f bits with
  | .fin neg m e =>
    let a : Nat := if e ≥ 0 then m * 2 ^ e.toNat else m / 2 ^ (-e).toNat
    some (if neg then - (a : Int) else a)
  | _ => none

def isZero (f : Fmt) (bits : Nat) : Bool :=
  match decode f bits with
  | .fin _ m _ => m = 0
  | _ => false

end Occa.JsonFloat
