/-
C13, part (c): evaluation of a `#if` / `#elif` condition.

`preprocessor_t::lineIsTrue` macro-expands the line, replaces the remaining identifiers by `0`,
(repaired, F60) re-types every integer token from its spelling as intmax_t / uintmax_t, parses the
tokens (`expressionParser`) and calls `exprNode::evaluate()`, which works on `occa::primitive`
values: a type tag plus a value; every binary operator converts both operands to the operand type of
higher rank (`retType = max(a.type, b.type)`), applies the C++ operator and wraps the C++ result
(with its C++ type, i.e. after integer promotion) in a new primitive.

`eval`     follows that code (src/types/primitive.cpp, expr/binaryOpNode.cpp, ternaryOpNode.cpp, ...).
`evalC`    is the reference: C11 6.10.1p4 / 6.6 evaluation in intmax_t / uintmax_t.
Core Lean only.
-/
import OccaModel.CInt
import OccaModel.CppCond

namespace Occa.Cpp

/-- the primitive types that can occur once all literals are intmax_t / uintmax_t:
    bool (results of comparisons, !, &&, ||, defined), int (promoted bools), int64_t, uint64_t.
    The order of the constructors is the order of the `primitiveType` bits (the rank). -/
inductive PTy where
  | bool | i32 | i64 | u64
  deriving DecidableEq, Repr

def PTy.rank : PTy → Nat
  | .bool => 1 | .i32 => 6 | .i64 => 8 | .u64 => 9     -- bit positions in primitiveType

/-- `(a.type > b.type) ? a.type : b.type` -/
def PTy.max (a b : PTy) : PTy := if a.rank > b.rank then a else b

structure PVal where
  ty : PTy
  v : Int
  deriving DecidableEq, Repr

/-- `p.to<T>()` as a mathematical integer -/
def conv (t : PTy) (x : Int) : Int :=
  match t with
  | .bool => if x = 0 then 0 else 1
  | .i32 => wrapS 32 x
  | .i64 => wrapS 64 x
  | .u64 => wrapU 64 x

/-- the C++ type of `T op T` after integer promotion (bool, int -> int) -/
def PTy.promoted : PTy → PTy
  | .bool => .i32 | .i32 => .i32 | .i64 => .i64 | .u64 => .u64

/-- a value of C++ type `t` -/
def mk (t : PTy) (x : Int) : PVal := ⟨t, conv t x⟩

def ofBool (b : Bool) : PVal := ⟨.bool, if b then 1 else 0⟩

/-- `(bool) primitive` -/
def PVal.truth (p : PVal) : Bool := p.v != 0

inductive BinOp where
  | mul | div | mod | add | sub | shl | shr | lt | le | gt | ge | eq | ne | band | bxor | bor | land | lor
  deriving DecidableEq, Repr

inductive UnOp where
  | not | pos | neg | tilde
  deriving DecidableEq, Repr

/-- expression trees as built by expressionParser for the #if grammar
    (parenthesesNode is transparent: `evaluate()` returns the value of its child) -/
inductive Expr where
  | lit (unsigned : Bool) (magnitude : Nat)        -- an integer token re-typed by preprocessorInteger
  | boolLit (b : Bool)                             -- the token produced by `defined(...)`, re-typed as intmax_t
  | un (op : UnOp) (e : Expr)
  | bin (op : BinOp) (a b : Expr)
  | tern (c a b : Expr)
  deriving DecidableEq, Repr

/-- outcome of `evaluate()`: a value, or the process dies (SIGFPE on an integer division by zero or
    INT_MIN / -1; an uncaught occa::exception from OCCA_FORCE_ERROR) -/
inductive EvalRes where
  | val (p : PVal)
  | trap
  deriving DecidableEq, Repr

/-- hardware shift count (the count is `b.to<int64_t>()`; x86 masks it with width-1) -/
def shiftCount (w : Nat) (c : Int) : Nat := (c % (w : Int)).toNat

def width : PTy → Nat
  | .bool => 32 | .i32 => 32 | .i64 => 64 | .u64 => 64

/-- primitive::<op>(a, b) for the operators of the #if grammar -/
def applyBin (op : BinOp) (a b : PVal) : EvalRes :=
  let t := a.ty.max b.ty
  let x := conv t a.v
  let y := conv t b.v
  let rt := t.promoted
  match op with
  | .mul => .val (mk rt (x * y))
  | .add => .val (mk rt (x + y))
  | .sub => .val (mk rt (x - y))
  | .div => if y = 0 then .trap else
            if (rt != .u64) && x = -(2 ^ (width rt - 1)) && y = -1 then .trap else .val (mk rt (Int.tdiv x y))
  | .mod => if y = 0 then .trap else
            if (rt != .u64) && x = -(2 ^ (width rt - 1)) && y = -1 then .trap else .val (mk rt (Int.tmod x y))
  | .lt => .val (ofBool (x < y))
  | .le => .val (ofBool (x ≤ y))
  | .gt => .val (ofBool (x > y))
  | .ge => .val (ofBool (x ≥ y))
  | .eq => .val (ofBool (x = y))
  | .ne => .val (ofBool (x ≠ y))
  | .band => if t = .bool then .trap else .val (mk rt (cand x y))     -- OCCA_FORCE_ERROR for bool
  | .bor => if t = .bool then .trap else .val (mk rt (cor x y))
  | .bxor => if t = .bool then .trap else .val (mk rt (cxor x y))
  | .land => .val (ofBool (x != 0 && y != 0))
  | .lor => .val (ofBool (x != 0 || y != 0))
  -- C14's F20 (repaired): the result has the promoted type of the LEFT operand, count = b.to<int64_t>()
  | .shl => let lt := a.ty.promoted
            .val (mk lt (conv a.ty a.v * 2 ^ shiftCount (width lt) (conv .i64 b.v)))
  | .shr => let lt := a.ty.promoted
            .val (mk lt (conv a.ty a.v / 2 ^ shiftCount (width lt) (conv .i64 b.v)))

/-- primitive::not_/positive/negative/tilde -/
def applyUn (op : UnOp) (a : PVal) : PVal :=
  match op with
  | .not => ofBool (a.v = 0)
  | .pos => mk a.ty.promoted a.v
  | .neg => mk a.ty.promoted (-a.v)
  | .tilde => if a.ty = .bool then ofBool (a.v = 0)          -- `case bool_: return primitive(!p.value.bool_)`
              else mk a.ty.promoted (-a.v - 1)

/-- `exprNode::evaluate()`; `sc` = binaryOpNode::evaluate short-circuits && and || -/
def eval (sc : Bool) : Expr → EvalRes
  | .lit u m => .val (if u || m ≥ 2 ^ 63 then mk .u64 m else mk .i64 m)
  | .boolLit b => .val (mk .i64 (if b then 1 else 0))
  | .un op e =>
      match eval sc e with
      | .trap => .trap
      | .val p => .val (applyUn op p)
  | .bin op a b =>
      match eval sc a with
      | .trap => .trap
      | .val pa =>
        if sc && op = .land && !pa.truth then .val (ofBool false)
        else if sc && op = .lor && pa.truth then .val (ofBool true)
        else match eval sc b with
          | .trap => .trap
          | .val pb => applyBin op pa pb
  | .tern c a b =>
      match eval sc c with
      | .trap => .trap
      | .val pc => if pc.truth then eval sc a else eval sc b

/-- the `CR` input of the conditional machine -/
def evalCR (sc : Bool) (e : Option Expr) : CR :=
  match e with
  | none => .err
  | some e =>
    match eval sc e with
    | .trap => .trap
    | .val p => if p.truth then .tt else .ff

/-! ### reference: C evaluation in intmax_t / uintmax_t -/

/-- a C value of the preprocessor: signedness and mathematical value -/
structure CVal where
  unsigned : Bool
  v : Int
  deriving DecidableEq, Repr

/-- `undef`: the C standard gives the expression no meaning (undefined behaviour or a constraint
    violation in an EVALUATED operand: signed overflow, division by zero, shift out of range) -/
inductive CRes where
  | val (c : CVal)
  | undef
  deriving DecidableEq, Repr

def sFits (x : Int) : Bool := decide (-(2 ^ 63) ≤ x) && decide (x < 2 ^ 63)

/-- result of an arithmetic operator in the common type -/
def cArith (u : Bool) (x : Int) : CRes :=
  if u then .val ⟨true, wrapU 64 x⟩ else if sFits x then .val ⟨false, x⟩ else .undef

def cInt (b : Bool) : CRes := .val ⟨false, if b then 1 else 0⟩

def cBin (op : BinOp) (a b : CVal) : CRes :=
  let u := a.unsigned || b.unsigned
  let x := if u then wrapU 64 a.v else a.v
  let y := if u then wrapU 64 b.v else b.v
  match op with
  | .mul => cArith u (x * y)
  | .add => cArith u (x + y)
  | .sub => cArith u (x - y)
  | .div => if y = 0 then .undef else cArith u (Int.tdiv x y)
  | .mod => if y = 0 then .undef else if !u && !sFits (Int.tdiv x y) then .undef else cArith u (Int.tmod x y)
  | .lt => cInt (x < y)
  | .le => cInt (x ≤ y)
  | .gt => cInt (x > y)
  | .ge => cInt (x ≥ y)
  | .eq => cInt (x = y)
  | .ne => cInt (x ≠ y)
  | .band => .val ⟨u, if u then wrapU 64 (cand x y) else cand x y⟩
  | .bor => .val ⟨u, if u then wrapU 64 (cor x y) else cor x y⟩
  | .bxor => .val ⟨u, if u then wrapU 64 (cxor x y) else cxor x y⟩
  | .land => cInt (a.v != 0 && b.v != 0)
  | .lor => cInt (a.v != 0 || b.v != 0)
  -- shifts: the type is that of the (promoted) left operand; the count must be in [0, 63];
  -- a negative signed left operand of << is undefined, >> of a negative value is arithmetic (gcc)
  | .shl => if b.v < 0 || b.v ≥ 64 then .undef
            else if a.unsigned then .val ⟨true, wrapU 64 (a.v * 2 ^ b.v.toNat)⟩
            else if a.v < 0 then .undef else cArith false (a.v * 2 ^ b.v.toNat)
  | .shr => if b.v < 0 || b.v ≥ 64 then .undef
            else .val ⟨a.unsigned, a.v / 2 ^ b.v.toNat⟩

def cUn (op : UnOp) (a : CVal) : CRes :=
  match op with
  | .not => cInt (a.v = 0)
  | .pos => .val a
  | .neg => cArith a.unsigned (-a.v)
  | .tilde => .val ⟨a.unsigned, if a.unsigned then wrapU 64 (-a.v - 1) else -a.v - 1⟩

/-- the static C type (signedness) of an expression in #if -/
def Expr.cUnsigned : Expr → Bool
  | .lit u m => u || m ≥ 2 ^ 63
  | .boolLit _ => false
  | .un .not _ => false
  | .un _ e => e.cUnsigned
  | .bin op a b =>
      match op with
      | .lt | .le | .gt | .ge | .eq | .ne | .land | .lor => false
      | .shl | .shr => a.cUnsigned
      | _ => a.cUnsigned || b.cUnsigned
  | .tern _ a b => a.cUnsigned || b.cUnsigned

/-- C11 6.10.1p4 + 6.5: operands of && || ?: that are not evaluated may be anything -/
def evalC : Expr → CRes
  | .lit u m => if u || m ≥ 2 ^ 63 then .val ⟨true, wrapU 64 m⟩ else .val ⟨false, m⟩
  | .boolLit b => cInt b
  | .un op e =>
      match evalC e with
      | .undef => .undef
      | .val a => cUn op a
  | .bin op a b =>
      match evalC a with
      | .undef => .undef
      | .val x =>
        if op = .land && x.v = 0 then cInt false
        else if op = .lor && x.v ≠ 0 then cInt true
        else match evalC b with
          | .undef => .undef
          | .val y => cBin op x y
  | .tern c a b =>
      match evalC c with
      | .undef => .undef
      | .val x =>
        -- only the selected arm is evaluated; the result is converted to the common type of both arms
        let u := a.cUnsigned || b.cUnsigned
        match (if x.v ≠ 0 then evalC a else evalC b) with
        | .undef => .undef
        | .val r => .val ⟨u, if u then wrapU 64 r.v else r.v⟩

def evalCCR (e : Option Expr) : CR :=
  match e with
  | none => .err
  | some e =>
    match evalC e with
    | .undef => .trap
    | .val c => if c.v ≠ 0 then .tt else .ff

end Occa.Cpp
