/-
C02 — device memory of the host backends (Serial, OpenMP) as aliased byte arrays.

Written after the C++ statement by statement (repaired code: fixes F03, F04, F35, F36, F37, F38 applied):
  src/core/memory.cpp                         memory::slice / copyFrom / copyTo / cast / clone / free / setDtype
  src/occa/internal/core/memory.cpp           modeMemory_t::slice
  src/occa/internal/modes/serial/buffer.cpp   buffer::malloc / wrapMemory / slice
  src/occa/internal/modes/serial/memory.cpp   memory::copyTo / copyFrom  (memcpy / memmove on ptr + offset)
  src/occa/internal/modes/serial/device.cpp   device::malloc / wrapMemory
  src/core/device.cpp                         device::malloc (3 overloads) / wrapMemory
The OpenMP device inherits all of this from serial::device.

Three kinds of object, as in the C++:
  * a buffer (`serial::buffer`, or a caller-owned host array that was wrapped) is a list of bytes;
  * a `modeMemory_t` is a *view* (buffer, byte offset, byte size, dtype size);
  * an `occa::memory` handle variable holds a pointer to a `modeMemory_t` or NULL.
Reference counting / destruction order is property C01; here an object that nothing points to is
simply unobservable, so the model never deletes buffers or views.  `memory::free()` NULLs every
handle of the freed `modeMemory_t` (what `~modeMemory_t` does through the ring).

A byte is `Option UInt8`: `none` is the indeterminate content of `sys::malloc` storage that was
never written.  Arithmetic is in `Int`/`Nat`; `dim_t`/`udim_t` overflow is outside the property's
quantifier (DESIGN.md section 3), so `udim_t(x) <= size` is rendered `0 ≤ x ∧ x ≤ size`.
-/
namespace Occa.Mem

abbrev Byte := Option UInt8
abbrev Buffer := List Byte

/-- `modeMemory_t`: `modeBuffer`, `offset`, `size`, `dtype_->bytes()` -/
structure View where
  buf : Nat
  off : Nat
  size : Nat
  esz : Nat
deriving DecidableEq, Repr

structure State where
  bufs : List Buffer
  mems : List View
  vars : Nat → Option Nat

/-- classes of `occa::exception`, by the text of the `OCCA_ERROR` that raised it -/
inductive Err
  | uninit     -- "Memory not initialized or has been freed"
  | negSize    -- "Trying to allocate negative …" / "Trying to wrap a pointer with negative bytes"
  | negOff     -- "Cannot have a negative offset"
  | range      -- "Memory size is less than offset + count"
  | srcRange   -- "Source memory has size …"
  | dstRange   -- "Destination memory has size …"
deriving DecidableEq, Repr

inductive Res
  | ok (out : Option (List Byte))   -- `some bytes`: what a copyTo wrote into the host destination
  | err (e : Err)                   -- an `occa::exception` was thrown
  | trap                            -- the C++ has undefined behaviour on this request
deriving DecidableEq, Repr

/-- size of the two caller-owned host arrays that `wrap` may wrap (buffers 0 and 1) -/
def hostBufSize : Nat := 256
def nHostBufs : Nat := 2

def init : State :=
  { bufs := [List.replicate hostBufSize (some 0), List.replicate hostBufSize (some 0)],
    mems := [], vars := fun _ => none }

/-! ### byte arrays -/

/-- `memcpy(dst + pos, data, data.length)` -/
def writeAt (b : Buffer) (pos : Nat) (data : List Byte) : Buffer :=
  b.take pos ++ data ++ b.drop (pos + data.length)

/-- the `n` bytes at `src + pos` -/
def readAt (b : Buffer) (pos n : Nat) : List Byte := (b.drop pos).take n

/-! ### handles -/

/-- the `modeMemory_t` a handle variable points to (`none`: `modeMemory == NULL`) -/
def view? (s : State) (v : Nat) : Option View := (s.vars v).bind fun m => s.mems[m]?

def setVar (s : State) (d : Nat) (m : Option Nat) : State :=
  { s with vars := fun w => if w = d then m else s.vars w }

/-- the bytes of buffer `i` become `b` -/
def setBuf (s : State) (i : Nat) (b : Buffer) : State := { s with bufs := s.bufs.set i b }

/-- `new serial::memory(...)`: the new object gets the next free index -/
def pushMem (s : State) (v : View) : State := { s with mems := s.mems ++ [v] }

/-- value of a C++ expression of type `occa::memory` (a temporary), before it is assigned -/
inductive MRes
  | val (s : State) (m : Option Nat)
  | err (e : Err)
  | trap

/-- `d = <expression>`: nothing is assigned when the expression throws -/
def assignTo (s0 : State) (d : Nat) : MRes → State × Res
  | .val s m => (setVar s d m, .ok none)
  | .err e => (s0, .err e)
  | .trap => (s0, .trap)

/-- `memory::length()` = `dtypeSize ? modeMemory->size / dtypeSize : 0` (fix F38; `Nat` division by
    zero is 0 in Lean, so the zero-byte dtypes `void`/`none` need no separate case) -/
def View.len (v : View) : Int := ((v.size / v.esz : Nat) : Int)

/-- `udim_t(x) <= size` for values below 2^63 -/
def udimLe (x : Int) (size : Nat) : Bool := decide (0 ≤ x) && decide (x ≤ (size : Int))

/-- `dtypeSize * ((count == -1) ? length() : count)` -/
def countBytes (v : View) (cnt : Int) : Int := (v.esz : Int) * (if cnt = -1 then v.len else cnt)

/-! ### memory::slice, operator +, cast -/

/-- `memory::slice(offset, count)` followed by `modeMemory_t::slice` and `buffer::slice`;
    `none` for the early `return memory()` of an uninitialised handle. -/
def sliceView (p : View) (off cnt : Int) : Except Err View :=
  let dtypeSize : Int := p.esz
  let offset_ := dtypeSize * off
  let bytes := dtypeSize * (if cnt = -1 then p.len - off else cnt)
  if ¬ (bytes ≥ 0) then .error .negSize                     -- "Trying to allocate negative elements"
  else if ¬ (off ≥ 0) then .error .negOff                   -- fix F04: "Cannot have a negative offset"
  else if ¬ (off + cnt ≤ p.len) then .error .range          -- "Memory size is less than offset + count"
  -- modeMemory_t::slice (modeBuffer != NULL always holds for a reachable modeMemory_t)
  else if ¬ ((p.off : Int) + offset_ ≥ 0) then .error .negOff
  -- buffer::slice: new serial::memory(this, bytes, offset); then m.setDtype(dtype())
  else .ok { buf := p.buf, off := ((p.off : Int) + offset_).toNat, size := bytes.toNat, esz := p.esz }

def sliceExpr (s : State) (src : Nat) (off cnt : Int) : MRes :=
  match view? s src with
  | none => .val s none                                     -- `if (!isInitialized()) return memory();`
  | some p =>
    match sliceView p off cnt with
    | .error e => .err e
    | .ok v => .val (pushMem s v) (some s.mems.length)

def doSlice (s : State) (d src : Nat) (off cnt : Int) : State × Res :=
  assignTo s d (sliceExpr s src off cnt)

/-- `memory::cast(dtype)`: `mem = slice(0); mem.setDtype(dtype_)` -/
def castExpr (s : State) (src : Nat) (e : Nat) : MRes :=
  match view? s src with
  | none => .err .uninit                                    -- slice(0) is memory(); setDtype asserts
  | some p =>
    match sliceView p 0 (-1) with
    | .error er => .err er
    | .ok v => .val (pushMem s { v with esz := e }) (some s.mems.length)

def doCast (s : State) (d src : Nat) (e : Nat) : State × Res :=
  assignTo s d (castExpr s src e)

/-- `memory::setDtype` on the handle itself (shared by every handle of the same modeMemory_t) -/
def doSetDtype (s : State) (v e : Nat) : State × Res :=
  match s.vars v with
  | none => (s, .err .uninit)
  | some m =>
    match s.mems[m]? with
    | none => (s, .err .uninit)
    | some p => ({ s with mems := s.mems.set m { p with esz := e } }, .ok none)

/-! ### device::malloc, wrapMemory, memory::clone -/

/-- `device::malloc(entries, dtype, const void *src)`; `data = none`: `src == NULL` -/
def mallocExpr (s : State) (n : Int) (e : Nat) (data : Option (List UInt8)) : MRes :=
  if n = 0 then .val s none                                 -- `if (entries == 0) return memory();`
  else
    let bytes : Int := n * (e : Int)
    if ¬ (bytes ≥ 0) then .err .negSize                     -- "Trying to allocate negative bytes"
    else
      let nv : View := { buf := s.bufs.length, off := 0, size := bytes.toNat, esz := e }
      match data with
      | none =>                                             -- buf->malloc(bytes): indeterminate content
        .val { pushMem s nv with bufs := s.bufs ++ [List.replicate bytes.toNat none] } (some s.mems.length)
      | some dt =>                                          -- mem->copyFrom(src, bytes, 0)
        if dt.length < bytes.toNat then .trap               -- the caller's array is too short
        else .val { pushMem s nv with bufs := s.bufs ++ [(dt.take bytes.toNat).map some] } (some s.mems.length)

def doMalloc (s : State) (v : Nat) (n : Int) (e : Nat) (data : Option (List UInt8)) : State × Res :=
  assignTo s v (mallocExpr s n e data)

/-- `device::wrapMemory(ptr, entries, dtype)` on host array `hb` -/
def wrapExpr (s : State) (hb : Nat) (n : Int) (e : Nat) : MRes :=
  let bytes : Int := n * (e : Int)
  if ¬ (bytes ≥ 0) then .err .negSize                       -- "Trying to wrap a pointer with negative bytes"
  else if ¬ (hb < nHostBufs ∧ bytes.toNat ≤ hostBufSize) then .trap   -- the caller lied about its array
  else .val (pushMem s { buf := hb, off := 0, size := bytes.toNat, esz := e }) (some s.mems.length)

def doWrap (s : State) (v hb : Nat) (n : Int) (e : Nat) : State × Res :=
  assignTo s v (wrapExpr s hb n e)

/-! ### copies -/

/-- `memory::copyFrom(const void *src, count, offset)` -/
def doCopyFromHost (s : State) (v : Nat) (data : List UInt8) (cnt off : Int) : State × Res :=
  match view? s v with
  | none => (s, .ok none)                                   -- `if (!isInitialized()) return;`
  | some p =>
    let bytes := countBytes p cnt
    let offset_ : Int := (p.esz : Int) * off
    if ¬ (bytes ≥ -1) then (s, .err .negSize)
    else if ¬ (offset_ ≥ 0) then (s, .err .negOff)
    else if ¬ udimLe (bytes + offset_) p.size then (s, .err .dstRange)
    else if data.length < bytes.toNat then (s, .trap)       -- the caller's array is too short
    else
      match s.bufs[p.buf]? with
      | none => (s, .trap)                                  -- excluded by the invariant
      | some b =>
        (setBuf s p.buf (writeAt b (p.off + offset_.toNat) ((data.take bytes.toNat).map some)), .ok none)

/-- `memory::copyTo(void *dest, count, offset)`; `cap` = size of the caller's destination array -/
def doCopyToHost (s : State) (v : Nat) (cap : Nat) (cnt off : Int) : State × Res :=
  match view? s v with
  | none => (s, .ok none)                                   -- `if (!isInitialized()) return;`
  | some p =>
    let bytes := countBytes p cnt
    let offset_ : Int := (p.esz : Int) * off
    if ¬ (bytes ≥ -1) then (s, .err .negSize)
    else if ¬ (offset_ ≥ 0) then (s, .err .negOff)
    else if ¬ udimLe (bytes + offset_) p.size then (s, .err .srcRange)
    else if cap < bytes.toNat then (s, .trap)               -- the caller's array is too short
    else
      match s.bufs[p.buf]? with
      | none => (s, .trap)
      | some b => (s, .ok (some (readAt b (p.off + offset_.toNat) bytes.toNat)))

/-- the guards shared by `memory::copyFrom(memory src, …)` and `memory::copyTo(memory dest, …)`
    once both handles are known to be initialised; `self` is the object the method is called on -/
def copyGuards (self dst src : View) (cnt doff soff : Int) : Except Err (Nat × Nat × Nat) :=
  let bytes := countBytes self cnt
  let destOffset_ : Int := (dst.esz : Int) * doff
  let srcOffset_ : Int := (src.esz : Int) * soff
  if ¬ (bytes ≥ -1) then .error .negSize
  else if ¬ (destOffset_ ≥ 0) then .error .negOff
  else if ¬ (srcOffset_ ≥ 0) then .error .negOff
  else if ¬ udimLe (bytes + srcOffset_) src.size then .error .srcRange
  else if ¬ udimLe (bytes + destOffset_) dst.size then .error .dstRange
  else .ok (bytes.toNat, destOffset_.toNat, srcOffset_.toNat)

/-- `serial::memory::copyFrom(const modeMemory_t *src, bytes, destOffset, srcOffset)`
    (memmove after fix F35: the source bytes are read before the destination is written) -/
def copyBytes (s : State) (dst src : View) (bytes dOff sOff : Nat) : State × Res :=
  match s.bufs[src.buf]?, s.bufs[dst.buf]? with
  | some sb, some db =>
    (setBuf s dst.buf (writeAt db (dst.off + dOff) (readAt sb (src.off + sOff) bytes)), .ok none)
  | _, _ => (s, .trap)

/-- `d.copyFrom(src, count, destOffset, srcOffset)` -/
def doCopyFromMem (s : State) (d src : Nat) (cnt doff soff : Int) : State × Res :=
  match view? s d, view? s src with
  | none, none => (s, .ok none)                             -- both uninitialised: return
  | none, some _ => (s, .err .uninit)                       -- assertInitialized()
  | some _, none => (s, .err .uninit)                       -- fix F03: src.assertInitialized()
  | some dv, some sv =>
    match copyGuards dv dv sv cnt doff soff with
    | .error e => (s, .err e)
    | .ok (bytes, dOff, sOff) => copyBytes s dv sv bytes dOff sOff

/-- `src.copyTo(d, count, destOffset, srcOffset)` -/
def doCopyToMem (s : State) (src d : Nat) (cnt doff soff : Int) : State × Res :=
  match view? s src, view? s d with
  | none, none => (s, .ok none)
  | none, some _ => (s, .err .uninit)                       -- assertInitialized()
  | some _, none => (s, .err .uninit)                       -- fix F03: dest.assertInitialized()
  | some sv, some dv =>
    match copyGuards sv dv sv cnt doff soff with
    | .error e => (s, .err e)
    | .ok (bytes, dOff, sOff) => copyBytes s dv sv bytes dOff sOff

/-- `device::malloc(entries, dtype, occa::memory src)`:
    `mem = malloc(entries, dtype, NULL); if (entries && src.byte_size()) mem.copyFrom(src);` (fix F36) -/
def mallocFromExpr (s : State) (n : Int) (e : Nat) (src : Nat) : MRes :=
  match mallocExpr s n e none with
  | .val s1 (some m) =>
    match view? s src, s1.mems[m]? with
    | some sv, some dv =>
      if sv.size = 0 then .val s1 (some m)
      else
        match copyGuards dv dv sv (-1) 0 0 with
        | .error er => .err er                              -- the fresh allocation is released again
        | .ok (bytes, dOff, sOff) =>
          match copyBytes s1 dv sv bytes dOff sOff with
          | (s2, .ok _) => .val s2 (some m)
          | (_, .err er) => .err er
          | (_, .trap) => .trap
    | _, _ => .val s1 (some m)                              -- src.byte_size() == 0 for an uninitialised src
  | r => r                                                  -- entries == 0, or the allocation threw

def doMallocFrom (s : State) (v : Nat) (n : Int) (e : Nat) (src : Nat) : State × Res :=
  assignTo s v (mallocFromExpr s n e src)

/-- `memory::clone()`: `device.malloc(byte_size(), *this)` as bytes, then `mem.setDtype(dtype())` -/
def cloneExpr (s : State) (src : Nat) : MRes :=
  match view? s src with
  | none => .val s none                                     -- `if (!modeMemory || !byte_size()) return occa::memory();`
  | some p =>
    if p.size = 0 then .val s none else                     -- (fix F37)
    match mallocFromExpr s (p.size : Int) 1 src with
    | .val _ none => .err .uninit                           -- byte_size() == 0: memory(); setDtype asserts
    | .val s1 (some m) =>
      match s1.mems[m]? with
      | none => .trap
      | some c => .val { s1 with mems := s1.mems.set m { c with esz := p.esz } } (some m)
    | r => r

def doClone (s : State) (d src : Nat) : State × Res :=
  assignTo s d (cloneExpr s src)

/-! ### handle copies, free, direct host access to the wrapped arrays -/

/-- `d = s` -/
def doAssign (s : State) (d src : Nat) : State × Res := (setVar s d (s.vars src), .ok none)

/-- `v.free()`: delete the modeMemory_t; its destructor NULLs every handle in its ring -/
def doFree (s : State) (v : Nat) : State × Res :=
  match s.vars v with
  | none => (s, .ok none)
  | some m => ({ s with vars := fun w => if s.vars w = some m then none else s.vars w }, .ok none)

/-- the caller writes into its own array `hb` (visible through every memory that wraps it) -/
def doHostWrite (s : State) (hb off : Nat) (data : List UInt8) : State × Res :=
  match s.bufs[hb]? with
  | some b =>
    if hb < nHostBufs ∧ off + data.length ≤ b.length then
      (setBuf s hb (writeAt b off (data.map some)), .ok none)
    else (s, .trap)
  | none => (s, .trap)

def doHostRead (s : State) (hb off n : Nat) : State × Res :=
  match s.bufs[hb]? with
  | some b =>
    if hb < nHostBufs ∧ off + n ≤ b.length then (s, .ok (some (readAt b off n))) else (s, .trap)
  | none => (s, .trap)

/-! ### operations -/

inductive Op
  | malloc (v : Nat) (n : Int) (e : Nat) (data : Option (List UInt8))
  | mallocFrom (v : Nat) (n : Int) (e : Nat) (src : Nat)
  | wrap (v hb : Nat) (n : Int) (e : Nat)
  | slice (d src : Nat) (off cnt : Int)        -- `src + off` is `slice d src off (-1)`
  | cast (d src : Nat) (e : Nat)
  | setDtype (v e : Nat)
  | clone (d src : Nat)
  | copyFromHost (v : Nat) (data : List UInt8) (cnt off : Int)
  | copyToHost (v : Nat) (cap : Nat) (cnt off : Int)
  | copyFromMem (d src : Nat) (cnt doff soff : Int)
  | copyToMem (src d : Nat) (cnt doff soff : Int)
  | assign (d src : Nat)
  | free (v : Nat)
  | hostWrite (hb off : Nat) (data : List UInt8)
  | hostRead (hb off n : Nat)

def step (s : State) : Op → State × Res
  | .malloc v n e data => doMalloc s v n e data
  | .mallocFrom v n e src => doMallocFrom s v n e src
  | .wrap v hb n e => doWrap s v hb n e
  | .slice d src off cnt => doSlice s d src off cnt
  | .cast d src e => doCast s d src e
  | .setDtype v e => doSetDtype s v e
  | .clone d src => doClone s d src
  | .copyFromHost v data cnt off => doCopyFromHost s v data cnt off
  | .copyToHost v cap cnt off => doCopyToHost s v cap cnt off
  | .copyFromMem d src cnt doff soff => doCopyFromMem s d src cnt doff soff
  | .copyToMem src d cnt doff soff => doCopyToMem s src d cnt doff soff
  | .assign d src => doAssign s d src
  | .free v => doFree s v
  | .hostWrite hb off data => doHostWrite s hb off data
  | .hostRead hb off n => doHostRead s hb off n

/-- state after a history (results dropped) -/
def run (s : State) : List Op → State
  | [] => s
  | op :: rest => run (step s op).1 rest

/-- the results of a history, in order -/
def results (s : State) : List Op → List Res
  | [] => []
  | op :: rest => (step s op).2 :: results (step s op).1 rest

end Occa.Mem
