/-
Syntax of the constant expressions of property C14: literals (kept as *spelling*), parentheses,
unary, binary and conditional operators.  Shared by the specification (`CxxSem.lean`, written
from the C++ standard) and by the model of occa's evaluator (`Prim.lean`, written after the C++
source).  Core Lean only.
-/
namespace Occa.CExpr

/-- An integer literal, split into the three parts of [lex.icon]: prefix, digits, suffix.
    The *text* is the concatenation; nothing else is stored. -/
structure IntLit where
  pre    : List Char      -- "", "0" (octal), "0x", "0X", "0b", "0B"
  digits : List Char
  suf    : List Char      -- one of `intSuffixes`
  deriving DecidableEq, Repr

/-- A decimal floating literal of [lex.fcon]: digit-sequence [. digit-sequence] [e [sign] digits] [f|F] -/
structure FloatLit where
  ipart : List Char                    -- digits before the point (may be empty if `frac` is not)
  dot   : Bool
  frac  : List Char                    -- digits after the point (empty when `dot = false`)
  expo  : Option (Char × List Char × List Char)   -- ('e'|'E', "" | "+" | "-", digits)
  suf   : List Char                    -- "" (double) or "f" / "F" (float)
  deriving DecidableEq, Repr

inductive Lit
  | bool (b : Bool)
  | int (l : IntLit)
  | float (l : FloatLit)
  deriving DecidableEq, Repr

def IntLit.text (l : IntLit) : List Char := l.pre ++ l.digits ++ l.suf

def FloatLit.text (l : FloatLit) : List Char :=
  l.ipart ++ (if l.dot then ['.'] else []) ++ l.frac ++
    (match l.expo with
     | none => []
     | some (e, s, d) => e :: (s ++ d)) ++ l.suf

def Lit.text : Lit → List Char
  | .bool true  => "true".toList
  | .bool false => "false".toList
  | .int l      => l.text
  | .float l    => l.text

inductive UnOp | lnot | plus | neg | bnot
  deriving DecidableEq, Repr

inductive BinOp
  | mul | div | mod | add | sub | shl | shr
  | lt | le | gt | ge | eq | ne
  | band | bxor | bor | land | lor
  deriving DecidableEq, Repr

inductive Expr
  | lit (l : Lit)
  | paren (e : Expr)
  | un (op : UnOp) (e : Expr)
  | bin (op : BinOp) (l r : Expr)
  | tern (c t f : Expr)
  deriving Repr

def UnOp.sym : UnOp → String
  | .lnot => "!" | .plus => "+" | .neg => "-" | .bnot => "~"

def BinOp.sym : BinOp → String
  | .mul => "*" | .div => "/" | .mod => "%" | .add => "+" | .sub => "-" | .shl => "<<" | .shr => ">>"
  | .lt => "<" | .le => "<=" | .gt => ">" | .ge => ">=" | .eq => "==" | .ne => "!="
  | .band => "&" | .bxor => "^" | .bor => "|" | .land => "&&" | .lor => "||"

/-- fully parenthesised C++ text (used by examples and the driver's echo) -/
def Expr.text : Expr → String
  | .lit l => String.ofList l.text
  | .paren e => "(" ++ e.text ++ ")"
  | .un op e => op.sym ++ " " ++ e.text
  | .bin op l r => l.text ++ " " ++ op.sym ++ " " ++ r.text
  | .tern c t f => c.text ++ " ? " ++ t.text ++ " : " ++ f.text

end Occa.CExpr
