/-
Concurrency model of handle reference management in the ENABLE_SHARABLE_DEVICE build
(src/occa/internal/utils/gc.tpp ring_t<…>::addRef/removeRef with the static mutex, and the
remove*Ref functions of the handle classes in src/core/{memory,device,kernel,stream,
memoryPool,streamTag}.cpp which call `obj->removeRef(this)` and THEN read `needsFree()` and
`delete`).  Which statements are inside the lock comes from the generated table
OccaGen/LockRegions.lean, passed in here as a `LockCfg`.

One backend object is modelled (objects do not interact: every ring operation touches the ring
of one object only; the per-type mutex only makes steps of different objects more atomic, never
less).  Handles are numbered; the ring is abstracted to the list of handles linked into it.

A thread's program is a list of *micro-steps*; a schedule picks which thread runs its next
micro-step.  Micro-steps are the units that the C++ executes atomically (under the ring mutex)
or as single shared-memory accesses.
-/
namespace Occa.GcConc

/-- which parts of the protocol run under the ring mutex (generated from the C++) -/
structure LockCfg where
  addRefLocked : Bool       -- ring_t::addRef body between mutex.lock()/unlock()
  removeRefLocked : Bool    -- ring_t::removeRef body between mutex.lock()/unlock()
  checkInsideLock : Bool    -- needsFree() read + delete happen inside the same critical section as the unlink
  counterAtomic : Bool      -- bytesAllocated updated by an atomic read-modify-write
deriving Repr, DecidableEq

structure State where
  ring : List Nat           -- handles linked into the object's ring
  useRefs : Bool
  alive : Bool
  dtorRuns : Nat            -- how often `delete obj` ran
  uaf : Bool                -- some step read or wrote the object after its destruction
  ptr : Nat → Bool          -- handle h currently points to the object
  snap : Nat → List Nat     -- per-thread snapshot of the ring taken by an unlocked read
  counter : Int             -- modeDevice->bytesAllocated
  csnap : Nat → Int         -- per-thread value read by a non-atomic counter update

inductive Micro
  | link (h src : Nat)              -- locked addRef from live handle `src`: ring := ring ++ [h]; ptr h := true
  | linkRead (t h src : Nat)        -- unlocked addRef, part 1: read head/tail
  | linkWrite (t h src : Nat)       -- unlocked addRef, part 2: write links
  | unlink (h : Nat)                -- locked removeRef: ring := ring.erase h
  | unlinkRead (t h : Nat)
  | unlinkWrite (t h : Nat)
  | check (h : Nat)                 -- read needsFree(); if true: delete; ptr h := false
  | release (h : Nat)               -- unlink + check in ONE critical section
  | ctrAdd (d : Int)                -- atomic counter update
  | ctrRead (t : Nat)
  | ctrWrite (t : Nat) (d : Int)
deriving Repr, DecidableEq

def touch (s : State) : State := if s.alive then s else { s with uaf := true }

def destroyIfNeeded (s : State) : State :=
  if s.useRefs && s.ring.isEmpty then { s with alive := false, dtorRuns := s.dtorRuns + 1 } else s

def setPtr (p : Nat → Bool) (h : Nat) (b : Bool) : Nat → Bool := fun x => if x = h then b else p x
def setSnap {α} (p : Nat → α) (t : Nat) (v : α) : Nat → α := fun x => if x = t then v else p x

def addTo (r : List Nat) (h : Nat) : List Nat := if r.contains h then r else r ++ [h]

/-- One micro-step.  `link`/`release`/`unlink`… on a handle that does not take part (copying from an
    uninitialised source, dropping an uninitialised handle) is a no-op, as in the C++
    (`if (!modeMemory) return;`). -/
def exec (s : State) : Micro → State
  | .link h src =>
      if s.ptr src then
        let s := touch s
        { s with ring := addTo s.ring h, ptr := setPtr s.ptr h true }
      else s
  | .linkRead t _ src =>
      if s.ptr src then let s := touch s; { s with snap := setSnap s.snap t s.ring } else s
  | .linkWrite t h src =>
      if s.ptr src then
        let s := touch s
        { s with ring := addTo (s.snap t) h, ptr := setPtr s.ptr h true }
      else s
  | .unlink h => if s.ptr h then let s := touch s; { s with ring := s.ring.erase h } else s
  | .unlinkRead t h => if s.ptr h then let s := touch s; { s with snap := setSnap s.snap t s.ring } else s
  | .unlinkWrite t h => if s.ptr h then let s := touch s; { s with ring := (s.snap t).erase h } else s
  | .check h =>
      if s.ptr h then
        let s := touch s
        let s := destroyIfNeeded s
        { s with ptr := setPtr s.ptr h false }
      else s
  | .release h =>
      if s.ptr h then
        let s := touch s
        let s := { s with ring := s.ring.erase h }
        let s := destroyIfNeeded s
        { s with ptr := setPtr s.ptr h false }
      else s
  | .ctrAdd d => { s with counter := s.counter + d }
  | .ctrRead t => { s with csnap := setSnap s.csnap t s.counter }
  | .ctrWrite t d => { s with counter := s.csnap t + d }

/-- handle-level operations of a thread and their expansion into micro-steps under a lock config -/
inductive Op
  | acquire (h src : Nat)    -- `occa::memory h = src;`  copy-construct from a handle that stays live
  | drop (h : Nat)           -- destructor / assignment away from the object
  | alloc (d : Int)          -- device counter += d  (malloc: d > 0, free: d < 0)
deriving Repr, DecidableEq

def expand (c : LockCfg) (t : Nat) : Op → List Micro
  | .acquire h src => if c.addRefLocked then [.link h src] else [.linkRead t h src, .linkWrite t h src]
  | .drop h =>
      if c.checkInsideLock then [.release h]
      else (if c.removeRefLocked then [.unlink h] else [.unlinkRead t h, .unlinkWrite t h]) ++ [.check h]
  | .alloc d => if c.counterAtomic then [.ctrAdd d] else [.ctrRead t, .ctrWrite t d]

def expandProg (c : LockCfg) (t : Nat) (p : List Op) : List Micro := p.flatMap (expand c t)

def expandAll (c : LockCfg) (progs : List (List Op)) : List (List Micro) :=
  (List.range progs.length).zipWith (fun t p => expandProg c t p) progs

/-- run a schedule: `sched` lists thread indices; a thread with no remaining micro-step is skipped -/
def runSched : State → List (List Micro) → List Nat → State × List (List Micro)
  | s, ps, [] => (s, ps)
  | s, ps, t :: rest =>
      match ps[t]? with
      | some (m :: ms) => runSched (exec s m) (ps.set t ms) rest
      | _ => runSched s ps rest

def init (handles : List Nat) : State :=
  { ring := handles, useRefs := true, alive := true, dtorRuns := 0, uaf := false,
    ptr := fun h => handles.contains h, snap := fun _ => [], counter := 0, csnap := fun _ => 0 }

/-- what the property forbids -/
def DoubleFree (s : State) : Prop := 2 ≤ s.dtorRuns
def UseAfterFree (s : State) : Prop := s.uaf = true
/-- a handle that points to the object is not in its ring (the object can die under it) -/
def LostRef (s : State) : Prop := ∃ h, s.ptr h = true ∧ h ∉ s.ring
def Leak (s : State) : Prop := s.alive = true ∧ s.useRefs = true ∧ s.ring = []

def Safe (s : State) : Prop := ¬ DoubleFree s ∧ ¬ UseAfterFree s ∧ ¬ LostRef s ∧ ¬ Leak s

/-- the protocol invariant: what is true between critical sections when everything is locked -/
structure Inv (s : State) : Prop where
  ptr_ring : ∀ h, s.ptr h = true → h ∈ s.ring
  ring_alive : s.ring ≠ [] → s.alive = true
  dead_once : s.alive = false → s.dtorRuns = 1
  alive_zero : s.alive = true → s.dtorRuns = 0
  no_uaf : s.uaf = false
  no_leak : s.useRefs = true → s.alive = true → s.ring ≠ []

/-- the micro-steps that exist when every region is locked -/
def Micro.atomic : Micro → Bool
  | .link _ _ | .release _ | .ctrAdd _ => true
  | _ => false

end Occa.GcConc
