/-
Model of occa::trieNode and occa::trie<TM>
(src/occa/internal/utils/trie.hpp, trie.cpp, trie.tpp), written after the C++ statement by
statement — as REPAIRED by fixes/F32, F33, FC28a, FC28b, FC28c (see design-notes/C28.md).

Core Lean only (no Mathlib): the drivers link against it, and other models (the tokenizer's
operator trie, C12) can import the specification part at the top of this file:

  `lookup k M`          value stored for key `k` in the association list `M`
  `longestPrefix M q`   the longest stored key that is a prefix of `q`, as (its length, its value)
  `specAdd / specRemove` the finite-map meaning of `add` / `remove`

Representation choices (each is a renaming, not a simplification):
  * `char`                      a type `α` with decidable `=`/`<` forming a strict total order
                                (`TotalLT`; the driver uses `Int` = the value of a signed char)
  * `int valueIndex`, -1 = none `Option Nat`
  * `std::map<char, trieNode>`  association list kept sorted by key (`upsert` inserts in order;
                                `find` is `std::map::find`)
  * the four frozen arrays      one array of `Cell`s (the C++ writes/reads the four arrays at the
                                same index in the same statement group); a cell that `new[]` left
                                uninitialised is `none`, reading it is a trap
  * a C++ trap (out-of-range read or write of an array / of `values`) is the outer `none` of an
    `Option` result — so "never traps" is a theorem, not an artefact of totality.
-/
namespace Occa.Trie

/-! ## Specification: association lists and the longest stored prefix -/

section Spec
variable {α V : Type} [DecidableEq α]

/-- the value stored for key `k` (first entry wins; the lists built by `specAdd` have distinct keys) -/
def lookup (k : List α) : List (List α × V) → Option V
  | [] => none
  | (k', v) :: r => if k = k' then some v else lookup k r

/-- the longest prefix `q.take n` of `q` that is a stored key, as `(n, value)`:
    try `n = q.length`, then `q.length - 1`, … down to the empty key. -/
def longestPrefix (M : List (List α × V)) (q : List α) : Option (Nat × V) :=
  go q.length
where
  go : Nat → Option (Nat × V)
    | 0 => (lookup [] M).map fun v => (0, v)
    | n + 1 =>
      match lookup (q.take (n + 1)) M with
      | some v => some (n + 1, v)
      | none => go n

/-- `add k v`: overwrite the value of a stored key, otherwise store it as the newest entry -/
def specAdd (M : List (List α × V)) (k : List α) (v : V) : List (List α × V) :=
  if (lookup k M).isSome then M.map fun e => if e.1 = k then (k, v) else e
  else M ++ [(k, v)]

/-- `remove k` -/
def specRemove (M : List (List α × V)) (k : List α) : List (List α × V) :=
  M.filter fun e => e.1 ≠ k

end Spec

/-! ## The character order -/

/-- `<` on the character type is a strict total order (what `std::map<char,…>` and the binary
    search of the frozen lookup both rely on) -/
class TotalLT (α : Type) [LT α] : Prop where
  irrefl : ∀ a : α, ¬ a < a
  trans : ∀ {a b c : α}, a < b → b < c → a < c
  tri : ∀ a b : α, a < b ∨ a = b ∨ b < a

instance : TotalLT Nat := ⟨Nat.lt_irrefl, Nat.lt_trans, fun a b => by omega⟩
instance : TotalLT Int := ⟨Int.lt_irrefl, Int.lt_trans, fun a b => by omega⟩
instance : TotalLT Char :=
  ⟨fun a => Nat.lt_irrefl a.val.toNat,
   fun {a b c} (h1 : a.val.toNat < b.val.toNat) (h2 : b.val.toNat < c.val.toNat) =>
     (Nat.lt_trans h1 h2 : a.val.toNat < c.val.toNat),
   fun a b => by
     rcases Nat.lt_trichotomy a.val.toNat b.val.toNat with h | h | h
     · exact Or.inl h
     · exact Or.inr (Or.inl (Char.ext (UInt32.toNat_inj.mp h)))
     · exact Or.inr (Or.inr h)⟩

/-! ## trieNode (trie.cpp) -/

/-- `class trieNode { int valueIndex; std::map<char, trieNode> leaves; }` -/
inductive Node (α : Type) where
  | mk (val : Option Nat) (kids : List (α × Node α))

namespace Node
variable {α : Type}

def val : Node α → Option Nat | mk v _ => v
def kids : Node α → List (α × Node α) | mk _ ks => ks

/-- `trieNode()`: valueIndex = -1, no leaves -/
def empty : Node α := mk none []

instance : Inhabited (Node α) := ⟨empty⟩

end Node

open Node

section NodeOps
variable {α : Type} [DecidableEq α] [LT α] [DecidableRel (α := α) (· < ·)]

/-- `leaves.find(c)` -/
def find (c : α) : List (α × Node α) → Option (Node α)
  | [] => none
  | (k, n) :: r => if c = k then some n else find c r

/-- `trieNode &n = leaves[c]; n.f()` — `operator[]` inserts a default node at its sorted position
    when `c` is absent, then the node is mutated through the reference -/
def upsert (c : α) (f : Node α → Node α) : List (α × Node α) → List (α × Node α)
  | [] => [(c, f Node.empty)]
  | (k, n) :: r =>
    if c = k then (k, f n) :: r
    else if c < k then (c, f Node.empty) :: (k, n) :: r
    else (k, n) :: upsert c f r

/-- `leaves.erase(it)` where `it = leaves.find(c)` -/
def eraseKey (c : α) (ks : List (α × Node α)) : List (α × Node α) :=
  ks.filter fun p => p.1 ≠ c

/-- the node found at `c` was mutated in place (through `trieNode &leaf = it->second`) -/
def replaceKey (c : α) (n : Node α) : List (α × Node α) → List (α × Node α)
  | [] => []
  | (k, m) :: r => if c = k then (k, n) :: r else (k, m) :: replaceKey c n r

mutual
/-- `trieNode::size()`: number of nodes holding a value -/
def sizeN : Node α → Nat
  | mk v ks => (if v.isSome then 1 else 0) + sizeKids ks
def sizeKids : List (α × Node α) → Nat
  | [] => 0
  | (_, n) :: r => sizeN n + sizeKids r
end

mutual
/-- `trieNode::nodeCount()`: number of proper descendants -/
def nodeCountN : Node α → Nat
  | mk _ ks => ks.length + nodeCountKids ks
def nodeCountKids : List (α × Node α) → Nat
  | [] => 0
  | (_, n) :: r => nodeCountN n + nodeCountKids r
end

/-- `trieNode::add(c, valueIndex_)` -/
def addN : List α → Nat → Node α → Node α
  | [], i, mk _ ks => mk (some i) ks
  | c :: cs, i, mk v ks => mk v (upsert c (addN cs i) ks)

/-- `trieNode::get(c, cIndex, length)`, the query being `c[cIndex .. length)`; result
    `(length, valueIndex)` of `result_t`.  (F32 repaired: `cIndex`, not `cIndex + 1`, when the
    deeper lookup fails below a node that holds a value.) -/
def getN : List α → Nat → Node α → Nat × Option Nat
  | [], cIndex, mk v _ => (cIndex, v)
  | c :: cs, cIndex, mk v ks =>
    match find c ks with
    | none => (cIndex, v)
    | some child =>
      let r := getN cs (cIndex + 1) child
      if r.2.isNone && v.isSome then (cIndex, v) else r

/-- `trieNode::getValueIndex(c)`: the index of `c` if exactly `c` is matched -/
def getValueIndex (c : List α) (n : Node α) : Option Nat :=
  let r := getN c 0 n
  if r.1 = c.length then r.2 else none

/-- `trieNode::nestedRemove(c, length, valueIndex_)` for the non-empty key `c :: cs`
    (`length = cs.length + 1`); returns the node and `(valueIndex < 0) && !leaves.size()`.
    (F33 repaired: an emptied child is erased whether or not it has siblings.) -/
def nestedRemove : α → List α → Node α → Node α × Bool
  | c, cs, mk v ks =>
    match find c ks with
    | none => (mk v ks, false)
    | some leaf =>
      let ks' :=
        match cs with
        | c' :: cs' =>
          let (leaf', emptyTree) := nestedRemove c' cs' leaf
          if emptyTree then eraseKey c ks else replaceKey c leaf' ks
        | [] =>
          if leaf.kids.isEmpty then eraseKey c ks else replaceKey c (mk none leaf.kids) ks
      (mk v ks', v.isNone && ks'.isEmpty)

mutual
/-- `trieNode::decrementIndex(valueIndex_)` (FC28a repaired: the node itself first) -/
def decrementIndex (vi : Nat) : Node α → Node α
  | mk v ks => mk (v.map fun i => if i > vi then i - 1 else i) (decrementKids vi ks)
def decrementKids (vi : Nat) : List (α × Node α) → List (α × Node α)
  | [] => []
  | (c, n) :: r => (c, decrementIndex vi n) :: decrementKids vi r
end

/-- `trieNode::remove(c, length, valueIndex_)` (FC28a repaired: the empty key clears this node's
    index instead of returning early) -/
def removeN (c : List α) (vi : Nat) (n : Node α) : Node α :=
  let n' :=
    match c with
    | [] => mk none n.kids
    | c :: cs => (nestedRemove c cs n).1
  decrementIndex vi n'

end NodeOps

/-! ## trie<TM> (trie.tpp) -/

/-- row `i` of the frozen arrays: `chars[i], offsets[i], leafCount[i], valueIndices[i]` -/
structure Cell (α : Type) where
  ch : α
  off : Nat
  cnt : Nat
  vi : Option Nat

abbrev Cells (α : Type) := Array (Option (Cell α))

structure Frozen (α : Type) where
  nodeCount : Nat
  baseNodeCount : Nat
  cells : Cells α

/-- the data members of `trie<TM>`; `frozen = none` is `isFrozen == false` (arrays NULL) -/
structure Trie (α V : Type) where
  root : Node α := Node.empty
  values : List V := []
  frozen : Option (Frozen α) := none
  autoFreeze : Bool := true

/-- `trie_t::result_t`: `length`, `valueIndex` (`none` = -1, `success()` = `isSome`) -/
structure Result where
  length : Nat
  valueIndex : Option Nat
  deriving DecidableEq, Repr

/-- `result_t(this)`: length 0, valueIndex -1 -/
def Result.fail : Result := ⟨0, none⟩
def Result.success (r : Result) : Bool := r.valueIndex.isSome

section Freeze
variable {α : Type}

mutual
/-- `trie::freeze(node, offset)`: the children of `node` are written to `[offset, offset+k)`,
    their descendants from `offset + k` on; returns the next free offset.  `none` = a write
    outside the arrays. -/
def freezeN : Node α → Nat → Cells α → Option (Cells α × Nat)
  | mk _ ks, offset, arr => freezeKids ks offset (offset + ks.length) arr
/-- the `while (leaf != leaves.end())` loop with its variables `offset`, `leafOffset` -/
def freezeKids : List (α × Node α) → Nat → Nat → Cells α → Option (Cells α × Nat)
  | [], _, leafOffset, arr => some (arr, leafOffset)
  | (c, leaf) :: rest, offset, leafOffset, arr =>
    if h : offset < arr.size then
      let arr1 := arr.set offset (some ⟨c, leafOffset, leaf.kids.length, leaf.val⟩)
      match freezeN leaf leafOffset arr1 with
      | none => none
      | some (arr2, leafOffset') => freezeKids rest (offset + 1) leafOffset' arr2
    else none
end

end Freeze

section TrieOps
variable {α V : Type} [DecidableEq α] [LT α] [DecidableRel (α := α) (· < ·)] [Inhabited α]

/-- `trie::defrost()` -/
def Trie.defrost (t : Trie α V) : Trie α V := { t with frozen := none }

/-- `trie::freeze()`; `default : α` stands for `'\0'` in the sentinel cell -/
def Trie.freeze (t : Trie α V) : Option (Trie α V) :=
  let t := t.defrost
  let nodeCount := nodeCountN t.root
  let base := t.root.kids.length
  let arr : Cells α := Array.replicate (nodeCount + 1) none
  let arr := arr.set! nodeCount (some ⟨default, nodeCount, 0, none⟩)
  match freezeN t.root 0 arr with
  | none => none
  | some (arr, _) => some { t with frozen := some ⟨nodeCount, base, arr⟩ }

/-- outcome of the binary search over `chars[offset .. offset+count)` -/
inductive Probe (α : Type) where
  | trap
  | miss
  | hit (cell : Cell α)

/-- the inner `while (start <= end)` loop of the frozen `getLongest`; `fuel` bounds the number
    of iterations (`count + 1` suffices, `bsearch_fuel`) -/
def bsearch (arr : Cells α) (offset : Nat) (ci : α) : Nat → Int → Int → Probe α
  | 0, _, _ => .trap
  | fuel + 1, start, end_ =>
    if start ≤ end_ then
      let mid := (start + end_) / 2
      match arr[offset + mid.toNat]? with
      | some (some cell) =>
        if ci < cell.ch then bsearch arr offset ci fuel start (mid - 1)
        else if cell.ch < ci then bsearch arr offset ci fuel (mid + 1) end_
        else .hit cell
      | _ => .trap
    else .miss

/-- the outer `for (i < length)` loop of the frozen `getLongest`: `pos = c - cStart` -/
def frozenLoop (arr : Cells α) : List α → Nat → Nat → Nat → Nat → Option Nat → Option (Nat × Option Nat)
  | [], _, _, _, retLength, retVI => some (retLength, retVI)
  | ci :: cs, offset, count, pos, retLength, retVI =>
    match bsearch arr offset ci (count + 1) 0 ((count : Int) - 1) with
    | .trap => none
    | .miss => some (retLength, retVI)
    | .hit cell =>
      if cell.vi.isSome then frozenLoop arr cs cell.off cell.cnt (pos + 1) (pos + 1) cell.vi
      else frozenLoop arr cs cell.off cell.cnt (pos + 1) retLength retVI

/-- frozen branch of `trie::getLongest(c, length)` (FC28b repaired: starts from the root's value
    index — the empty key — and succeeds whenever an index was found) -/
def getLongestFrozen (f : Frozen α) (rootVal : Option Nat) (q : List α) : Option Result :=
  match frozenLoop f.cells q 0 f.baseNodeCount 0 0 rootVal with
  | none => none
  | some (len, vi) => some (if vi.isSome then ⟨len, vi⟩ else Result.fail)

/-- `trie::trieGetLongest(c, length)` -/
def trieGetLongest (root : Node α) (q : List α) : Result :=
  let r := getN q 0 root
  if r.2.isSome then ⟨r.1, r.2⟩ else Result.fail

/-- `trie::getLongest(c, length)` with `q = c[0..length)`; outer `none` = trap -/
def Trie.getLongest (t : Trie α V) (q : List α) : Option Result :=
  match t.frozen with
  | none => some (trieGetLongest t.root q)
  | some f => getLongestFrozen f t.root.val q

/-- `trie::get(c, length)` -/
def Trie.get (t : Trie α V) (q : List α) : Option Result :=
  (t.getLongest q).map fun r => if r.length ≠ q.length then Result.fail else r

/-- `result_t::value()` of a successful result: `values[valueIndex]`; `none` = out of range -/
def Trie.value (t : Trie α V) (i : Nat) : Option V := t.values[i]?

/-- `getLongest(q)` as the property reads it: `some (some (length, value))`, `some none` when
    nothing matches, `none` on a trap -/
def Trie.longest (t : Trie α V) (q : List α) : Option (Option (Nat × V)) :=
  match t.getLongest q with
  | none => none
  | some r =>
    match r.valueIndex with
    | none => some none
    | some i => (t.value i).map fun v => some (r.length, v)

/-- `get(q).value()` when it succeeds -/
def Trie.getValue (t : Trie α V) (q : List α) : Option (Option V) :=
  match t.get q with
  | none => none
  | some r =>
    match r.valueIndex with
    | none => some none
    | some i => (t.value i).map some

/-- `trie::has(const char *c)` (FC28c repaired: `get(c).success()`) -/
def Trie.has (t : Trie α V) (q : List α) : Option Bool := (t.get q).map Result.success

/-- `trie::has(const char *c, int size)` / `has(const std::string&)`: `OCCA_ERROR` unless
    `0 < size`; `some (some b)` answer, `some none` the exception, `none` a trap -/
def Trie.hasSized (t : Trie α V) (q : List α) : Option (Option Bool) :=
  if q.length = 0 then some none else (t.get q).map fun r => some r.success

/-- `trie::has(char c)`: linear scan of the root's children (frozen: of the first
    `baseNodeCount` cells) -/
def Trie.hasChar (t : Trie α V) (c : α) : Option Bool :=
  match t.frozen with
  | none => some ((t.root.kids.map (·.1)).contains c)
  | some f => scan f.cells f.baseNodeCount 0
where
  scan (arr : Cells α) : Nat → Nat → Option Bool
    | 0, _ => some false
    | n + 1, i =>
      match arr[i]? with
      | some (some cell) => if cell.ch = c then some true else scan arr n (i + 1)
      | _ => none

/-- `trie::size()` -/
def Trie.size (t : Trie α V) : Nat :=
  match t.frozen with
  | some _ => t.values.length
  | none => sizeN t.root

/-- `trie::isEmpty()` -/
def Trie.isEmpty (t : Trie α V) : Bool := t.root.kids.isEmpty

/-- `trie::add(c, value)`; `none` = `values[valueIndex]` out of range or a freeze trap -/
def Trie.add (t : Trie α V) (c : List α) (value : V) : Option (Trie α V) :=
  match getValueIndex c t.root with
  | none =>
    let t := t.defrost
    let valueIndex := t.values.length
    let t := { t with values := t.values ++ [value], root := addN c valueIndex t.root }
    if t.autoFreeze then t.freeze else some t
  | some valueIndex =>
    if valueIndex < t.values.length then some { t with values := t.values.set valueIndex value }
    else none

/-- `trie::remove(c, length)` with `length = strlen(c)`; `none` = trap -/
def Trie.remove (t : Trie α V) (c : List α) : Option (Trie α V) :=
  match getValueIndex c t.root with
  | none => some t
  | some valueIndex =>
    let t := t.defrost
    let t := { t with root := removeN c valueIndex t.root }
    match (if t.autoFreeze then t.freeze else some t) with
    | none => none
    | some t =>
      -- for (i = valueIndex + 1; i < size; ++i) values[i - 1] = values[i];  values.pop_back();
      if valueIndex < t.values.length then some { t with values := t.values.eraseIdx valueIndex }
      else if t.values.isEmpty then none
      else some { t with values := t.values.dropLast }

/-- `trie::clear()` (FC28a repaired: resets the root's value index too) -/
def Trie.clear (t : Trie α V) : Trie α V :=
  { t with root := Node.empty, values := [], frozen := none }

/-- the mutating operations of the property's histories -/
inductive Op (α V : Type) where
  | add (k : List α) (v : V)
  | remove (k : List α)
  | freeze
  | defrost
  | clear
  | setAuto (b : Bool)

/-- one operation; `none` = the C++ would trap -/
def Trie.step (t : Trie α V) : Op α V → Option (Trie α V)
  | .add k v => t.add k v
  | .remove k => t.remove k
  | .freeze => t.freeze
  | .defrost => some t.defrost
  | .clear => some t.clear
  | .setAuto b => some { t with autoFreeze := b }

/-- a history, from a state -/
def Trie.run (t : Trie α V) : List (Op α V) → Option (Trie α V)
  | [] => some t
  | op :: ops => (t.step op).bind fun t' => t'.run ops

/-- the meaning of an operation on the specification -/
def specStep (M : List (List α × V)) : Op α V → List (List α × V)
  | .add k v => specAdd M k v
  | .remove k => specRemove M k
  | .clear => []
  | _ => M

def specRun (M : List (List α × V)) : List (Op α V) → List (List α × V)
  | [] => M
  | op :: ops => specRun (specStep M op) ops

end TrieOps

end Occa.Trie
