/-
C17 / C18 / C19 — expression-level model: which *trees* oklForStatement, withLauncher, tile.cpp and
dim.cpp build, and how the occa printer writes them (it never adds parentheses of its own; the only
ones are explicit `parenthesesNode`s, inserted by `wrapInParentheses` for operator nodes).

Written after
  src/occa/internal/lang/expr/exprNode.cpp, exprOpNode.cpp, parenCastNode.cpp   wrapInParentheses
  src/occa/internal/lang/expr/{binaryOp,leftUnaryOp,ternaryOp,parentheses,subscript}Node.cpp  print
  src/occa/internal/lang/modes/oklForStatement.cpp   getIterationCount, makeDeclarationValue
  src/occa/internal/lang/modes/withLauncher.cpp      setKernelLaunch, replaceOccaFor
  src/occa/internal/lang/modes/{cuda,hip,opencl,metal,dpcpp}.cpp  get{Outer,Inner}Iterator
  src/occa/internal/lang/builtins/attributes/tile.cpp, dim.cpp
with the fixes F23 (both operands of the count wrapped), F25 (in-block bound = block stride),
F26 (@dim index arguments wrapped) and F71 (launcher uses the loop's own OKL index) applied.
Core Lean only.
-/
import OccaModel.CInt
import OccaModel.Loop
import OccaModel.Dim
import OccaGen.LoopTables

namespace Occa.LoopExpr
open Occa Occa.Loop

/-- the fragment of occa's `exprNode` the three properties need -/
inductive Expr
  | var (n : String)                 -- variableNode / identifierNode
  | lit (v : Int)                    -- primitiveNode
  | paren (e : Expr)                 -- parenthesesNode
  | cast (e : Expr)                  -- parenCastNode  `(int) e`
  | un (op : String) (e : Expr)      -- leftUnaryOpNode  - + ! ~ &
  | bin (op : String) (l r : Expr)   -- binaryOpNode
  | tern (c t f : Expr)              -- ternaryOpNode
  | sub (a i : Expr)                 -- subscriptNode  a[i]
deriving Repr, BEq, Inhabited

/-- `exprNode::wrapInParentheses`: operator nodes (every `exprOpNode` subclass) and C-style casts get
    a `parenthesesNode`; everything else (variables, literals, calls, subscripts, parentheses) is
    cloned unchanged. -/
def wrap : Expr → Expr
  | e@(.un ..) | e@(.bin ..) | e@(.tern ..) | e@(.cast ..) => .paren e
  | e => e

/-- the occa printer -/
def print : Expr → String
  | .var n => n
  | .lit v => toString v
  | .paren e => "(" ++ print e ++ ")"
  | .cast e => "(int) " ++ print e
  | .un op e => op ++ print e
  | .bin op l r => print l ++ " " ++ op ++ " " ++ print r
  | .tern c t f => print c ++ " ? " ++ print t ++ " : " ++ print f
  | .sub a i => print a ++ "[" ++ print i ++ "]"

/-! ### C `int` semantics of the operand language (values far from overflow) -/

def b2i (b : Bool) : Int := if b then 1 else 0

def evalBin (op : String) (x y : Int) : Int :=
  match op with
  | "+" => x + y
  | "-" => x - y
  | "*" => x * y
  | "/" => Int.tdiv x y
  | "%" => Int.tmod x y
  | "<<" => x * 2 ^ y.toNat
  | ">>" => Int.fdiv x (2 ^ y.toNat)
  | "<" => b2i (x < y)
  | "<=" => b2i (x ≤ y)
  | ">" => b2i (x > y)
  | ">=" => b2i (x ≥ y)
  | "==" => b2i (x == y)
  | "!=" => b2i (x != y)
  | "&" => cand x y
  | "^" => cxor x y
  | "|" => cor x y
  | "&&" => b2i (x != 0 && y != 0)
  | "||" => b2i (x != 0 || y != 0)
  | _ => 0

def eval (env : String → Int) : Expr → Int
  | .var n => env n
  | .lit v => v
  | .paren e => eval env e
  | .cast e => eval env e
  | .un op e =>
    let x := eval env e
    match op with
    | "-" => -x
    | "+" => x
    | "!" => b2i (x == 0)
    | "~" => -x - 1
    | _ => 0
  | .bin op l r => evalBin op (eval env l) (eval env r)
  | .tern c t f => if eval env c != 0 then eval env t else eval env f
  | .sub _ _ => 0

/-! ### loop headers with expression operands -/

inductive Attr | outer | inner | none
deriving DecidableEq, Repr, Inhabited

structure LoopSpec where
  var : String
  attr : Attr
  index : Option Nat          -- explicit `@outer(k)` / `@inner(k)`
  ityp : String               -- "int" | "long"
  init : Expr
  cmp : Cmp
  boundOnRight : Bool
  bound : Expr
  positive : Bool             -- ++ / +=
  post : Bool                 -- i++ / i-- (printing only)
  step : Option Expr          -- operand of += / -=
deriving Repr, Inhabited

structure TileSpec where
  T : Expr
  battr : Attr
  iattr : Attr
  check : Bool
deriving Repr, Inhabited

def cmpText : Cmp → String
  | .lt => "<" | .le => "<=" | .gt => ">" | .ge => ">="

def LoopSpec.inclusive (l : LoopSpec) : Bool :=
  match l.cmp with | .le | .ge => true | _ => false

/-- `oklForStatement::getIterationCount` as a tree (F23 repaired: both operands wrapped) -/
def countExpr (l : LoopSpec) : Expr :=
  let initP := wrap l.init
  let checkP := wrap l.bound
  let smaller := if l.positive then initP else checkP
  let larger := if l.positive then checkP else initP
  let c := Expr.bin "-" larger smaller
  let c := if l.inclusive then Expr.bin "+" (.lit 1) c else c
  match l.step with
  | none => c
  | some s =>
    let sP := wrap s
    Expr.bin "/" (wrap (.bin "-" (.bin "+" c sP) (.lit 1))) sP

/-- the tree before fix F23: only the initial value was wrapped -/
def countExprOld (l : LoopSpec) : Expr :=
  let initP := wrap l.init
  let smaller := if l.positive then initP else l.bound
  let larger := if l.positive then l.bound else initP
  let c := Expr.bin "-" larger smaller
  let c := if l.inclusive then Expr.bin "+" (.lit 1) c else c
  match l.step with
  | none => c
  | some s =>
    let sP := wrap s
    Expr.bin "/" (wrap (.bin "-" (.bin "+" c sP) (.lit 1))) sP

/-- `oklForStatement::makeDeclarationValue(magicIterator)` -/
def valueExpr (l : LoopSpec) (magic : String) : Expr :=
  let blk := wrap (.var magic)
  let blk := match l.step with
    | none => blk
    | some s => wrap (.bin "*" (wrap s) blk)
  .bin (if l.positive then "+" else "-") (wrap l.init) blk

/-- the numeric header a spec denotes for given operand values -/
def LoopSpec.header (l : LoopSpec) (env : String → Int) : Header :=
  { init := eval env l.init
    bound := eval env l.bound
    cmp := l.cmp
    boundOnRight := l.boundOnRight
    upd := match l.step, l.positive with
      | none, true => .inc
      | none, false => .dec
      | some s, true => .addEq (eval env s)
      | some s, false => .subEq (eval env s) }

/-! ### @tile as a tree transformation (tile.cpp) -/

def tiledName (v : String) : String := "_occa_tiled_" ++ v

/-- right operand of the block update: `T`, or `((T) * (INC))` -/
def blockStrideExpr (l : LoopSpec) (T : Expr) : Expr :=
  match l.step with
  | none => T
  | some s => wrap (.bin "*" (wrap T) (wrap s))

def blockSpec (l : LoopSpec) (t : TileSpec) : LoopSpec :=
  { l with var := tiledName l.var, attr := t.battr, index := none, post := false,
           step := some (blockStrideExpr l t.T) }

/-- F25 repaired: bound `(xT ± wrap(stride))` -/
def innerSpec (l : LoopSpec) (t : TileSpec) : LoopSpec :=
  let xT := Expr.var (tiledName l.var)
  let stride := wrap (blockStrideExpr l t.T)
  { l with attr := t.iattr, index := none, init := xT,
           cmp := l.cmp.strict,
           bound := wrap (.bin (if l.positive then "+" else "-") xT stride) }

def innerSpecOld (l : LoopSpec) (t : TileSpec) : LoopSpec :=
  let xT := Expr.var (tiledName l.var)
  { innerSpec l t with bound := wrap (.bin (if l.positive then "+" else "-") xT t.T) }

def checkExpr (l : LoopSpec) (v : String) : Expr :=
  if l.boundOnRight then .bin (cmpText l.cmp) (.var v) l.bound else .bin (cmpText l.cmp) l.bound (.var v)

inductive Node
  | loop (l : LoopSpec)
  | cond (e : Expr)
deriving Repr, Inhabited

def expandTile (l : LoopSpec) (t : TileSpec) : List Node :=
  [.loop (blockSpec l t), .loop (innerSpec l t)] ++ (if t.check then [.cond (checkExpr l l.var)] else [])

def Node.isOuter : Node → Bool
  | .loop l => l.attr == .outer
  | _ => false

/-- `tile::floatOuterLoopUp` on a perfect nest kept as a list (outermost first): `above` are the
    statements enclosing the freshly created block loop `b`, innermost last.  Walk up over single-child
    statements that are not `@outer`; if that reaches an `@outer` loop that is not the direct parent,
    re-insert `b` directly below it. -/
def floatUp (above : List Node) (b : Node) : List Node :=
  if !b.isOuter then above ++ [b] else
  let rev := above.reverse
  let skipped := rev.takeWhile (fun n => !n.isOuter)
  let rest := rev.dropWhile (fun n => !n.isOuter)
  match rest with
  | [] => above ++ [b]                          -- ran off the kernel: nothing moves
  | _ => if skipped.isEmpty then above ++ [b]   -- direct parent is already @outer
         else rest.reverse ++ [b] ++ skipped.reverse

/-- all `@tile` loops of a perfect nest expanded, outermost first, each followed by its float-up -/
def expandNest : List (LoopSpec × Option TileSpec) → List Node → List Node
  | [], acc => acc
  | (l, none) :: r, acc => expandNest r (acc ++ [.loop l])
  | (l, some t) :: r, acc =>
    match expandTile l t with
    | b :: tl => expandNest r (floatUp acc b ++ tl)
    | [] => expandNest r acc

/-! ### the compile-time range check of the oklForStatement constructor -/

/-- `exprNode::canEvaluate` on the operand language: no variables -/
def isConst : Expr → Bool
  | .var _ => false
  | .lit _ => true
  | .paren e => isConst e
  | .cast _ => false            -- parenCastNode does not override canEvaluate()
  | .un _ e => isConst e
  | .bin _ l r => isConst l && isConst r
  | .tern c t f => isConst c && isConst t && isConst f
  | .sub a i => isConst a && isConst i

/-- "OKL for loop range is empty or infinite!": when the iteration count can be evaluated at compile time and
    is not positive, the loop is rejected (and with it the kernel, by every backend) -/
def constRejected (l : LoopSpec) : Bool :=
  isConst (countExpr l) && decide (eval (fun _ => 0) (countExpr l) ≤ 0)

/-- "OKL for loop step cannot be zero" (fix F60): a compile-time constant step that evaluates to 0 -/
def zeroStep (l : LoopSpec) : Bool :=
  match l.step with
  | some s => isConst s && decide (eval (fun _ => 0) s = 0)
  | none => false

/-- `iteratorOnSmallerSide == positiveUpdate` (fix F70): the update has to move the iterator towards the bound -/
def directionOk (l : LoopSpec) : Bool :=
  (match l.cmp with | .lt | .le => l.boundOnRight | _ => !l.boundOnRight) == l.positive

/-- the validity checks of the `oklForStatement` constructor that depend on the header's operands -/
def loopRejected (l : LoopSpec) : Bool := zeroStep l || !directionOk l || constRejected l

/-- a nest is rejected if an OKL loop or a `@tile` loop (tile.cpp validates with oklForStatement too) is -/
def nestRejected (specs : List (LoopSpec × Option TileSpec)) : Bool :=
  specs.any fun (l, t) => (l.attr != .none || t.isSome) && loopRejected l

/-! ### OKL loop indices and the lines of each translation -/

/-- `oklForStatement::getOklLoopIndex`: the explicit attribute argument, else the number of loops with
    the same attribute nested inside -/
def oklIndex (l : LoopSpec) (inside : List Node) : Nat :=
  match l.index with
  | some k => k
  | none => (inside.filter fun n => match n with
      | .loop m => m.attr == l.attr
      | _ => false).length

def typeText (t : String) : String := if t == "long" then "long int" else t

def updateText (l : LoopSpec) : String :=
  match l.step with
  | some s => l.var ++ (if l.positive then " += " else " -= ") ++ print s
  | none =>
    let op := if l.positive then "++" else "--"
    if l.post then l.var ++ op else op ++ l.var

def forText (l : LoopSpec) : String :=
  "for (" ++ typeText l.ityp ++ " " ++ l.var ++ " = " ++ print l.init ++ "; "
    ++ print (checkExpr l l.var) ++ "; " ++ updateText l ++ ")"

def xyz (k : Nat) : String := match k with | 0 => "x" | 1 => "y" | _ => "z"

/-- `get{Outer,Inner}Iterator` of each backend, from the table regenerated out of cuda.cpp, opencl.cpp,
    metal.cpp, dpcpp.cpp (translate/gen_loops.py) -/
def magicName (mode : String) (outer : Bool) (k : Nat) : String :=
  match Gen.magicTable.find? (fun r => r.1 == mode && r.2.1 == outer) with
  | some (_, _, pre, suf, kind) =>
    pre ++ (if kind == "xyz" then xyz k else if kind == "rev" then toString (2 - k) else toString k) ++ suf
  | none => "?"

def joinLines (ls : List String) : String :=
  if ls.isEmpty then "-" else " ;; ".intercalate ls

/-- Serial / OpenMP keep every loop; OpenMP puts its pragma before each outermost `@outer` loop -/
def hostLines (omp : Bool) : List Node → Bool → List String
  | [], _ => []
  | .cond e :: r, seenOuter => ("if (" ++ print e ++ ")") :: hostLines omp r seenOuter
  | .loop l :: r, seenOuter =>
    let pragma := if omp && l.attr == .outer && !seenOuter then ["#pragma omp parallel for"] else []
    pragma ++ [forText l] ++ hostLines omp r (seenOuter || l.attr == .outer)

/-- device source: every OKL loop becomes `{ T var = value(magic iterator); … }` -/
def deviceLines (mode : String) : List Node → List String
  | [] => []
  | .cond e :: r => ("if (" ++ print e ++ ")") :: deviceLines mode r
  | .loop l :: r =>
    (match l.attr with
     | .none => forText l
     | a => typeText l.ityp ++ " " ++ l.var ++ " = "
              ++ print (valueExpr l (magicName mode (a == .outer) (oklIndex l r))) ++ ";")
    :: deviceLines mode r

/-- host launcher: `outer.dims`, `inner.dims`, then per OKL loop of the path its init declaration and
    `outer[k] = count;` -/
def launcherLines (ns : List Node) : List String :=
  let okl := ns.filterMap fun n => match n with
    | .loop l => if l.attr == .none then none else some l
    | _ => none
  let nOuter := (okl.filter fun l => l.attr == .outer).length
  let nInner := (okl.filter fun l => l.attr == .inner).length
  let rec go : List Node → List String
    | [] => []
    | .cond _ :: r => go r
    | .loop l :: r =>
      (if l.attr == .none then [] else
        [typeText l.ityp ++ " " ++ l.var ++ " = " ++ print l.init ++ ";",
         (if l.attr == .outer then "outer[" else "inner[") ++ toString (oklIndex l r) ++ "] = "
           ++ print (countExpr l) ++ ";"]) ++ go r
  ["outer.dims = " ++ toString nOuter ++ ";", "inner.dims = " ++ toString nInner ++ ";"] ++ go ns

def launchModes : List String := ["cuda", "hip", "opencl", "metal", "dpcpp"]

/-- `withLauncher::extractLoopAsKernel`: for an `@inner` loop whose count is not a compile-time constant but
    mentions `_occa_tiled_` (the in-block loop of a `@tile(…, @inner)`), the `__launch_bounds__` value is read
    off the *printed* count at its first digit 1-9; without such a digit `OCCA_ERROR("@tile size is
    undefined!")` throws and the launcher backends fail (Serial/OpenMP do not run this code). -/
def launchBoundsThrows (ns : List Node) : Bool :=
  ns.any fun n => match n with
    | .loop l =>
      let txt := print (countExpr l)
      l.attr == .inner && !isConst (countExpr l) && (txt.splitOn "_occa_tiled_").length > 1
        && !txt.any (fun c => '1' ≤ c && c ≤ '9')
    | _ => false

def rejectedLine : String :=
  "ok" ++ String.join (["serial", "openmp", "cuda", "hip", "opencl", "metal", "dpcpp"].map fun m => " @@ " ++ m ++ " ERR")

/-- the observation line of harness/h_loops.cpp for a kernel whose nest is `ns` -/
def kernelLine (ns : List Node) : String :=
  "ok @@ serial " ++ joinLines (hostLines false ns false)
    ++ " @@ openmp " ++ joinLines (hostLines true ns false)
    ++ String.join (launchModes.map fun m =>
         if launchBoundsThrows ns then " @@ " ++ m ++ " ERR" else
         " @@ " ++ m ++ " " ++ joinLines (deviceLines m ns)
         ++ " @@ " ++ m ++ ".launcher " ++ joinLines (launcherLines ns))

/-! ### @dim (dim.cpp, F26 repaired) -/

/-- `dim::applyCodeTransformations`: `index = args[order[n-1]]`, then for `i = n-2 … 0`
    `index = parens(args[o]) + parens(parens(dims[o]) * parens(index))` -/
def dimIndexExpr (dims args : List Expr) (order : List Nat) : Expr :=
  match order.reverse with
  | [] => .lit 0
  | last :: restRev =>
    restRev.foldl (fun index o =>
      .bin "+" (wrap (args.getD o (.lit 0))) (wrap (.bin "*" (wrap (dims.getD o (.lit 0))) (wrap index))))
      (args.getD last (.lit 0))

/-- before fix F26: `arg + parens(…)` -/
def dimIndexExprOld (dims args : List Expr) (order : List Nat) : Expr :=
  match order.reverse with
  | [] => .lit 0
  | last :: restRev =>
    restRev.foldl (fun index o =>
      .bin "+" (args.getD o (.lit 0)) (wrap (.bin "*" (wrap (dims.getD o (.lit 0))) (wrap index))))
      (args.getD last (.lit 0))

end Occa.LoopExpr
