/-
C23 — model of occa::range, occa::array<int> (typelessArray) and occa::forLoop on the Serial and
OpenMP devices, written after
  include/occa/functional/typelessArray.hpp, array.hpp, range.hpp, src/functional/range.cpp,
  src/loops/iteration.cpp, typelessForLoop.cpp.
The integer formulas (`rangeLength`, the safe tile sizes, the block arithmetic of the CPU reduction and
the three loops the OKL translator makes out of the tiled map loop) are NOT written here: they are
generated from the current sources into `OccaGen/RangeFns.lean` (translate/gen_range.py).
Core Lean only (the driver links this file).
-/
import OccaGen.RangeFns

namespace Occa.Functional
open Occa Occa.Gen

/-! ## loops -/

/-- the values `x` of `for (x = a; x < b; x += st)` (`st > 0`) or `for (x = a; x > b; x += st)`
    (`st < 0`), at most `fuel` of them; `st = 0` gives nothing. -/
def loopVals : Nat → Int → Int → Int → List Int
  | 0, _, _, _ => []
  | f + 1, x, b, st =>
    if (0 < st ∧ x < b) ∨ (st < 0 ∧ b < x) then x :: loopVals f (x + st) b st else []

/-- `|b - a|` iterations always suffice because `|st| ≥ 1` (lemma `loopVals_fuel` in the proofs) -/
def forVals (a b st : Int) : List Int := loopVals (b - a).natAbs a b st

/-! ## occa::range -/

structure Range where
  start : Int
  stop : Int
  step : Int
  deriving Repr, DecidableEq

/-- `range(end)` -/
def Range.mk1 (e : Int) : Range := ⟨0, e, if e ≥ 0 then 1 else -1⟩
/-- `range(start, end)` -/
def Range.mk2 (s e : Int) : Range := ⟨s, e, if e ≥ s then 1 else -1⟩
/-- `range(start, end, step)`: a zero step is replaced by 1 -/
def Range.mk3 (s e st : Int) : Range := ⟨s, e, if st ≠ 0 then st else 1⟩

/-- `range::length()` — the generated function -/
def Range.length (r : Range) : Int := rangeLength r.start r.stop r.step

/-- the value the kernels compute for position `i`: `occa_range_start + (occa_range_step * INDEX)` -/
def Range.value (r : Range) (i : Int) : Int := r.start + r.step * i

/-- what the array kernels iterate over: positions `0 .. length-1` mapped through `value` -/
def Range.values (r : Range) : List Int := (List.range r.length.toNat).map fun (i : Nat) => r.value (i : Int)

/-- the sequential loop a range stands for -/
def Range.seq (r : Range) : List Int := forVals r.start r.stop r.step

/-! ## the tiled map loop (typelessArray::getMapArrayScope + buildCpuMapTiledForLoops + @tile) -/

/-- result of an operation: a value, an `occa::exception`, or a trap (signal) -/
inductive Res (α : Type) where
  | ok : α → Res α
  | err : Res α
  | trap : Res α
  deriving Repr, DecidableEq

/-- the indices `i` for which the translated map kernel runs its body, in Serial order.
    `ts`, `ti` are the compile-time defines OCCA_ARRAY_TILE_SIZE / OCCA_ARRAY_TILE_ITERATIONS;
    all nine loop expressions come from the OKL translator's output. -/
def mapIndicesGen (len ts ti : Int) : List Int :=
  (forVals (mapBlockInit len ts ti) (mapBlockBound len ts ti) (mapBlockStep len ts ti)).flatMap fun blk =>
    (forVals (mapTileInit len ts ti blk) (mapTileBound len ts ti blk) (mapTileStep len ts ti blk)).flatMap fun tile =>
      (forVals (mapInnerInit len ts ti blk tile) (mapInnerBound len ts ti blk tile)
        (mapInnerStep len ts ti blk tile)).filter fun i => decide (i < len)

/-- the same loop nest written by hand, with the bound of the in-tile loop as a parameter:
    `scaled = true` is `blk + T*step` (what @tile should produce), `false` is `blk + T` (defect F25) -/
def mapIndicesP (scaled : Bool) (len ts ti : Int) : List Int :=
  (forVals 0 len (ts * ti * ti)).flatMap fun blk =>
    (forVals blk (blk + (if scaled then ts * ti * ti else ts * ti)) ti).flatMap fun tile =>
      (forVals tile (tile + ti) 1).filter fun i => decide (i < len)

/-- does the array code return early for an empty array (the repair of F27)?  Without it the scope
    computation divides by `safeTileSize = 0`. -/
def mapVisit (emptyGuard : Bool) (len tileSize tileIterations : Int) : Res (List Int) :=
  if emptyGuard && len == 0 then .ok []
  else if mapTileDivisor len tileSize == 0 then .trap
  else .ok (mapIndicesGen len (mapSafeTileSize len tileSize) (mapSafeTileIterations len tileSize tileIterations))

/-! ## the CPU reduction (typelessCpuReduce + hostReduction) -/

/-- partial result of block `k`: fold of `f` over the block's indices starting from `init` -/
def cpuPartial (len : Int) (init : Int) (f : Int → Int → Int) (k : Int) : Int :=
  (forVals (cpuStartIndex len k) (cpuEndIndex len k) 1).foldl f init

/-- all partial results, then the host loop `r = values[0]; for i ≥ 1: r = comb r values[i]` -/
def cpuReduce (len : Int) (init : Int) (f : Int → Int → Int) (comb : Int → Int → Int) : Int :=
  let ps := (List.range cpuReduceBlocks.toNat).map fun (k : Nat) => cpuPartial len init f (k : Int)
  match ps with
  | [] => init
  | p :: rest => rest.foldl comb p

/-- reduction of an explicit list of blocks (used by the theorems: any partition into consecutive blocks) -/
def reduceBlocks {α β : Type} (f : β → α → β) (comb : β → β → β) (init : β) (blocks : List (List α)) : β :=
  match blocks.map (fun b => b.foldl f init) with
  | [] => init
  | p :: rest => rest.foldl comb p

/-! ## occa::forLoop -/

/-- one iteration of a forLoop: a range or an index array (its contents) -/
inductive Iter where
  | range : Range → Iter
  | indices : List Int → Iter
  deriving Repr

/-- the values `iteration::buildRangeForLoop` / `buildIndexForLoop` visit, in order.  `stepIsAbs`
    (generated) says what follows the `-=` of a descending loop: `|step|` (repaired) or the negative
    step itself (defect F61: the loop counts upwards and never meets its bound). -/
def Iter.vals (stepIsAbs : Bool) : Iter → Res (List Int)
  | .indices xs => .ok xs
  | .range r =>
    if r.step > 0 then .ok (forVals r.start r.stop r.step)
    else if stepIsAbs then .ok (forVals r.start r.stop r.step)
    else if r.start > r.stop then .trap       -- `for (i = start; i > end; i -= step)` with step < 0 runs away
    else .ok []

/-- cartesian product in generation order: the first iteration is the outermost loop -/
def tuples : List (List Int) → List (List Int)
  | [] => [[]]
  | d :: ds => d.flatMap fun x => (tuples ds).map fun t => x :: t

/-- tiled range loop `@tile(T, @outer, @inner)` (check = true) over `for (x = s; x < e; x += st)`, `st > 0`,
    resp. the descending form; `scaled` as in `mapIndicesP` -/
def tiledVals (scaled : Bool) (s e st T : Int) : List Int :=
  if st > 0 then
    (forVals s e (T * st)).flatMap fun blk =>
      (forVals blk (blk + (if scaled then T * st else T)) st).filter fun x => decide (x < e)
  else
    (forVals s e (T * st)).flatMap fun blk =>
      (forVals blk (blk + (if scaled then T * st else -T)) st).filter fun x => decide (x > e)

/-! ## arrays with aliasing: buffers and views -/

structure Arr where
  buf : Nat
  off : Nat
  len : Nat
  ts : Int := -1         -- tileSize
  ti : Int := -1         -- tileIterations
  dev : Bool := true     -- device_ initialised
  deriving Repr

structure St where
  bufs : List (List Int) := []
  slots : List (Option Arr) := List.replicate 8 none
  flen : List (Option Nat) := List.replicate 4 none      -- float slots: only the length is modelled
  dlen : List (Option Nat) := List.replicate 4 none
  omp : Bool := false
  deriving Repr

def St.slot (s : St) (k : Nat) : Option Arr := (s.slots.getD k none)

def St.read (s : St) (a : Arr) : List Int := ((s.bufs.getD a.buf []).drop a.off).take a.len

def listSetRange (xs : List Int) (off : Nat) (ys : List Int) : List Int :=
  xs.take off ++ ys ++ xs.drop (off + ys.length)

def St.write (s : St) (a : Arr) (ys : List Int) : St :=
  { s with bufs := s.bufs.set a.buf (listSetRange (s.bufs.getD a.buf []) a.off (ys.take a.len)) }

def St.setSlot (s : St) (k : Nat) (a : Option Arr) : St := { s with slots := s.slots.set k a }

/-- a fresh buffer holding `xs`; returns the view -/
def St.alloc (s : St) (xs : List Int) : St × Arr :=
  ({ s with bufs := s.bufs ++ [xs] }, { buf := s.bufs.length, off := 0, len := xs.length })

/-! ### the function menus of the harness (h_functional.cpp) -/

def mapFn (F p q : Int) (xs : List Int) (i : Nat) : Int :=
  let v := xs.getD i 0
  if F == 0 then v * p + q
  else if F == 1 then v + i * p + q
  else v * p - xs.getD 0 0 + q

def predFn (P p : Int) (xs : List Int) (i : Nat) : Bool :=
  let v := xs.getD i 0
  if P == 0 then decide (v > p)
  else if P == 1 then decide (v + i > p)
  else if P == 2 then v == xs.getD 0 0 + p
  else if P == 3 then (i : Int) == p
  else v == p

def b2i (b : Bool) : Int := if b then 1 else 0

/-- `acc ↦ fn(acc, value, index, values)` for reduction type `R` and function `G` -/
def redFn (R G p : Int) (xs : List Int) (acc : Int) (i : Int) : Int :=
  let v := xs.getD i.toNat 0
  if G == 1 then acc + v * i
  else if G == 2 then acc + b2i (decide (v > p))
  else if G == 3 then acc - v
  else if G == 4 then (let m := if v < 0 then -v else v; if acc > m then acc else m)
  else if R == 0 then acc + v
  else if R == 1 then acc * v
  else if R == 2 then cor acc v
  else if R == 3 then cand acc v
  else if R == 4 then cxor acc v
  else if R == 5 then b2i (acc != 0 || v != 0)
  else if R == 6 then b2i (acc != 0 && v != 0)
  else if R == 7 then (if acc < v then acc else v)
  else (if acc > v then acc else v)

/-- `functional::hostReduction` step for reduction type `R` -/
def hostComb (R : Int) (a b : Int) : Int :=
  if R == 0 then a + b
  else if R == 1 then a * b
  else if R == 2 then cor a b
  else if R == 3 then cand a b
  else if R == 4 then cxor a b
  else if R == 5 then b2i (a != 0 || b != 0)
  else if R == 6 then b2i (a != 0 && b != 0)
  else if R == 7 then (if a < b then a else b)
  else (if a > b then a else b)

/-- `buildReductionInitValue`: `none` = the first element (`occa_array_ptr[0]` / `occa_range_start`) -/
def redInit (R : Int) : Option Int :=
  if R == 0 then some 0 else if R == 1 then some 1 else if R == 2 then some 0
  else if R == 4 then some 0 else if R == 5 then some 0 else none

/-! ### typeless operations over an indexable (`len`, tile settings) -/

/-- the visit order seen by one observer: Serial order -/
def visit (guard : Bool) (a : Arr) : Res (List Nat) :=
  match mapVisit guard a.len a.ts a.ti with
  | .ok is => .ok (is.map Int.toNat)
  | .err => .err
  | .trap => .trap

def everyOf (vis : List Nat) (f : Nat → Bool) : Bool := vis.all f

/-- `occa_array_return[0] = i` for every visited match: the last one wins (Serial) -/
def findLast (vis : List Nat) (f : Nat → Bool) : Int :=
  vis.foldl (fun r i => if f i then (i : Int) else r) (-1)

def countMatches (vis : List Nat) (f : Nat → Bool) : Nat := (vis.filter f).length

/-- `occa_array_output[i] = fn(i)` for the visited `i`, in order, reading the CURRENT state of the
    input (matters when input and output share memory) -/
def mapInto (s : St) (src dst : Arr) (vis : List Nat) (fn : List Int → Nat → Int) : St :=
  vis.foldl (fun s i =>
    if i < dst.len then
      let cur := s.read dst
      s.write dst (cur.set i (fn (s.read src) i))
    else s) s


/-! ## occa::array<int> operations (array.hpp), on views into shared buffers -/

/-- contents of freshly allocated device memory as the ASan build shows it (malloc fill byte 0xbe);
    only visible where the map kernel skips elements (defect F25) or after a growing `resize` -/
def poison : Int := -1094795586

/-- `array::resize(size)`: same length: nothing; otherwise a NEW allocation holding the common prefix -/
def resizeArr (s : St) (a : Arr) (n : Nat) : St × Arr :=
  if n == a.len then (s, a)
  else
    let old := s.read a
    let (s', b) := s.alloc (old.take n ++ List.replicate (n - old.length) poison)
    (s', { b with ts := a.ts, ti := a.ti })

/-- `setTileSize(ts, ti)`: non-positive arguments are ignored -/
def setTile (a : Arr) (ts ti : Int) : Arr :=
  let a := if ts > 0 then { a with ts := ts } else a
  if ti > 0 then { a with ti := ti } else a

/-- `typelessMapTo` into `dst` (already of the right length) -/
def mapToArr (s : St) (src dst : Arr) (fn : List Int → Nat → Int) : Res St :=
  match visit emptyGuard src with
  | .ok vis => .ok (mapInto s src dst vis fn)
  | .err => .err
  | .trap => .trap

/-- `array::map<int>`: a fresh output array of the same length, default tiling -/
def mapArr (s : St) (src : Arr) (fn : List Int → Nat → Int) : Res (St × Arr) :=
  let (s1, out) := s.alloc (List.replicate src.len poison)
  match mapToArr s1 src out fn with
  | .ok s2 => .ok (s2, out)
  | .err => .err
  | .trap => .trap

/-- start value of a reduction without `localInit`: identity or first element -/
def startValue (R : Int) (first : Int) : Int :=
  match redInit R with
  | some v => v
  | none => if R == 6 then b2i (first != 0) else first

/-- `typelessReduce` on the CPU; `val0` is `occa_array_ptr[0]` / `occa_range_start` -/
def reduceGen (len : Nat) (R : Int) (useInit : Bool) (init : Int) (val0 : Int)
    (f : Int → Int → Int) (comb : Int → Int → Int) : Res Int :=
  if emptyGuard && len == 0 then
    if useInit then .ok init
    else match redInit R with
      | some v => .ok v
      | none => .err
  else
    .ok (cpuReduce len (if useInit then init else startValue R val0) f comb)

def minI (a b : Int) : Int := if a < b then a else b
def maxI (a b : Int) : Int := if a > b then a else b

/-- `array::indexOf` -/
def indexOfArr (xs : List Int) (target : Int) : Res Int :=
  let n : Int := xs.length
  match reduceGen xs.length 7 true n (xs.getD 0 0)
      (fun acc i => if xs.getD i.toNat 0 != target || decide (acc ≤ i) then acc else i) minI with
  | .ok r => .ok (if r < n then r else -1)
  | .err => .err
  | .trap => .trap

/-- `array::lastIndexOf` -/
def lastIndexOfArr (xs : List Int) (target : Int) : Res Int :=
  reduceGen xs.length 8 true (-1) (xs.getD 0 0)
    (fun acc i => if xs.getD i.toNat 0 != target || decide (acc ≥ i) then acc else i) maxI

/-! ## observations -/

def showInts (xs : List Int) : String :=
  if xs.isEmpty then "-" else " ".intercalate (xs.map toString)

def showBool (b : Bool) : String := if b then "1" else "0"

/-- lexicographic order on tuples -/
def tupleLt : List Int → List Int → Bool
  | [], [] => false
  | [], _ => true
  | _, [] => false
  | a :: as, b :: bs => if a < b then true else if b < a then false else tupleLt as bs

def insertTuple (t : List Int) : List (List Int) → List (List Int)
  | [] => [t]
  | u :: us => if tupleLt u t then u :: insertTuple t us else t :: u :: us

def sortTuples (ts : List (List Int)) : List (List Int) := ts.foldl (fun acc t => insertTuple t acc) []

/-- run-length encode a sorted list -/
def rle : List (List Int) → List (List Int × Nat)
  | [] => []
  | t :: ts =>
    match rle ts with
    | (u, n) :: rest => if u == t then (u, n + 1) :: rest else (t, 1) :: (u, n) :: rest
    | [] => [(t, 1)]

def showTuples (ts : List (List Int)) : String :=
  let groups := rle (sortTuples ts)
  if groups.isEmpty then "-"
  else " ".intercalate (groups.map fun (t, n) => ",".intercalate (t.map toString) ++ "x" ++ toString n)

end Occa.Functional
