/-
Model of the kernel-cache staging protocol of occa (C08 / C09).

  src/occa/internal/io/utils.cpp    io::write, io::sync, io::stageFile(s), getStagedTempFilename,
                                    moveStagedTempFile, isFile, c_read
  src/utils/io.cpp                  io::exists (= fopen "rb")
  src/occa/internal/io/cache.cpp    io::cacheFile, io::writeBuildFile
  src/occa/internal/utils/sys.cpp   sys::mkpath, sys::compilerVendor (with the staged `output`, fix F35), sys::rmrf
  src/occa/internal/modes/openmp/utils.cpp   openmp::compilerFlag
  src/occa/internal/modes/serial/device.cpp  serial::device::buildKernel, parseFile, buildKernelFromBinary
  src/occa/internal/modes/openmp/device.cpp  openmp::device::buildKernel
  src/core/device.cpp               device::buildKernel, buildKernelFromString, applyDependencyHash

The file system is a map from paths to files; a path is (hash directory, optional staged-temp token,
base name): `<dir>/<base>` is a *final* name, `<dir>/<tok>.<base>` (tok = 16 hex digits of
hash_t::random()) a *temp* name.  A file has its bytes and a flag `closed` (false while the creating
process still has it open for writing).  Every syscall of the build is one atomic `Op`.

What is NOT in the model (named in design-notes/C08.md): page cache / fsync ordering under power loss
(`fsync` is a step without effect), NFS rename semantics, the compiler's own temporary files, the
dynamic loader, directories as a precondition of `creat`, `rmrf` as a sequence of unlinks.
-/
namespace Occa.BuildFS

abbrev Bytes := List Nat

structure Path where
  dir : String
  tmp : Option String
  base : String
deriving DecidableEq, Repr, Inhabited

def Path.isTemp (p : Path) : Bool := p.tmp.isSome
/-- the final name a temp name is staged for: `<dir>/<tok>.<base>` ↦ `<dir>/<base>` -/
def Path.final (p : Path) : Path := { p with tmp := none }
def Path.withTok (p : Path) (tok : String) : Path := { p with tmp := some tok }

structure File where
  bytes : Bytes
  closed : Bool
deriving DecidableEq, Repr

structure FS where
  files : Path → Option File
  dirs : String → Bool

def FS.empty : FS := ⟨fun _ => none, fun _ => false⟩
def FS.setFile (fs : FS) (p : Path) (f : Option File) : FS :=
  { fs with files := fun q => if q = p then f else fs.files q }
def FS.setDir (fs : FS) (d : String) (b : Bool) : FS :=
  { fs with dirs := fun e => if e = d then b else fs.dirs e }
def FS.present (fs : FS) (p : Path) : Bool := (fs.files p).isSome

/-- the atomic steps (one syscall each; `exec` = a compiler child process collapsed to one step,
    `run` = executing a cached probe binary, `rmrf` = sys::rmrf of a hash directory) -/
inductive Op where
  | statDir (d : String)
  | mkdir (d : String)
  | creat (p : Path)                    -- open(O_WRONLY|O_CREAT|O_TRUNC)
  | append (p : Path) (bs : Bytes)      -- write(2) on the fd of `creat p`
  | close (p : Path)
  | fsync (p : Path)
  | fsyncDir (d : String)
  | rename (a b : Path)
  | stat (p : Path)                     -- isFile
  | openRead (p : Path)                 -- open(O_RDONLY): io::exists, c_read, dlopen, sync
  | exec (src : Path) (outs : List Path)
  | run (p : Path)
  | rmrf (d : String)
deriving Repr

/-- what the artefacts are supposed to contain -/
structure Spec where
  /-- `valid p bs`: `bs` is a complete, correct content of the final-named artefact `p` -/
  valid : Path → Bytes → Bool
  /-- the (deterministic) compiler: content written to an output with base name `b` for source bytes `s` -/
  compile : String → Bytes → Bytes
  /-- base name of the source an output path is compiled from -/
  recipe : Path → Option String

/-- compiling a correct source gives a correct output -/
def Spec.Coherent (S : Spec) : Prop :=
  ∀ (src out : Path) (s : Bytes), src.tmp = none → S.recipe out.final = some src.base → src.dir = out.dir →
    S.valid src s = true → S.valid out.final (S.compile out.base s) = true

def applyOp (S : Spec) (fs : FS) : Op → FS
  | .statDir _ => fs
  | .mkdir d => fs.setDir d true
  | .creat p => fs.setFile p (some ⟨[], false⟩)
  | .append p bs =>
      match fs.files p with
      | some ⟨b, false⟩ => fs.setFile p (some ⟨b ++ bs, false⟩)
      | _ => fs
  | .close p =>
      match fs.files p with
      | some f => fs.setFile p (some ⟨f.bytes, true⟩)
      | none => fs
  | .fsync _ => fs
  | .fsyncDir _ => fs
  | .rename a b =>
      match fs.files a with
      | some f => (fs.setFile b (some f)).setFile a none
      | none => fs
  | .stat _ => fs
  | .openRead _ => fs
  | .exec src outs =>
      match fs.files src with
      | some f => outs.foldl (fun acc o => acc.setFile o (some ⟨S.compile o.base f.bytes, true⟩)) fs
      | none => fs
  | .run _ => fs
  | .rmrf d => { files := fun p => if p.dir = d then none else fs.files p,
                 dirs := fun e => if e = d then false else fs.dirs e }

/-- what the syscall returns to the caller (success / exists) -/
def result (fs : FS) : Op → Bool
  | .statDir d => fs.dirs d
  | .stat p => fs.present p
  | .openRead p => fs.present p
  | .rename a _ => fs.present a
  | .exec src _ => fs.present src
  | .run p => fs.present p
  | _ => true

structure Ev where
  pid : Nat
  op : Op
  res : Bool
deriving Repr

abbrev Trace := List Ev

def apply (S : Spec) (t : Trace) (fs : FS) : FS := t.foldl (fun fs e => applyOp S fs e.op) fs

/-- every existing final-named artefact is complete and has a correct content -/
def Good (S : Spec) (fs : FS) : Prop :=
  ∀ p f, p.tmp = none → fs.files p = some f → f.closed = true ∧ S.valid p f.bytes = true

/-- decidable version on a list of paths (the driver evaluates it on the paths a trace mentions) -/
def goodOn (S : Spec) (ps : List Path) (fs : FS) : Bool :=
  ps.all fun p => p.isTemp || match fs.files p with
    | none => true
    | some f => f.closed && S.valid p f.bytes

/-! ### the staging discipline -/

/-- what the discipline remembers about a temp name -/
inductive TS where
  | opened (bs : Bytes)     -- created by `creat`, `bs` written so far, not yet closed
  | closedW (bs : Bytes)    -- written and closed
  | compiled                -- produced by a compiler child for this name's final artefact
  | gone                    -- renamed away
deriving DecidableEq, Repr

/-- owner and state of every temp name that has been used so far -/
abbrev AS := Path → Option (Nat × TS)

def AS.empty : AS := fun _ => none
def AS.set (st : AS) (p : Path) (v : Nat × TS) : AS := fun q => if q = p then some v else st q

/-- may process `pid` read temp name `p`? only its own, completely written one -/
def ownedClosed (st : AS) (pid : Nat) (p : Path) : Bool :=
  match st p with
  | some (o, .closedW _) => o = pid
  | some (o, .compiled) => o = pid
  | _ => false

def owned (st : AS) (pid : Nat) (p : Path) : Bool :=
  match st p with
  | some (o, _) => o = pid
  | none => false

def execOuts (S : Spec) (st : AS) (pid : Nat) (src : Path) : List Path → Option AS
  | [] => some st
  | o :: r =>
      if o.isTemp && (st o).isNone && (o.dir = src.dir) && (S.recipe o.final = some src.base) then
        execOuts S (st.set o (pid, .compiled)) pid src r
      else none

/-- one step of the discipline; `none` = rejected -/
def acceptStep (S : Spec) (st : AS) (e : Ev) : Option AS :=
  match e.op with
  | .statDir _ | .mkdir _ | .fsyncDir _ | .rmrf _ => some st
  | .creat p =>
      -- only temp names are ever created, and never a temp name that was used before (by anyone)
      if p.isTemp && (st p).isNone then some (st.set p (e.pid, .opened [])) else none
  | .append p bs =>
      match st p with
      | some (o, .opened cur) => if o = e.pid then some (st.set p (o, .opened (cur ++ bs))) else none
      | _ => none
  | .close p =>
      match st p with
      | some (o, .opened cur) => if o = e.pid then some (st.set p (o, .closedW cur)) else none
      | _ => none
  | .fsync p => if !p.isTemp || ownedClosed st e.pid p then some st else none
  | .stat p => if !p.isTemp || owned st e.pid p then some st else none
  | .openRead p => if !p.isTemp || ownedClosed st e.pid p then some st else none
  | .run p => if !p.isTemp then some st else none
  | .rename a b =>
      -- a final name is only ever the target of a rename from ITS temp name, created, completely
      -- written (with a correct content) and closed by the same process, and not renamed before
      if a.isTemp && !b.isTemp && (a.final = b) then
        match st a with
        | some (o, .closedW bs) => if o = e.pid && S.valid b bs then some (st.set a (o, .gone)) else none
        | some (o, .compiled) => if o = e.pid then some (st.set a (o, .gone)) else none
        | _ => none
      else none
  | .exec src outs => if !src.isTemp then execOuts S st e.pid src outs else none

def acceptsFrom (S : Spec) (st : AS) : Trace → Option AS
  | [] => some st
  | e :: t => match acceptStep S st e with
      | some st' => acceptsFrom S st' t
      | none => none

def accepts (S : Spec) (t : Trace) : Bool := (acceptsFrom S AS.empty t).isSome

def noRmrf (t : Trace) : Bool := t.all fun e => match e.op with | .rmrf _ => false | _ => true
def isExec : Op → Bool | .exec _ _ => true | _ => false
def noExec (t : Trace) : Bool := t.all fun e => !isExec e.op

/-- the recorded results of a trace are the ones the model computes -/
def consistentFrom (S : Spec) (fs : FS) : Trace → Bool
  | [] => true
  | e :: t => (result fs e.op == e.res) && consistentFrom S (applyOp S fs e.op) t

/-! ### programs: the build as an interaction with the file system -/

inductive Prog (α : Type) where
  | ret : α → Prog α
  | fail : Prog α                         -- an occa::exception leaves the build
  | act : Op → (Bool → Prog α) → Prog α

namespace Prog
def bind {α β : Type} : Prog α → (α → Prog β) → Prog β
  | .ret a, f => f a
  | .fail, _ => .fail
  | .act o k, f => .act o (fun r => (k r).bind f)
instance : Monad Prog where
  pure := .ret
  bind := Prog.bind
end Prog

def op (o : Op) : Prog Bool := .act o .ret

/-- run a program alone against a file system: outcome, final file system, trace -/
def run (S : Spec) (pid : Nat) {α : Type} : Prog α → FS → Option α × FS × Trace
  | .ret a, fs => (some a, fs, [])
  | .fail, fs => (none, fs, [])
  | .act o k, fs =>
      let r := result fs o
      let (a, fs', t) := run S pid (k r) (applyOp S fs o)
      (a, fs', ⟨pid, o, r⟩ :: t)

/-- `t` is a (possibly cut short) trace of the program for SOME answers of the environment -/
inductive IsTrace (pid : Nat) {α : Type} : Prog α → Trace → Prop where
  | nil (m : Prog α) : IsTrace pid m []
  | act (o : Op) (k : Bool → Prog α) (r : Bool) (t : Trace) :
      IsTrace pid (k r) t → IsTrace pid (.act o k) (⟨pid, o, r⟩ :: t)

/-! ### the build pipeline, procedure by procedure -/

/-- io::exists: fopen(rb) -/
def ioExists (p : Path) : Prog Bool := op (.openRead p)
/-- io::isFile: stat -/
def isFile (p : Path) : Prog Bool := op (.stat p)
/-- io::read / c_read / hashFile / dlopen of a cached file: fopen (OCCA_ERROR if it fails), stat, fread -/
def readFile (p : Path) : Prog Unit :=
  .act (.openRead p) fun ok => if ok then .act (.stat p) fun _ => .ret () else .fail
/-- sys::mkpath of a hash directory -/
def mkpath (d : String) : Prog Unit :=
  .act (.statDir d) fun e => if e then .ret () else .act (.mkdir d) fun _ => .ret ()
/-- io::sync: fsync of the file and of its directory -/
def sync (p : Path) : Prog Unit :=
  .act (.openRead p) fun _ => .act (.fsync p) fun _ => .act (.fsyncDir p.dir) fun _ => .ret ()
/-- io::write: mkpath, fopen "w", fputs, fclose, io::sync -/
def ioWrite (p : Path) (c : Bytes) : Prog Unit := do
  mkpath p.dir
  let ok ← op (.creat p)
  if ok then
    (if c.isEmpty then pure () else do let _ ← op (.append p c); pure ())
    let _ ← op (.close p)
    sync p
  else .fail

/-- io::moveStagedTempFile -/
def moveStaged (t p : Path) : Prog Unit :=
  .act (.stat t) fun e =>
    if e then
      .act (.rename t p) fun ok =>
        if ok then .ret () else .act (.stat p) fun e2 => if e2 then .ret () else .fail
    else .ret ()

/-- io::stageFile(filename, skipExisting, func) -/
def stageFile (p : Path) (tok : String) (skip : Bool) (producer : Path → Prog Bool) : Prog Unit := do
  mkpath p.dir
  let e ← isFile p
  if skip && e then pure () else do
    let ok ← producer (p.withTok tok)
    if ok then moveStaged (p.withTok tok) p else pure ()

/-- io::stageFiles({f1, f2}, skipExisting, func) -/
def stageFiles2 (p1 : Path) (tok1 : String) (p2 : Path) (tok2 : String) (skip : Bool)
    (producer : Path → Path → Prog Bool) : Prog Unit := do
  mkpath p1.dir
  let e1 ← isFile p1
  mkpath p2.dir
  let e2 ← isFile p2
  if skip && e1 && e2 then pure () else do
    let ok ← producer (p1.withTok tok1) (p2.withTok tok2)
    if ok then do
      moveStaged (p1.withTok tok1) p1
      moveStaged (p2.withTok tok2) p2
    else pure ()

def writeProducer (c : Bytes) (t : Path) : Prog Bool := do ioWrite t c; pure true

/-- one kernel build of one process -/
structure Config where
  openmp : Bool
  fromString : Bool
  silent : Bool            -- kernel property `silent`: a parse failure returns NULL instead of raising
  parseOk : Bool           -- does the OKL source parse?
  kdir : String            -- hash directory of the kernel
  vdir : String            -- hash directory of the compiler-vendor probe
  odir : String            -- hash directory of the OpenMP probe
  rawBase : String         -- `<name>.raw_source.cpp`
  cppBase : String         -- `<name>.source.cpp`
  str : Bytes              -- the kernel string (string_source.cpp)
  raw : Bytes              -- header + '\n' + source
  cpp : Bytes              -- translated source
  json : Bytes             -- build.json
  vsrc : Bytes             -- findCompilerVendor.cpp with header
  vout : Bytes             -- the vendor bit, as text
  osrc : Bytes             -- compilerSupportsOpenMP.cpp with header
  oout : Bytes             -- the OpenMP flag
  ooutNA : Bytes           -- "N/A"
  toks : Nat → String      -- hash_t::random().getString() of the n-th getStagedTempFilename call site

namespace Config
def k (c : Config) (b : String) : Path := ⟨c.kdir, none, b⟩
def v (c : Config) (b : String) : Path := ⟨c.vdir, none, b⟩
def o (c : Config) (b : String) : Path := ⟨c.odir, none, b⟩
end Config

/-- device::applyDependencyHash for a kernel without #include dependencies -/
def applyDependencyHash (c : Config) : Prog Unit := do
  let e ← ioExists (c.k "build.json")
  if e then readFile (c.k "build.json") else pure ()

/-- io::cacheFile(filename, cachedName, hash, header); `src` = the origin when it lies inside the cache -/
def cacheFile (dst : Path) (tok : String) (content : Bytes) (src : Option Path) : Prog Unit := do
  let e ← isFile dst
  if e then pure () else do
    (match src with
     | some s => readFile s
     | none => pure ())
    stageFile dst tok true (writeProducer content)

/-- sys::compilerVendor (with fix F35: `output` is staged like every other artefact) -/
def compilerVendor (c : Config) (n : Nat) : Prog Unit := do
  cacheFile (c.v "findCompilerVendor.cpp") (c.toks n) c.vsrc none
  let e ← ioExists (c.v "output")
  let found ← (if e then isFile (c.v "output") else pure false)
  if found then readFile (c.v "output")
  else do
    stageFiles2 (c.v "binary") (c.toks (n+1)) (c.v "build.log") (c.toks (n+2)) true (fun tb tl => do
      let _ ← op (.exec (c.v "findCompilerVendor.cpp") [tb, tl])
      let ok ← isFile tb
      if ok then pure true else .fail)
    let _ ← op (.run (c.v "binary"))
    stageFile (c.v "output") (c.toks (n+3)) false (writeProducer c.vout)

/-- openmp::compilerFlag -/
def ompCompilerFlag (c : Config) (n : Nat) : Prog Unit := do
  cacheFile (c.o "compilerSupportsOpenMP.cpp") (c.toks n) c.osrc none
  stageFiles2 (c.o "binary") (c.toks (n+1)) (c.o "output") (c.toks (n+2)) true (fun tb to => do
    let ok ← op (.exec (c.o "compilerSupportsOpenMP.cpp") [tb])
    ioWrite to (if ok then c.oout else c.ooutNA)
    pure true)
  readFile (c.o "output")

/-- serial::device::buildKernelFromBinary(filename, kernelName, props): metadata from build.json, dlopen -/
def loadCached (c : Config) : Prog Unit := do
  let e ← isFile (c.k "build.json")
  (if e then do
    let e2 ← ioExists (c.k "build.json")
    if e2 then readFile (c.k "build.json") else pure ()
   else pure ())
  let ok ← op (.openRead (c.k "binary"))
  if ok then pure () else .fail

/-- serial::device::buildKernel; result = kernel != NULL -/
def serialBuild (c : Config) (n : Nat) : Prog Bool := do
  let found ← isFile (c.k "binary")
  if found then do loadCached c; pure true
  else do
    compilerVendor c n
    cacheFile (c.k c.rawBase) (c.toks (n+4)) c.raw (if c.fromString then some (c.k "string_source.cpp") else none)
    readFile (c.k c.rawBase)                       -- parser.parseFile
    if c.parseOk then do
      stageFile (c.k c.cppBase) (c.toks (n+5)) true (writeProducer c.cpp)
      stageFile (c.k "build.json") (c.toks (n+6)) true (writeProducer c.json)
      stageFile (c.k "binary") (c.toks (n+7)) true (fun t => do
        let ok ← op (.exec (c.k c.cppBase) [t])
        if ok then pure true else .fail)
      sync (c.k "binary")
      let ok ← op (.openRead (c.k "binary"))        -- dlopen
      if ok then pure true else .fail
    else if c.silent then pure false else .fail

/-- occa::device::buildKernelFromString / buildKernel; result = the kernel is initialised -/
def buildProg (c : Config) : Prog Bool := do
  applyDependencyHash c
  (if c.fromString then do
    stageFile (c.k "string_source.cpp") (c.toks 0) true (writeProducer c.str)
    readFile (c.k "string_source.cpp")              -- hashFile(realFilename)
    applyDependencyHash c
   else pure ())
  let ok ← (if c.openmp then do
              compilerVendor c 1
              ompCompilerFlag c 5
              serialBuild c 8
            else serialBuild c 8)
  if ok then pure true else do
    let _ ← op (.rmrf c.kdir)
    pure false

/-- the step list the real build performs from file system `fs` -/
def buildSteps (S : Spec) (pid : Nat) (c : Config) (fs : FS) : Trace := (run S pid (buildProg c) fs).2.2

/-- the artefact a finished build loads -/
def loadable (S : Spec) (c : Config) (fs : FS) : Prop :=
  ∃ f, fs.files (c.k "binary") = some f ∧ f.closed = true ∧ S.valid (c.k "binary") f.bytes = true

/-! ### several processes: any schedule -/

/-- one scheduler tick: process `i` performs its next step (nothing happens if it has finished);
    the process table is a function, so any number of processes is covered -/
def tick (S : Spec) (i : Nat) (ps : Nat → Prog Bool) (fs : FS) : (Nat → Prog Bool) × FS × Trace :=
  match ps i with
  | .act o k =>
      let r := result fs o
      (fun j => if j = i then k r else ps j, applyOp S fs o, [⟨i, o, r⟩])
  | _ => (ps, fs, [])

/-- run a schedule (a list of process indices): remaining programs, file system, the interleaved trace -/
def runSched (S : Spec) : List Nat → (Nat → Prog Bool) → FS → (Nat → Prog Bool) × FS × Trace
  | [], ps, fs => (ps, fs, [])
  | i :: sch, ps, fs =>
      let x := tick S i ps fs
      let y := runSched S sch x.1 x.2.1
      (y.1, y.2.1, x.2.2 ++ y.2.2)

end Occa.BuildFS
