/-
C19 — numeric model of the `@dim` / `@dimOrder` rewrite.

Written after src/occa/internal/lang/builtins/attributes/dim.cpp:
  dim::applyCodeTransformations   index = a[o_k];  for i = k-1 … 0: index = a[o_i] + D[o_i] * index
  dim::getDimOrder                order[i] = evaluate(dimOrder argument i)  (identity without @dimOrder)
  dimOrder::isValid               every argument a constant in [0, argCount), no duplicates
(the expression-level twin is in OccaModel/LoopExpr.lean: `dimIndexExpr`).  Core Lean only.
-/
namespace Occa.Dim

/-- mixed-radix value of a list of (digit, radix) pairs, fastest digit first:
    `x0 + d0 * (x1 + d1 * (… + d_{k-1} * x_k))`.  The radix of the last (slowest) digit multiplies 0. -/
def mixed : List (Int × Int) → Int
  | [] => 0
  | (x, d) :: r => x + d * mixed r

/-- the documented linear index of `x(ix[0], …, ix[k])` for `@dim(D[0], …, D[k]) @dimOrder(ord…)`:
    dimension `ord[0]` is the fastest, `ord[k]` the slowest -/
def linear (D ix : List Int) (ord : List Nat) : Int :=
  mixed (ord.map fun o => (ix.getD o 0, D.getD o 0))

/-- the loop of `dim::applyCodeTransformations`, statement by statement on numbers:
    `index = a[order[n-1]]`, then `for (i = n-2; i >= 0; --i) index = a[order[i]] + D[order[i]] * index` -/
def codeIndex (D ix : List Int) (ord : List Nat) : Int :=
  match ord.reverse with
  | [] => 0
  | last :: restRev =>
    restRev.foldl (fun index o => ix.getD o 0 + D.getD o 0 * index) (ix.getD last 0)

/-- identity order used when there is no `@dimOrder` -/
def idOrder (n : Nat) : List Nat := List.range n

def prod : List Int → Int
  | [] => 1
  | a :: r => a * prod r

/-- `dimOrder::isValid` on already-evaluated arguments: the `order[]` flag array -/
def orderValidGo (n : Nat) : List Int → List Nat → Bool
  | [], _ => true
  | a :: r, seen =>
    if a < 0 || (n : Int) ≤ a then false           -- "(i2 < 0) || (argCount <= i2)"
    else if seen.contains a.toNat then false          -- "Duplicate index"
    else orderValidGo n r (a.toNat :: seen)

def orderValid (args : List Int) : Bool :=
  !args.isEmpty && orderValidGo args.length args []

/-- in-range index tuples: `0 ≤ ix[i] < D[i]` for every dimension -/
def InRange (D ix : List Int) : Prop :=
  ix.length = D.length ∧ ∀ i, i < D.length → 0 ≤ ix.getD i 0 ∧ ix.getD i 0 < D.getD i 0

end Occa.Dim
