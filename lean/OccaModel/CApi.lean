/-
Model of the value layer of occa's C API (C29), written after
  src/occa/internal/c/types.cpp   newOccaType<T>, newOccaType(primitive[, type]), occa::c::primitive,
                                  occa::c::kernelArg, occa::c::inferJson, the public constructors
  include/occa/types/primitive.hpp  primitive::to<T>()
  src/c/json.cpp, src/types/json.cpp  occaJsonObject{Set,Get,Has}, occaJsonArray*, json::operator[], json::has
The per-tag tables (which union member, how many bytes, which switch case) are NOT written here:
they come from OccaGen/CTypes.lean, regenerated from the C++ on every run.

Numbers: the 8 bytes of the `value` union are a `Nat < 2^64` (little endian).  Writing member `c`
replaces the low `c.bits` bits and leaves the others as they were (the C++ leaves them
uninitialised: `garbage`); reading member `c` returns the low `c.bits` bits.
Core Lean only.
-/
import OccaGen.CTypes
import OccaModel.CApiTypes

namespace Occa.CApi
open Occa.Gen.CTypes

/-! ## the `value` union -/

/-- `u.value.<member c> = v` on a union whose 8 bytes were `old` -/
def writeField (c : CTy) (old v : Nat) : Nat := old / 2 ^ c.bits * 2 ^ c.bits + v % 2 ^ c.bits

/-- `u.value.<member c>` -/
def readField (c : CTy) (raw : Nat) : Nat := raw % 2 ^ c.bits

/-! ## occaType -/

/-- one step from a json value to a child: an object key or an array position -/
inductive Step where
  | key (k : List Nat)
  | idx (n : Nat)
  deriving DecidableEq, Repr, Inhabited

/-- what `value.ptr` designates, for the tags that use the pointer member -/
inductive Ptr where
  | null
  | str (bytes : List Nat)      -- a NUL-terminated C string with these bytes
  | opaque                      -- some non-null address the API never dereferences itself
  deriving DecidableEq, Repr, Inhabited

/-- an `occaType` that is not an object handle (object handles live in the handle table) -/
structure OType where
  hdrOk : Bool                  -- magicHeader == OCCA_C_TYPE_MAGIC_HEADER
  tag : Nat
  bytes : Nat
  needsFree : Bool
  raw : Nat                     -- the union, for the scalar tags
  ptr : Ptr                     -- the union, for the pointer tags
  deriving DecidableEq, Repr, Inhabited

def occaUndefined : OType := ⟨false, tagUndefined, 0, false, 0, .null⟩
def occaDefault : OType := ⟨true, tagDefault, 0, false, 0, .null⟩
def occaNull : OType := ⟨true, tagNull, 0, false, 0, .null⟩

/-- the value an argument of C type `c` has when the caller passes the bit pattern `v`
    (`bool`: the caller passes `v != 0`, the callee stores 0/1) -/
def argBits (c : CTy) (v : Nat) : Nat :=
  match c with
  | .bool => if v % 2 ^ 8 = 0 then 0 else 1
  | _ => v % 2 ^ c.bits

/-- `occa::c::newOccaType<T>(value)`; `garbage` = the uninitialised union before the member is written -/
def ofScalar (c : CTy) (garbage v : Nat) : OType :=
  let (tag, bytes, field, nf) := ctorSpec c
  { hdrOk := true, tag := tag, bytes := bytes, needsFree := nf,
    raw := writeField field garbage (argBits c v), ptr := .null }

/-- reading the value back the way a C programmer does for a value of C type `c`:
    the union member that `newOccaType<c>` wrote -/
def fromOcca (c : CTy) (t : OType) : Nat := readField (ctorSpec c).2.2.1 t.raw

/-- the fixed-width C type a public constructor ends up in:
    `occaInt8(v)` → `newOccaType<int8_t>`; `occaChar(v)` → `newOccaIntType<char>(false, v)` →
    `switch (sizeof(v))` → `occaInt8(v)` → … -/
def ctorTarget (k : Ctor) : Option CTy :=
  match knownCtor k with
  | some c => some c
  | none =>
    match ambiguousCtor k with
    | some (size, uns) => (intBySize size uns).bind knownCtor
    | none => none

/-- `occaX(v)` for every public scalar constructor -/
def construct (k : Ctor) (garbage v : Nat) : Option OType := (ctorTarget k).map fun c => ofScalar c garbage v

def occaPtr (isNull : Bool) : OType := ⟨true, tagPtr, 8, false, 0, if isNull then .null else .opaque⟩
def occaString (s : List Nat) : OType := ⟨true, tagString, s.length, false, 0, .str s⟩
def occaStruct (bytes : Nat) : OType := ⟨true, tagStruct, bytes, false, 0, .opaque⟩
def occaTrue : OType := ofScalar .bool 0 1
def occaFalse : OType := ofScalar .bool 0 0

/-! ## occa::primitive -/

/-- `occa::primitive`: `ty = none` is `primitiveType::none`; `raw` is the member of that type -/
structure Prim where
  ty : Option CTy
  raw : Nat
  deriving DecidableEq, Repr, Inhabited

/-- `occa::c::primitive(occaType)`: `p = value.value.<member>`; `none` = OCCA_FORCE_ERROR -/
def toPrim (t : OType) : Option Prim := (primField t.tag).map fun f => ⟨some f, readField f t.raw⟩

/-- mathematical value of an integer/bool member -/
def intVal (c : CTy) (raw : Nat) : Int :=
  let r := raw % 2 ^ c.bits
  match c with
  | .bool => if r = 0 then 0 else 1
  | _ => if c.isSigned && 2 ^ (c.bits - 1) ≤ r then (r : Int) - (2 ^ c.bits : Nat) else (r : Int)

def f32OfRaw (raw : Nat) : Float32 := Float32.ofBits (UInt32.ofNat (raw % 2 ^ 32))
def f64OfRaw (raw : Nat) : Float := Float.ofBits (UInt64.ofNat (raw % 2 ^ 64))

/-- `(T) x` for a floating `x` and an integer `T`; defined in C++ only when the truncated value fits -/
def floatToInt (dst : CTy) (x : Float) : Nat :=
  match dst with
  | .i8 => x.toInt8.toUInt8.toNat | .u8 => x.toUInt8.toNat
  | .i16 => x.toInt16.toUInt16.toNat | .u16 => x.toUInt16.toNat
  | .i32 => x.toInt32.toUInt32.toNat | .u32 => x.toUInt32.toNat
  | .i64 => x.toInt64.toUInt64.toNat | .u64 => x.toUInt64.toNat
  | _ => 0

/-- `primitive::to<dst>()` on a primitive of type `src`: `(dst) value.<src>`.
    Integer ↔ integer conversions are exact arithmetic; everything that involves a floating type
    is computed with Lean's runtime floats and is only *tested* by the correspondence run. -/
def convTo (dst src : CTy) (raw : Nat) : Nat :=
  if src.isFloat then
    let x : Float := if src = .f32 then (f32OfRaw raw).toFloat else f64OfRaw raw
    match dst with
    | .f32 =>
      if src = .f32 then raw % 2 ^ 32
      else
        let r := raw % 2 ^ 64
        -- NaN: the SSE conversion keeps the sign, sets the quiet bit and truncates the payload
        -- (Lean's `toBits` would give the canonical NaN instead)
        if r / 2 ^ 52 % 2 ^ 11 = 2 ^ 11 - 1 ∧ r % 2 ^ 52 ≠ 0 then r / 2 ^ 63 * 2 ^ 31 + 0x7fc00000 + r % 2 ^ 51 / 2 ^ 29
        else x.toFloat32.toBits.toNat
    | .f64 =>
      if src = .f64 then raw % 2 ^ 64
      else
        let r := raw % 2 ^ 32
        if r / 2 ^ 23 % 2 ^ 8 = 2 ^ 8 - 1 ∧ r % 2 ^ 23 ≠ 0 then r / 2 ^ 31 * 2 ^ 63 + 0x7ff8000000000000 + r % 2 ^ 22 * 2 ^ 29
        else x.toBits.toNat
    | .bool => if x == 0 then 0 else 1
    | d => floatToInt d x
  else
    let n := intVal src raw
    match dst with
    | .f32 => (Float32.ofInt n).toBits.toNat
    | .f64 => (Float.ofInt n).toBits.toNat
    | .bool => if n = 0 then 0 else 1
    | d => (n % (2 ^ d.bits : Nat)).toNat

/-- result of a conversion that may raise an occa::exception -/
inductive Res (α : Type) where
  | ok (a : α)
  | err
  deriving Repr, Inhabited

/-- `newOccaType(const primitive &value, const int type)` as used by occaJsonGetNumber -/
def ofPrimTyped (p : Prim) (tag garbage : Nat) : Res OType :=
  match typedPrim tag with
  | none => .ok occaUndefined
  | some c =>
    match p.ty with
    | none => .err                                   -- primitive::to: "Type not set"
    | some s => .ok (ofScalar c garbage (convTo c s p.raw))

/-- `newOccaType(const primitive &value)` (no C entry point uses it) -/
def ofPrim (p : Prim) (garbage : Nat) : Res OType :=
  match p.ty with
  | none => .ok occaUndefined
  | some s =>
    match untypedPrim s with
    | none => .ok occaUndefined
    | some c => .ok (ofScalar c garbage (convTo c s p.raw))

/-! ## kernel arguments -/

/-- little-endian bytes of the low `n` bytes of `v` -/
def leBytes : Nat → Nat → List Nat
  | 0, _ => []
  | n + 1, v => v % 256 :: leBytes n (v / 256)

/-- what the kernel receives for one argument -/
inductive KArg where
  | bytes (bs : List Nat)         -- a by-value argument with exactly these bytes
  | pointer (p : Ptr) (size : Nat)  -- the pointer member and `value.bytes`
  | nullPtr
  | memory
  | error
  deriving DecidableEq, Repr, Inhabited

/-- `occa::c::kernelArg(occaType)` for non-handle values -/
def kernelArgOf (t : OType) : KArg :=
  if !t.hdrOk then .error else
  match kernelArgCase t.tag with
  | .field c => .bytes (leBytes c.bytes (readField c t.raw))
  | .pointer => if t.ptr = .null then .nullPtr else .pointer t.ptr t.bytes
  | .memory => .memory
  | .null => .nullPtr
  | .error => .error

/-! ## occa::json -/

/-- `occa::json`.  A boolean is a number whose primitive has type bool (as in the C++). -/
inductive J where
  | none
  | null
  | num (p : Prim)
  | str (s : List Nat)
  | arr (a : List J)
  | obj (kv : List (List Nat × J))
  deriving Repr, Inhabited

abbrev Key := List Nat

/-- lexicographic order on byte strings = `std::string::operator<` -/
def keyLt : Key → Key → Bool
  | [], [] => false
  | [], _ :: _ => true
  | _ :: _, [] => false
  | a :: as, b :: bs => if a < b then true else if b < a then false else keyLt as bs

def lookup (k : Key) : List (Key × J) → Option J
  | [] => Option.none
  | (k', v) :: r => if k = k' then some v else lookup k r

/-- `map[k] = v` (kept sorted like the std::map) -/
def upsert (k : Key) (v : J) : List (Key × J) → List (Key × J)
  | [] => [(k, v)]
  | (k', v') :: r =>
    if k = k' then (k, v) :: r
    else if keyLt k k' then (k, v) :: (k', v') :: r
    else (k', v') :: upsert k v r

/-- `lex::skipTo(c, '/', '\\')` then the key/advance logic of `json::operator[]` / `json::has`:
    split a path at unescaped slashes; a backslash protects the next character and stays in the key;
    a trailing slash adds nothing -/
def splitPath (s : List Nat) : List Key :=
  let rec go (fuel : Nat) (s : List Nat) (cur : List Nat) : List Key :=
    match fuel with
    | 0 => []
    | fuel + 1 =>
      match s with
      | [] => [cur.reverse]
      | 92 :: c :: r => go fuel r (c :: 92 :: cur)
      | [92] => [(92 :: cur).reverse]
      | 47 :: r => if r.isEmpty then [cur.reverse] else cur.reverse :: go fuel r []
      | c :: r => go fuel r (c :: cur)
  if s.isEmpty then [] else go (s.length + 1) s []

/-- `json::has(path)` starting at `j`; also the node found -/
def getPath : List Key → J → Option J
  | [], j => some j
  | k :: ks, .obj kv => (lookup k kv).bind (getPath ks)
  | _ :: _, _ => Option.none

/-- `j[path] = v` through the non-const `json::operator[]`: missing and `none_` nodes on the way
    become objects; a node of any other kind on the way is an error (nothing is changed then) -/
def setPath : List Key → J → J → Res J
  | [], v, _ => .ok v
  | k :: ks, v, .none =>
    match setPath ks v .none with
    | .ok c => .ok (.obj [(k, c)])
    | .err => .err
  | k :: ks, v, .obj kv =>
    match setPath ks v ((lookup k kv).getD .none) with
    | .ok c => .ok (.obj (upsert k c kv))
    | .err => .err
  | _ :: _, _, _ => .err

/-- `if (!j_.isInitialized()) j_.asObject();` -/
def prepObject : J → J
  | .none => .obj []
  | j => j

def prepArray : J → J
  | .none => .arr []
  | j => j

def J.isObject : J → Bool | .obj _ => true | _ => false
def J.isArray : J → Bool | .arr _ => true | _ => false
def J.isNumber : J → Bool | .num _ => true | _ => false
def J.isString : J → Bool | .str _ => true | _ => false
def J.isNull : J → Bool | .null => true | _ => false
def J.isNone : J → Bool | .none => true | _ => false
def J.isBool : J → Bool | .num p => p.ty == some .bool | _ => false

/-- `occa::c::inferJson(occaType)` for non-handle values (`.json` handles are resolved by the caller) -/
def inferJsonPlain (t : OType) : Res J :=
  match inferJsonCase t.tag with
  | .bool => .ok (.num ⟨some .bool, if readField .i8 t.raw = 0 then 0 else 1⟩)
  | .prim => match toPrim t with
    | some p => .ok (.num p)
    | none => .err
  | .string => match t.ptr with
    | .str s => .ok (.str s)
    | _ => .err
  | .null => .ok .null
  | .nullIfNullPtr => if t.ptr = .null then .ok .null else .err
  | .json => .err
  | .error => .err

/-- `json::operator[](int)` (non-const) used by occaJsonArrayGet: a position past the end grows the
    array, the new places before `n` become null, place `n` stays uninitialised -/
def growTo (a : List J) (n : Nat) : List J :=
  if n < a.length then a else a ++ List.replicate (n - a.length) .null ++ [.none]

/-- `vector::insert(begin() + i, v)` for `i < size` -/
def insertAt (a : List J) (i : Nat) (v : J) : List J := a.take i ++ v :: a.drop i

/-- `json::asBoolean/asNumber/asString/asArray/asObject` -/
def castTo (what : Char) (j : J) : J :=
  match what, j with
  | 'b', .num p => match p.ty with
    | some s => .num ⟨some .bool, convTo .bool s p.raw⟩
    | Option.none => .num p
  | 'b', _ => .num ⟨some .bool, 0⟩
  | 'n', .num p => .num p
  | 'n', _ => .num ⟨some .i32, 0⟩
  | 's', .str s => .str s
  | 's', _ => .str []
  | 'a', .arr a => .arr a
  | 'a', _ => .arr []
  | 'o', .obj kv => .obj kv
  | 'o', _ => .obj []
  | _, j => j

/-! ### navigation to the node a handle designates -/

def resolve : List Step → J → Option J
  | [], j => some j
  | .key k :: r, .obj kv => (lookup k kv).bind (resolve r)
  | .idx n :: r, .arr a => (a[n]?).bind (resolve r)
  | _ :: _, _ => Option.none

/-- replace the node at `path` by `f node`; `none` when the path does not exist -/
def modifyAt : List Step → (J → J) → J → Option J
  | [], f, j => some (f j)
  | .key k :: r, f, .obj kv =>
    match lookup k kv with
    | some c => (modifyAt r f c).map fun c' => .obj (upsert k c' kv)
    | Option.none => Option.none
  | .idx n :: r, f, .arr a =>
    match a[n]? with
    | some c => (modifyAt r f c).map fun c' => .arr (a.set n c')
    | Option.none => Option.none
  | _ :: _, _, _ => Option.none

end Occa.CApi
