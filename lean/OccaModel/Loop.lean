/-
C17 / C18 — numeric model of OKL loop headers.

Written after
  src/occa/internal/lang/modes/oklForStatement.cpp   getIterationCount, makeDeclarationValue
  src/occa/internal/lang/modes/withLauncher.cpp      setKernelLaunch / setDim (outer[k] = count)
  include/occa/types/dim.hpp, src/occa/internal/core/kernel.cpp   udim_t storage, modeKernel_t::isNoop
  src/occa/internal/lang/builtins/attributes/tile.cpp  setupBlockForStatement, setupInnerForStatement,
                                                       setupCheckStatement
(the expression-level twin — which *trees* are built and how they print — is OccaModel/LoopExpr.lean).

Integers are mathematical (`Int`); the property excludes operand values for which the C arithmetic
overflows, the theorems carry that as an explicit range hypothesis on the launch dimension only.
Core Lean only.
-/
namespace Occa.Loop

inductive Cmp | lt | le | gt | ge
deriving DecidableEq, Repr, Inhabited

/-- the four update forms OKL accepts (`++i`/`i++` and `--i`/`i--` are not distinguished: the
    value of the update expression is never used) -/
inductive Upd | inc | dec | addEq (s : Int) | subEq (s : Int)
deriving DecidableEq, Repr

/-- `for (T i = init; i cmp bound; upd)` (boundOnRight) or `for (T i = init; bound cmp i; upd)` -/
structure Header where
  init : Int
  bound : Int
  cmp : Cmp
  boundOnRight : Bool
  upd : Upd
deriving DecidableEq, Repr

def Cmp.holds : Cmp → Int → Int → Bool
  | .lt, a, b => decide (a < b)
  | .le, a, b => decide (a ≤ b)
  | .gt, a, b => decide (a > b)
  | .ge, a, b => decide (a ≥ b)

/-! ### the sequential loop (what the C++ `for` statement does) -/

/-- the loop condition evaluated at iterator value `i` -/
def Header.test (h : Header) (i : Int) : Bool :=
  if h.boundOnRight then h.cmp.holds i h.bound else h.cmp.holds h.bound i

/-- the update statement applied to iterator value `i` -/
def Header.next (h : Header) (i : Int) : Int :=
  match h.upd with
  | .inc => i + 1
  | .dec => i - 1
  | .addEq s => i + s
  | .subEq s => i - s

/-- at most `fuel` iterations of the loop started at `i`: the iterator values the body sees, in order -/
def runFuel (h : Header) : Nat → Int → List Int
  | 0, _ => []
  | f + 1, i => if h.test i then i :: runFuel h f (h.next i) else []

/-- enough fuel for every loop whose update moves the iterator towards the bound by at least 1
    (`C17_seq_fuel`: any larger amount gives the same list) -/
def Header.fuel (h : Header) : Nat := (h.bound - h.init).natAbs + 2

/-- the iterator values of the original sequential loop, in order -/
def seqIters (h : Header) : List Int := runFuel h h.fuel h.init

/-! ### what oklForStatement extracts from the header -/

/-- `positiveUpdate` -/
def Header.positiveUpdate (h : Header) : Bool :=
  match h.upd with
  | .inc | .addEq _ => true
  | _ => false

/-- `checkIsInclusive` -/
def Header.inclusive (h : Header) : Bool :=
  match h.cmp with
  | .le | .ge => true
  | _ => false

/-- the step (`updateValue`, or 1 for `++`/`--` where `updateValue == NULL`) -/
def Header.step (h : Header) : Int :=
  match h.upd with
  | .addEq s | .subEq s => s
  | _ => 1

/-- the comparison says "iterator below the bound" (`i < B`, `i <= B`, `B > i`, `B >= i`) -/
def Header.upward (h : Header) : Bool :=
  match h.cmp, h.boundOnRight with
  | .lt, true | .le, true | .gt, false | .ge, false => true
  | _, _ => false

/-- The loop runs towards its bound: comparison direction and update direction agree.  OKL never
    checks this (see design-notes/C17.md, F70): the count formula simply *assumes* it. -/
def Header.Valid (h : Header) : Prop := h.upward = h.positiveUpdate

instance (h : Header) : Decidable h.Valid := by unfold Header.Valid; exact inferInstance

/-- `oklForStatement::getIterationCount`, evaluated: `larger - smaller`, `1 + …` when inclusive,
    `(… + (s) - 1) / (s)` with C's truncating division when the update has a step operand. -/
def count (h : Header) : Int :=
  let larger := if h.positiveUpdate then h.bound else h.init
  let smaller := if h.positiveUpdate then h.init else h.bound
  let c := larger - smaller
  let c := if h.inclusive then 1 + c else c
  match h.upd with
  | .addEq s | .subEq s => Int.tdiv (c + s - 1) s
  | _ => c

/-- `oklForStatement::makeDeclarationValue`, evaluated at thread/block index `k`:
    `(init) ± ((s) * (k))`, or `(init) ± (k)` without a step operand -/
def valueOf (h : Header) (k : Int) : Int :=
  let blk := match h.upd with
    | .addEq s | .subEq s => s * k
    | _ => k
  if h.positiveUpdate then h.init + blk else h.init - blk

/-! ### the launch: `outer[k] = count;` stored in an `occa::udim_t`, `kernel::run` / `isNoop` -/

/-- storing a (signed) count in an `occa::udim_t` (uint64_t) -/
def toUDim (c : Int) : Nat := (c % 2 ^ 64).toNat

/-- `dim::hasNegativeBitSet` on a `udim_t` (after fix F24: the sign bit, not bit 7) -/
def hasNegativeBit (u : Nat) : Bool := u / 2 ^ 63 % 2 == 1

/-- `modeKernel_t::isNoop`, for one launch dimension (after fix F24) -/
def isNoopDim (u : Nat) : Bool := u == 0 || hasNegativeBit u

/-- `modeKernel_t::isNoop` before fix F24: only a zero dimension suppresses the launch -/
def isNoopDimOld (u : Nat) : Bool := u == 0

/-- number of work-groups / work-items the backend runs for a stored dimension -/
def launched (u : Nat) : Nat := if isNoopDim u then 0 else u
def launchedOld (u : Nat) : Nat := if isNoopDimOld u then 0 else u

/-- iterator values computed by the launched threads of one OKL loop, by increasing index -/
def launchIters (h : Header) : List Int :=
  (List.range (launched (toUDim (count h)))).map fun k => valueOf h (Int.ofNat k)

/-- `long` iterator on a backend whose thread index is a 32-bit `unsigned` (CUDA, HIP, Metal):
    `long i = init ± (s * threadIdx.x)` is evaluated in `unsigned int` and zero-extended (F72) -/
def valueOfU32 (h : Header) (k : Int) : Int := valueOf h k % 2 ^ 32

def launchItersU32 (h : Header) : List Int :=
  (List.range (launched (toUDim (count h)))).map fun k => valueOfU32 h (Int.ofNat k)

/-- a perfect nest of independent loops, sequentially: all iterator tuples in lexicographic order -/
def seqNest : List Header → List (List Int)
  | [] => [[]]
  | h :: r => (seqIters h).flatMap fun i => (seqNest r).map fun t => i :: t

/-- the same nest launched: `isNoop` suppresses the whole launch if *any* dimension is noop -/
def launchNest (hs : List Header) : List (List Int) :=
  if hs.any (fun h => isNoopDim (toUDim (count h))) then []
  else
    let rec go : List Header → List (List Int)
      | [] => [[]]
      | h :: r => ((List.range (toUDim (count h))).map fun k => valueOf h (Int.ofNat k)).flatMap
                    fun i => (go r).map fun t => i :: t
    go hs

/-! ### @tile (tile.cpp, after fix F25) -/

/-- the distance the block loop advances: `T` for `++`/`--`, `((T) * (INC))` for `+=`/`-=` -/
def stride (h : Header) (T : Int) : Int :=
  match h.upd with
  | .addEq s | .subEq s => T * s
  | _ => T

/-- `setupBlockForStatement`: init and check of the original loop on `_occa_tiled_x`,
    update `+= stride` / `-= stride` -/
def blockHeader (h : Header) (T : Int) : Header :=
  { h with upd := if h.positiveUpdate then .addEq (stride h T) else .subEq (stride h T) }

def Cmp.strict : Cmp → Cmp
  | .le => .lt
  | .ge => .gt
  | c => c

/-- `setupInnerForStatement` for the block starting at `xT`: `x = xT; x <|> (xT ± stride); x upd`
    (inclusive comparisons become strict, the operand order is kept).  Before fix F25 the bound was
    `xT ± T`: `innerHeaderOld`. -/
def innerHeader (h : Header) (T : Int) (xT : Int) : Header :=
  { init := xT
    bound := if h.positiveUpdate then xT + stride h T else xT - stride h T
    cmp := h.cmp.strict
    boundOnRight := h.boundOnRight
    upd := h.upd }

def innerHeaderOld (h : Header) (T : Int) (xT : Int) : Header :=
  { innerHeader h T xT with bound := if h.positiveUpdate then xT + T else xT - T }

/-- the tiled loops executed sequentially (Serial/OpenMP, or a plain `@tile(T)`): for each block
    start, the in-block iterations that pass the bounds check `if (x cmp bound)` (when requested) -/
def tiled (h : Header) (T : Int) (check : Bool) : List Int :=
  (seqIters (blockHeader h T)).flatMap fun xT =>
    (seqIters (innerHeader h T xT)).filter fun x => !check || h.test x

def tiledOld (h : Header) (T : Int) (check : Bool) : List Int :=
  (seqIters (blockHeader h T)).flatMap fun xT =>
    (seqIters (innerHeaderOld h T xT)).filter fun x => !check || h.test x

/-- `@tile(T, @outer, @inner)` on a launcher backend: both loops become launch dimensions.  The host
    evaluates the in-block count with `_occa_tiled_x` = the original `init` (that is what the launcher
    source declares); every work-group then reconstructs `x` from its own block start. -/
def tiledLaunch (h : Header) (T : Int) (check : Bool) : List Int :=
  let nIn := launched (toUDim (count (innerHeader h T h.init)))
  let nBlk := launched (toUDim (count (blockHeader h T)))
  if nIn = 0 then [] else
  (List.range nBlk).flatMap fun j =>
    let xT := valueOf (blockHeader h T) (Int.ofNat j)
    ((List.range nIn).map fun m => valueOf (innerHeader h T xT) (Int.ofNat m)).filter
      fun x => !check || h.test x

/-- two nested `@tile(…, @outer, @inner)` loops after `tile::floatOuterLoopUp`: both block loops outside, both
    in-block loops (with their bounds checks) inside — the loop order of 2-D tiling -/
def tiled2d (hy : Header) (Ty : Int) (cy : Bool) (hx : Header) (Tx : Int) (cx : Bool) : List (List Int) :=
  (seqIters (blockHeader hy Ty)).flatMap fun yT =>
  (seqIters (blockHeader hx Tx)).flatMap fun xT =>
  ((seqIters (innerHeader hy Ty yT)).filter fun y => !cy || hy.test y).flatMap fun y =>
  ((seqIters (innerHeader hx Tx xT)).filter fun x => !cx || hx.test x).map fun x => [y, x]

end Occa.Loop
