/-
C13: the preprocessor model put together.

  * `parseLiteral`, `parseCond`: the integer tokens of a condition as intmax_t/uintmax_t literals
    (preprocessorInteger in lineIsTrue) and the expression tree expressionParser builds for the
    #if grammar (precedences from the generated operator table).
  * `US` / `processLine`: a translation unit line by line, following processHashOperator and the
    directive handlers: conditional machine (CppCond), macro table, expansion of text lines and
    conditions (CppExpand), evaluation (CppEval).
  * `RS` / `refLine`: the REFERENCE semantics of a translation unit (C11 6.10): nested groups,
    conditions evaluated only where the standard evaluates them (evalC), hide-set expansion (expandR).
Core Lean only.
-/
import OccaModel.CppCond
import OccaModel.CppEval
import OccaModel.CppExpand

namespace Occa.Cpp

/-! ### literals -/

def digitVal (c : Char) : Option Nat :=
  if '0' ≤ c ∧ c ≤ '9' then some (c.toNat - '0'.toNat)
  else if 'a' ≤ c ∧ c ≤ 'f' then some (c.toNat - 'a'.toNat + 10)
  else if 'A' ≤ c ∧ c ≤ 'F' then some (c.toNat - 'A'.toNat + 10)
  else none

/-- digits in `base`, then the rest -/
def takeDigits (base : Nat) : List Char → Nat → Bool → Nat × Bool × List Char
  | [], acc, any => (acc, any, [])
  | c :: r, acc, any =>
    match digitVal c with
    | some d => if d < base then takeDigits base r (acc * base + d) true else (acc, any, c :: r)
    | none => (acc, any, c :: r)

/-- preprocessorInteger: (unsigned suffix, magnitude mod 2^64); none = not spelled as an integer literal -/
def parseLiteral (s : String) : Option (Bool × Nat) :=
  let cs := s.toList
  let (base, ds) : Nat × List Char :=
    match cs with
    | '0' :: x :: r => if x = 'x' ∨ x = 'X' then (16, r) else if x = 'b' ∨ x = 'B' then (2, r) else (8, cs)
    | _ => (10, cs)
  let (mag, any, suffix) := takeDigits base ds 0 false
  if !any then none
  else if suffix.all (fun c => c = 'u' ∨ c = 'U' ∨ c = 'l' ∨ c = 'L') then
    some (suffix.any (fun c => c = 'u' ∨ c = 'U'), mag % 2 ^ 64)
  else none

/-! ### the expression parser on the #if grammar -/

def binOpOf (s : String) : Option BinOp :=
  match s with
  | "*" => some .mul | "/" => some .div | "%" => some .mod | "+" => some .add | "-" => some .sub
  | "<<" => some .shl | ">>" => some .shr | "<" => some .lt | "<=" => some .le | ">" => some .gt
  | ">=" => some .ge | "==" => some .eq | "!=" => some .ne | "&" => some .band | "^" => some .bxor
  | "|" => some .bor | "&&" => some .land | "||" => some .lor
  | _ => none

def unOpOf (s : String) : Option UnOp :=
  match s with
  | "!" => some .not | "+" => some .pos | "-" => some .neg | "~" => some .tilde
  | _ => none

/-- precedence level of a binary operator (operator.cpp; smaller binds tighter) -/
def binLevel (s : String) : Option Nat := (Gen.Pp.binPrec.find? (fun p => p.1 == s)).map (·.2)

mutual
  /-- unary-expression: `! + - ~` prefix operators, literals, parentheses -/
  def parseUnary : Nat → List Tok → Option (Expr × List Tok)
    | 0, _ => none
    | f + 1, t :: ts =>
      if t.kind = .num then
        if t.text == "true" then some (.boolLit true, ts)
        else if t.text == "false" then some (.boolLit false, ts)
        else match parseLiteral t.text with
          | some (u, m) => some (.lit u m, ts)
          | none => none
      else if t.isOp "(" then
        match parseTern f ts with
        | some (e, r :: rs) => if r.isOp ")" then some (e, rs) else none
        | _ => none
      else if t.kind = .op then
        match unOpOf t.text with
        | some op =>
          (match parseUnary f ts with
           | some (e, r) => some (.un op e, r)
           | none => none)
        | none => none
      else none
    | _ + 1, [] => none

  /-- binary operators of level ≤ `maxLevel`, left associative: parse a unary expression, then absorb
      operators whose level does not exceed `maxLevel` -/
  def parseBin : Nat → Nat → List Tok → Option (Expr × List Tok)
    | 0, _, _ => none
    | f + 1, maxLevel, ts =>
      match parseUnary f ts with
      | none => none
      | some (lhs, rest) => parseBinRest f maxLevel lhs rest

  def parseBinRest : Nat → Nat → Expr → List Tok → Option (Expr × List Tok)
    | 0, _, _, _ => none
    | f + 1, maxLevel, lhs, ts =>
      match ts with
      | t :: r =>
        if t.kind = .op then
          match binOpOf t.text, binLevel t.text with
          | some op, some lv =>
            if lv ≤ maxLevel then
              -- the right operand takes only operators that bind tighter (left associativity)
              match parseBin f (lv - 1) r with
              | some (rhs, rest) => parseBinRest f maxLevel (.bin op lhs rhs) rest
              | none => none
            else some (lhs, ts)
          | _, _ => some (lhs, ts)
        else some (lhs, ts)
      | [] => some (lhs, [])

  /-- conditional-expression: `logical-or ? expression : conditional-expression` -/
  def parseTern : Nat → List Tok → Option (Expr × List Tok)
    | 0, _ => none
    | f + 1, ts =>
      match parseBin f (Gen.Pp.questionPrec - 1) ts with
      | none => none
      | some (c, t :: r) =>
        if t.isOp "?" then
          match parseTern f r with
          | some (a, t2 :: r2) =>
            if t2.isOp ":" then
              match parseTern f r2 with
              | some (b, rest) => some (.tern c a b, rest)
              | none => none
            else none
          | _ => none
        else some (c, t :: r)
      | some (c, []) => some (c, [])
end

/-- lineIsTrue after expansion: identifiers become `0`, then parse; none = malformed -/
def parseCond (toks : List Tok) : Option Expr :=
  let toks := toks.filter (fun t => !t.isNl)
  let toks := toks.map fun t => if t.isIdent then (⟨.num, "0"⟩ : Tok) else t
  match parseTern (4 * toks.length + 8) toks with
  | some (e, []) => some e
  | _ => none

/-- the rest after the parenthesis group whose opening `(` was just consumed -/
def dropGroup : List Tok → Nat → List Tok
  | [], _ => []
  | t :: r, d =>
    if t.isOp "(" then dropGroup r (d + 1)
    else if t.isOp ")" then (if d = 0 then r else dropGroup r (d - 1))
    else dropGroup r d

/-- expressionParser turns `operand ( ... )` into a callNode, for which canEvaluate() is false: lineIsTrue then
    reports "Unable to evaluate expression" (a COUNTED error, unlike a malformed expression).  Remove the
    argument groups of such calls and say whether there was one. -/
def stripCalls : Nat → List Tok → Bool → List Tok × Bool
  | 0, l, _ => (l, false)
  | _ + 1, [], _ => ([], false)
  | f + 1, t :: r, prevOperand =>
    if prevOperand && t.isOp "(" then
      let (l, _) := stripCalls f (dropGroup r 0) true
      (l, true)
    else
      let (l, c) := stripCalls f r (t.kind = .num || t.kind = .ident || t.isOp ")")
      (t :: l, c)

/-- what lineIsTrue makes of the expanded tokens: an expression, a malformed expression (reported by the
    parser, not counted in pp.errors) or an expression that cannot be evaluated (counted) -/
inductive CondParse where
  | expr (e : Expr)
  | malformed
  | unevaluable

def parseCondOcca (toks : List Tok) : CondParse :=
  let toks := toks.filter (fun t => !t.isNl)
  let (stripped, hadCall) := stripCalls (toks.length + 1) toks false
  match parseCond stripped with
  | none => .malformed
  | some e => if hadCall then .unevaluable else .expr e

/-! ### a translation unit, line by line (OCCA) -/

inductive SrcLine where
  | define (m : Macro)
  | undef (n : String)
  | if_ (toks : List Tok)
  | ifdef (n : String)
  | ifndef (n : String)
  | elif (toks : List Tok)
  | else_
  | endif
  | text (toks : List Tok)
  deriving Repr

/-- names in compilerMacros (preprocessor_t::init) -/
def builtinNames : List String :=
  ["defined", "__has_include", "__FILE__", "__LINE__", "__DATE__", "__TIME__", "__COUNTER__", "OKL",
   "OCCA_MAJOR_VERSION", "OCCA_MINOR_VERSION", "OCCA_PATCH_VERSION", "OCCA_VERSION", "OKL_VERSION", "__OKL__",
   "__OCCA__", "OKL_MODE", "OKL_KERNEL_HASH", "and", "and_eq", "bitand", "bitor", "compl", "not", "not_eq", "or",
   "or_eq", "xor", "xor_eq"]

structure US where
  pp : PP := {}
  cm : CM := {}
  out : List (List Tok) := []          -- kept lines, newest first
  dead : Option String := none         -- TRAP / HANG
  deriving Repr

def US.kill (u : US) (why : String) : US := { u with dead := some why }

/-- expand + parse + evaluate the condition of a `#if` / `#elif` line -/
def evalCondLine (cfg : Cfg) (fuel : Nat) (u : US) (toks : List Tok) : US × CR :=
  match expandLine ⟨cfg.vaCommas, cfg.definedBare⟩ fuel u.pp toks with
  | .ok (etoks, pp') =>
    (match parseCondOcca etoks with
     | .expr e => ({ u with pp := pp' }, evalCR cfg.shortCircuit (some e))
     | .malformed => ({ u with pp := pp' }, .err)
     | .unevaluable => ({ u with pp := { pp' with errors := pp'.errors + 1 } }, .err))
  | .outOfFuel => (u.kill "HANG", .trap)
  | .trap => (u.kill "TRAP", .trap)

def condStep (cfg : Cfg) (fuel : Nat) (u : US) (mkDir : CR → Dir) (toks : List Tok) : US :=
  -- does the machine evaluate the condition in this state?  (independent of the condition's value)
  let wants := (u.cm.step cfg (mkDir .ff)).2
  if wants then
    let (u', cr) := evalCondLine cfg fuel u toks
    if u'.dead.isSome then u' else
    let m := (u'.cm.step cfg (mkDir cr)).1
    if m.crashed then { u' with cm := m, dead := some "TRAP" } else { u' with cm := m }
  else { u with cm := (u.cm.step cfg (mkDir .ff)).1 }

def processLine (cfg : Cfg) (fuel : Nat) (u : US) (l : SrcLine) : US :=
  if u.dead.isSome then u else
  let ign := u.cm.status.ignoring
  match l with
  | .define m => if ign then u else
      { u with pp := { u.pp with table := m :: u.pp.table.filter (fun x => x.name != m.name) } }
  | .undef n => if ign then u else
      { u with pp := { u.pp with table := u.pp.table.filter (fun x => x.name != n) } }
  | .text toks => if ign then u else
      (match expandLine ⟨cfg.vaCommas, cfg.definedBare⟩ fuel u.pp toks with
       | .ok (o, pp') =>
         let o := o.filter (fun t => !t.isNl)
         { u with pp := pp', out := if o.isEmpty then u.out else o :: u.out }
       | .outOfFuel => u.kill "HANG"
       | .trap => u.kill "TRAP")
  | .if_ toks => condStep cfg fuel u .if_ toks
  | .elif toks => condStep cfg fuel u .elif toks
  | .ifdef n =>
      { u with cm := (u.cm.step cfg (.ifdef ((lookup u.pp.table n).isSome || builtinNames.contains n))).1 }
  | .ifndef n =>
      { u with cm := (u.cm.step cfg (.ifndef ((lookup u.pp.table n).isSome || builtinNames.contains n))).1 }
  | .else_ => { u with cm := (u.cm.step cfg .else_).1 }
  | .endif => { u with cm := (u.cm.step cfg .endif).1 }

/-! ### the reference semantics of a translation unit -/

/-- one open if-section: the enclosing group is processed / a group was already taken / the current
    group is processed -/
structure Frame where
  parent : Bool
  done : Bool
  cur : Bool
  deriving Repr

/-- events recorded for the consistency check against `Items.keepRef` -/
inductive Ev where
  | text (id : Nat) (kept : Bool)
  | open_ (c : Cnd)
  | elif (c : CR)
  | else_
  | endif
  deriving Repr

structure RS where
  table : List Macro := []
  frames : List Frame := []
  out : List (List Tok) := []
  evs : List Ev := []            -- newest first
  nText : Nat := 0
  bad : Option String := none   -- ERROR (constraint violation / undefined) or HANG
  deriving Repr

def RS.act (r : RS) : Bool := match r.frames with | [] => true | f :: _ => f.cur

/-- `defined X` and `defined ( X )` are replaced before macro expansion (C11 6.10.1p1) -/
def replaceDefined (tbl : List Macro) : List Tok → List Tok
  | d :: p :: x :: q :: r =>
    if d.isIdent && d.text == "defined" then
      if p.isOp "(" && x.isIdent && q.isOp ")" then
        ⟨.num, if (tbl.any (·.name == x.text)) then "1" else "0"⟩ :: replaceDefined tbl r
      else if p.isIdent then ⟨.num, if (tbl.any (·.name == p.text)) then "1" else "0"⟩ :: replaceDefined tbl (x :: q :: r)
      else d :: replaceDefined tbl (p :: x :: q :: r)
    else d :: replaceDefined tbl (p :: x :: q :: r)
  | d :: p :: r =>
    if d.isIdent && d.text == "defined" && p.isIdent then
      ⟨.num, if (tbl.any (·.name == p.text)) then "1" else "0"⟩ :: replaceDefined tbl r
    else d :: replaceDefined tbl (p :: r)
  | l => l

def refExpand (fuel : Nat) (tbl : List Macro) (toks : List Tok) : RRes (List Tok) :=
  match expandR fuel tbl (toks.map fun t => (⟨t, []⟩ : HTok)) with
  | .ok r => .ok (r.map (·.tok))
  | .outOfFuel => .outOfFuel
  | .error => .error

/-- C evaluation of a condition line -/
def refCond (fuel : Nat) (r : RS) (toks : List Tok) : RS × CR :=
  match refExpand fuel r.table (replaceDefined r.table toks) with
  | .ok e => (r, evalCCR (parseCond e))
  | .outOfFuel => ({ r with bad := some "HANG" }, .trap)
  | .error => ({ r with bad := some "ERROR" }, .trap)

def refLine (fuel : Nat) (r : RS) (l : SrcLine) : RS :=
  if r.bad.isSome then r else
  let act := r.act
  match l with
  | .define m => if act then { r with table := m :: r.table.filter (fun x => x.name != m.name) } else r
  | .undef n => if act then { r with table := r.table.filter (fun x => x.name != n) } else r
  | .text toks =>
      let r := { r with nText := r.nText + 1, evs := .text r.nText act :: r.evs }
      if !act then r else
      (match refExpand fuel r.table toks with
       | .ok o => { r with out := if o.isEmpty then r.out else o :: r.out }
       | .outOfFuel => { r with bad := some "HANG" }
       | .error => { r with bad := some "ERROR" })
  | .if_ toks =>
      if act then
        let (r', cr) := refCond fuel r toks
        if cr = .err || cr = .trap then { r' with bad := some "ERROR" } else
        let t := decide (cr = .tt)
        { r' with frames := ⟨true, t, t⟩ :: r'.frames, evs := .open_ (.expr cr) :: r'.evs }
      else { r with frames := ⟨false, false, false⟩ :: r.frames, evs := .open_ (.expr .trap) :: r.evs }
  | .ifdef n =>
      let d := r.table.any (·.name == n)
      let t := act && d
      { r with frames := ⟨act, t, t⟩ :: r.frames, evs := .open_ (.ifdef d) :: r.evs }
  | .ifndef n =>
      let d := r.table.any (·.name == n)
      let t := act && !d
      { r with frames := ⟨act, t, t⟩ :: r.frames, evs := .open_ (.ifndef d) :: r.evs }
  | .elif toks =>
      (match r.frames with
       | [] => { r with bad := some "ERROR" }
       | f :: fs =>
         if f.parent && !f.done then
           let (r', cr) := refCond fuel r toks
           if cr = .err || cr = .trap then { r' with bad := some "ERROR" } else
           let t := decide (cr = .tt)
           { r' with frames := ⟨f.parent, t, t⟩ :: fs, evs := .elif cr :: r'.evs }
         else { r with frames := ⟨f.parent, f.done, false⟩ :: fs, evs := .elif .trap :: r.evs })
  | .else_ =>
      (match r.frames with
       | [] => { r with bad := some "ERROR" }
       | f :: fs => { r with frames := ⟨f.parent, true, f.parent && !f.done⟩ :: fs, evs := .else_ :: r.evs })
  | .endif =>
      (match r.frames with
       | [] => { r with bad := some "ERROR" }
       | _ :: fs => { r with frames := fs, evs := .endif :: r.evs })

/-! ### events -> the tree of `Items` (to check the run against `Items.keepRef`) -/

mutual
  def parseItems : Nat → List Ev → Option (Items × List Ev)
    | 0, _ => none
    | _ + 1, [] => some (.nil, [])
    | f + 1, e :: r =>
      match e with
      | .text id _ =>
        (match parseItems f r with
         | some (is, rest) => some (.text id is, rest)
         | none => none)
      | .open_ c =>
        (match parseItems f r with
         | some (body, rest) =>
           (match parseTail f rest with
            | some (tl, rest2) =>
              (match parseItems f rest2 with
               | some (is, rest3) => some (.sect c body tl is, rest3)
               | none => none)
            | none => none)
         | none => none)
      | _ => some (.nil, e :: r)
  def parseTail : Nat → List Ev → Option (Tail × List Ev)
    | 0, _ => none
    | _ + 1, [] => none
    | f + 1, e :: r =>
      match e with
      | .endif => some (.endif, r)
      | .else_ =>
        (match parseItems f r with
         | some (body, .endif :: rest) => some (.else_ body, rest)
         | _ => none)
      | .elif c =>
        (match parseItems f r with
         | some (body, rest) =>
           (match parseTail f rest with
            | some (tl, rest2) => some (.elif c body tl, rest2)
            | none => none)
         | none => none)
      | _ => none
end

/-- the reference run agrees with `Items.keepRef` on the tree it induces, and every condition it
    evaluated is clean in the sense of `Items.evalClean` -/
def RS.consistent (r : RS) : Bool :=
  let evs := r.evs.reverse
  match parseItems (2 * evs.length + 4) evs with
  | some (items, []) =>
    let kept := evs.filterMap fun e => match e with | .text id k => some (id, k) | _ => none
    decide (items.keepRef true = kept) && items.evalClean true
  | _ => false

end Occa.Cpp
