/-
Model of occa::hash_t  (src/utils/hash.cpp, include/occa/utils/hash.hpp,
toHex/fromHex of src/occa/internal/utils/string.hpp).

The lane constants, the lane update expression and toHexChar/fromHexChar come from
OccaGen (regenerated from the C++ on every check).  What is hand-written here: the loops
(`hash`'s double loop, `toHex`, `fromHex`) and the `getString` cache protocol.
A hash value is the list of its 8 lanes, each the value of a C++ `int`.
-/
import OccaModel.CInt
import OccaGen.HashConsts
import OccaGen.HexFns

namespace Occa.Hash
open Occa Occa.Gen

abbrev Lanes := List Int

/-- the value the C++ reads for input byte `b` (through `char`, signed on this platform) -/
def byteVal (b : Nat) : Int := if byteIsSigned then wrapS 8 b else wrapU 8 b

/-- occa::hash(ptr, n): for every byte, for every lane, `h[j] = laneStep h[j] p[j] c[i]` -/
def hashBytes (bs : List Nat) : Lanes :=
  bs.foldl (fun h b => List.zipWith (fun hj pj => laneStep hj pj (byteVal b)) h hashPrimes) hashInit

/-- the four bytes (little endian, each 0..255) of a 32-bit lane -/
def laneBytes (x : Int) : List Nat :=
  let u := (wrapU 32 x).toNat
  [u % 256, (u / 256) % 256, (u / 65536) % 256, (u / 16777216) % 256]

def bytesLane (bs : List Nat) : Int :=
  wrapS 32 (Int.ofNat (bs.getD 0 0 + 256 * bs.getD 1 0 + 65536 * bs.getD 2 0 + 16777216 * bs.getD 3 0))

/-- toHex: per byte `ci` (a signed char): toHexChar((ci >> 4) & 0xF), toHexChar(ci & 0xF);
    characters are represented by their `char` values -/
def hexOfByte (b : Nat) : List Int :=
  let ci : Int := wrapS 8 b
  [toHexChar (wrapS 8 (cand (ci / 16) 15)), toHexChar (wrapS 8 (cand ci 15))]

def toHexBytes (bs : List Nat) : List Int := bs.flatMap hexOfByte

/-- hash_t::getFullString -/
def fullString (h : Lanes) : List Int := toHexBytes (h.flatMap laneBytes)

/-- one output byte of fromHex: `(c1 << 4) | c2` stored into a char, as an unsigned byte -/
def byteOfHex (a b : Int) : Nat :=
  (wrapU 8 (cor (fromHexChar a * 16) (fromHexChar b))).toNat

/-- fromHex(str, out, 32): hexChars = (chars > 64) ? 32 : chars / 2, remaining bytes are zero -/
def fromHexBytes (s : List Int) (bytes : Nat) : List Nat :=
  let hexChars := if s.length > 2 * bytes then bytes else s.length / 2
  let rec go : Nat → List Int → List Nat
    | 0, _ => []
    | n+1, a :: b :: r => byteOfHex a b :: go n r
    | _+1, _ => []
  let got := go hexChars s
  got ++ List.replicate (bytes - got.length) 0

def chunk4 : List Nat → List (List Nat)
  | a :: b :: c :: d :: r => [a, b, c, d] :: chunk4 r
  | _ => []

/-- hash_t::fromString -/
def fromString (s : List Int) : Lanes := (chunk4 (fromHexBytes s 32)).map bytesLane

def xor (a b : Lanes) : Lanes := List.zipWith (fun x y => wrapS 32 (cxor x y)) a b

/-- the part of a hash_t object that getString() depends on -/
structure Obj where
  h : Lanes
  sh : Lanes
  hstr : List Int
deriving Repr, DecidableEq

def zeros : Lanes := List.replicate 8 0

def Obj.ofLanes (h : Lanes) : Obj := { h := h, sh := zeros, hstr := [] }

/-- operator= : copies h, zeroes sh, clears the cached string -/
def Obj.assign (_dst src : Obj) : Obj := { h := src.h, sh := zeros, hstr := [] }

/-- getString(): recompute when nothing is cached or the shadow copy differs -/
def Obj.getString (o : Obj) : List Int × Obj :=
  if o.hstr.isEmpty || o.h != o.sh then
    let s := (fullString o.h).take 16
    (s, { o with hstr := s, sh := o.h })
  else (o.hstr, o)

/-- direct mutation of the public lanes (what occa::hash and fromString do to a fresh object) -/
def Obj.setLanes (o : Obj) (h : Lanes) : Obj := { o with h := h }

inductive Op
  | getString
  | assign (src : Lanes)
  | setLanes (h : Lanes)
  | xorWith (other : Lanes)      -- `*this ^= other`  = assign from a temporary
deriving Repr

def step (o : Obj) : Op → Obj
  | .getString => (o.getString).2
  | .assign s => o.assign (Obj.ofLanes s)
  | .setLanes h => o.setLanes h
  | .xorWith x => o.assign (Obj.ofLanes (xor o.h x))

def WellFormed (h : Lanes) : Prop := h.length = 8 ∧ ∀ x ∈ h, -2147483648 ≤ x ∧ x < 2147483648

end Occa.Hash
