/-
The token-level shape of a C expression (C15): an operand/operator alternation automaton with a
stack for ( ) [ ] { } and a counter for `?` waiting for their `:`.  It classifies `+ - * & ++ -- ::`
by POSITION (operand position: prefix; after an operand: binary / postfix) — independently of
`expressionParser::operatorIsLeftUnary` — and is the hypothesis under which the printed tokens of
the parsed tree are proved to be the original tokens (OccaProofs/Props/C15.lean).  Core Lean only.
-/
import OccaModel.Expr

namespace Occa.Expr
open Occa.Gen

/-- what a pair has contained so far -/
inductive Content where
  | empty | oneType | other
  deriving DecidableEq, Repr

/-- an open pair: what must close it, where it was opened, and the enclosing scope's counters -/
structure ShScope where
  closerTy : Ty
  inE : Bool            -- opened in operand position (parentheses / cast / tuple); else call or subscript
  savedQ : Nat
  castOk : Bool := true -- a cast may stand here (the operator before the pair does not bind tighter than a cast)
  deriving DecidableEq, Repr

structure Sh where
  needOperand : Bool := true
  pendingQ : Nat := 0
  content : Content := .empty
  stack : List ShScope := []
  prev : Option Tok := none          -- previous token, ambiguous operators resolved by position
  prevCastEnd : Bool := false        -- the previous token closed a (type) cast
  deriving DecidableEq, Repr

/-- resolve an ambiguous operator by position (`updateOperatorToken`'s table) -/
def resolveBy (leftUnary : Bool) (o : Op) : Option Op :=
  if !has o.ty T.ambiguous then some o
  else match ambiguousTable.find? (fun e => has o.ty e.1) with
    | some (_, a, b) => some (if leftUnary then a else b)
    | none => none

def isPostfixTok (t : Option Tok) : Bool :=
  match t with
  | some (.op o) => has o.ty T.rightUnary
  | _ => false

def isPairEndTok (t : Option Tok) : Bool :=
  match t with
  | some (.op o) => has o.ty T.pairEnd
  | _ => false

def isIncDecTok (t : Option Tok) : Bool :=
  match t with
  | some (.op o) => has o.ty T.increment || has o.ty T.decrement
  | _ => false

def isOperatorTok (t : Option Tok) : Bool :=
  match t with
  | some t => has t.opType T.unary || has t.opType T.binary
  | none => false

/-- prefix operators of C/C++ expressions that the parser can apply -/
def prefixOk (o : Op) : Bool :=
  has o.ty T.leftUnary && !(o.ty == T.questionMark) && !(o.ty == T.colon) &&
  (!has o.ty T.special || has o.ty T.sizeof_ || has o.ty T.throw_)

/-- the incoming prefix operator `o` would not reduce the operator `q` that precedes it -/
def keeps (o q : Op) : Bool :=
  has q.ty T.pairStart || q.ty == T.questionMark ||
  !(o.prec > q.prec || (o.prec == q.prec && leftAssoc q.prec))

def prefixKeeps (o : Op) (s : Sh) : Bool :=
  if s.prevCastEnd then keeps o .parenCast
  else match s.prev with
    | none => true
    | some (.op q) => keeps o q
    | some _ => false

def shStep (s : Sh) (t : Tok) (next : Option Tok) : Option Sh :=
  match t with
  | .op o =>
    if has o.ty T.pairStart then
      if s.needOperand then
        if has o.ty T.parentheses || has o.ty T.braces then
          some { needOperand := true, pendingQ := 0, content := .empty,
                 stack := { closerTy := shl1 o.ty, inE := true, savedQ := s.pendingQ,
                            castOk := prefixKeeps .parenCast s } :: s.stack,
                 prev := some t, prevCastEnd := false }
        else none
      else
        if (has o.ty T.parentheses || has o.ty T.brackets) && !isPostfixTok s.prev then
          some { needOperand := true, pendingQ := 0, content := .empty,
                 stack := { closerTy := shl1 o.ty, inE := false, savedQ := s.pendingQ } :: s.stack,
                 prev := some t, prevCastEnd := false }
        else none
    else if has o.ty T.pairEnd then
      match s.stack with
      | [] => none
      | sc :: rest =>
        if o.ty == sc.closerTy && s.pendingQ == 0 && (!s.needOperand || s.content == .empty) then
          if sc.inE && has o.ty T.parentheses && s.content == .oneType then
            if sc.castOk then
              some { needOperand := true, pendingQ := sc.savedQ, content := .other, stack := rest,
                     prev := some t, prevCastEnd := true }
            else none
          else
            some { needOperand := false, pendingQ := sc.savedQ, content := .other, stack := rest,
                   prev := some t, prevCastEnd := false }
        else none
    else
      match resolveBy s.needOperand o with
      | none => none
      | some o' =>
        if s.needOperand then
          if prefixOk o' && next.isSome && !isPairEndTok next && prefixKeeps o' s then
            some { s with content := .other, prev := some (.op o'), prevCastEnd := false }
          else none
        else if o'.ty == T.questionMark then
          some { s with needOperand := true, pendingQ := s.pendingQ + 1, content := .other,
                        prev := some (.op o'), prevCastEnd := false }
        else if o'.ty == T.colon then
          if s.pendingQ > 0 then
            some { s with needOperand := true, pendingQ := s.pendingQ - 1, content := .other,
                          prev := some (.op o'), prevCastEnd := false }
          else none
        else if has o'.ty T.binary then
          if !isPostfixTok s.prev || o'.prec ≥ 2 then
            some { s with needOperand := true, content := .other, prev := some (.op o'), prevCastEnd := false }
          else none
        else if has o'.ty T.rightUnary then
          if (next.isNone || isPairEndTok next || isOperatorTok next) && !(isPostfixTok s.prev && isIncDecTok next) then
            some { s with content := .other, prev := some (.op o'), prevCastEnd := false }
          else none
        else none
  | _ =>
    if s.needOperand then
      some { s with needOperand := false,
                    content := (match s.content, t with
                                | .empty, .vtype _ _ => .oneType
                                | _, _ => .other),
                    prev := some t, prevCastEnd := false }
    else none

def shRun (nxt : Option Tok) : Sh → List Tok → Option Sh
  | s, [] => some s
  | s, t :: ts =>
    match shStep s t (match ts with | [] => nxt | t' :: _ => some t') with
    | none => none
    | some s' => shRun nxt s' ts

/-- the token sequence has the shape of a C expression -/
def CShape (ts : List Tok) : Bool :=
  match shRun none {} ts with
  | none => false
  | some s => s.stack.isEmpty && s.pendingQ == 0 && (!s.needOperand || ts.isEmpty)

/-! ### precedence-correct trees (what a C parser builds: "ParserImage") -/

/-- binding level of the root operator of a tree (0: primary expression) -/
def rootPrec : Expr → Nat
  | .lu o _ => o.prec
  | .ru o _ => o.prec
  | .bin o _ _ => o.prec
  | .tern _ _ _ => Op.questionMark.prec
  | .cast _ _ _ => Op.parenCast.prec
  | .sizeof _ => Op.sizeof_.prec
  | .throw_ _ => Op.throw_.prec
  | _ => 0

/-- an operand with root level `p` may stand to the LEFT of an operator of level `q` without parentheses -/
def leftFits (q p : Nat) : Bool := p < q || (p == q && leftAssoc q)
/-- ... to the RIGHT -/
def rightFits (q p : Nat) : Bool := p < q || (p == q && !leftAssoc q)

/-- every operand binds at least as tightly as its position requires; looser operands only occur inside
    parentheses, call arguments, subscripts and tuples (which restart at the loosest level), the middle
    operand of `?:` is unrestricted -/
def canonB : Expr → Bool
  | .lu o e => canonB e && rightFits o.prec (rootPrec e)
  | .ru o e => canonB e && leftFits o.prec (rootPrec e)
  | .bin o l r => canonB l && canonB r && leftFits o.prec (rootPrec l) && rightFits o.prec (rootPrec r)
  | .tern c t f => canonB c && canonB t && canonB f &&
      leftFits Op.questionMark.prec (rootPrec c) && rightFits Op.questionMark.prec (rootPrec f)
  | .paren e => canonB e
  | .call f a => canonB f && canonB a && rootPrec f == 0
  | .sub v i => canonB v && canonB i && rootPrec v == 0
  | .cast _ _ e => canonB e && rightFits Op.parenCast.prec (rootPrec e)
  | .sizeof e => canonB e && rightFits Op.sizeof_.prec (rootPrec e)
  | .throw_ e => canonB e && rightFits Op.throw_.prec (rootPrec e)
  | .tuple a => canonB a
  | .pair _ _ => false
  | _ => true

/-- every operator token is one the tokenizer can produce (a registered spelling) -/
def lexedB (ts : List Tok) : Bool :=
  ts.all fun t => match t with
    | .op o => registered.contains o
    | _ => true

end Occa.Expr
