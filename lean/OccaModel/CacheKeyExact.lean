/-
The parameters of the key construction instantiated with the exact hash_t model
(OccaModel/Hash.lean): strings are hashed through their bytes, hashes are rendered as the JSON
string of getFullString() / getString().  Used by the driver (lean/Driver/Cache.lean) and by
the theorems about the exact model (OccaProofs/Lemmas/HashExact.lean).  Core Lean only.
-/
import OccaModel.Hash
import OccaModel.CacheKey

namespace Occa.CacheKey
open Occa Occa.Hash

/-- the bytes of a std::string (the generators use ASCII only) -/
def bytesOf (s : String) : List Nat := s.toUTF8.toList.map (·.toNat)

/-- a list of `char` values as a string -/
def strOfCodes (cs : List Int) : String := String.ofList (cs.map fun c => Char.ofNat c.toNat)

/-- hash_t::getFullString -/
def fullStr (K : Lanes) : String := strOfCodes (fullString K)

/-- hash_t::getString -/
def shortStr (K : Lanes) : String := strOfCodes ((fullString K).take 16)

/-- occa::hash(const std::string&) -/
def hashStr (s : String) : Lanes := hashBytes (bytesOf s)

/-- the constant the OpenMP device xors into the serial kernel hash -/
def openmpSaltHash : Lanes := hashStr Gen.openmpSalt

/-- the files named by `#include "…"` lines (the generated headers use exactly this form, with
    absolute paths) -/
def scanIncludes (text : String) : List String :=
  (text.splitOn "\n").filterMap fun line =>
    let cs := line.toList
    let pre := "#include \"".toList
    if pre.isPrefixOf cs then some (String.ofList ((cs.drop pre.length).takeWhile (· ≠ '"'))) else none

/-- the parameters of the key construction as the driver uses them: `openmp` selects the OpenMP
    device's constant, `dev` is device::hash() as printed by the harness -/
def exactEnv (openmp : Bool) (dev : Lanes) : Env Lanes String where
  H := hashStr
  enc := dump
  raw := id
  full K := .str (fullStr K)
  short K := .str (shortStr K)
  tweak K := if openmp then Hash.xor K openmpSaltHash else K
  dev := dev

end Occa.CacheKey
