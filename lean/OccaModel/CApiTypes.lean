/-
Enumerations shared by the generated tables (OccaGen/CTypes.lean, written by
translate/gen_capi.py from include/occa/c/types.h and src/occa/internal/c/types.cpp)
and the hand-written model of the C API (OccaModel/CApi.lean).  Core Lean only.
-/
namespace Occa.CApi

/-- the C scalar types the C API distinguishes: `bool` and the fixed-width types that are
    the template arguments of `occa::c::newOccaType<T>` -/
inductive CTy where
  | bool | i8 | u8 | i16 | u16 | i32 | u32 | i64 | u64 | f32 | f64
  deriving DecidableEq, Repr, Inhabited

namespace CTy
def all : List CTy := [bool, i8, u8, i16, u16, i32, u32, i64, u64, f32, f64]

/-- object size in bits (LP64, `sizeof(bool) = 1`) -/
def bits : CTy → Nat
  | bool => 8 | i8 => 8 | u8 => 8 | i16 => 16 | u16 => 16
  | i32 => 32 | u32 => 32 | i64 => 64 | u64 => 64 | f32 => 32 | f64 => 64

def bytes (c : CTy) : Nat := c.bits / 8

def isFloat : CTy → Bool
  | f32 => true | f64 => true | _ => false

def isSigned : CTy → Bool
  | i8 => true | i16 => true | i32 => true | i64 => true | _ => false

/-- short name used on the wire between generator, harness and driver -/
def name : CTy → String
  | bool => "bool" | i8 => "int8" | u8 => "uint8" | i16 => "int16" | u16 => "uint16"
  | i32 => "int32" | u32 => "uint32" | i64 => "int64" | u64 => "uint64" | f32 => "float" | f64 => "double"

def ofName (s : String) : Option CTy := all.find? (fun c => c.name == s)
end CTy

/-- the value constructors declared in include/occa/c/types.h -/
inductive Ctor where
  | bool | int8 | uint8 | int16 | uint16 | int32 | uint32 | int64 | uint64
  | char | uchar | short | ushort | int | uint | long | ulong | float | double
  deriving DecidableEq, Repr, Inhabited

namespace Ctor
def all : List Ctor := [bool, int8, uint8, int16, uint16, int32, uint32, int64, uint64,
  char, uchar, short, ushort, int, uint, long, ulong, float, double]

def name : Ctor → String
  | bool => "bool" | int8 => "int8" | uint8 => "uint8" | int16 => "int16" | uint16 => "uint16"
  | int32 => "int32" | uint32 => "uint32" | int64 => "int64" | uint64 => "uint64"
  | char => "char" | uchar => "uchar" | short => "short" | ushort => "ushort" | int => "int"
  | uint => "uint" | long => "long" | ulong => "ulong" | float => "float" | double => "double"

def ofName (s : String) : Option Ctor := all.find? (fun c => c.name == s)

/-- the C parameter type of the constructor on the platform of the check (x86-64 LP64,
    plain `char` signed): width in bits, signedness, floating -/
def cParam : Ctor → CTy
  | bool => .bool | int8 => .i8 | uint8 => .u8 | int16 => .i16 | uint16 => .u16
  | int32 => .i32 | uint32 => .u32 | int64 => .i64 | uint64 => .u64
  | char => .i8 | uchar => .u8 | short => .i16 | ushort => .u16 | int => .i32
  | uint => .u32 | long => .i64 | ulong => .u64 | float => .f32 | double => .f64
end Ctor

/-- what `occa::c::kernelArg(occaType)` does for a tag -/
inductive KArgCase where
  | field (c : CTy)   -- `return occa::kernelArg(value.value.<field>)`
  | pointer           -- `arg.addPointer(value.value.ptr, value.bytes)`
  | memory            -- `occa::kernelArg(occa::c::memory(value))`
  | null              -- `occa::kernelArg(occa::null)`
  | error             -- OCCA_FORCE_ERROR
  deriving DecidableEq, Repr, Inhabited

/-- what `occa::c::inferJson(occaType)` does for a tag -/
inductive JInferCase where
  | bool | prim | string | json | null | nullIfNullPtr | error
  deriving DecidableEq, Repr, Inhabited

/-- what `occaFree` does for a tag (before it overwrites the magic header) -/
inductive FreeCase where
  | nothing             -- no case in the switch
  | modeFree            -- `occa::c::<kind>(v).free()`
  | delete              -- `delete &occa::c::<kind>(v)`
  | deleteIfNeedsFree   -- `if (v.needsFree) delete …`
  deriving DecidableEq, Repr, Inhabited

end Occa.CApi
