/-
Line protocol shared by all drivers: one operation per stdin line, one observation per
stdout line.  Lines starting with `#` are echoed unchanged (they delimit histories).
-/
namespace Occa.Proto

partial def loop {σ : Type} (h : IO.FS.Stream) (out : IO.FS.Stream) (reset : σ)
    (step : σ → List String → σ × String) (s : σ) : IO Unit := do
  let line ← h.getLine
  if line.isEmpty then
    out.flush
    return ()
  let l := line.trimAscii.toString
  if l.startsWith "#" then
    out.putStrLn l
    loop h out reset step reset
  else
    let toks := (l.splitOn " ").filter (· ≠ "")
    let (s', o) := step s toks
    out.putStrLn o
    loop h out reset step s'

/-- run a driver: state is reset to `init` at every `#` line -/
def run {σ : Type} (init : σ) (step : σ → List String → σ × String) : IO Unit := do
  let i ← IO.getStdin
  let o ← IO.getStdout
  loop i o init step init

def hexDigit (c : Char) : Option Nat :=
  if '0' ≤ c ∧ c ≤ '9' then some (c.toNat - '0'.toNat)
  else if 'a' ≤ c ∧ c ≤ 'f' then some (c.toNat - 'a'.toNat + 10)
  else if 'A' ≤ c ∧ c ≤ 'F' then some (c.toNat - 'A'.toNat + 10)
  else none

/-- "0a1b" -> [10, 27]; "-" denotes the empty byte string -/
def unhex (s : String) : Option (List Nat) :=
  if s = "-" then some [] else
  let rec go : List Char → Option (List Nat)
    | [] => some []
    | a :: b :: r => do
        let x ← hexDigit a
        let y ← hexDigit b
        let t ← go r
        pure ((16 * x + y) :: t)
    | _ => none
  go s.toList

def hexNib (n : Nat) : Char := if n < 10 then Char.ofNat (48 + n) else Char.ofNat (87 + n)

def hex (bs : List Nat) : String :=
  if bs.isEmpty then "-" else
  String.ofList (bs.flatMap fun b => [hexNib (b / 16 % 16), hexNib (b % 16)])

def ints (ts : List String) : Option (List Int) := ts.mapM String.toInt?
def nats (ts : List String) : Option (List Nat) := ts.mapM String.toNat?

def joinInts (xs : List Int) : String := " ".intercalate (xs.map toString)
def joinNats (xs : List Nat) : String := " ".intercalate (xs.map toString)

end Occa.Proto
