/-
Model of occa::json  (src/types/json.cpp, include/occa/types/json.hpp, json.tpp), of the part of
occa::primitive it uses (src/types/primitive.cpp: toString, load, loadBinary, loadHex, equal, add;
src/occa/internal/utils/string.cpp: parseInt, parseBinary, toString<float/double>) and of the
lex helpers (src/occa/internal/utils/lex.cpp: skipWhitespace, skipTo).

Written after the C++ statement by statement.  A C string is a `List UInt8`; the terminating NUL is
the end of the list (`peek [] = 0`), and `cstr` cuts a byte string at its first NUL the way `c_str()`
does for the reader.  `std::map<std::string, json>` is an association list kept sorted by the
byte-wise order of `std::string::compare` (`insert`); `WF` states the ordering invariant.

The model describes the code with the fix: commits of this project applied (fixes/F28, FJ1, FJ2, FJ3, FJ5,
FJ6, FJ7 from this work; from the constant-folding work: integer literals get the first type that holds their
value — `integerLiteral` — and primitive::equal compares floats numerically): object keys are dumped
through the string escaper; typed assignment clears `primitive::source`; `set` converts through
`asObject()`; merging looks keys up literally; an unclosed object is an error.
A json node therefore has no hidden state: only the representation selected by `type` is observable.
Core Lean only.
-/
import OccaModel.CInt
import OccaModel.JsonFloat

namespace Occa.Json
open Occa

abbrev Bytes := List UInt8

/-! ## characters -/

def cTab : UInt8 := 9
def cNl : UInt8 := 10
def cVt : UInt8 := 11
def cFf : UInt8 := 12
def cCr : UInt8 := 13
def cBs : UInt8 := 8
def cSp : UInt8 := 32
def cQuote : UInt8 := 34      -- "
def cApos : UInt8 := 39       -- '
def cPlus : UInt8 := 43
def cComma : UInt8 := 44
def cMinus : UInt8 := 45
def cDot : UInt8 := 46
def cSlash : UInt8 := 47
def cColon : UInt8 := 58
def cLBrack : UInt8 := 91
def cBackslash : UInt8 := 92
def cRBrack : UInt8 := 93
def cLBrace : UInt8 := 123
def cRBrace : UInt8 := 125

/-- ASCII string literal as bytes (for readable constants; all uses are ASCII) -/
def bs (s : String) : Bytes := s.toList.map fun c => c.toNat.toUInt8

def sNull : Bytes := [110, 117, 108, 108]
def sTrue : Bytes := [116, 114, 117, 101]
def sFalse : Bytes := [102, 97, 108, 115, 101]

/-- `*c` : the byte under the cursor, NUL at the end -/
def peek : Bytes → UInt8
  | [] => 0
  | c :: _ => c

/-- what a reader of `s.c_str()` sees -/
def cstr (s : Bytes) : Bytes := s.takeWhile (· ≠ 0)

/-- lex::whitespaceCharset = " \t\r\n\v\f" -/
def isWs (c : UInt8) : Bool := c = 32 || c = 9 || c = 13 || c = 10 || c = 11 || c = 12

/-- json::objectKeyEndChars = " \t\r\n\v\f:" -/
def isKeyEnd (c : UInt8) : Bool := isWs c || c = 58

/-- lex::skipWhitespace -/
def skipWs : Bytes → Bytes
  | [] => []
  | c :: r => if isWs c then skipWs r else c :: r

def isDigit (c : UInt8) : Bool := 48 ≤ c && c ≤ 57

/-- occa::uppercase(char) -/
def upper (c : UInt8) : UInt8 := if 97 ≤ c && c ≤ 122 then c - 32 else c

def isHex (c : UInt8) : Bool :=
  isDigit c || (97 ≤ c && c ≤ 102) || (65 ≤ c && c ≤ 70)

/-! ## primitives -/

/-- primitiveType, in the order of the bit positions of include/occa/types/primitive.hpp -/
inductive PType
  | none | bool | i8 | u8 | i16 | u16 | i32 | u32 | i64 | u64 | f32 | f64
deriving DecidableEq, Repr, Inhabited

def PType.rank : PType → Nat
  | .none => 0 | .bool => 1 | .i8 => 2 | .u8 => 3 | .i16 => 4 | .u16 => 5
  | .i32 => 6 | .u32 => 7 | .i64 => 8 | .u64 => 9 | .f32 => 10 | .f64 => 11

def PType.isFloat : PType → Bool
  | .f32 | .f64 => true
  | _ => false

/-- value of a C++ object of integer type `t` holding the mathematical integer `x` -/
def PType.wrap : PType → Int → Int
  | .bool, x => if x = 0 then 0 else 1
  | .i8, x => wrapS 8 x | .u8, x => wrapU 8 x
  | .i16, x => wrapS 16 x | .u16, x => wrapU 16 x
  | .i32, x => wrapS 32 x | .u32, x => wrapU 32 x
  | .i64, x => wrapS 64 x | .u64, x => wrapU 64 x
  | .f32, x => wrapU 32 x | .f64, x => wrapU 64 x     -- floats: `val` is the bit pattern
  | .none, _ => 0

/-- occa::primitive: type tag, value, `source` text.
    `val` is the mathematical value for bool/integer types and the IEEE bit pattern for floats. -/
structure Prim where
  ty : PType
  val : Int
  src : Bytes
deriving DecidableEq, Repr, Inhabited

def Prim.mk' (t : PType) (v : Int) : Prim := ⟨t, t.wrap v, []⟩

def Prim.InRange (p : Prim) : Prop := p.ty.wrap p.val = p.val

def primNone : Prim := ⟨.none, 0, []⟩

/-! ### printing numbers -/

/-- decimal digits, least significant first; `fuel` bounds the number of digits -/
def digitsRev : Nat → Nat → Bytes
  | 0, _ => []
  | fuel+1, n => (48 + (n % 10).toUInt8) :: (if n < 10 then [] else digitsRev fuel (n / 10))

/-- `ss << (uint64_t) n` -/
def natDec (n : Nat) : Bytes := (digitsRev 20 n).reverse

/-- `ss << (int64_t) v` -/
def intDec (v : Int) : Bytes := if v < 0 then cMinus :: natDec v.natAbs else natDec v.toNat

/-- primitive::toString -/
def Prim.toStr (p : Prim) : Bytes :=
  if !p.src.isEmpty then p.src else
  match p.ty with
  | .none => []
  | .bool => if p.val = 0 then sFalse else sTrue
  | .i64 | .u64 => intDec p.val ++ [76]
  | .f32 => JsonFloat.sci JsonFloat.f32 8 p.val.toNat ++ [102]
  | .f64 => JsonFloat.sci JsonFloat.f64 16 p.val.toNat
  | _ => intDec p.val

/-! ### reading numbers -/

def two64 : Nat := 18446744073709551616

/-- `while ('0' <= *c && *c <= '9') { ret *= 10; ret += *c++ - '0'; }` on a uint64_t -/
def readDec : Bytes → Nat → Nat × Bytes
  | [], acc => (acc, [])
  | c :: r, acc => if isDigit c then readDec r ((acc * 10 + (c.toNat - 48)) % two64) else (acc, c :: r)

/-- occa::parseBinary(const char*) (string.cpp): optional sign, `0x`/`0b` prefix or 3 bits per
    digit after a leading 0, digits and hex letters accumulated with `ret <<= bits; ret += digit`.
    The range assertion can only fire for texts primitive::load never passes on. -/
def parseBinaryStr (s : Bytes) : Nat :=
  let s := skipWs s
  let (neg, s) := if peek s = cPlus || peek s = cMinus then (peek s == cMinus, s.drop 1) else (false, s)
  let (bits, s) :=
    if peek s = 48 then
      let s := s.drop 1
      let C := upper (peek s)
      if C = 88 then (4, s.drop 1) else if C = 66 then (1, s.drop 1) else (3, s)
    else (3, s)
  let rec go : Bytes → Nat → Nat
    | [], acc => acc
    | c :: r, acc =>
      if isDigit c then go r ((acc * 2 ^ bits + (c.toNat - 48)) % two64)
      else
        let C := upper c
        if 65 ≤ C && C ≤ 70 then go r ((acc * 2 ^ bits + (10 + (C.toNat - 65))) % two64)
        else acc
  let ret := go s 0
  if neg then (two64 - ret) % two64 else ret

def readBin : Bytes → Nat → Nat → Nat × Nat × Bytes
  | [], acc, n => (acc, n, [])
  | c :: r, acc, n => if c = 48 || c = 49 then readBin r ((acc * 2 + (c.toNat - 48)) % two64) (n + 1) else (acc, n, c :: r)

def readHex : Bytes → Nat → Nat → Nat × Nat × Bytes
  | [], acc, n => (acc, n, [])
  | c :: r, acc, n =>
    let C := upper c
    if isDigit C then readHex r ((acc * 16 + (C.toNat - 48)) % two64) (n + 1)
    else if 65 ≤ C && C ≤ 70 then readHex r ((acc * 16 + (10 + (C.toNat - 65))) % two64) (n + 1)
    else (acc, n, c :: r)

/-- suffix loop of primitive::load: counts L, U, F; `E` starts an exponent (not for 0x/0b) -/
inductive SufEnd | plain | exp
deriving DecidableEq

def sufLoop (formatted : Bool) : Bytes → Nat → Bool → Bool → Nat × Bool × Bool × SufEnd × Bytes
  | [], l, u, f => (l, u, f, .plain, [])
  | c :: r, l, u, f =>
    let C := upper c
    if C = 76 then sufLoop formatted r (l + 1) u f
    else if C = 85 then sufLoop formatted r l true f
    else if !formatted && C = 69 then (l, u, f, .exp, r)
    else if !formatted && C = 70 then sufLoop formatted r l u true
    else (l, u, f, .plain, c :: r)

/-- digits and dots: `while (digit || '.')` -/
def scanDigitsDots : Bytes → Nat → Bool → Nat × Bool × Bytes
  | [], d, dot => (d, dot, [])
  | c :: r, d, dot =>
    if isDigit c then scanDigitsDots r (d + 1) dot
    else if c = cDot then scanDigitsDots r d true
    else (d, dot, c :: r)

/-- what `sscanf("%lf")` / `atof` read from a text of the shape primitive::load hands over:
    sign, digits with at most the first dot, optional exponent.  Returns (neg, mantissa, exp10). -/
def decimalOfText (s : Bytes) : Bool × Nat × Int :=
  let (neg, s) := if peek s = cPlus || peek s = cMinus then (peek s == cMinus, s.drop 1) else (false, s)
  let rec ip : Bytes → Nat → Nat × Bytes
    | [], acc => (acc, [])
    | c :: r, acc => if isDigit c then ip r (acc * 10 + (c.toNat - 48)) else (acc, c :: r)
  let rec fp : Bytes → Nat → Nat → Nat × Nat × Bytes
    | [], acc, n => (acc, n, [])
    | c :: r, acc, n => if isDigit c then fp r (acc * 10 + (c.toNat - 48)) (n + 1) else (acc, n, c :: r)
  let (i, s) := ip s 0
  let (m, nf, s) := if peek s = cDot then fp (s.drop 1) i 0 else (i, 0, s)
  let e : Int :=
    if upper (peek s) = 69 then
      let s := s.drop 1
      let (eneg, s) := if peek s = cPlus || peek s = cMinus then (peek s == cMinus, s.drop 1) else (false, s)
      if isDigit (peek s) then
        let (x, _) := ip s 0
        if eneg then - (x : Int) else x
      else 0
    else 0
  (neg, m, e - nf)

/-- integerLiteral (primitive.cpp): the first type that can represent the value, from the list
    C and C++ use for the base and suffix of the literal:  decimal: int, long;  hex/octal/binary: int,
    unsigned, long, unsigned long;  `u`: only unsigned types;  `l`/`ll`: only 64-bit types -/
def intLiteral (v : Nat) (isDecimal uns : Bool) (longs : Nat) : PType :=
  if longs = 0 && !uns && v ≤ 2147483647 then .i32
  else if longs = 0 && (uns || !isDecimal) && v ≤ 4294967295 then .u32
  else if !uns && v ≤ 9223372036854775807 then .i64
  else .u64

/-- the typed literal, with the sign applied afterwards (`primitive::negative`) -/
def signedLiteral (v : Nat) (isDecimal uns : Bool) (longs : Nat) (neg : Bool) : PType × Int :=
  let ty := intLiteral v isDecimal uns longs
  (ty, if neg then ty.wrap (- (v : Int)) else (v : Int))

/-- sign handling of primitive::load: `+`/`-`, then whitespace -/
def splitSign (s0 : Bytes) : Bool × Bytes :=
  if peek s0 = cPlus || peek s0 = cMinus then (peek s0 == cMinus, skipWs (s0.drop 1)) else (false, s0)

/-- the `0b…` / `0x…` branch of primitive::load; `s` is the text after the sign, `C1` the
    upper-cased second character -/
def loadFormatted (s0 : Bytes) (neg : Bool) (s : Bytes) (C1 : UInt8) : Prim × Bytes :=
  let body := s.drop 2
  let (v, n, rest) := if C1 = 66 then readBin body 0 0 else readHex body 0 0
  if n = 0 then (primNone, s0)
  else
    let (longs, uns, _, _, rest) := sufLoop true rest 0 false false
    let (ty, x) := signedLiteral v false uns longs neg
    let used := s0.take (s0.length - rest.length)
    (⟨ty, x, used⟩, rest)

/-- the decimal branch of primitive::load; `expLoad` is the recursive `primitive::load(++c)` used
    for an exponent -/
def loadDecimal (expLoad : Bytes → Prim × Bytes) (s0 s : Bytes) (neg : Bool) : Prim × Bytes :=
  let (digits, dot, s1) := scanDigitsDots s 0 false
  if digits = 0 then (primNone, s0)
  else
    let (longs, uns, fl, how, s2) := sufLoop false s1 0 false false
    let (dec, fl, rest) :=
      match how with
      | .plain => (dot, fl, s2)
      | .exp =>
        let (ep, r) := expLoad s2
        (true, ep.ty.isFloat, r)
    let used := s0.take (s0.length - rest.length)
    if dec || fl then
      -- the digits (without the sign and the blanks after it) are converted, then the sign is applied
      -- (fix FJ7; before it the whole text went to sscanf, which fails on "- 5.0")
      let (_, m, e) := decimalOfText (s.take (s.length - rest.length))
      let d := JsonFloat.ofDecimal JsonFloat.f64 false m e
      if fl then
        let f := JsonFloat.f64ToF32 d
        (⟨.f32, if neg then (f % 2147483648) + 2147483648 else f, used⟩, rest)
      else (⟨.f64, if neg then (d % 9223372036854775808) + 9223372036854775808 else d, used⟩, rest)
    else
      -- [cDigits, cDigitsEnd): a leading 0 starts an octal literal (read by parseBinary)
      let digitText := s.take (s.length - s1.length)
      let isDecimal := peek s != 48
      let v := if isDecimal then (readDec digitText 0).1 else parseBinaryStr digitText
      let (ty, x) := signedLiteral v isDecimal uns longs neg
      (⟨ty, x, used⟩, rest)

/-- primitive::load(const char *&c, includeSign = true).  Returns the primitive and the cursor.
    `fuel` bounds the nesting of exponents (`1e1e1e…`); each level consumes a character. -/
def loadPrim : Nat → Bytes → Prim × Bytes
  | 0, s => (primNone, s)
  | fuel+1, s0 =>
    if s0.take 4 = sTrue then (⟨.bool, 1, sTrue⟩, s0.drop 4)
    else if s0.take 5 = sFalse then (⟨.bool, 0, sFalse⟩, s0.drop 5)
    else
      let (neg, s) := splitSign s0
      let C1 := upper (peek (s.drop 1))
      if peek s = 48 && (C1 = 66 || C1 = 88) then loadFormatted s0 neg s C1
      else loadDecimal (loadPrim fuel) s0 s neg

/-! ### comparing and adding numbers -/

/-- the integer a primitive converts to (`to<T>()` before the final wrap); floats truncate -/
def Prim.toInt (p : Prim) : Int :=
  match p.ty with
  | .f32 => (JsonFloat.truncToInt JsonFloat.f32 p.val.toNat).getD 0
  | .f64 => (JsonFloat.truncToInt JsonFloat.f64 p.val.toNat).getD 0
  | _ => p.val

def maxTy (a b : PType) : PType := if a.rank > b.rank then a else b

/-- `to<double>()` / `to<float>()`, evaluated with Lean's runtime floats (never reasoned about) -/
def Prim.toF64 (p : Prim) : Float :=
  match p.ty with
  | .f64 => Float.ofBits p.val.toNat.toUInt64
  | .f32 => (Float32.ofBits p.val.toNat.toUInt32).toFloat
  | _ => Float.ofInt p.val

def Prim.toF32 (p : Prim) : Float32 :=
  match p.ty with
  | .f64 => (Float.ofBits p.val.toNat.toUInt64).toFloat32
  | .f32 => Float32.ofBits p.val.toNat.toUInt32
  | _ => Float32.ofInt p.val

/-- `(bool) primitive::equal(a, b)` as used by json::operator==: `a.to<T>() == b.to<T>()` with `T` the
    higher-ranked operand type (IEEE comparison for float and double: NaN differs from itself,
    -0.0 equals 0.0; evaluated with the runtime's floats, tested only) -/
def primEq (a b : Prim) : Bool :=
  let t := maxTy a.ty b.ty
  match t with
  | .none => false
  | .f32 => a.toF32 == b.toF32
  | .f64 => a.toF64 == b.toF64
  | t => t.wrap a.toInt = t.wrap b.toInt

/-- the type C++ gives `T + T` after integer promotion, as stored by `primitive(T + T)` -/
def promote : PType → PType
  | .bool | .i8 | .u8 | .i16 | .u16 | .i32 => .i32
  | t => t

/-- primitive::addEq: `a = a.to<T>() + b.to<T>()` with `T` the higher-ranked operand type; the sum of
    two sub-`int` operands is an `int`.  Float sums use the runtime's IEEE arithmetic (tested through
    the correspondence run only). -/
def primAdd (a b : Prim) : Option Prim :=
  let t := maxTy a.ty b.ty
  match t with
  | .none => none
  | .f32 => some ⟨.f32, ((a.toF32 + b.toF32).toBits.toNat : Int), []⟩
  | .f64 => some ⟨.f64, ((a.toF64 + b.toF64).toBits.toNat : Int), []⟩
  | t =>
    let r := promote t
    some ⟨r, r.wrap (t.wrap a.toInt + t.wrap b.toInt), []⟩

/-! ## json values -/

inductive Json
  | none
  | null
  | num (p : Prim)
  | str (s : Bytes)
  | arr (xs : List Json)
  | obj (kvs : List (Bytes × Json))
deriving Repr, Inhabited

abbrev Obj := List (Bytes × Json)

def Json.isNone : Json → Bool
  | .none => true
  | _ => false

def Json.isObj : Json → Bool
  | .obj _ => true
  | _ => false

/-- `std::string` ordering: lexicographic on unsigned bytes -/
def keyLt (a b : Bytes) : Bool := decide (a < b)

/-- `value_.object[k] = v` on the sorted association list -/
def insert (k : Bytes) (v : Json) : Obj → Obj
  | [] => [(k, v)]
  | (k', v') :: r =>
    if k = k' then (k, v) :: r
    else if keyLt k k' then (k, v) :: (k', v') :: r
    else (k', v') :: insert k v r

/-- `value_.object.find(k)` -/
def lookup (k : Bytes) : Obj → Option Json
  | [] => Option.none
  | (k', v') :: r => if k = k' then some v' else lookup k r

/-- `value_.object.erase(k)` -/
def erase (k : Bytes) : Obj → Obj
  | [] => []
  | (k', v') :: r => if k = k' then r else (k', v') :: erase k r

def keysSorted : Obj → Bool
  | [] => true
  | [_] => true
  | (k1, _) :: (k2, v2) :: r => keyLt k1 k2 && keysSorted ((k2, v2) :: r)

mutual
/-- every object in the value is strictly sorted by key (the std::map invariant) -/
def Json.wf : Json → Bool
  | .arr xs => wfList xs
  | .obj kvs => keysSorted kvs && wfObj kvs
  | _ => true
def wfList : List Json → Bool
  | [] => true
  | x :: xs => x.wf && wfList xs
def wfObj : Obj → Bool
  | [] => true
  | (_, v) :: r => v.wf && wfObj r
end

mutual
/-- some node of the value has type `none_` (a default-constructed json, or the placeholder left
    by a non-const operator[]); a number whose primitive has no type counts as well -/
def hasNone : Json → Bool
  | .none => true
  | .num p => p.ty = .none
  | .arr xs => hasNoneL xs
  | .obj kvs => hasNoneO kvs
  | _ => false
def hasNoneL : List Json → Bool
  | [] => false
  | x :: xs => hasNone x || hasNoneL xs
def hasNoneO : Obj → Bool
  | [] => false
  | (_, v) :: r => hasNone v || hasNoneO r
end

/-! ## dump -/

/-- the escape switch of json::dumpToString -/
def escByte (c : UInt8) : Bytes :=
  if c = cQuote then [cBackslash, cQuote]
  else if c = cBackslash then [cBackslash, cBackslash]
  else if c = cBs then [cBackslash, 98]
  else if c = cFf then [cBackslash, 102]
  else if c = cNl then [cBackslash, 110]
  else if c = cCr then [cBackslash, 114]
  else if c = cTab then [cBackslash, 116]
  else [c]

def escBytes : Bytes → Bytes
  | [] => []
  | c :: r => escByte c ++ escBytes r

/-- dumpQuotedString: used for string values and (after fix F28) for object keys -/
def dumpStr (s : Bytes) : Bytes := cQuote :: (escBytes s ++ [cQuote])

/-- separator after an element: `",\n"` / `", "` between elements, `"\n"` / `""` after the last -/
def sepAfter (ind : Bytes) (last : Bool) : Bytes :=
  if last then (if ind.isEmpty then [] else [cNl])
  else (if ind.isEmpty then [cComma, cSp] else [cComma, cNl])

mutual
/-- json::dumpToString(out, indent, currentIndent) -/
def dump (ind cur : Bytes) : Json → Bytes
  | .none => []
  | .null => sNull
  | .num p => p.toStr
  | .str s => dumpStr s
  | .arr xs =>
    if xs.isEmpty then [cLBrack, cRBrack]
    else cLBrack :: ((if ind.isEmpty then [] else [cNl]) ++ dumpArr ind (cur ++ ind) xs ++ cur ++ [cRBrack])
  | .obj kvs =>
    if kvs.isEmpty then [cLBrace, cRBrace]
    else cLBrace :: ((if ind.isEmpty then [] else [cNl]) ++ dumpObj ind (cur ++ ind) kvs
              ++ (if ind.isEmpty then [] else cur) ++ [cRBrace])
def dumpArr (ind ni : Bytes) : List Json → Bytes
  | [] => []
  | x :: xs => ni ++ dump ind ni x ++ sepAfter ind xs.isEmpty ++ dumpArr ind ni xs
def dumpObj (ind ni : Bytes) : Obj → Bytes
  | [] => []
  | (k, v) :: r =>
    ni ++ dumpStr k ++ [cColon, cSp]
      ++ (if v.isNone then [cLBrace, cRBrace]        -- "Temporary until jsonRef"
          else dump ind ni v)
      ++ sepAfter ind r.isEmpty ++ dumpObj ind ni r
end

/-- json::dump(indent): negative indentation means 2 -/
def dumpI (indent : Int) (v : Json) : Bytes :=
  let n := if indent ≥ 0 then indent.toNat else 2
  dump (List.replicate n cSp) [] v

/-- json::toString -/
def toStringJ : Json → Bytes
  | .str s => s
  | v => dumpI 2 v

/-! ## load -/

inductive Err
  | cannotLoad          -- "Cannot load JSON"
  | unclosedString      -- "Unclosed string"
  | expectedHex         -- "Expected hex value"
  | keyEmpty            -- "Key cannot be of size 0"
  | keyColon            -- "Key must be followed by ':'"
  | objBrace            -- "Object is missing closing '}'"
  | objSep              -- "Object key-values should be followed by ',' or '}'"
  | arrSep              -- "Array values should be followed by ',' or ']'"
  | arrBracket          -- "Array is missing closing ']'"
  | badValue            -- "Cannot read value" (true/false/null/comment)
  | notObject           -- "Path '…' is not an object"
  | addTypes            -- "Cannot apply operator + with different JSON types"
  | notArray            -- "Can only apply operator [] with JSON arrays"
  | typeNotSet          -- primitive "Type not set"
  | fuel                -- model artefact: recursion budget exhausted (never with `parseFuel`)
deriving DecidableEq, Repr, Inhabited

def Err.name : Err → String
  | .cannotLoad => "cannotLoad" | .unclosedString => "unclosedString" | .expectedHex => "expectedHex"
  | .keyEmpty => "keyEmpty" | .keyColon => "keyColon" | .objBrace => "objBrace" | .objSep => "objSep"
  | .arrSep => "arrSep" | .arrBracket => "arrBracket" | .badValue => "badValue"
  | .notObject => "notObject" | .addTypes => "addTypes" | .notArray => "notArray"
  | .typeNotSet => "typeNotSet" | .fuel => "fuel"

abbrev Res (α : Type) := Except Err (α × Bytes)

/-- the four characters after `\u` must be hex digits (a NUL / the end is not one) -/
def hex4 (r : Bytes) : Bool := (r.take 4).length = 4 && (r.take 4).all isHex

/-- json::loadString after the opening quote: returns the string and the cursor after the closing
    quote.  `esc` = the previous character was a backslash (the C++ handles the pair in one
    iteration).  After `\uXXXX` the C++ appends `\u` and the four hex digits and skips them; here
    `\u` is appended and the four (checked) hex digits are then read as ordinary characters,
    which appends exactly them. -/
def loadStr (q : UInt8) : Bool → Bytes → Bytes → Res Bytes
  | _, [], _ => .error .unclosedString
  | true, d :: r, acc =>
    if d = cNl then loadStr q false r acc
    else if d = 98 then loadStr q false r (acc ++ [cBs])
    else if d = 102 then loadStr q false r (acc ++ [cFf])
    else if d = 110 then loadStr q false r (acc ++ [cNl])
    else if d = 114 then loadStr q false r (acc ++ [cCr])
    else if d = 116 then loadStr q false r (acc ++ [cTab])
    else if d = 117 then (if hex4 r then loadStr q false r (acc ++ [cBackslash, 117]) else .error .expectedHex)
    else loadStr q false r (acc ++ [d])
  | false, c :: r, acc =>
    if c = cBackslash then loadStr q true r acc
    else if c = q then .ok (acc, r)
    else loadStr q false r (acc ++ [c])

/-- lex::skipTo(c, objectKeyEndChars): the bare key and the cursor -/
def bareKey : Bytes → Bytes → Bytes × Bytes
  | [], acc => (acc, [])
  | c :: r, acc => if isKeyEnd c then (acc, c :: r) else bareKey r (acc ++ [c])

/-- lex::skipTo(c, '\n', '\\'); `esc` = the previous character was the escape character -/
def skipToNlE : Bool → Bytes → Bytes
  | _, [] => []
  | true, _ :: r => skipToNlE false r
  | false, c :: r =>
    if c = cBackslash then skipToNlE true r
    else if c = cNl then c :: r
    else skipToNlE false r

def skipToNl (s : Bytes) : Bytes := skipToNlE false s

mutual
/-- json::load(const char *&c) -/
def load : Nat → Bytes → Res Json
  | 0, _ => .error .fuel
  | n+1, s0 =>
    let s := skipWs s0
    let c := peek s
    if isDigit c || c = cMinus then
      let (p, r) := loadPrim (s.length + 1) s
      .ok (.num p, r)
    else if c = cLBrace then loadObjLoop n true (s.drop 1) []
    else if c = cLBrack then loadArrLoop n (s.drop 1) []
    else if c = cApos || c = cQuote then
      match loadStr c false (s.drop 1) [] with
      | .ok (str, r) => .ok (.str str, r)
      | .error e => .error e
    else if c = 116 then (if s.take 4 = sTrue then .ok (.num ⟨.bool, 1, []⟩, s.drop 4) else .error .badValue)
    else if c = 102 then (if s.take 5 = sFalse then .ok (.num ⟨.bool, 0, []⟩, s.drop 5) else .error .badValue)
    else if c = 110 then (if s.take 4 = sNull then .ok (.null, s.drop 4) else .error .badValue)
    else if c = cSlash then (if s.take 2 = [cSlash, cSlash] then .ok (.none, skipToNl s) else .error .badValue)
    else .error .cannotLoad
/-- the member loop of json::loadObject; `acc` is value_.object so far -/
def loadObjLoop : Nat → Bool → Bytes → Obj → Res Json
  | 0, _, _, _ => .error .fuel
  | n+1, hasBrace, s0, acc =>
    -- while (*c != '\0')
    if s0.isEmpty then (if hasBrace then .error .objBrace else .ok (.obj acc, s0)) else
    let s := skipWs s0
    let c := peek s
    if c = cRBrace || c = 0 then
      -- break; then "Skip }"
      (if hasBrace then (if c = cRBrace then .ok (.obj acc, s.drop 1) else .error .objBrace) else .ok (.obj acc, s))
    else
      -- loadObjectField
      let keyRes : Res Bytes :=
        if c = cQuote then loadStr cQuote false (s.drop 1) []
        else .ok (bareKey s [])
      match keyRes with
      | .error e => .error e
      | .ok (key, s) =>
        if key.isEmpty then .error .keyEmpty else
        let s := skipWs s
        if peek s ≠ cColon then .error .keyColon else
        match load n (s.drop 1) with
        | .error e => .error e
        | .ok (v, s) =>
          let acc := insert key v acc
          let s := skipWs s
          let c := peek s
          if c = cComma then loadObjLoop n hasBrace (s.drop 1) acc
          else if c = cRBrace then
            (if hasBrace then .ok (.obj acc, s.drop 1) else .ok (.obj acc, s))
          else if c = 0 then (if hasBrace then .error .objBrace else .ok (.obj acc, s))
          else .error .objSep
/-- the element loop of json::loadArray -/
def loadArrLoop : Nat → Bytes → List Json → Res Json
  | 0, _, _ => .error .fuel
  | n+1, s0, acc =>
    if s0.isEmpty then .error .arrBracket else
    let s := skipWs s0
    if peek s = cRBrack then .ok (.arr acc, s.drop 1) else
    match load n s with
    | .error e => .error e
    | .ok (v, s) =>
      let acc := acc ++ [v]
      let s := skipWs s
      let c := peek s
      if c = cComma then loadArrLoop n (s.drop 1) acc
      else if c = cRBrack then .ok (.arr acc, s.drop 1)
      else if c = 0 then .error .arrBracket
      else .error .arrSep
end

/-- recursion budget that suffices for any text of length `len`: every nested call of `load`,
    `loadObjLoop`, `loadArrLoop` happens after at least one character was consumed (C24_fuel_suffices
    proves it for dumped values) -/
def parseFuel (len : Nat) : Nat := 2 * len + 2

/-- json::parse(const std::string&): the reader sees the bytes up to the first NUL -/
def parse (s : Bytes) : Except Err Json :=
  let t := cstr s
  match load (parseFuel t.length) t with
  | .ok (v, _) => .ok v
  | .error e => .error e

/-! ## equality and hash input -/

mutual
/-- json::operator== -/
def jsonEq : Json → Json → Bool
  | .none, .none => true
  | .null, .null => true
  | .num a, .num b => primEq a b
  | .str a, .str b => a = b
  | .arr a, .arr b => eqList a b
  | .obj a, .obj b => eqObj a b
  | _, _ => false
def eqList : List Json → List Json → Bool
  | [], [] => true
  | x :: xs, y :: ys => jsonEq x y && eqList xs ys
  | _, _ => false
def eqObj : Obj → Obj → Bool
  | [], [] => true
  | (k1, v1) :: r1, (k2, v2) :: r2 => k1 = k2 && jsonEq v1 v2 && eqObj r1 r2
  | _, _ => false
end

/-- the text json::hash() hashes: dumpToString with the default (empty) indentation -/
def hashText (v : Json) : Bytes := dump [] [] v

/-- json::size() -/
def size : Json → Nat
  | .str s => s.length
  | .arr xs => xs.length
  | .obj kvs => kvs.length
  | _ => 0

end Occa.Json
