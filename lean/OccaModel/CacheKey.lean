/-
Model of the kernel cache key (C06):

  device::setupKernelInfo            src/core/device.cpp
  serial::device::kernelHash         src/occa/internal/modes/serial/device.cpp
  openmp::device::kernelHash         src/occa/internal/modes/openmp/device.cpp
  kernelHeaderHash                   src/core/kernel.cpp
  json::dumpToString (indent "")     src/types/json.cpp          (what json::hash() hashes)

WHICH properties are hashed, in which order, with which combinator and rendering comes from
the generated table OccaGen/CacheKeyFields.lean; the functions below follow the C++ of the
labelled shape (one JSON object whose members are labelled with the property names).  The
hash function, the JSON encoder and the hash_t string rendering are parameters (`Env`), so the
theorems of Props/C06.lean hold for every choice of them; the driver instantiates them with the
exact hash_t model of OccaModel/Hash.lean and with `dump` below.
Core Lean only.
-/
import OccaModel.CacheKeyBase
import OccaGen.CacheKeyFields

namespace Occa.CacheKey
open Occa.CacheKeyBase

/-- occa::json values.  `none` is the uninitialised json (type none_); numbers and booleans keep
    their printed token (`primitive::toString`: the source text, or "true"/"false"/decimal). -/
inductive J
  | none
  | null
  | lit (text : String)
  | str (s : String)
  | arr (xs : List J)
  | obj (kvs : List (String × J))
deriving Repr, Inhabited

/-! ### jsonObject = std::map<std::string, json> -/

/-- `map[k] = v` on a list kept strictly increasing in the key; an equal key is overwritten -/
def insertKV {α : Type} (k : String) (v : α) : List (String × α) → List (String × α)
  | [] => [(k, v)]
  | (k', v') :: t =>
    if k < k' then (k, v) :: (k', v') :: t
    else if k = k' then (k, v) :: t
    else (k', v') :: insertKV k v t

/-- the map holding the given members (for a repeated key the FIRST list entry wins; the
    tables used below have distinct keys, so this is `map[k1] = v1; map[k2] = v2; …`) -/
def mkMap {α : Type} (kvs : List (String × α)) : List (String × α) :=
  kvs.foldr (fun kv acc => insertKV kv.1 kv.2 acc) []

/-- `occa::json key; key[k1] = v1; …` : stays uninitialised when nothing is assigned -/
def mkObj (kvs : List (String × J)) : J :=
  if kvs.isEmpty then .none else .obj (mkMap kvs)

/-! ### json::dumpToString(out, indent = "", currentIndent = "") -/

/-- the escape of one character inside a JSON string -/
def escCharL (c : Char) : List Char :=
  if c = '"' then ['\\', '"']
  else if c = '\\' then ['\\', '\\']
  else if c = '\x08' then ['\\', 'b']
  else if c = '\x0c' then ['\\', 'f']
  else if c = '\n' then ['\\', 'n']
  else if c = '\r' then ['\\', 'r']
  else if c = '\t' then ['\\', 't']
  else [c]

def escL (s : List Char) : List Char := s.flatMap escCharL

mutual
/-- the characters json::dumpToString appends for a value -/
def dumpL : J → List Char
  | .none => []
  | .null => ['n', 'u', 'l', 'l']
  | .lit t => t.toList
  | .str s => '"' :: (escL s.toList ++ ['"'])
  | .arr xs => '[' :: (dumpArrL xs ++ [']'])
  | .obj kvs => '{' :: (dumpObjL kvs ++ ['}'])
def dumpArrL : List J → List Char
  | [] => []
  | x :: t => dumpL x ++ ((if t.isEmpty then [] else [',', ' ']) ++ dumpArrL t)
/-- members are written `"key": value`; the key is NOT escaped; an uninitialised member is
    written `{}` ("Temporary until jsonRef") -/
def dumpObjL : List (String × J) → List Char
  | [] => []
  | (k, v) :: t =>
    '"' :: (k.toList ++ ('"' :: ':' :: ' ' ::
      ((match v with | .none => ['{', '}'] | v => dumpL v)
        ++ ((if t.isEmpty then [] else [',', ' ']) ++ dumpObjL t))))
end

/-- the text json::hash() hashes -/
def dump (j : J) : String := String.ofList (dumpL j)

/-! ### configurations -/

/-- a build configuration: the kernel properties after device::kernelProperties merged them
    (top-level names) and the kernel source text -/
structure Config where
  props : List (String × J)
  src : String
deriving Repr, Inhabited

def Config.get (c : Config) (n : String) : Option J := c.props.lookup n

/-- The parameters of the key construction.  `σ` is what gets hashed (in the C++: std::string).
    In the C++ `enc` is json::dumpToString, `raw` the identity on strings, `full k` the JSON
    string holding `k.getFullString()`, `short k` the one holding `k.getString()`. -/
structure Env (κ σ : Type) where
  /-- occa::hash(const std::string&) -/
  H : σ → κ
  /-- json::dumpToString: what json::hash() feeds to occa::hash -/
  enc : J → σ
  /-- a text (kernel source, file contents) as fed to occa::hash / hashFile -/
  raw : String → σ
  /-- the JSON value stored for a hash_t rendered with getFullString (256 bits) -/
  full : κ → J
  /-- the JSON value stored for a hash_t rendered with getString (64 bits) -/
  short : κ → J
  /-- what the device mode does to the serial kernelHash (Serial: nothing, OpenMP: xor with a constant) -/
  tweak : κ → κ
  /-- device::hash() (versionedHash of the mode device) -/
  dev : κ

variable {κ σ : Type}

def render (e : Env κ σ) (r : Render) : κ → J :=
  match r with
  | .full => e.full
  | .short => e.short

/-- the value `key[name]` gets in
    `for (name : hashedProps) { value = props[name]; if (value.isInitialized()) key[name] = value; }`
    (`skip = false`: the assignment is unconditional and an unset value becomes an uninitialised member) -/
def fieldVal (skip : Bool) (get : String → Option J) (n : String) : Option J :=
  match get n with
  | some v => some v
  | Option.none => if skip then Option.none else some J.none

/-- the object `key` after `key[n] = v` for the names that have a value -/
def objOf (names : List String) (g : String → Option J) : J :=
  mkObj (names.filterMap fun n => (g n).map fun v => (n, v))

def fieldObj (skip : Bool) (fields : List String) (get : String → Option J) : J :=
  objOf fields (fieldVal skip get)

/-- modeDevice->kernelHash(kernelProps) -/
def modeKey (e : Env κ σ) (c : Config) : κ :=
  e.tweak (e.H (e.enc (fieldObj Gen.serialSkipsUnset Gen.serialFields c.get)))

/-- kernelHeaderHash(kernelProps) -/
def headerKey (e : Env κ σ) (c : Config) : κ :=
  e.H (e.enc (fieldObj Gen.headerSkipsUnset Gen.headerFields c.get))

/-- the value stored under one label of the key object of setupKernelInfo
    (second component of the argument: the assignment is guarded by isInitialized) -/
def partVal (e : Env κ σ) (c : Config) : KeyPart × Bool → Option J
  | (.deviceHash, _) => some (render e Gen.setupRender e.dev)
  | (.modeHash, _) => some (render e Gen.setupRender (modeKey e c))
  | (.headerHash, _) => some (render e Gen.setupRender (headerKey e c))
  | (.sourceHash, _) => some (render e Gen.setupRender (e.H (e.raw c.src)))
  | (.prop n, guarded) => fieldVal guarded c.get n

def partList (e : Env κ σ) (c : Config) (parts : List (String × KeyPart × Bool)) : List (String × J) :=
  parts.filterMap fun lp => (partVal e c lp.2).map fun v => (lp.1, v)

/-- device::setupKernelInfo before applyDependencyHash:
    `key["device"] = …; key["mode"] = …; …; kernelHash = occa::hash(key)` -/
def baseKey (e : Env κ σ) (c : Config) : κ :=
  e.H (e.enc (mkObj (partList e c Gen.setupParts)))

/-! ### what the property talks about -/

/-- the properties that setupKernelInfo itself puts into the key -/
def propParts : List String :=
  Gen.setupParts.filterMap fun lp => match lp.2.1 with | .prop n => some n | _ => Option.none

/-- every property name that enters the key -/
def hashedNames : List String := Gen.serialFields ++ Gen.headerFields ++ propParts

/-- the inputs named by property C06 besides the source text -/
def namedProps : List String :=
  ["defines", "includes", "headers", "functions", "compiler", "compiler_flags",
   "compiler_linker_flags", "compiler_shared_flags", "compiler_env_script",
   "compiler_language", "okl"]

/-- everything of a configuration that enters the key -/
def Config.view (c : Config) : String × List (Option J) := (c.src, hashedNames.map c.get)

/-- the effective build inputs of property C06 -/
def Config.effective (c : Config) : String × List (Option J) := (c.src, namedProps.map c.get)

end Occa.CacheKey
