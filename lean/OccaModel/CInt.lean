/-
C/C++ fixed-width integer values as mathematical `Int`s (LP64).
Used by the generated definitions in `OccaGen` (see translate/cxx2lean.py) and by the
hand-written models.  Core Lean only.
-/
namespace Occa

/-- value of an unsigned `n`-bit object holding `x` reduced modulo `2^n` -/
def wrapU (n : Nat) (x : Int) : Int := x % (2 ^ n : Int)

/-- value of a signed two's-complement `n`-bit object holding `x` reduced modulo `2^n` -/
def wrapS (n : Nat) (x : Int) : Int := (x + 2 ^ (n - 1)) % (2 ^ n : Int) - 2 ^ (n - 1)

/-- bitwise operators, computed on the 64-bit two's-complement pattern; the caller wraps
    the result to the C++ result type. -/
def cand (a b : Int) : Int := ((BitVec.ofInt 64 a) &&& (BitVec.ofInt 64 b)).toInt
def cor  (a b : Int) : Int := ((BitVec.ofInt 64 a) ||| (BitVec.ofInt 64 b)).toInt
def cxor (a b : Int) : Int := ((BitVec.ofInt 64 a) ^^^ (BitVec.ofInt 64 b)).toInt

theorem wrapU_lt (n : Nat) (x : Int) : 0 ≤ wrapU n x ∧ wrapU n x < 2 ^ n := by
  unfold wrapU
  have h : (0 : Int) < 2 ^ n := Int.pow_pos (by decide)
  exact ⟨Int.emod_nonneg _ (Int.ne_of_gt h), Int.emod_lt_of_pos _ h⟩

end Occa
