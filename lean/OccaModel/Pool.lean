/-
Model of occa::memoryPool (src/occa/internal/core/memoryPool.cpp, src/core/memoryPool.cpp,
src/occa/internal/modes/serial/memoryPool.cpp), of the pieces of occa::memory / modeBuffer_t it
rests on (slice, copyFrom/copyTo, buffer life time) and of the device byte counters
(src/core/device.cpp, src/occa/internal/core/buffer.cpp, serial/device.cpp) -- properties
C03, C04, C05.  Core Lean only.

The functions follow the C++ loop by loop.  Where /repo's history contains a `fix:` commit for one
of the pool defects, the old and the new statement are both modelled and selected by a flag of
`Cfg`; the flags are *read from the current source* by translate/gen_pool.py (OccaGen/PoolConsts),
so the model follows whatever the tree says now and the theorems (proved for the repaired
statements) stop applying when a repair is reverted.

Conventions: `dim_t/udim_t` are `Nat` (overflow is outside the properties' quantifier); the C++
`std::set<modeMemory_t*, compare>` is a list sorted by (offset, size), a new element goes behind
the elements with an equal key (the C++ breaks ties by address, which nothing observes); a
`modeMemory_t*` is identified by the harness slot that holds its only `occa::memory` handle.
-/
namespace Occa.Pool

abbrev Byte := UInt8

/-- which variant of the statements touched by the `fix:` commits the source currently has -/
structure Cfg where
  /-- `alignment(128)` in the constructor -/
  defaultAlign : Nat
  /-- F06: reserve() calls `resize(reserved + alignedBytes, true)` when no gap fits -/
  reservePacks : Bool
  /-- F06b: the block sweep of resize() starts blocks on the alignment boundary below -/
  resizeBlocksAligned : Bool
  /-- F07: add/removeModeMemoryRef accumulate the gaps between the neighbours' spans -/
  sweepAccumulatesGaps : Bool
  /-- F07b: reserve() compares `alignedBytes` (not `bytes`) with the pool size -/
  reserveComparesAligned : Bool
  /-- F08: malloc(…, src, use_host_pointer) does not mark the buffer wrapped -/
  hostPtrCounted : Bool
  /-- F06c: resize()/setAlignment() re-insert the reservations into the std::set after setPtr has
      changed the keys.  The model represents the set by a list and finds a reservation by its
      identity; that is a sound picture of `reservations.find(mem)` only while the tree is ordered
      consistently with its comparator, which this repair guarantees (no other model statement
      depends on the flag). -/
  setRebuiltAfterPacking : Bool
  /-- not a pool repair: `memory::clone()` of a 0-byte memory returns an empty memory (true) or
      throws from setDtype on the uninitialised result of malloc (false); the state is unchanged
      either way -/
  cloneEmptyReturnsEmpty : Bool
deriving Repr, DecidableEq

/-- all repairs present -/
def Cfg.Fixed (c : Cfg) : Prop :=
  c.reservePacks = true ∧ c.resizeBlocksAligned = true ∧ c.sweepAccumulatesGaps = true ∧
  c.reserveComparesAligned = true ∧ c.hostPtrCounted = true ∧ c.setRebuiltAfterPacking = true ∧
  0 < c.defaultAlign

instance (c : Cfg) : Decidable c.Fixed := by unfold Cfg.Fixed; exact inferInstance

/-- `(x / a) * a` -/
def rdn (a x : Nat) : Nat := x / a * a
/-- `((x + a - 1) / a) * a` -/
def rup (a x : Nat) : Nat := (x + a - 1) / a * a

/-- a live `modeMemory_t` of a pool -/
structure Resv where
  slot : Nat
  off : Nat
  size : Nat
  /-- ghost: number of the reserve() call whose block this memory is (a slice of) -/
  fam : Nat
deriving Repr, DecidableEq

/-! ### device counters -/

structure Dev where
  alloc : Nat := 0
  maxAlloc : Nat := 0
  /-- ghost: every value `bytesAllocated` has taken since the device was created, newest first -/
  trace : List Nat := []
deriving Repr

/-- `bytesAllocated += n; maxBytesAllocated = max(maxBytesAllocated, bytesAllocated)` -/
def Dev.add (d : Dev) (n : Nat) : Dev :=
  { alloc := d.alloc + n, maxAlloc := max d.maxAlloc (d.alloc + n), trace := (d.alloc + n) :: d.trace }
/-- `bytesAllocated -= n` -/
def Dev.sub (d : Dev) (n : Nat) : Dev :=
  { d with alloc := d.alloc - n, trace := (d.alloc - n) :: d.trace }

/-! ### bytes -/

def zeros (n : Nat) : List Byte := List.replicate n 0

/-- `::memcpy(dst + d, src + s, n)` -/
def memcpy (dst : List Byte) (d : Nat) (src : List Byte) (s n : Nat) : List Byte :=
  dst.take d ++ ((src.drop s).take n ++ dst.drop (d + n))

/-- the bytes `[off, off+n)` -/
def readAt (b : List Byte) (off n : Nat) : List Byte := (b.drop off).take n

/-- `pat(seed, i)` of the harness -/
def pat (seed i : Nat) : Byte := UInt8.ofNat ((seed * 37 + i * 11 + 5) % 256)
def pattern (seed n : Nat) : List Byte := (List.range n).map (pat seed)

/-! ### the pool -/

structure Pool where
  align : Nat
  reserved : Nat := 0
  size : Nat := 0
  resv : List Resv := []
  /-- contents of `buffer` (`size` bytes) -/
  buf : List Byte := []
  /-- `buffer != nullptr` -/
  hasBuf : Bool := false
deriving Repr

inductive Err where
  /-- an `occa::exception` was thrown -/
  | err
  /-- the C++ would dereference a null pointer / read out of bounds -/
  | trap
deriving Repr, DecidableEq

/-- strict-weak order of `modeMemoryPool_t::compare` without the address tie-break: `x` goes
    before `m` or ties with it -/
def keyLe (x m : Resv) : Prop := x.off < m.off ∨ (x.off = m.off ∧ x.size ≤ m.size)
instance (x m : Resv) : Decidable (keyLe x m) := by unfold keyLe; exact inferInstance

/-- `reservations.emplace(mem)` -/
def insertResv (m : Resv) : List Resv → List Resv
  | [] => [m]
  | x :: xs => if keyLe x m then x :: insertResv m xs else m :: x :: xs

/-- the loop of add/removeModeMemoryRef after the F07 repair: bytes of `[lo,hi)` that the aligned
    spans of `ms` do not cover -/
def uncovGo (a hi : Nat) : Nat → Nat → List Resv → Nat
  | lo, acc, [] => acc + (hi - lo)
  | lo, acc, m :: ms =>
    if rdn a m.off ≥ hi then acc + (hi - lo)                         -- break
    else if rup a (m.off + m.size) ≤ lo then uncovGo a hi lo acc ms   -- continue
    else
      let acc' := if rdn a m.off > lo then acc + (rdn a m.off - lo) else acc
      let lo' := min hi (rup a (m.off + m.size))
      if lo' = hi then acc' + (hi - lo')                             -- break
      else uncovGo a hi lo' acc' ms

/-- the same loop before the repair: `[lo,hi)` is replaced by its intersection with a partially
    covering neighbour; returns the final `hi - lo` -/
def interGo (a : Nat) : Nat → Nat → List Resv → Nat
  | lo, hi, [] => hi - lo
  | lo, hi, m :: ms =>
    if rdn a m.off ≥ hi then hi - lo
    else if rup a (m.off + m.size) ≤ lo then interGo a lo hi ms
    else if rdn a m.off ≤ lo ∧ rup a (m.off + m.size) ≥ hi then 0     -- hi = lo; break
    else
      let hi' := min hi (rup a (m.off + m.size))
      let lo' := max lo (rdn a m.off)
      if lo' = hi' then 0 else interGo a lo' hi' ms

/-- how much of the aligned span of `m` is new / released space -/
def spanDelta (c : Cfg) (a : Nat) (m : Resv) (others : List Resv) : Nat :=
  if c.sweepAccumulatesGaps then uncovGo a (rup a (m.off + m.size)) (rdn a m.off) 0 others
  else interGo a (rdn a m.off) (rup a (m.off + m.size)) others

/-- `modeMemoryPool_t::addModeMemoryRef` -/
def Pool.addRef (c : Cfg) (p : Pool) (m : Resv) : Pool :=
  { p with reserved := p.reserved + spanDelta c p.align m p.resv, resv := insertResv m p.resv }

def eraseSlot (k : Nat) : List Resv → List Resv
  | [] => []
  | x :: xs => if x.slot = k then xs else x :: eraseSlot k xs

def findSlot (k : Nat) : List Resv → Option Resv
  | [] => none
  | x :: xs => if x.slot = k then some x else findSlot k xs

/-- `modeMemoryPool_t::removeModeMemoryRef` -/
def Pool.removeRef (c : Cfg) (p : Pool) (m : Resv) : Pool :=
  let rest := eraseSlot m.slot p.resv
  let delta := spanDelta c p.align m rest
  -- `reserved -= delta` on a udim_t: wraps modulo 2^64 when delta > reserved (only before F07)
  { p with reserved := if delta ≤ p.reserved then p.reserved - delta else p.reserved + 2 ^ 64 - delta,
           resv := rest }

/-! ### packing (the block sweep of resize and setAlignment) -/

structure Copy where
  dst : Nat
  src : Nat
  len : Nat
deriving Repr, DecidableEq

structure SweepOut where
  resv : List Resv
  copies : List Copy
  total : Nat
deriving Repr

/-- the do-while loop: `[lo,hi)` current block (old coordinates), `offset` its new position,
    `st` the block start of a reservation (`id`, or rounding down after F06b).
    `setPtr(m, newBuffer, m->offset - (lo - offset))` is computed in signed arithmetic in the C++;
    `lo ≤ m->offset` always, so it is `offset + (m->offset - lo)`. -/
def sweepGo (a : Nat) (st : Nat → Nat) (lo hi offset : Nat) : List Resv → SweepOut
  | [] => ⟨[], [⟨offset, lo, hi - lo⟩], rup a (hi - lo)⟩
  | m :: ms =>
    if st m.off > hi then
      let r := sweepGo a st (st m.off) (m.off + m.size) (offset + rup a (hi - lo)) ms
      ⟨{ m with off := (offset + rup a (hi - lo)) + (m.off - st m.off) } :: r.resv,
       ⟨offset, lo, hi - lo⟩ :: r.copies, rup a (hi - lo) + r.total⟩
    else
      let r := sweepGo a st lo (max hi (m.off + m.size)) offset ms
      ⟨{ m with off := offset + (m.off - lo) } :: r.resv, r.copies, r.total⟩

/-- the whole sweep over a non-empty reservation list `m :: ms` -/
def sweep (a : Nat) (st : Nat → Nat) (m : Resv) (ms : List Resv) : SweepOut :=
  let r := sweepGo a st (st m.off) (m.off + m.size) 0 ms
  ⟨{ m with off := 0 + (m.off - st m.off) } :: r.resv, r.copies, r.total⟩

def applyCopies (old : List Byte) (cps : List Copy) (init : List Byte) : List Byte :=
  cps.foldl (fun b c => memcpy b c.dst old c.src c.len) init

/-- block start used by resize() -/
def resizeStart (c : Cfg) (a : Nat) : Nat → Nat := if c.resizeBlocksAligned then rdn a else id

/-- `modeMemoryPool_t::resize(bytes, pack)` -/
def Pool.resize (c : Cfg) (d : Dev) (p : Pool) (bytes : Nat) (pack : Bool) : Except Err (Dev × Pool) :=
  if ¬ p.reserved ≤ bytes then .error .err
  else if p.size = bytes ∧ pack = false then .ok (d, p)
  else
    let ab := rup p.align bytes
    match p.resv with
    | [] =>
      let d1 := if p.hasBuf then d.sub p.size else d
      .ok (d1.add ab, { p with buf := zeros ab, hasBuf := true, size := ab })
    | m :: ms =>
      if p.hasBuf = false then .error .trap
      else
        let sw := sweep p.align (resizeStart c p.align) m ms
        let nb := applyCopies p.buf sw.copies (zeros ab)
        .ok ((d.add ab).sub p.size,
             { p with resv := sw.resv, buf := nb, size := ab, reserved := sw.total })

/-- `modeMemoryPool_t::setAlignment` -/
def Pool.setAlignment (d : Dev) (p : Pool) (na : Nat) : Except Err (Dev × Pool) :=
  if na = 0 then .error .err
  else if p.align = na then .ok (d, p)
  else
    match p.resv with
    | [] => .ok (d, { p with align := na })
    | m :: ms =>
      if p.hasBuf = false then .error .trap
      else
        let newReserved := (sweep na id m ms).total          -- first loop
        let sw := sweep na id m ms                           -- second loop
        let nb := applyCopies p.buf sw.copies (zeros newReserved)
        .ok ((d.add newReserved).sub p.size,
             { p with align := na, resv := sw.resv, buf := nb, size := newReserved, reserved := newReserved })

/-- the gap search of reserve() -/
def findHole (a bytes : Nat) : Nat → List Resv → Nat
  | offset, [] => offset
  | offset, m :: ms =>
    if m.off ≥ offset + bytes then offset
    else findHole a bytes (max offset (rup a (m.off + m.size))) ms

/-- `new serial::memory(pool, bytes, offset)`: the constructor dereferences `buffer` -/
def Pool.slice (c : Cfg) (p : Pool) (slot fam off bytes : Nat) : Except Err Pool :=
  if p.hasBuf = false then .error .trap
  else .ok (p.addRef c ⟨slot, off, bytes, fam⟩)

/-- `modeMemoryPool_t::reserve(bytes)` -/
def Pool.reserve (c : Cfg) (d : Dev) (p : Pool) (slot fam bytes : Nat) : Except Err (Dev × Pool) :=
  let ab := rup p.align bytes
  let need := if c.reserveComparesAligned then ab else bytes
  if p.reserved + need > p.size then
    match p.resize c d (p.reserved + ab) false with
    | .error e => .error e
    | .ok (d1, p1) => (p1.slice c slot fam p1.reserved bytes).map fun p2 => (d1, p2)
  else if p.resv = [] then
    (p.slice c slot fam 0 bytes).map fun p2 => (d, p2)
  else
    let offset := findHole p.align bytes 0 p.resv
    if offset + need ≤ p.size then
      (p.slice c slot fam offset bytes).map fun p2 => (d, p2)
    else
      match p.resize c d (p.reserved + ab) c.reservePacks with
      | .error e => .error e
      | .ok (d1, p1) => (p1.slice c slot fam p1.reserved bytes).map fun p2 => (d1, p2)

/-- `~modeMemoryPool_t` followed by `~modeBuffer_t` of the pool -/
def Pool.free (d : Dev) (p : Pool) : Dev := if p.hasBuf then d.sub p.size else d

/-- write `data` at `[off, off + data.length)` of the buffer -/
def Pool.write (p : Pool) (off : Nat) (data : List Byte) : Pool :=
  { p with buf := memcpy p.buf off data 0 data.length }

/-! ### device-level memory -/

/-- a `serial::buffer` made by malloc / wrapMemory -/
structure DBuf where
  id : Nat
  size : Nat
  /-- `!isWrapped` -/
  counted : Bool
  data : List Byte
deriving Repr

structure DMem where
  slot : Nat
  buf : Nat
  off : Nat
  size : Nat
deriving Repr

structure State where
  dev : Dev := {}
  pool0 : Option Pool := none
  pool1 : Option Pool := none
  bufs : List DBuf := []
  mems : List DMem := []
  nextFam : Nat := 0
deriving Repr

def State.pool (s : State) : Nat → Option Pool
  | 0 => s.pool0
  | 1 => s.pool1
  | _ => none

def State.setPool (s : State) (i : Nat) (p : Option Pool) : State :=
  match i with
  | 0 => { s with pool0 := p }
  | 1 => { s with pool1 := p }
  | _ => s

def poolHas (p : Option Pool) (k : Nat) : Bool :=
  match p with
  | none => false
  | some p => (findSlot k p.resv).isSome

def findMem (k : Nat) : List DMem → Option DMem
  | [] => none
  | x :: xs => if x.slot = k then some x else findMem k xs

def findBuf (i : Nat) : List DBuf → Option DBuf
  | [] => none
  | x :: xs => if x.id = i then some x else findBuf i xs

def State.slotLive (s : State) (k : Nat) : Bool :=
  poolHas s.pool0 k || poolHas s.pool1 k || (findMem k s.mems).isSome

inductive Res where
  | ok | err | empty | badOp | trap
  | bytes (b : List Byte)
deriving Repr

inductive Op where
  | dev (openmp : Bool)
  | pool (p : Nat)
  | pfree (p : Nat)
  | reserve (p k n : Nat)
  | release (k : Nat)
  | slice (k j off : Nat) (cnt : Int)
  | resize (p n : Nat)
  | shrink (p : Nat)
  | align (p a : Nat)
  | write (k off len seed : Nat)
  | read (k : Nat)
  | malloc (k n : Nat)
  | mallocsrc (k n seed : Nat)
  | mallochost (k n : Nat) (own : Bool) (seed : Nat)
  | wrap (k n seed : Nat)
  | clone (k j : Nat)
  | freeall
deriving Repr

def NSLOT : Nat := 16

/-- where slot `k` lives: pool index and reservation, or a device memory -/
inductive Loc where
  | inPool (i : Nat) (p : Pool) (r : Resv)
  | inDev (m : DMem)

def locateIn (i : Nat) (p : Option Pool) (k : Nat) : Option Loc :=
  match p with
  | some p =>
    match findSlot k p.resv with
    | some r => some (.inPool i p r)
    | none => none
  | none => none

def State.locate (s : State) (k : Nat) : Option Loc :=
  match locateIn 0 s.pool0 k with
  | some l => some l
  | none =>
    match locateIn 1 s.pool1 k with
    | some l => some l
    | none =>
      match findMem k s.mems with
      | some m => some (.inDev m)
      | none => none

/-- bytes a memory object reads back (`copyTo` of the whole object) -/
def State.readSlot (s : State) (k : Nat) : Option (List Byte) :=
  match s.locate k with
  | some (.inPool _ p r) => some (readAt p.buf r.off r.size)
  | some (.inDev m) =>
    match findBuf m.buf s.bufs with
    | some b => some (readAt b.data m.off m.size)
    | none => none
  | none => none

/-- `memory::slice(offset, count)` argument checks; returns the byte count -/
def sliceBytes (size off : Nat) (cnt : Int) : Except Err Nat :=
  let bytes : Int := if cnt = -1 then (size : Int) - off else cnt
  if bytes < 0 then .error .err
  else if ¬ ((off : Int) + cnt ≤ size) then .error .err
  else .ok bytes.toNat

def eraseMem (k : Nat) : List DMem → List DMem
  | [] => []
  | x :: xs => if x.slot = k then xs else x :: eraseMem k xs

def eraseBuf (i : Nat) : List DBuf → List DBuf
  | [] => []
  | x :: xs => if x.id = i then xs else x :: eraseBuf i xs

def setBufData (i : Nat) (f : List Byte → List Byte) : List DBuf → List DBuf
  | [] => []
  | x :: xs => if x.id = i then { x with data := f x.data } :: xs else x :: setBufData i f xs

/-- release one memory object (`memory::free` / last handle dropped) -/
def State.release (c : Cfg) (s : State) (k : Nat) : State :=
  match s.locate k with
  | some (.inPool i p r) => s.setPool i (some (p.removeRef c r))
  | some (.inDev m) =>
    let rest := eraseMem k s.mems
    if rest.any (fun x => x.buf = m.buf) then { s with mems := rest }
    else
      -- last modeMemory_t of the buffer: ~modeBuffer_t
      match findBuf m.buf s.bufs with
      | some b => { s with mems := rest, bufs := eraseBuf m.buf s.bufs,
                           dev := if b.counted then s.dev.sub b.size else s.dev }
      | none => { s with mems := rest }
  | none => s

/-- `device::malloc` and friends: a fresh buffer with one memory object over it -/
def State.newBuf (s : State) (k n : Nat) (counted : Bool) (data : List Byte) : State :=
  { s with bufs := s.bufs ++ [⟨s.nextFam, n, counted, data⟩],
           mems := s.mems ++ [⟨k, s.nextFam, 0, n⟩],
           nextFam := s.nextFam + 1,
           dev := if counted then s.dev.add n else s.dev }

def releaseAllFrom (c : Cfg) (s : State) : Nat → State
  | 0 => s
  | n + 1 => releaseAllFrom c (if s.slotLive (NSLOT - (n + 1)) then s.release c (NSLOT - (n + 1)) else s) n

def State.freePool (s : State) (i : Nat) : State :=
  match s.pool i with
  | some p => { s.setPool i none with dev := p.free s.dev }
  | none => s

def step (c : Cfg) (s : State) : Op → State × Res
  | .dev _ =>
    if s.pool0.isNone ∧ s.pool1.isNone ∧ s.mems.isEmpty ∧ s.dev.alloc = 0 ∧ s.dev.maxAlloc = 0 then
      ({ s with dev := {} }, .ok)
    else (s, .badOp)
  | .pool i =>
    if i < 2 ∧ (s.pool i).isNone then (s.setPool i (some { align := c.defaultAlign }), .ok) else (s, .badOp)
  | .pfree i =>
    if (s.pool i).isSome then (s.freePool i, .ok) else (s, .badOp)
  | .reserve i k n =>
    match s.pool i with
    | none => (s, .badOp)
    | some p =>
      if k ≥ NSLOT ∨ s.slotLive k then (s, .badOp)
      else if n = 0 then (s, .empty)
      else
        match p.reserve c s.dev k s.nextFam n with
        | .error .err => (s, .err)
        | .error .trap => (s, .trap)
        | .ok (d, p1) =>
          -- the harness fills a new reservation with its own pattern
          match findSlot k p1.resv with
          | some r =>
            ({ s.setPool i (some (p1.write r.off (pattern (1000 + s.nextFam) n))) with
               dev := d, nextFam := s.nextFam + 1 }, .ok)
          | none => (s, .trap)
  | .release k =>
    if s.slotLive k then (s.release c k, .ok) else (s, .badOp)
  | .slice k j off cnt =>
    if k ≥ NSLOT ∨ s.slotLive k ∨ cnt < -1 then (s, .badOp)
    else
      match s.locate j with
      | none => (s, .badOp)
      | some (.inPool i p r) =>
        match sliceBytes r.size off cnt with
        | .error _ => (s, .err)
        | .ok bytes =>
          match p.slice c k r.fam (r.off + off) bytes with
          | .ok p1 => (s.setPool i (some p1), .ok)
          | .error _ => (s, .trap)
      | some (.inDev m) =>
        match sliceBytes m.size off cnt with
        | .error _ => (s, .err)
        | .ok bytes => ({ s with mems := s.mems ++ [⟨k, m.buf, m.off + off, bytes⟩] }, .ok)
  | .resize i n =>
    match s.pool i with
    | none => (s, .badOp)
    | some p =>
      match p.resize c s.dev n false with
      | .ok (d, p1) => ({ s.setPool i (some p1) with dev := d }, .ok)
      | .error .err => (s, .err)
      | .error .trap => (s, .trap)
  | .shrink i =>
    match s.pool i with
    | none => (s, .badOp)
    | some p =>
      match p.resize c s.dev p.reserved false with
      | .ok (d, p1) => ({ s.setPool i (some p1) with dev := d }, .ok)
      | .error .err => (s, .err)
      | .error .trap => (s, .trap)
  | .align i a =>
    match s.pool i with
    | none => (s, .badOp)
    | some p =>
      match p.setAlignment s.dev a with
      | .ok (d, p1) => ({ s.setPool i (some p1) with dev := d }, .ok)
      | .error .err => (s, .err)
      | .error .trap => (s, .trap)
  | .write k off len seed =>
    match s.locate k with
    | none => (s, .badOp)
    | some (.inPool i p r) =>
      if off + len > r.size then (s, .err)
      else (s.setPool i (some (p.write (r.off + off) (pattern seed len))), .ok)
    | some (.inDev m) =>
      if off + len > m.size then (s, .err)
      else ({ s with bufs := setBufData m.buf (fun b => memcpy b (m.off + off) (pattern seed len) 0 len) s.bufs }, .ok)
  | .read k =>
    match s.readSlot k with
    | some b => (s, .bytes b)
    | none => (s, .badOp)
  | .malloc k n =>
    if k ≥ NSLOT ∨ s.slotLive k then (s, .badOp)
    else if n = 0 then (s, .empty)
    else (s.newBuf k n true (pattern (1000 + s.nextFam) n), .ok)
  | .mallocsrc k n seed =>
    if k ≥ NSLOT ∨ s.slotLive k then (s, .badOp)
    else if n = 0 then (s, .empty)
    else (s.newBuf k n true (pattern seed n), .ok)
  | .mallochost k n _ seed =>
    if k ≥ NSLOT ∨ s.slotLive k then (s, .badOp)
    else if n = 0 then (s, .empty)
    else
      -- device::malloc adds the bytes in every case; whether ~modeBuffer_t subtracts them again
      -- depends on the wrapped flag (F08)
      let s1 := s.newBuf k n c.hostPtrCounted (pattern seed n)
      (if c.hostPtrCounted then s1 else { s1 with dev := s.dev.add n }, .ok)
  | .wrap k n seed =>
    if k ≥ NSLOT ∨ s.slotLive k then (s, .badOp)
    else (s.newBuf k n false (pattern seed n), .ok)
  | .clone k j =>
    if k ≥ NSLOT ∨ s.slotLive k then (s, .badOp)
    else
      match s.readSlot j with
      | none => (s, .badOp)
      -- a zero-byte clone: malloc returns an uninitialised memory; clone returns it or its setDtype throws
      | some b =>
        if b.length = 0 then (s, if c.cloneEmptyReturnsEmpty then .empty else .err)
        else (s.newBuf k b.length true b, .ok)
  | .freeall =>
    let s1 := releaseAllFrom c s NSLOT
    ((s1.freePool 0).freePool 1, .ok)

def run (c : Cfg) (ops : List Op) : State := ops.foldl (fun s o => (step c s o).1) {}

end Occa.Pool
