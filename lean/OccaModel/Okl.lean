/-
Loop-structure model of the OKL translators (C20 / C21 / C22).

Sources followed, function by function:
  src/occa/internal/lang/modes/okl.cpp              kernelIsValid and helpers          → `rulesOk`
  src/occa/internal/lang/modes/oklForStatement.cpp  ctor, hasValid*, getIterationCount → `Hdr.verdict`
  src/occa/internal/lang/modes/serial.cpp           setupExclusives*                   → `serialT`
  src/occa/internal/lang/modes/openmp.cpp           setupOmpPragmas, setupAtomics      → `openmpT`
  src/occa/internal/lang/modes/withLauncher.cpp     splitKernels, setupOccaFors, …     → `launcherT`
  src/occa/internal/lang/modes/{cuda,hip,opencl,metal,dpcpp}.cpp  after/beforeKernelSplit
  src/occa/internal/lang/builtins/attributes/atomic.cpp  applyCodeTransformation

A kernel is abstracted to its statement tree (`Tree`): @outer/@inner loops with a classified
header, sequential for/while/switch/if/blocks, declarations (plain / @shared with its array
sizes / @exclusive), expression statements (opaque; with their @atomic kind and the list of
@shared/@exclusive variables they mention), @barrier, break/continue/return.

The tree uses the first-child / next-sibling encoding, which makes it an ordinary inductive
type.  An `if` node's children are, in the order in which occa's `statementArray` iteration
visits them: its `elif` nodes, its `else` node, then the statements of the then-branch.

Core Lean only.
-/
namespace Occa.Okl

/-! ## Loop headers (oklForStatement) -/

inductive InitForm | empty | notDecl | multi | noValue | badType | ok
  deriving DecidableEq, Repr
inductive CheckForm | notExpr | notBinary | badOp | noIter | ok
  deriving DecidableEq, Repr
inductive CmpOp | lt | le | gt | ge
  deriving DecidableEq, Repr
inductive UpdForm | notExpr | badNode | badOp | wrongVar | ok
  deriving DecidableEq, Repr
inductive UpdKind | inc | dec | add | sub
  deriving DecidableEq, Repr
/-- a header operand: absent, present but not a compile-time constant, or a constant -/
inductive CVal | none | unknown | const (v : Int)
  deriving DecidableEq, Repr

structure Hdr where
  init : InitForm
  initv : CVal
  check : CheckForm
  op : Option CmpOp
  checkv : CVal
  upd : UpdForm
  uk : Option UpdKind
  updv : CVal
  /-- the iterator is the right operand of the comparison (`N > i`) -/
  iterRight : Bool
  deriving DecidableEq, Repr

/-- outcome of a check: accepted, rejected with an error, or the translator itself traps -/
inductive Res | ok | bad | trap
  deriving DecidableEq, Repr

def Res.and (a : Res) (b : Unit → Res) : Res :=
  match a with
  | .ok => b ()
  | r => r

def Res.ofBool (b : Bool) : Res := if b then .ok else .bad

/-- `hasValidInit() && hasValidCheck() && hasValidUpdate()` -/
def Hdr.formsOk (h : Hdr) : Bool :=
  h.init == .ok && h.check == .ok && h.upd == .ok

def Hdr.positive (h : Hdr) : Bool :=
  match h.uk with
  | some .inc | some .add => true
  | _ => false

def Hdr.inclusive (h : Hdr) : Bool :=
  match h.op with
  | some .le | some .ge => true
  | _ => false

/-- `getIterationCount()->canEvaluate()` and its value.
    `none`: not a compile-time constant; `some (some n)`: evaluates to `n`;
    `some none`: evaluation divides by a constant zero step (SIGFPE in primitive::div). -/
def Hdr.constCount (h : Hdr) : Option (Option Int) :=
  match h.initv, h.checkv with
  | .const i, .const c =>
    let smaller := if h.positive then i else c
    let larger := if h.positive then c else i
    let cnt := larger - smaller
    let cnt := if h.inclusive then 1 + cnt else cnt
    match h.updv with
    | .none => some (some cnt)
    | .unknown => none
    | .const s => if s = 0 then some none else some (some (Int.tdiv (cnt + s - 1) s))
  | _, _ => none

/-- the iterator is on the smaller side of the comparison: `i < N`, `i <= N`, `N > i`, `N >= i` -/
def Hdr.iterSmaller (h : Hdr) : Bool :=
  (match h.op with
   | some .lt | some .le => true
   | _ => false) == !h.iterRight

/-- the constructor of oklForStatement followed by `isValid()` (with the repairs F60: a constant
    zero step is an error, it is not divided by; F63: a loop carrying both @outer and @inner is
    invalid, not only reported; F70: the update has to move the iterator towards the bound) -/
def Hdr.verdict (h : Hdr) : Res :=
  if !h.formsOk then .bad else
  if h.iterSmaller != h.positive then .bad else
  match h.constCount with
  | none => .ok
  | some none => .bad
  | some (some n) => if 0 < n then .ok else .bad

/-- the same for the unrepaired constructor: evaluating the count traps on a constant zero step -/
def Hdr.verdictUnrepaired (h : Hdr) : Res :=
  if !h.formsOk then .bad else
  match h.constCount with
  | none => .ok
  | some none => .trap
  | some (some n) => if 0 < n then .ok else .bad

/-! ## Statement tree -/

inductive DeclKind
  | plain
  /-- `dims = []`: not an array; `none`: a dimension without a compile-time size -/
  | shared (dims : List (Option Nat))
  | exclusive
  deriving DecidableEq, Repr

inductive Kind
  | okl (outer inner : Bool) (h : Hdr) (nobarrier : Bool)
  | for_ | while_ | switch_ | if_ | elif_ | else_
  | block (atomic : Bool)
  | decl (k : DeclKind)
  /-- `atomic`: carries @atomic; `basicOp`: its operator is one of `+= -= ++ --`
      (attributes::atomic::isBasicExpression) -/
  | expr (atomic basicOp : Bool)
  | barrier | brk | cont | ret
  deriving DecidableEq, Repr

/-- `uses`: one entry per mention of a @shared (`true`) / @exclusive (`false`) variable in the
    expressions attached to the statement (its own expression, initialiser, condition or loop
    header), the variable being declared excluded -/
structure Node where
  kind : Kind
  uses : List Bool
  deriving DecidableEq, Repr

inductive Tree
  | nil
  | node (n : Node) (kids : Tree) (next : Tree)
  deriving Repr

structure Kernel where
  retVoid : Bool
  body : Tree
  deriving Repr

/-- `isOklForLoop(smnt, attr)`: "outer" wins when both attributes are present -/
def Kind.oklAttr : Kind → Option Bool
  | .okl true _ _ _ => some true
  | .okl false true _ _ => some false
  | _ => none

def Tree.append : Tree → Tree → Tree
  | .nil, t => t
  | .node n k nx, t => .node n k (nx.append t)

/-! ## okl::kernelHasValidOklLoops -/

/-- the @outer/@inner loops of a statement tree with everything else contracted away
    (`path.filter(isOklForLoop)`); `hv` is the verdict of `oklForStatement::isValid` on the loop -/
inductive LF
  | nil
  | node (outer : Bool) (hv : Res) (kids : LF) (next : LF)
  deriving Repr

def LF.append : LF → LF → LF
  | .nil, t => t
  | .node o h k nx, t => .node o h k (nx.append t)

/-- `oklForStatement::isValid(forSmnt, attr)` for a statement of the tree -/
def Kind.loopVerdict : Kind → Res
  | .okl true true _ _ => .bad          -- "Cannot have @inner and @outer"
  | .okl _ _ h _ => h.verdict
  | _ => .ok

def forest : Tree → LF
  | .nil => .nil
  | .node n kids next =>
    match n.kind.oklAttr with
    | some o => .node o n.kind.loopVerdict (forest kids) (forest next)
    | none => (forest kids).append (forest next)

/-- a loop path: the @outer/@inner loops from the kernel down to a loop, each identified by its
    position among its siblings in the contracted forest, with its attribute (true = @outer) -/
abbrev Path := List (Nat × Bool)

/-- `forOklForLoopStatements`: loop paths in statement-iteration (pre-)order -/
def paths (pre : Path) (i : Nat) : LF → List Path
  | .nil => []
  | .node o _ kids next =>
    let p := pre ++ [(i, o)]
    p :: (paths p 0 kids ++ paths pre (i + 1) next)

/-- attributes and header verdicts in the same order -/
def loopHdrs : LF → List (Bool × Res)
  | .nil => []
  | .node o h kids next => (o, h) :: (loopHdrs kids ++ loopHdrs next)

def startsWith : Path → Path → Bool
  | _, [] => true
  | [], _ :: _ => false
  | a :: as, b :: bs => a == b && startsWith as bs

/-- the `filter` over the reversed paths with the captured `nextLoopPath` -/
def innerMostGo (next : Path) : List Path → List Path
  | [] => []
  | p :: ps =>
    if !(startsWith next p) then p :: innerMostGo p ps else innerMostGo p ps

def innerMostPaths (lp : List Path) : List Path := innerMostGo [] lp.reverse

/-- pathHasValidOklLoopOrdering: `some (innerCount, outerCount)` or `none` (error) -/
def orderingGo : Path → Nat → Nat → Option (Nat × Nat)
  | [], ic, oc => some (ic, oc)
  | (_, true) :: r, ic, oc => if ic ≠ 0 then none else orderingGo r ic (oc + 1)
  | (_, false) :: r, ic, oc => if oc = 0 then none else orderingGo r (ic + 1) oc

def pathOrdering (p : Path) : Option (Nat × Nat) :=
  match orderingGo p 0 0 with
  | none => none
  | some (ic, oc) =>
    -- "Missing an [@inner] loop": no inner loop but some outer loop on the path
    if ic = 0 ∧ oc ≠ 0 then none
    -- (repair F62) at most three nested loops of each kind: the launch model has three dimensions
    else if 3 < ic ∨ 3 < oc then none
    else some (ic, oc)

/-- the loop over `innerMostPaths` with `currentOuterMostOuterLoop` and the two counters -/
def countsGo (cur : Option ((Nat × Bool) × Nat × Nat)) : List Path → Bool
  | [] => true
  | p :: ps =>
    match pathOrdering p with
    | none => false
    | some (ic, oc) =>
      let root := p.head?
      match cur, root with
      | some (r, cic, coc), some r' =>
        if r' ≠ r then countsGo (some (r', ic, oc)) ps
        else if cic ≠ ic then false
        else if coc ≠ oc then false
        else countsGo cur ps
      | none, some r' => countsGo (some (r', ic, oc)) ps
      | _, none => countsGo cur ps   -- paths are never empty

/-- header validity of the loops with the given attribute, in order; stops at the first failure -/
def hdrsGo (attr : Bool) : List (Bool × Res) → Res
  | [] => .ok
  | (o, h) :: r => if o = attr then h.and (fun _ => hdrsGo attr r) else hdrsGo attr r

def loopsOk (body : Tree) : Res :=
  let f := forest body
  let hs := loopHdrs f
  if !(hs.any (fun x => x.1)) then .bad          -- requires at least one [@outer] for-loop
  else if !(hs.any (fun x => !x.1)) then .bad     -- requires at least one [@inner] for-loop
  else (hdrsGo true hs).and fun _ => (hdrsGo false hs).and fun _ =>
    Res.ofBool (countsGo none (innerMostPaths (paths [] 0 f)))

/-! ## okl::kernelHasValidSharedAndExclusiveDeclarations -/

/-- hasProperSharedArrayDeclaration -/
def sharedDeclOk (dims : List (Option Nat)) : Bool :=
  !dims.isEmpty && dims.all Option.isSome

/-- hasProperSharedOrExclusiveUsage, given whether an @outer / @inner for statement is found on
    the way up from the statement -/
def usageOk (inOuter inInner declared : Bool) : Bool :=
  if declared then !inInner && inOuter else inInner

/-- flags contributed by a statement to everything below it -/
def Kind.flags (k : Kind) (inOuter inInner : Bool) : Bool × Bool :=
  match k with
  | .okl o i _ _ => (inOuter || o, inInner || i)
  | _ => (inOuter, inInner)

/-- the checks on the variable a statement declares -/
def declHere (inOuter inInner : Bool) : Kind → Bool
  | .decl (.shared dims) => sharedDeclOk dims && usageOk inOuter inInner true
  | .decl .exclusive => usageOk inOuter inInner true
  | _ => true

def declsOk (inOuter inInner : Bool) : Tree → Bool
  | .nil => true
  | .node n kids next =>
    let (fo, fi) := n.kind.flags inOuter inInner
    -- expressions attached to an @outer/@inner loop are its header statements: `up` is the loop
    let usesOk := n.uses.all (fun _ => usageOk fo fi false)
    -- `isValid &= …` : every check is evaluated
    declHere inOuter inInner n.kind && usesOk && declsOk fo fi kids && declsOk inOuter inInner next

/-! ## okl::kernelHasValidLoopBreakAndContinue -/

/-- what the upward walk from a break/continue statement looks at -/
inductive Anc | while_ | switch_ | oklLoop | seqFor | other
  deriving DecidableEq, Repr

def Kind.anc (k : Kind) : Anc :=
  match k with
  | .while_ => .while_
  | .switch_ => .switch_
  | .okl o i _ _ => if o || i then .oklLoop else .seqFor
  | .for_ => .seqFor
  | _ => .other

/-- `true`: the statement is directly inside an @outer/@inner loop (an error).
    (repair F61) a `switch` captures `break` only; a `continue` belongs to the loop around it -/
def directlyInOkl (isCont : Bool) : List Anc → Bool
  | [] => false
  | .while_ :: _ => false
  | .switch_ :: r => if isCont then directlyInOkl isCont r else false
  | .oklLoop :: _ => true
  | .seqFor :: _ => false
  | .other :: r => directlyInOkl isCont r

def breakHere (anc : List Anc) : Kind → Bool
  | .brk => !directlyInOkl false anc
  | .cont => !directlyInOkl true anc
  | _ => true

def breaksOk (anc : List Anc) : Tree → Bool
  | .nil => true
  | .node n kids next => breakHere anc n.kind && breaksOk (n.kind.anc :: anc) kids && breaksOk anc next

/-! ## okl::kernelIsValid -/

def rulesRes (k : Kernel) : Res :=
  (Res.ofBool k.retVoid).and fun _ => (loopsOk k.body).and fun _ =>
    (Res.ofBool (declsOk false false k.body)).and fun _ => Res.ofBool (breaksOk [] k.body)

def rulesOk (k : Kernel) : Bool := rulesRes k == .ok

/-! ## Which translators accept a rule-conforming kernel -/

/-- `applyBlockCodeTransformation` unwraps a block holding exactly one basic expression
    (`+= -= ++ --`); every other @atomic statement needs a critical region -/
def singleBasicExpr : Tree → Bool
  | .node n .nil .nil =>
    match n.kind with
    | .expr _ true => true
    | _ => false
  | _ => false

def hasGeneralAtomic : Tree → Bool
  | .nil => false
  | .node n kids next =>
    (match n.kind with
     | .expr true false => true
     | .block true => !(singleBasicExpr kids)
     | _ => false) || hasGeneralAtomic kids || hasGeneralAtomic next

/-- acceptance flags in the order serial openmp cuda hip opencl metal dpcpp -/
def accepts (k : Kernel) : Res × List Bool :=
  match rulesRes k with
  | .ok =>
    let g := hasGeneralAtomic k.body
    (.ok, [true, true, !g, !g, true, true, true])
  | r => (r, List.replicate 7 false)

end Occa.Okl
