/-
Model of occa::dtype_t (src/dtype/dtype.cpp, builtins.cpp), of its JSON codec, of the kernel
argument metadata (src/occa/internal/lang/kernelMetadata.cpp, parser_t::setSourceMetadata,
vartype_t::dtype) and of the run-time argument validation modeKernel_t::setupRun
(src/occa/internal/core/kernel.cpp).                                   Properties C10, C11.

The model follows the code *with the fixes F12, F12b, F13, F14, F14b, F15, F15b applied*
(fixes/F1*.patch, incl. F13b); `OccaGen/Builtins.lean` records, regenerated from the current source, whether
each of those repairs is present (`Gen.cyclicGuard`, `Gen.leafStructural`, ...), and
`OccaProofs/Props/C10.lean`, `C11.lean` state them as obligations.

What a dtype_t is here.  A C++ dtype_t is either a reference to a registered dtype or owns
(name_, bytes_, enum_ | struct_ | tuple_ | union_).  With F15 the cast relation no longer depends on
object identity except for the registered builtins, which are singletons; so a dtype is modelled
as a *value*:

  prim n          one of the registered builtin scalars of dtype/builtins.cpp that
                  dtype_t::getBuiltin finds under their own name (`Gen.builtinMap`), e.g. float;
                  its size comes from the generated table
  custom n b      any other leaf: name_, bytes_ (dtype::none is `custom "none" 0`, as toJson treats it)
  enum_ n b es    enum_ != NULL
  tuple n e k     tuple_ != NULL (the registered vectors, e.g. float4 = tuple "float4" (prim "float") 4)
  struct n fs     struct_ != NULL, fields in declaration order
  union_ n fs     union_ != NULL

bytes_ of struct/tuple/union is the sum/product the code maintains in addField(), tuple() and
(F14) fromJson(), so it is a function of the tree here (`Dtype.bytes`); dtypes constructed with an
explicit non-zero size *and* fields are outside the model (design-notes/C11.md).
Sizes are mathematical integers (C++ `int`; generators keep them far below 2^31).
Core Lean only.
-/
import OccaGen.Builtins

namespace Occa.Dtype
open Occa

/-! ## a small JSON value type (only what dtype.cpp / kernelMetadata.cpp use) -/

inductive Json where
  | null
  | bool (b : Bool)
  | num (n : Int)
  | str (s : String)
  | arr (xs : List Json)
  | obj (kvs : List (String × Json))
deriving Inhabited

namespace Json

/-- `j[key]` on a const json: the member, or the static default (null) json -/
def get (j : Json) (key : String) : Json :=
  match j with
  | .obj kvs => match kvs.find? (fun kv => kv.1 == key) with
      | some kv => kv.2
      | none => .null
  | _ => .null

/-- json::has(key) -/
def has (j : Json) (key : String) : Bool :=
  match j with
  | .obj kvs => kvs.any (fun kv => kv.1 == key)
  | _ => false

def isString : Json → Bool
  | .str _ => true
  | _ => false

def isArray : Json → Bool
  | .arr _ => true
  | _ => false

/-- json::isNumber(): booleans are numbers (primitive holding a bool) -/
def isNumber : Json → Bool
  | .num _ => true
  | .bool _ => true
  | _ => false

/-- json::array(): the array member (empty for every other type) -/
def array : Json → List Json
  | .arr xs => xs
  | _ => []

/-- `(int) json`: the number, 0 for non-numbers -/
def toInt : Json → Int
  | .num n => n
  | .bool b => if b then 1 else 0
  | _ => 0

/-- `(bool) json` -/
def toBool : Json → Bool
  | .num n => n != 0
  | .bool b => b
  | .str s => s.length != 0
  | .arr _ => true
  | .obj _ => true
  | .null => false

/-- json::toString() restricted to what the dtype codec needs to distinguish: a string gives
    its value; `none` marks "the dump of a non-string", which is never a known type tag and is
    excluded (by the generators) as a name. -/
def toStr? : Json → Option String
  | .str s => some s
  | .null => some ""      -- dump of an uninitialized json is empty
  | _ => none

end Json

/-! ## dtypes -/

mutual
  inductive Dtype where
    | prim (name : String)
    | custom (name : String) (bytes : Int)
    | enum_ (name : String) (bytes : Int) (enumerators : List String)
    | tuple (name : String) (elem : Dtype) (size : Int)
    | struct (name : String) (fields : Fields)
    | union_ (name : String) (fields : Fields)
  inductive Fields where
    | nil
    | cons (fname : String) (d : Dtype) (rest : Fields)
end

instance : Inhabited Dtype := ⟨.custom "" 0⟩

/-- bytes_ of a registered scalar, from the generated table -/
def primBytes (name : String) : Int :=
  match Gen.dtypeScalars.find? (fun e => e.1 == name) with
  | some e => e.2
  | none => 0

/-- names `n` such that `prim n` denotes a builtin object: getBuiltin(n) is the registered scalar
    named n (not a vector), and it is not dtype::none (which toJson / isSameLeafDtype treat as a
    custom type) -/
def isPrimName (n : String) : Bool :=
  n != "none" &&
  ((Gen.builtinMap.find? (fun e => e.1 == n)).map (fun e => e.2) == some n) &&
  (Gen.dtypeTuples.find? (fun e => e.1 == n)).isNone

/-- dtype::none as a value -/
def none_ : Dtype := .custom "none" 0

/-- the registered dtype named `t` (a target of `Gen.builtinMap`) as a value -/
def registeredByName (t : String) : Dtype :=
  match Gen.dtypeTuples.find? (fun e => e.1 == t) with
  | some e => .tuple t (.prim e.2.1) e.2.2
  | none => if isPrimName t then .prim t else .custom t (primBytes t)

/-- dtype_t::getBuiltin(name): the registered dtype, dtype::none when the name is unknown -/
def getBuiltin (key : String) : Dtype :=
  match Gen.builtinMap.find? (fun e => e.1 == key) with
  | some e => registeredByName e.2
  | none => none_

/-- `&getBuiltin(key) != &dtype::none` -/
def isBuiltinKey (key : String) : Bool :=
  match Gen.builtinMap.find? (fun e => e.1 == key) with
  | some e => e.2 != "none"
  | none => false

namespace Fields
def toList : Fields → List (String × Dtype)
  | .nil => []
  | .cons n d r => (n, d) :: toList r

def ofList : List (String × Dtype) → Fields
  | [] => .nil
  | (n, d) :: r => .cons n d (ofList r)

def names : Fields → List String
  | .nil => []
  | .cons n _ r => n :: names r

def length : Fields → Nat
  | .nil => 0
  | .cons _ _ r => length r + 1

/-- struct_->addField at the end (fieldNames.push_back) -/
def snoc : Fields → String → Dtype → Fields
  | .nil, n, d => .cons n d .nil
  | .cons m e r, n, d => .cons m e (snoc r n d)
end Fields

mutual
  /-- dtype_t::bytes() -/
  def Dtype.bytes : Dtype → Int
    | .prim n => primBytes n
    | .custom _ b => b
    | .enum_ _ b _ => b
    | .tuple _ e k => e.bytes * k
    | .struct _ fs => fs.bytes
    | .union_ _ fs => fs.bytes
  def Fields.bytes : Fields → Int
    | .nil => 0
    | .cons _ d r => d.bytes + r.bytes
end

def Dtype.name : Dtype → String
  | .prim n => n
  | .custom n _ => n
  | .enum_ n _ _ => n
  | .tuple n _ _ => n
  | .struct n _ => n
  | .union_ n _ => n

-- nesting depth, the fuel `fromJson` needs
mutual
  def Dtype.depth : Dtype → Nat
    | .prim _ => 1
    | .custom _ _ => 1
    | .enum_ _ _ _ => 1
    | .tuple _ e _ => e.depth + 1
    | .struct _ fs => fs.depth + 1
    | .union_ _ fs => fs.depth + 1
  def Fields.depth : Fields → Nat
    | .nil => 0
    | .cons _ d r => max d.depth r.depth
end

/-! ### flattening and the cast relation -/

/-- what `isSameLeafDtype` (F15) compares: builtins by identity, custom types by name and size,
    enums by enumerators and size -/
inductive Leaf where
  | prim (name : String)
  | custom (name : String) (bytes : Int)
  | enum_ (bytes : Int) (enumerators : List String)
deriving DecidableEq, Repr, Inhabited

/-- `for (i = 0; i < n; ++i) vec += xs` -/
def repeatList {α : Type} : Nat → List α → List α
  | 0, _ => []
  | n + 1, xs => xs ++ repeatList n xs

mutual
  /-- dtype_t::addFlatDtypes -/
  def Dtype.flatten : Dtype → List Leaf
    | .prim n => [.prim n]
    | .custom n b => [.custom n b]
    | .enum_ _ b es => [.enum_ b es]
    | .tuple _ e k => repeatList (if Gen.unknownExtentFlattensOne && decide (k < 0) then 1 else k.toNat) e.flatten
    | .struct _ fs => fs.flatten
    | .union_ _ fs => fs.flatten
  def Fields.flatten : Fields → List Leaf
    | .nil => []
    | .cons _ d r => d.flatten ++ r.flatten
end

/-- operations the C++ would trap on -/
inductive Trap where
  | divByZero
  | outOfBounds
deriving DecidableEq, Repr

/-- `a % b`, `a / b` of C++ ints; the operands here are vector sizes, hence naturals -/
def cmod (a b : Nat) : Except Trap Nat := if b = 0 then .error .divByZero else .ok (a % b)
def cdiv (a b : Nat) : Except Trap Nat := if b = 0 then .error .divByZero else .ok (a / b)

/-- `vec[i]` -/
def at_ (vec : List Leaf) (i : Nat) : Except Trap Leaf :=
  match vec[i]? with
  | some x => .ok x
  | none => .error .outOfBounds

/-- the inner loop of isCyclic: `for (c = 1; c < cycles; ++c) if (vec[i] != vec[i + c*L]) return false`
    (`n` iterations left, starting at `c`) -/
def cyclicInner (vec : List Leaf) (L i : Nat) (x : Leaf) : Nat → Nat → Except Trap Bool
  | 0, _ => .ok true
  | n + 1, c =>
      match at_ vec (i + c * L) with
      | .error t => .error t
      | .ok y => if x ≠ y then .ok false else cyclicInner vec L i x n (c + 1)

/-- the outer loop: `for (i = 0; i < L; ++i) { x = vec[i]; inner }` (`n` iterations left, at `i`) -/
def cyclicOuter (vec : List Leaf) (L cycles : Nat) : Nat → Nat → Except Trap Bool
  | 0, _ => .ok true
  | n + 1, i =>
      match at_ vec i with
      | .error t => .error t
      | .ok x =>
          match cyclicInner vec L i x (cycles - 1) 1 with
          | .error t => .error t
          | .ok false => .ok false
          | .ok true => cyclicOuter vec L cycles n (i + 1)

/-- dtype_t::isCyclic(vec, cycleLength) -/
def isCyclic (vec : List Leaf) (cycleLength : Nat) : Except Trap Bool :=
  if Gen.cyclicGuard && decide (cycleLength ≤ 0) then .ok false
  else match cmod vec.length cycleLength with
    | .error t => .error t
    | .ok r =>
        if r ≠ 0 then .ok false
        else match cdiv vec.length cycleLength with
          | .error t => .error t
          | .ok cycles => cyclicOuter vec cycleLength cycles cycleLength 0

/-- `for (i = 0; i < entries; ++i) if (!same(fromVec[i], toVec[i])) return false`
    (`n` iterations left, at `i`) -/
def prefixEq (a b : List Leaf) : Nat → Nat → Except Trap Bool
  | 0, _ => .ok true
  | n + 1, i =>
      match at_ a i, at_ b i with
      | .error t, _ => .error t
      | _, .error t => .error t
      | .ok x, .ok y => if x ≠ y then .ok false else prefixEq a b n (i + 1)

def isByte : Dtype → Bool
  | .prim n => n == "byte"
  | _ => false

/-- dtype_t::canBeCastedTo -/
def canCast (from_ to_ : Dtype) : Except Trap Bool :=
  if isByte from_ || isByte to_ then .ok true
  else
    let fromVec := from_.flatten
    let toVec := to_.flatten
    let fromEntries := fromVec.length
    let toEntries := toVec.length
    if fromEntries < toEntries then
      match isCyclic toVec fromEntries with
      | .error t => .error t
      | .ok false => .ok false
      | .ok true => prefixEq fromVec toVec fromEntries 0
    else if fromEntries > toEntries then
      match isCyclic fromVec toEntries with
      | .error t => .error t
      | .ok false => .ok false
      | .ok true => prefixEq fromVec toVec toEntries 0
    else prefixEq fromVec toVec fromEntries 0

/-! ### JSON codec -/

def enumeratorsJson (es : List String) : List Json :=
  es.map fun e => Json.obj [("name", .str e)]

/-- `if (name.size()) j["name"] = name;` -/
def nameEntry (name : String) : List (String × Json) :=
  if name.length != 0 then [("name", .str name)] else []

mutual
  /-- dtype_t::toJson(j, name): leaves ignore `name` and write name_; enum, struct, tuple and union
      write the *argument* (only when it is not empty) and never name_ -/
  def Dtype.toJson (d : Dtype) (name : String) : Json :=
    match d with
    | .prim n => .obj [("type", .str "builtin"), ("name", .str n)]
    | .custom n b =>
        if !Gen.builtinByIdentity && isBuiltinKey n then .obj [("type", .str "builtin"), ("name", .str n)]
        else .obj [("type", .str "custom"), ("name", .str n), ("bytes", .num b)]
    | .enum_ _ b es =>
        .obj ([("type", .str "enum")] ++ nameEntry name ++ [("enumerators", .arr (enumeratorsJson es))]
              ++ (if Gen.enumWritesBytes then [("bytes", .num b)] else []))
    | .tuple _ e k =>
        .obj ([("type", .str "tuple")] ++ nameEntry name ++ [("dtype", e.toJson ""), ("size", .num k)])
    | .struct _ fs =>
        .obj ([("type", .str "struct")] ++ nameEntry name ++ [("fields", .arr fs.toJson)])
    | .union_ _ fs =>
        .obj ([("type", .str "union")] ++ nameEntry name ++ [("fields", .arr fs.toJson)])
  /-- the "fields" array: `{dtype: toJson(dtype), name: fieldName}` per field, in order -/
  def Fields.toJson : Fields → List Json
    | .nil => []
    | .cons n d r => Json.obj [("dtype", d.toJson ""), ("name", .str n)] :: r.toJson
end

/-- every OCCA_ERROR / OCCA_FORCE_ERROR of the codec is an occa::exception -/
inductive Err where
  | exception
deriving DecidableEq, Repr

/-- dtypeEnum_t::fromJson, the loop: per entry the checks, then addEnumerator
    (duplicates are rejected by addEnumerator) -/
def enumGo : List Json → List String → Except Err (List String)
  | [], acc => pure acc
  | e :: r, acc =>
      if !e.has "name" then throw .exception
      else match e.get "name" with
        | .str s => if acc.contains s then throw .exception else enumGo r (acc ++ [s])
        | _ => throw .exception

/-- dtypeEnum_t::fromJson -/
def enumFromJson (j : Json) : Except Err (List String) :=
  if !j.has "enumerators" then throw .exception
  else if !(j.get "enumerators").isArray then throw .exception
  else enumGo (j.get "enumerators").array []

/-- dtypeStruct_t::fromJson / dtypeUnion_t::fromJson, the loop: per entry the checks, then
    addField (duplicate field names are rejected by addField); `dec` decodes a nested dtype -/
def fieldsGo (dec : Json → Except Err Dtype) : List Json → Fields → Except Err Fields
  | [], acc => pure acc
  | f :: r, acc =>
      if !f.has "dtype" then throw .exception
      else if !f.has "name" then throw .exception
      else match f.get "name" with
        | .str s =>
            match dec (f.get "dtype") with
            | .error e => .error e
            | .ok d =>
                if acc.names.contains s then throw .exception
                else fieldsGo dec r (acc.snoc s d)
        | _ => throw .exception

def fieldsFromJson (dec : Json → Except Err Dtype) (j : Json) : Except Err Fields :=
  if !j.has "fields" then throw .exception
  else if !(j.get "fields").isArray then throw .exception
  else fieldsGo dec (j.get "fields").array .nil

/-- dtype_t::fromJson(const json&) with `fuel` bounding the nesting depth.
    Fuel 0 is the "not enough fuel" answer and never reached with `fuel ≥ depth`. -/
def Dtype.fromJson : Nat → Json → Except Err Dtype
  | 0, _ => .error .exception
  | fuel + 1, j =>
      -- const std::string type = j["type"].toString();  dtype.name_ = j["name"].toString();
      let type := (j.get "type").toStr?
      let name := ((j.get "name").toStr?).getD ""
      if type == some "builtin" then
        -- OCCA_ERROR("Unknown dtype builtin", &builtin != &dtype::none); dtype = builtin;
        if !isBuiltinKey name then throw .exception
        else pure (getBuiltin name)
      else if type == some "enum" then
        match enumFromJson j with
        | .error e => .error e
        | .ok es => pure (.enum_ name (if Gen.fromJsonRestoresBytes then (j.get "bytes").toInt else 0) es)
      else if type == some "struct" then
        match fieldsFromJson (Dtype.fromJson fuel) j with
        | .error e => .error e
        | .ok fs => pure (.struct name fs)
      else if type == some "tuple" then
        -- dtypeTuple_t::fromJson
        if !j.has "dtype" then throw .exception
        else if !j.has "size" then throw .exception
        else if !(j.get "size").isNumber then throw .exception
        else match Dtype.fromJson fuel (j.get "dtype") with
          | .error e => .error e
          | .ok e => pure (.tuple name e (j.get "size").toInt)
      else if type == some "union" then
        match fieldsFromJson (Dtype.fromJson fuel) j with
        | .error e => .error e
        | .ok fs => pure (.union_ name fs)
      else if type == some "custom" then
        pure (.custom name (j.get "bytes").toInt)
      else
        throw .exception

/-! ### kernel argument metadata -/

structure ArgMeta where
  isConst : Bool
  isPtr : Bool
  dtype : Dtype
  name : String

structure KernelMeta where
  initialized : Bool
  name : String
  arguments : List ArgMeta

/-- argMetadata_t::toJson -/
def ArgMeta.toJson (a : ArgMeta) : Json :=
  .obj [("const", .bool a.isConst), ("ptr", .bool a.isPtr), ("dtype", a.dtype.toJson ""), ("name", .str a.name)]

/-- argMetadata_t::fromJson -/
def ArgMeta.fromJson (fuel : Nat) (j : Json) : Except Err ArgMeta := do
  let d ← Dtype.fromJson fuel (j.get "dtype")
  pure { isConst := (j.get "const").toBool, isPtr := (j.get "ptr").toBool, dtype := d,
         name := ((j.get "name").toStr?).getD "" }

/-- kernelMetadata_t::toJson -/
def KernelMeta.toJson (m : KernelMeta) : Json :=
  .obj [("name", .str m.name), ("arguments", .arr (m.arguments.map ArgMeta.toJson))]

/-- kernelMetadata_t::fromJson: always initialized -/
def KernelMeta.fromJson (fuel : Nat) (j : Json) : Except Err KernelMeta := do
  let args ← (j.get "arguments").array.mapM (ArgMeta.fromJson fuel)
  pure { initialized := Gen.fromJsonMarksInitialized, name := ((j.get "name").toStr?).getD "", arguments := args }

/-- kernelMetadata_t::operator += -/
def KernelMeta.push (m : KernelMeta) (a : ArgMeta) : KernelMeta :=
  { m with initialized := true, arguments := m.arguments ++ [a] }

def ArgMeta.depth (a : ArgMeta) : Nat := a.dtype.depth
def KernelMeta.depth (m : KernelMeta) : Nat := m.arguments.foldl (fun n a => max n a.depth) 0

/-! ### what the OKL parser puts into the metadata (vartype_t::dtype, isPointerType, setSourceMetadata) -/

mutual
  /-- type_t of a kernel parameter: an OKL primitive or a typedef of another vartype -/
  inductive OType where
    | prim (pname : String)
    | tdef (base : VType)
  /-- vartype_t: type, `long`/`long long` qualifier (0/1/2), number of `*`, array extents
      (`none` = not a compile-time constant) -/
  inductive VType where
    | mk (ty : OType) (longQ : Nat) (pointers : Nat) (arrays : List (Option Int))
end

mutual
  /-- type_t::dtype(): primitive_t → getBuiltin(pname); typedef_t → baseType.dtype() -/
  def OType.dtype : OType → Dtype
    | .prim p => getBuiltin p
    | .tdef b => b.dtype
  /-- vartype_t::dtype() -/
  def VType.dtype : VType → Dtype
    | .mk ty longQ _ arrays =>
      let d0 := ty.dtype
      -- if (dtype == dtype::int_) { long → get<long>(), long long → get<long long>() }
      let d1 := match d0 with
        | .prim "int" => if longQ == 1 || longQ == 2 then getBuiltin "long" else d0
        | _ => d0
      -- for each array: size = isNaN ? -1 : to<int>();  dtype = tuple(dtype, size)
      arrays.foldl (fun d sz => .tuple "" d (sz.getD (-1))) d1
end

mutual
  def OType.isPointerType : OType → Bool
    | .prim _ => false
    | .tdef b => b.isPointerType
  /-- vartype_t::isPointerType() -/
  def VType.isPointerType : VType → Bool
    | .mk ty _ pointers arrays => pointers != 0 || arrays.length != 0 || ty.isPointerType
end

structure Param where
  isConst : Bool
  vtype : VType
  name : String

/-- parser_t::setSourceMetadata for one @kernel (implicit arguments do not occur in serial mode) -/
def metaOfSignature (kname : String) (ps : List Param) : KernelMeta :=
  let m0 : KernelMeta := { initialized := Gen.parserMarksInitialized, name := kname, arguments := [] }
  ps.foldl (fun m p => m.push { isConst := p.isConst, isPtr := p.vtype.isPointerType,
                                dtype := p.vtype.dtype, name := p.name }) m0

/-! ### modeKernel_t::setupRun -/

/-- a kernelArgData as setupRun sees it -/
inductive Arg where
  | mem (d : Dtype)     -- occa::memory with modeMemory, non-zero size, element type d
  | null                -- occa::null, an uninitialized or zero-size memory, nullptr
  | scalar              -- any primitive value
  | hostPtr             -- a non-null raw pointer (no modeMemory)

inductive VErr where
  | count
  | expectsMemory (i : Nat)
  | expectsNonMemory (i : Nat)
  | wrongType (i : Nat)
  | trap (t : Trap)
deriving DecidableEq, Repr

/-- the per-argument loop of setupRun; `i` is the 1-based position used in the messages -/
def validateArgs : List Arg → List ArgMeta → Nat → Except VErr Unit
  | a :: as, m :: ms, i => do
      let isNull := match a with | .null => true | _ => false
      let isMem := match a with | .mem _ => true | _ => false
      let isPtr := isMem || isNull
      if isPtr != m.isPtr then
        if m.isPtr then throw (.expectsMemory i) else throw (.expectsNonMemory i)
      match a with
      | .mem d =>
          match canCast d m.dtype with
          | .error t => throw (.trap t)
          | .ok true => validateArgs as ms (i + 1)
          | .ok false => throw (.wrongType i)
      | _ => validateArgs as ms (i + 1)
  | _, _, _ => pure ()

/-- modeKernel_t::setupRun: `tv` is the kernel property "type_validation" -/
def validate (m : KernelMeta) (tv : Bool) (args : List Arg) : Except VErr Unit :=
  if !(m.initialized && tv) then pure ()
  else if args.length != m.arguments.length then throw .count
  else validateArgs args m.arguments 1

end Occa.Dtype
