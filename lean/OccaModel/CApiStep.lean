/-
The executable state machine behind `drv_capi`: the C API calls of the line protocol
(see harness/h_capi.cpp for the same operations on the real library), built from the value
layer (OccaModel/CApi.lean) and the handle table (OccaModel/CApiHandles.lean).
Every dereference of an object handle goes through `HState.step (.use …)`, i.e. through the
machine about which C29_handles_* are proved.  Core Lean only.
-/
import OccaModel.CApi
import OccaModel.CApiHandles
import OccaModel.Proto

namespace Occa.CApi
open Occa.Gen.CTypes Occa.Proto

/-! ## text helpers -/

def natToHex (n : Nat) : String :=
  let rec go (fuel n : Nat) (acc : List Char) : List Char :=
    match fuel with
    | 0 => acc
    | fuel + 1 => if n < 16 then hexNib n :: acc else go fuel (n / 16) (hexNib (n % 16) :: acc)
  String.ofList (go 64 n [])

def hexToNat (s : String) : Option Nat :=
  if s.isEmpty || s.length > 16 then none else
  s.toList.foldl (fun acc c => match acc, hexDigit c with
    | some a, some d => some (16 * a + d)
    | _, _ => none) (some 0)

def b01 (b : Bool) : String := if b then "1" else "0"

/-! ## protocol values -/

inductive Val where
  | scalar (k : Ctor) (bits : Nat)
  | str (s : List Nat)
  | null | undef | default | tru | fals | nullptr | ptr | struct
  | slot (n : Nat)
  deriving Repr, Inhabited

def parseVal (s : String) : Option Val :=
  match s.splitOn ":" with
  | [k] => match k with
    | "null" => some .null | "undef" => some .undef | "default" => some .default | "true" => some .tru
    | "false" => some .fals | "nullptr" => some .nullptr | "ptr" => some .ptr | "struct" => some .struct
    | _ => none
  | [k, rest] =>
    if k == "str" then (unhex rest).bind fun bs => if bs.contains 0 then none else some (.str bs)
    else if k == "h" then rest.toNat?.map .slot
    else match Ctor.ofName k with
      | some c => (hexToNat rest).map (.scalar c)
      | none => none
  | _ => none

/-! ## state -/

inductive SlotV where
  | plain (t : OType)
  | handle (path : List Step) (stale : Bool)
  deriving Repr, Inhabited

structure St where
  h : HState
  vals : List (Nat × SlotV)
  jsons : List (Nat × J)
  dts : List (Nat × (List Nat × Int))
  mems : List (Nat × (Nat × Nat))

def St.init : St := ⟨HState.init, [], [], [], []⟩

def alookup {α : Type} (k : Nat) : List (Nat × α) → Option α
  | [] => none
  | (k', v) :: r => if k = k' then some v else alookup k r

def aset {α : Type} (k : Nat) (v : α) : List (Nat × α) → List (Nat × α)
  | [] => [(k, v)]
  | (k', v') :: r => if k = k' then (k, v) :: r else (k', v') :: aset k v r

inductive Built where
  | plain (t : OType)
  | handle (slot : Nat)

/-- the occaType for a protocol value; the scalars go through the public constructor named by
    the value; `none` = the slot does not exist -/
def build (st : St) : Val → Option Built
  | .scalar k bits =>
    match construct k 0 (if k = .bool then bits % 2 else bits) with
    | some t => some (.plain t)
    | none => some (.plain occaUndefined)
  | .str s => some (.plain (occaString s))
  | .null => some (.plain occaNull)
  | .undef => some (.plain occaUndefined)
  | .default => some (.plain occaDefault)
  | .tru => some (.plain occaTrue)
  | .fals => some (.plain occaFalse)
  | .nullptr => some (.plain (occaPtr true))
  | .ptr => some (.plain (occaPtr false))
  | .struct => some (.plain (occaStruct 16))
  | .slot n =>
    match alookup n st.vals with
    | some (.plain t) => some (.plain t)
    | some (.handle _ _) => some (.handle n)
    | none => none

/-! ## canonical descriptions (same text as `desc` in the harness) -/

def scalarOfTag (tag : Nat) : Option CTy := CTy.all.find? fun c => (ctorSpec c).1 == tag

def desc (t : OType) : String :=
  if !t.hdrOk then "undef" else
  match scalarOfTag t.tag with
  | some c => s!"t{t.tag}:b{t.bytes}:{natToHex (fromOcca c t)}:nf{b01 t.needsFree}"
  | none =>
    if t.tag = tagNull then "null"
    else if t.tag = tagDefault then "default"
    else if t.tag = tagPtr then s!"ptr:{if t.ptr = .null then "0" else "nz"}:b{t.bytes}"
    else if t.tag = tagString then
      match t.ptr with
      | .str s => s!"str:{hex s}:b{t.bytes}"
      | _ => "str:?"
    else if t.tag = tagStruct then s!"struct:b{t.bytes}"
    else s!"t{t.tag}"

def descH (sl : HSlot) : String :=
  if !sl.hdrOk then "undef"
  else if sl.tag = tagJson then s!"json:nf{b01 sl.needsFree}"
  else if sl.tag = tagDtype then s!"dtype:nf{b01 sl.needsFree}"
  else if sl.tag = tagMemory then s!"memory:nf{b01 sl.needsFree}"
  else s!"t{sl.tag}"

def kindFlags (j : J) : String :=
  b01 j.isBool ++ b01 j.isNumber ++ b01 j.isString ++ b01 j.isArray ++ b01 j.isObject

partial def showJ : J → String
  | .none => "U"
  | .null => "Z"
  | .num p => "N" ++ (match p.ty with | some c => c.name | none => "none") ++ ":" ++ natToHex p.raw
  | .str s => "S" ++ hex s
  | .arr a => "[" ++ ",".intercalate (a.map showJ) ++ "]"
  | .obj kv => "{" ++ ",".intercalate (kv.map fun (k, v) => hex k ++ "=" ++ showJ v) ++ "}"

/-! ## access to the json node a handle designates -/

inductive Acc where
  | out (s : String)                          -- the call ends here with this observation
  | node (obj : Nat) (path : List Step) (sl : HSlot) (j : J)

/-- `occa::json &j_ = occa::c::json(v)` for the variable `s` -/
def accJson (st : St) (s : Nat) : Acc :=
  match alookup s st.vals with
  | none => .out "nosuch"
  | some (.plain _) => .out "err"                       -- "Input is not an occaJson"
  | some (.handle path stale) =>
    match st.h.slots s with
    | none => .out "BUG-no-hslot"
    | some sl =>
      if sl.tag ≠ tagJson then .out "err" else
      match (st.h.step (.use s)).2 with
      | .ok =>
        if stale then .out "STALE" else
        match (alookup sl.obj st.jsons).bind (resolve path) with
        | some j => .node sl.obj path sl j
        | none => .out "BUG-unresolved"
      | .trap => .out "TRAP"
      | _ => .out "BUG-deref"

def isStrictPrefix (p q : List Step) : Bool := p.length < q.length && q.take p.length == p

/-- handles to strict descendants of the node at `p` in object `obj` no longer designate a json value
    (the subtree was destroyed, or the vector holding it may have been reallocated) -/
def St.killBelow (st : St) (obj : Nat) (p : List Step) : St :=
  { st with vals := st.vals.map fun (s, v) =>
      match v with
      | .handle q stale =>
        (s, .handle q (stale || (match st.h.slots s with
          | some sl => sl.obj == obj && sl.tag == tagJson && isStrictPrefix p q
          | none => false)))
      | v => (s, v) }

def St.putNode (st : St) (obj : Nat) (path : List Step) (j : J) : St :=
  match (alookup obj st.jsons).bind (modifyAt path (fun _ => j)) with
  | some d => { st with jsons := aset obj d st.jsons }
  | none => st

/-- `occa::c::inferJson(value)` for a built value -/
def inferJson (st : St) : Built → Res J ⊕ String
  | .plain t => .inl (inferJsonPlain t)
  | .handle n =>
    match st.h.slots n with
    | none => .inr "BUG-no-hslot"
    | some sl =>
      match inferJsonCase sl.tag with
      | .json =>
        match accJson st n with
        | .node _ _ _ j => .inl (.ok j)
        | .out s => .inr s
      | _ => .inl .err

/-- store the result of a call that returned the occaType `r` into variable `s'` -/
def St.storePlain (st : St) (s' : Nat) (t : OType) : St := { st with vals := aset s' (.plain t) st.vals }

/-! ## kernels -/

def patternByte (seed i : Nat) : Nat := (((seed * 2654435761) % 2 ^ 32 + i * 40503) / 128) % 256

def checksum (bs : List Nat) : Nat := bs.foldl (fun s b => (s * 31 + b) % 2 ^ 32) 0

def kargBytes (t : Option OType) : Option (List Nat) :=
  match t with
  | some t => match kernelArgOf t with
    | .bytes bs => some bs
    | _ => none
  | none => none

/-- place `bs` at offset `off` of a buffer -/
def blit (buf : List Nat) (off : Nat) (bs : List Nat) : List Nat :=
  buf.take off ++ bs ++ buf.drop (off + bs.length)

def krun (isBool amb : Bool) (b : List Nat) (xy str : List Nat) (nullKind : String) : String :=
  let ctorsK : List Ctor := [.int8, .uint8, .int16, .uint16, .int32, .uint32, .int64, .uint64, .float, .double]
  let ctorsA : List Ctor := [.char, .uchar, .short, .ushort, .int, .uint, .long, .ulong, .float, .double]
  let ctors := if amb then ctorsA else ctorsK
  let args : List (Option OType) := (ctors.zip b).map fun (k, v) => construct k 0 v
  let args := if isBool then (some (ofScalar .bool 0 (b.headD 0 % 2))) :: args.drop 1 else args
  let offs : List Nat := [0, 1, 2, 4, 8, 12, 16, 24, 32, 40]
  let np := if nullKind == "nullptr" then occaPtr true else occaNull
  let ptrOk := (kernelArgOf (occaStruct 16) matches .pointer _ _) &&
               ((kernelArgOf (occaString str) matches .pointer _ _) || (kernelArgOf (occaString str) matches .nullPtr)) &&
               (kernelArgOf np matches .nullPtr)
  match args.mapM kargBytes with
  | none => "err"
  | some bss =>
    if !ptrOk then "err" else
    let buf := List.replicate 128 0xAA
    let buf := (offs.zip bss).foldl (fun buf (o, bs) => blit buf o bs) buf
    let buf2 := buf
    let buf := blit buf 48 xy
    let buf := blit buf 64 [1, str.length]
    let buf := blit buf 66 str
    hex (buf.take (66 + str.length)) ++ " " ++ hex (buf2.take 48)

/-! ## one operation -/

def numTag (s : String) : Nat := match s.toInt? with
  | some (Int.ofNat n) => n
  | _ => 1000

def step (st : St) (toks : List String) : St × String :=
  match toks with
  | ["mk", v] =>
    match parseVal v with
    | some (.slot _) => (st, "bad-op")
    | some v => match build st v with
      | some (.plain t) => (st, desc t)
      | _ => (st, "bad-op")
    | none => (st, "bad-op")
  | ["khash"] => (st, "16 64")     -- occaKernelHash / occaKernelFullHash: C strings of 16 and 64 hex digits (C27)
  | ["rt", v, totag] =>
    match parseVal v with
    | some (.slot _) => (st, "bad-op")
    | some v => match build st v with
      | some (.plain t) =>
        match inferJsonPlain t with
        | .err => (st, "err")
        | .ok j =>
          if j.isNull then (st, "null") else
          let tail := match j with
            | .num p => match ofPrimTyped p (numTag totag) 0 with
              | .ok r => desc r
              | .err => "ERR"
            | .str s => "S" ++ hex s
            | _ => "-"
          (st, if tail == "ERR" then "err" else kindFlags j ++ " " ++ tail)
      | _ => (st, "bad-op")
    | none => (st, "bad-op")
  | op :: style :: rest =>
    if (op == "krun" || op == "krunb") && rest.length == 13 then
      match (rest.take 10).mapM hexToNat, unhex (rest.getD 10 ""), unhex (rest.getD 11 "") with
      | some b, some xy, some str =>
        if xy.length ≠ 16 || str.contains 0 || str.length > 58 then (st, "bad-op")
        else (st, krun (op == "krunb") (style == "ambig") b xy str (rest.getD 12 ""))
      | _, _, _ => (st, "bad-op")
    else stepH st toks
  | _ => stepH st toks
where
  stepH (st : St) (toks : List String) : St × String :=
    match toks with
    | ["jnew", s] =>
      match s.toNat? with
      | none => (st, "bad-op")
      | some s =>
        let obj := st.h.next
        let h := (st.h.step (.create s tagJson true)).1
        ({ st with h := h, vals := aset s (.handle [] false) st.vals, jsons := aset obj .none st.jsons }, "json:nf1")
    | ["parse", s, text] =>
      match s.toNat?, unhex text with
      | some s, some bs =>
        let txt := String.ofList (bs.map Char.ofNat)
        let mk (j : J) : St × String :=
          let obj := st.h.next
          let h := (st.h.step (.create s tagJson true)).1
          ({ st with h := h, vals := aset s (.handle [] false) st.vals, jsons := aset obj j st.jsons }, "json:nf1")
        if txt == "null" then (st.storePlain s occaNull, "null")
        else if txt == "true" then mk (.num ⟨some .bool, 1⟩)
        else if txt == "false" then mk (.num ⟨some .bool, 0⟩)
        else if txt == "{}" then mk (.obj [])
        else if txt == "[]" then mk (.arr [])
        else (st, "unsupported")
      | _, _ => (st, "bad-op")
    | ["cp", s', s] =>
      match s'.toNat?, s.toNat? with
      | some s', some s =>
        match alookup s st.vals with
        | none => (st, "nosuch")
        | some (.plain t) => (st.storePlain s' t, desc t)
        | some (.handle p stale) =>
          let (h, _) := st.h.step (.copy s' s)
          ({ st with h := h, vals := aset s' (.handle p stale) st.vals },
           match st.h.slots s with | some sl => descH sl | none => "BUG-no-hslot")
      | _, _ => (st, "bad-op")
    | ["free", s] =>
      match s.toNat? with
      | none => (st, "bad-op")
      | some s =>
        match alookup s st.vals with
        | none => (st, "nosuch")
        | some (.plain t) => (st.storePlain s { t with hdrOk := false }, "ok")
        | some (.handle _ _) =>
          let (h, o) := st.h.step (.free s)
          ({ st with h := h }, if o == .trap then "TRAP" else "ok")
    | ["set", s, key, v] =>
      match s.toNat? with
      | none => (st, "bad-op")
      | some s =>
        if (alookup s st.vals).isNone then (st, "nosuch") else
        match unhex key, parseVal v with
        | some key, some v =>
          if key.contains 0 then (st, "bad-op") else
          match build st v with
          | none => (st, "nosuch")
          | some bv =>
            match accJson st s with
            | .out o => (st, o)
            | .node obj path _ j =>
              let j1 := prepObject j
              let st := st.putNode obj path j1
              if !j1.isObject then (st, "err") else
              match inferJson st bv with
              | .inr o => (st, o)
              | .inl .err => (st, "err")
              | .inl (.ok val) =>
                let keys := splitPath key
                match setPath keys val j1 with
                | .err => (st, "err")
                | .ok j2 => ((st.putNode obj path j2).killBelow obj (path ++ keys.map .key), "ok")
        | _, _ => (st, "bad-op")
    | ["get", s', s, key, dv] =>
      match s'.toNat?, s.toNat? with
      | some s', some s =>
        if (alookup s st.vals).isNone then (st, "nosuch") else
        match unhex key, parseVal dv with
        | some key, some dv =>
          if key.contains 0 then (st, "bad-op") else
          match build st dv with
          | none => (st, "nosuch")
          | some bd =>
            match accJson st s with
            | .out o => (st, o)
            | .node obj path _ j =>
              let j1 := prepObject j
              let st := st.putNode obj path j1
              if !j1.isObject then (st, "err") else
              let keys := splitPath key
              match getPath keys j1 with
              | some c =>
                if c.isNull then (st.storePlain s' occaNull, "null") else
                let (h, _) := st.h.step (.borrow s' s)
                ({ st with h := h, vals := aset s' (.handle (path ++ keys.map .key) false) st.vals },
                 "json:nf0:" ++ kindFlags c)
              | none =>
                match bd with
                | .plain t => (st.storePlain s' t, desc t)
                | .handle n =>
                  match alookup n st.vals, st.h.slots n with
                  | some (.handle p stale), some sl =>
                    let (h, _) := st.h.step (.copy s' n)
                    let st' := { st with h := h, vals := aset s' (.handle p stale) st.vals }
                    if sl.hdrOk && sl.tag == tagJson then
                      match accJson st n with
                      | .node _ _ _ jn => (st', descH sl ++ ":" ++ kindFlags jn)
                      | .out o => (st', o)
                    else (st', descH sl)
                  | _, _ => (st, "BUG-default")
        | _, _ => (st, "bad-op")
      | _, _ => (st, "bad-op")
    | ["has", s, key] =>
      match s.toNat? with
      | none => (st, "bad-op")
      | some s =>
        if (alookup s st.vals).isNone then (st, "nosuch") else
        match unhex key with
        | some key =>
          if key.contains 0 then (st, "bad-op") else
          match accJson st s with
          | .out o => (st, o)
          | .node obj path _ j =>
            let j1 := prepObject j
            let st := st.putNode obj path j1
            if !j1.isObject then (st, "err") else
            (st, b01 (getPath (splitPath key) j1).isSome)
        | none => (st, "bad-op")
    | ["push", s, v] =>
      match s.toNat? with
      | none => (st, "bad-op")
      | some s =>
        if (alookup s st.vals).isNone then (st, "nosuch") else
        match parseVal v with
        | none => (st, "bad-op")
        | some v =>
          match build st v with
          | none => (st, "nosuch")
          | some bv =>
            match accJson st s with
            | .out o => (st, o)
            | .node obj path _ j =>
              let j1 := prepArray j
              let st := st.putNode obj path j1
              match j1 with
              | .arr a =>
                match inferJson st bv with
                | .inr o => (st, o)
                | .inl .err => (st, "err")
                | .inl (.ok val) =>
                  if val.isNone then (st, "ok") else
                  ((st.putNode obj path (.arr (a ++ [val]))).killBelow obj path, "ok")
              | _ => (st, "err")
    | ["aget", s', s, idx] =>
      match s'.toNat?, s.toNat?, idx.toInt? with
      | some s', some s, some idx =>
        if (alookup s st.vals).isNone then (st, "nosuch") else
        if idx < 0 then (st, "bad-op") else
        let n := idx.toNat
        match accJson st s with
        | .out o => (st, o)
        | .node obj path _ j =>
          let j1 := prepArray j
          let st := st.putNode obj path j1
          match j1 with
          | .arr a =>
            let a' := growTo a n
            let st := if n < a.length then st else (st.putNode obj path (.arr a')).killBelow obj path
            match a'[n]? with
            | some c =>
              if c.isNull then (st.storePlain s' occaNull, "null") else
              let (h, _) := st.h.step (.borrow s' s)
              ({ st with h := h, vals := aset s' (.handle (path ++ [.idx n]) false) st.vals },
               "json:nf0:" ++ kindFlags c)
            | none => (st, "BUG-aget")
          | _ => (st, "err")
      | _, _, _ => (st, "bad-op")
    | ["asize", s] =>
      match s.toNat? with
      | none => (st, "bad-op")
      | some s =>
        match accJson st s with
        | .out o => (st, o)
        | .node obj path _ j =>
          let j1 := prepArray j
          let st := st.putNode obj path j1
          match j1 with
          | .arr a => (st, toString a.length)
          | _ => (st, "err")
    | ["pop", s] =>
      match s.toNat? with
      | none => (st, "bad-op")
      | some s =>
        match accJson st s with
        | .out o => (st, o)
        | .node obj path sl j =>
          if sl.hdrOk && (j.isNone || (match j with | .arr [] => true | _ => false)) then (st, "empty") else
          let j1 := prepArray j
          let st := st.putNode obj path j1
          match j1 with
          | .arr [] => (st, "TRAP")                        -- pop_back() on an empty vector
          | .arr a => ((st.putNode obj path (.arr a.dropLast)).killBelow obj path, "ok")
          | _ => (st, "err")
    | ["ins", s, idx, v] =>
      match s.toNat?, idx.toInt? with
      | some s, some idx =>
        if (alookup s st.vals).isNone then (st, "nosuch") else
        match parseVal v with
        | none => (st, "bad-op")
        | some v =>
          match build st v with
          | none => (st, "nosuch")
          | some bv =>
            match accJson st s with
            | .out o => (st, o)
            | .node obj path _ j =>
              let j1 := prepArray j
              let st := st.putNode obj path j1
              match j1 with
              | .arr a =>
                if idx < 0 || idx ≥ a.length then (st, "err") else
                match inferJson st bv with
                | .inr o => (st, o)
                | .inl .err => (st, "err")
                | .inl (.ok val) =>
                  ((st.putNode obj path (.arr (insertAt a idx.toNat val))).killBelow obj path, "ok")
              | _ => (st, "err")
      | _, _ => (st, "bad-op")
    | ["clr", s] =>
      match s.toNat? with
      | none => (st, "bad-op")
      | some s =>
        match accJson st s with
        | .out o => (st, o)
        | .node obj path _ j =>
          let j1 := prepArray j
          let st := st.putNode obj path j1
          match j1 with
          | .arr _ => ((st.putNode obj path (.arr [])).killBelow obj path, "ok")
          | _ => (st, "err")
    | ["kind", s] =>
      match s.toNat? with
      | none => (st, "bad-op")
      | some s =>
        match accJson st s with
        | .out o => (st, o)
        | .node _ _ _ j => (st, kindFlags j)
    | ["gb", s] =>
      match s.toNat? with
      | none => (st, "bad-op")
      | some s =>
        match accJson st s with
        | .out o => (st, o)
        | .node _ _ _ j =>
          match j with
          | .num p => if p.ty == some .bool then (st, b01 (p.raw % 256 ≠ 0)) else (st, "notbool")
          | _ => (st, "notbool")
    | ["gn", s, tag] =>
      match s.toNat? with
      | none => (st, "bad-op")
      | some s =>
        match accJson st s with
        | .out o => (st, o)
        | .node _ _ _ j =>
          match j with
          | .num p => match ofPrimTyped p (numTag tag) 0 with
            | .ok r => (st, desc r)
            | .err => (st, "err")
          | _ => (st, "notnum")
    | ["gs", s] =>
      match s.toNat? with
      | none => (st, "bad-op")
      | some s =>
        match accJson st s with
        | .out o => (st, o)
        | .node _ _ _ j =>
          match j with
          | .str bs => (st, "S" ++ hex bs)
          | _ => (st, "notstr")
    | ["cast", s, c] =>
      match s.toNat? with
      | none => (st, "bad-op")
      | some s =>
        if (alookup s st.vals).isNone then (st, "nosuch") else
        if !(["b", "n", "s", "a", "o"].contains c) then (st, "bad-op") else
        match accJson st s with
        | .out o => (st, o)
        | .node obj path _ j =>
          ((st.putNode obj path (castTo (c.toList.headD 'x') j)).killBelow obj path, "ok")
    | ["show", s] =>
      match s.toNat? with
      | none => (st, "bad-op")
      | some s =>
        match alookup s st.vals with
        | none => (st, "nosuch")
        | some (.plain t) => (st, desc t)
        | some (.handle _ _) =>
          match st.h.slots s with
          | none => (st, "BUG-no-hslot")
          | some sl =>
            if !sl.hdrOk || sl.tag ≠ tagJson then (st, descH sl) else
            match accJson st s with
            | .out o => (st, o)
            | .node _ _ _ j => (st, showJ j)
    | ["dtnew", s, name, bytes] =>
      match s.toNat?, unhex name, bytes.toInt? with
      | some s, some name, some bytes =>
        if name.contains 0 then (st, "bad-op") else
        let obj := st.h.next
        let h := (st.h.step (.create s tagDtype true)).1
        ({ st with h := h, vals := aset s (.handle [] false) st.vals, dts := aset obj (name, bytes) st.dts }, "dtype:nf1")
      | _, _, _ => (st, "bad-op")
    | ["dtq", s] =>
      match s.toNat? with
      | none => (st, "bad-op")
      | some s =>
        match alookup s st.vals with
        | none => (st, "nosuch")
        | some (.plain _) => (st, "err")
        | some (.handle _ _) =>
          match st.h.slots s with
          | none => (st, "BUG-no-hslot")
          | some sl =>
            if sl.tag ≠ tagDtype then (st, "err") else
            match (st.h.step (.use s)).2 with
            | .ok => match alookup sl.obj st.dts with
              | some (name, bytes) => (st, hex name ++ " " ++ toString bytes)
              | none => (st, "BUG-dt")
            | .trap => (st, "TRAP")
            | _ => (st, "BUG-deref")
    | ["mnew", s, bytes, seed] =>
      match s.toNat?, bytes.toNat?, seed.toNat? with
      | some s, some bytes, some seed =>
        if bytes = 0 || bytes > 4096 then (st, "bad-op") else
        let obj := st.h.next
        let h := (st.h.step (.create s tagMemory false)).1
        ({ st with h := h, vals := aset s (.handle [] false) st.vals, mems := aset obj (bytes, seed) st.mems }, "memory:nf0")
      | _, _, _ => (st, "bad-op")
    | ["mq", s] =>
      match s.toNat? with
      | none => (st, "bad-op")
      | some s =>
        match alookup s st.vals with
        | none => (st, "nosuch")
        | some (.plain t) => (st, if !t.hdrOk then "uninit" else "err")
        | some (.handle _ _) =>
          match st.h.slots s with
          | none => (st, "BUG-no-hslot")
          | some sl =>
            if !sl.hdrOk then (st, "uninit") else
            if sl.tag ≠ tagMemory then (st, "err") else
            match (st.h.step (.use s)).2 with
            | .ok => match alookup sl.obj st.mems with
              | some (bytes, seed) =>
                (st, toString bytes ++ " " ++ toString (checksum ((List.range bytes).map (patternByte seed))))
              | none => (st, "BUG-mem")
            | .trap => (st, "TRAP")
            | _ => (st, "BUG-deref")
    | _ => (st, "bad-op")

end Occa.CApi
