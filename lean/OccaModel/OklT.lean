/-
Structure of the translations (C20 / C21): what serialParser, openmpParser and the
withLauncher-based parsers do to the statement tree of a rule-conforming kernel.

  serialT    serial.cpp   setupExclusives: index declaration at the top of the @outer loop that
                          owns an @exclusive declaration, `= 0` before every outer-most @inner
                          loop, `++` at the end of every inner-most @inner loop, the variable
                          becomes an array (defineExclusiveVariableAsArray)
  openmpT    openmp.cpp   serialT, then `#pragma omp parallel for` before every outer-most
                          @outer loop, `omp atomic` / `omp critical` for @atomic
  launcherT  withLauncher.cpp  one kernel per outer-most @outer loop; @outer/@inner loops become
                          blocks that declare the iterator; a barrier after an outer-most
                          @inner loop that mentions @shared memory, unless it is the last one of
                          its block and not inside a loop, or carries @nobarrier
             cuda/hip keep @shared declarations in place; opencl/metal/dpcpp move them to the
             top of the kernel; cuda/hip/dpcpp rewrite basic @atomic statements

The result is a target tree (`TT`) printed in the same canonical form as the summaries that
harness/h_okl.cpp reads off the real translators' statement trees.  Core Lean only.
-/
import OccaModel.Okl
namespace Occa.OklT
open Occa.Okl

inductive Pragma | ompParallelFor | ompAtomic | ompCritical
  deriving DecidableEq, Repr

inductive TKind
  | kernel | oFor | iFor | sFor | while_ | switch_ | if_ | elif_ | else_ | block
  | declXi                               -- int _occa_exclusive_index;
  | declPlain
  | declShared (dims : List (Option Nat))
  | declExcl (size : Option Nat)         -- `some n`: turned into an array of n cells
  | xiZero | xiInc                       -- _occa_exclusive_index = 0;  ++_occa_exclusive_index;
  | expr (viaIndex : Bool)               -- viaIndex: subscripts an exclusive array with the index
  | atomicCall                           -- atomicAdd(..) / sycl::atomic_ref
  | pragma (p : Pragma)
  | barrier | brk | cont | ret
  deriving DecidableEq, Repr

inductive TT
  | nil
  | node (k : TKind) (kids : TT) (next : TT)
  deriving Repr

def TT.append : TT → TT → TT
  | .nil, t => t
  | .node k c nx, t => .node k c (nx.append t)

def TT.leaf (k : TKind) (next : TT) : TT := .node k .nil next

/-! ## helpers on the source tree -/

/-- any statement carrying the attribute "inner" in the tree -/
def hasInnerAttr : Tree → Bool
  | .nil => false
  | .node n kids next =>
    (match n.kind with
     | .okl _ true _ _ => true
     | _ => false) || hasInnerAttr kids || hasInnerAttr next

def hasExcl : Tree → Bool
  | .nil => false
  | .node n kids next =>
    (match n.kind with
     | .decl .exclusive => true
     | _ => false) || hasExcl kids || hasExcl next

/-- an @exclusive declaration whose nearest enclosing @outer loop is the loop whose body this is -/
def ownsExcl : Tree → Bool
  | .nil => false
  | .node n kids next =>
    (match n.kind with
     | .decl .exclusive => true
     | .okl true _ _ _ => false
     | _ => ownsExcl kids) || ownsExcl next

/-- a mention of a @shared variable in the statement or below it -/
def mentionsShared : Tree → Bool
  | .nil => false
  | .node n kids next => n.uses.any id || mentionsShared kids || mentionsShared next

/-- getInnerMostInnerLoop + the iteration counts of the @inner loops on its path:
    pre-order, first loop with the strictly greatest number of @inner ancestors.
    `acc`: counts of the @inner ancestors, `best`: (level + 1, counts) so far. -/
def deepestInner (acc : List (Option Int)) (best : Nat × List (Option Int)) : Tree → Nat × List (Option Int)
  | .nil => best
  | .node n kids next =>
    match n.kind with
    | .okl _ true h _ =>
      let c : Option Int := match h.constCount with
        | some (some v) => some v
        | _ => none
      let acc' := acc ++ [c]
      let best' := if best.1 < acc'.length then (acc'.length, acc') else best
      deepestInner acc (deepestInner acc' best' kids) next
    | _ => deepestInner acc (deepestInner acc best kids) next

/-- defineExclusiveVariableAsArray without @max_inner_dims: the product of the compile-time
    counts of the @inner loops on that path, 1024 when one of them is not a constant -/
def exclSize (outerMostOuterBody : Tree) : Nat :=
  let cs := (deepestInner [] (0, []) outerMostOuterBody).2
  if cs.all Option.isSome then (cs.foldl (fun a c => a * (c.getD 1)) (1 : Int)).toNat else 1024

/-! ## serialT / openmpT -/

structure SCtx where
  omp : Bool            -- add the OpenMP pragmas
  excl : Bool           -- the kernel has @exclusive variables
  inOuter : Bool
  inInner : Bool
  xiScope : Bool        -- _occa_exclusive_index is in scope
  size : Nat            -- exclusive array size fixed by the outer-most @outer loop

def exprOut (c : SCtx) (uses : List Bool) : TKind := .expr (c.excl && uses.any (fun b => !b))

def hostGo (c : SCtx) : Tree → TT
  | .nil => .nil
  | .node n kids next =>
    let rest := hostGo c next
    match n.kind with
    | .okl true _ _ _ =>
      let owns := c.excl && ownsExcl kids
      let c' : SCtx := { c with inOuter := true, xiScope := c.xiScope || owns,
                                size := if c.inOuter then c.size else exclSize kids }
      let body := hostGo c' kids
      let body := if owns then TT.leaf .declXi body else body
      let loop := TT.node .oFor body rest
      if c.omp && !c.inOuter then TT.leaf (.pragma .ompParallelFor) loop else loop
    | .okl false true _ _ =>
      let usage := c.xiScope
      let c' : SCtx := { c with inInner := true }
      let body := hostGo c' kids
      let body := if usage && !(hasInnerAttr kids) then body.append (TT.leaf .xiInc .nil) else body
      let loop := TT.node .iFor body rest
      if usage && !c.inInner then TT.leaf .xiZero loop else loop
    | .okl false false _ _ => .node .sFor (hostGo c kids) rest
    | .for_ => .node .sFor (hostGo c kids) rest
    | .while_ => .node .while_ (hostGo c kids) rest
    | .switch_ => .node .switch_ (hostGo c kids) rest
    | .if_ => .node .if_ (hostGo c kids) rest
    | .elif_ => .node .elif_ (hostGo c kids) rest
    | .else_ => .node .else_ (hostGo c kids) rest
    | .block a =>
      if c.omp && a then
        match kids with
        | .node ⟨.expr _ true, u⟩ .nil .nil =>
          -- applyBlockCodeTransformation: the block is removed
          TT.leaf (.pragma .ompAtomic) (TT.leaf (exprOut c u) rest)
        | _ => TT.leaf (.pragma .ompCritical) (.node .block (hostGo c kids) rest)
      else .node .block (hostGo c kids) rest
    | .decl .plain => TT.leaf .declPlain rest
    | .decl (.shared d) => TT.leaf (.declShared d) rest
    | .decl .exclusive => TT.leaf (.declExcl (some c.size)) rest
    | .expr a b =>
      let e := exprOut c n.uses
      if c.omp && a then
        if b then TT.leaf (.pragma .ompAtomic) (TT.leaf e rest)
        else TT.leaf (.pragma .ompCritical) (.node .block (TT.leaf e .nil) rest)
      else TT.leaf e rest
    | .barrier => TT.leaf .barrier rest
    | .brk => TT.leaf .brk rest
    | .cont => TT.leaf .cont rest
    | .ret => TT.leaf .ret rest

def hostT (omp : Bool) (k : Kernel) : TT :=
  .node .kernel (hostGo ⟨omp, hasExcl k.body, false, false, false, 1024⟩ k.body) .nil

def serialT (k : Kernel) : TT := hostT false k
def openmpT (k : Kernel) : TT := hostT true k

/-! ## launcherT -/

inductive Dev | cuda | opencl | dpcpp      -- cuda = hip, opencl = metal
  deriving DecidableEq, Repr

structure LCtx where
  dev : Dev
  inInner : Bool        -- inside an @inner loop
  inLoop : Bool         -- inside a for/while statement that is still a loop (isInsideLoop)
  after : Bool          -- an @inner loop follows in an enclosing block (isLastInnerLoop, repaired F64)

def Dev.sharedInPlace : Dev → Bool
  | .cuda => true
  | _ => false

/-- withLauncher::setupOccaFors (replaceOccaFor, addBarriersAfterInnerLoop) followed by the
    device-specific afterKernelSplit, on the body of one extracted kernel -/
def devGo (c : LCtx) : Tree → TT
  | .nil => .nil
  | .node n kids next =>
    let rest := devGo c next
    -- what the statements inside `n` see after themselves; elif/else are not children of the `if`
    let ck : LCtx := match n.kind with
      | .elif_ | .else_ => c
      | _ => { c with after := c.after || hasInnerAttr next }
    match n.kind with
    | .okl true _ _ _ => .node .block (TT.leaf .declPlain (devGo ck kids)) rest
    | .okl false true _ nb =>
      let body := devGo { ck with inInner := true } kids
      let blk := fun r => TT.node .block (TT.leaf .declPlain body) r
      let wants := !c.inInner && (hasInnerAttr next || c.after || c.inLoop) && !nb
                   && (n.uses.any id || mentionsShared kids)
      if wants then blk (TT.leaf .barrier rest) else blk rest
    | .okl false false _ _ => .node .sFor (devGo { ck with inLoop := true } kids) rest
    | .for_ => .node .sFor (devGo { ck with inLoop := true } kids) rest
    | .while_ => .node .while_ (devGo { ck with inLoop := true } kids) rest
    | .switch_ => .node .switch_ (devGo ck kids) rest
    | .if_ => .node .if_ (devGo ck kids) rest
    | .elif_ => .node .elif_ (devGo ck kids) rest
    | .else_ => .node .else_ (devGo ck kids) rest
    | .block a =>
      match c.dev, a, kids with
      | .cuda, true, .node ⟨.expr _ true, _⟩ .nil .nil => TT.leaf .atomicCall rest
      | .dpcpp, true, .node ⟨.expr _ true, _⟩ .nil .nil => TT.leaf .atomicCall rest
      | .dpcpp, true, _ => .node .block (atomicAll kids) rest
      | _, _, _ => .node .block (devGo ck kids) rest
    | .decl .plain => TT.leaf .declPlain rest
    | .decl (.shared d) => if c.dev.sharedInPlace then TT.leaf (.declShared d) rest else rest
    | .decl .exclusive => TT.leaf (.declExcl none) rest
    | .expr a b =>
      match c.dev, a, b with
      | .cuda, true, _ => TT.leaf .atomicCall rest
      | .dpcpp, true, true => TT.leaf .atomicCall rest
      | .dpcpp, true, false => .node .block (TT.leaf .atomicCall .nil) rest
      | _, _, _ => TT.leaf (.expr false) rest
    | .barrier => TT.leaf .barrier rest
    | .brk => TT.leaf .brk rest
    | .cont => TT.leaf .cont rest
    | .ret => TT.leaf .ret rest
where
  /-- dpcppParser::transformAtomicBlockStatement: every expression statement in the block -/
  atomicAll : Tree → TT
    | .nil => .nil
    | .node n kids next =>
      match n.kind with
      | .expr _ _ => TT.leaf .atomicCall (atomicAll next)
      | .decl .plain => TT.leaf .declPlain (atomicAll next)
      | .block _ => .node .block (atomicAll kids) (atomicAll next)
      | .for_ => .node .sFor (atomicAll kids) (atomicAll next)
      | .if_ => .node .if_ (atomicAll kids) (atomicAll next)
      | .elif_ => .node .elif_ (atomicAll kids) (atomicAll next)
      | .else_ => .node .else_ (atomicAll kids) (atomicAll next)
      | .while_ => .node .while_ (atomicAll kids) (atomicAll next)
      | _ => atomicAll next

/-- the @shared declarations of a kernel body in statement order -/
def sharedDecls : Tree → List (List (Option Nat))
  | .nil => []
  | .node n kids next =>
    (match n.kind with
     | .decl (.shared d) => [d]
     | _ => []) ++ sharedDecls kids ++ sharedDecls next

/-- splitKernels: the outer-most @outer loops in statement order, each as its own kernel -/
def outerMostOuter : Tree → List (Node × Tree)
  | .nil => []
  | .node n kids next =>
    (match n.kind with
     | .okl true _ _ _ => [(n, kids)]
     | _ => outerMostOuter kids) ++ outerMostOuter next

def kernelOf (dev : Dev) (l : Node × Tree) : TT :=
  let loop := Tree.node l.1 l.2 .nil
  let body := devGo ⟨dev, false, false, false⟩ loop
  -- migrateLocalDecls: each declaration is moved with addFirst, so the order is reversed
  let moved := if dev.sharedInPlace then TT.nil
    else (sharedDecls loop).foldl (fun acc d => TT.leaf (.declShared (if dev = .dpcpp then [] else d)) acc) TT.nil
    -- dpcpp: the declaration becomes `auto & s = *(sycl::…group_local_memory_for_overwrite<T[n]>(…))`, no array suffix left
  .node .kernel (moved.append body) .nil

def launcherT (dev : Dev) (k : Kernel) : List TT := (outerMostOuter k.body).map (kernelOf dev)

/-- the launch dimensions set up by setKernelLaunch for one outer-most @outer loop:
    the attributes (true = outer) of the loops on the path to getInnerMostInnerLoop -/
def launchPath (l : Node × Tree) : List Bool :=
  -- path: @outer ancestors of the deepest @inner loop, then the @inner chain
  let rec go (acc : List Bool) (best : Nat × List Bool) (lvl : Nat) : Tree → Nat × List Bool
    | .nil => best
    | .node n kids next =>
      match n.kind with
      | .okl true false _ _ => go acc (go (acc ++ [true]) best lvl kids) lvl next
      | .okl _ true _ _ =>
        let acc' := acc ++ [false]
        let best' := if best.1 < lvl + 1 then (lvl + 1, acc') else best
        go acc (go acc' best' (lvl + 1) kids) lvl next
      | _ => go acc (go acc best lvl kids) lvl next
  (go [true] (0, []) 0 l.2).2

/-! ## canonical printing (same format as harness/h_okl.cpp) -/

def dimsStr (d : List (Option Nat)) : String :=
  String.join (d.map fun | none => "[?]" | some n => "[" ++ toString n ++ "]")

def TKind.tok : TKind → String
  | .kernel => "K" | .oFor => "O" | .iFor => "I" | .sFor => "F" | .while_ => "W" | .switch_ => "S"
  | .if_ => "C" | .elif_ => "E" | .else_ => "L" | .block => "B"
  | .declXi => "Dxi" | .declPlain => "Dp"
  | .declShared d => "Ds" ++ dimsStr d
  | .declExcl none => "Dx"
  | .declExcl (some n) => "Dx[" ++ toString n ++ "]"
  | .xiZero => "xi0" | .xiInc => "xi+"
  | .expr false => "X" | .expr true => "Xx"
  | .atomicCall => "Xa"
  | .pragma .ompParallelFor => "P:omp-parallel-for"
  | .pragma .ompAtomic => "P:omp-atomic"
  | .pragma .ompCritical => "P:omp-critical"
  | .barrier => "R" | .brk => "b" | .cont => "c" | .ret => "r"

def TKind.compound : TKind → Bool
  | .kernel | .oFor | .iFor | .sFor | .while_ | .switch_ | .if_ | .elif_ | .else_ | .block => true
  | _ => false

def splitIfT : TT → TT × TT
  | .node k c nx =>
    if k = .elif_ ∨ k = .else_ then
      let (a, b) := splitIfT nx
      (.node k c a, b)
    else (.nil, .node k c nx)
  | .nil => (.nil, .nil)

def TT.size : TT → Nat
  | .nil => 1
  | .node _ k n => k.size + n.size + 1

def showT : Nat → TT → List String
  | 0, _ => ["…"]
  | _ + 1, .nil => []
  | f + 1, .node k kids next =>
    if k = .if_ then
      let (tail, thn) := splitIfT kids
      [k.tok, "("] ++ showT f thn ++ [")"] ++ showT f tail ++ showT f next
    else if k.compound then [k.tok, "("] ++ showT f kids ++ [")"] ++ showT f next
    else k.tok :: showT f next

def TT.str (t : TT) : String :=
  let l := showT (t.size + 1) t
  if l.isEmpty then "-" else "_".intercalate l

def launchStr (k : Kernel) : String :=
  let ks := outerMostOuter k.body
  let one (i : Nat) (l : Node × Tree) : List String :=
    let p := launchPath l
    let od := (p.filter id).length
    let idm := (p.filter (!·)).length
    let rec dims (p : List Bool) (o i : Nat) : List String :=
      match p with
      | [] => []
      | true :: r => ("outer[" ++ toString (o - 1) ++ "]") :: dims r (o - 1) i
      | false :: r => ("inner[" ++ toString (i - 1) ++ "]") :: dims r o (i - 1)
    ["od" ++ toString od, "id" ++ toString idm] ++ dims p od idm ++ ["k" ++ toString i]
  let rec all (i : Nat) : List (Node × Tree) → List String
    | [] => []
    | l :: r => one i l ++ all (i + 1) r
  let l := all 0 ks
  if l.isEmpty then "-" else "_".intercalate l

def kernelsStr (ks : List TT) : String :=
  if ks.isEmpty then "-" else "_".intercalate (ks.map TT.str)

def summaryLine (k : Kernel) : String :=
  if !(rulesOk k) then "serial=fail openmp=fail cuda=fail hip=fail opencl=fail metal=fail dpcpp=fail" else
  let g := hasGeneralAtomic k.body
  let cu := if g then "fail" else kernelsStr (launcherT .cuda k)
  let cl := kernelsStr (launcherT .opencl k)
  "serial=" ++ (serialT k).str ++ " openmp=" ++ (openmpT k).str ++
  " cuda=" ++ cu ++ (if g then "" else " launch=" ++ launchStr k) ++ " hip=" ++ cu ++
  " opencl=" ++ cl ++ " metal=" ++ cl ++ " dpcpp=" ++ kernelsStr (launcherT .dpcpp k)

end Occa.OklT
