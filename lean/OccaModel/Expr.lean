/-
Model of OCCA's expression front end (C15): tokens, the operator-precedence expression parser of
`lang/expr/expressionParser.cpp`, the `print` methods of the expression node classes and a
small tokenizer for the text those printers produce.

Written after the C++ function by function (names in the doc comments); the operator table, the
operatorType bit masks, associativity, the tokenizer's registered spellings, the ambiguous-symbol
table and the switches that distinguish repaired from unrepaired code are GENERATED from the
current sources into `OccaGen/OpTable.lean` (translate/gen_ops.py).  Core Lean only.
-/
import OccaGen.OpTable

namespace Occa.Expr
open Occa.Gen

/-! ## operatorType bit fields (`bitfield`: two 64-bit words) -/

abbrev Ty := Nat × Nat

/-- `(a & b)` is non-zero -/
@[inline] def has (a b : Ty) : Bool := (a.1 &&& b.1) != 0 || (a.2 &&& b.2) != 0

/-- `bitfield::operator << (1)` -/
def shl1 (a : Ty) : Ty :=
  (((a.1 <<< 1) % 18446744073709551616) ||| (a.2 >>> 63), (a.2 <<< 1) % 18446744073709551616)

/-! ## tokens -/

/-- what the tokenizer (followed by `tokenContext_t::parseExpression`, which turns type keywords
    into vartype tokens) hands to the expression parser -/
inductive Tok where
  | ident (s : String)                      -- identifierToken / variableToken / functionToken
  | prim (s : String)                       -- primitiveToken, by its source spelling
  | str (enc val udf : String)              -- stringToken: encoding prefix, unescaped value, suffix
  | chr (enc val udf : String)              -- charToken
  | vtype (name : String) (ptrs : Nat)      -- vartypeToken: builtin type name and pointer depth
  | op (o : Op)                             -- operatorToken
  deriving DecidableEq, Repr, Inhabited

/-- `token_t::getOpType()` -/
def Tok.opType : Tok → Ty
  | .op o => o.ty
  | _ => T.none_

/-! ## expression trees (one constructor per node class that the parser can build) -/

inductive Expr where
  | empty                                   -- emptyNode (noExprNode)
  | ident (s : String)
  | prim (s : String)
  | str (enc val udf : String)
  | chr (enc val udf : String)
  | vtype (name : String) (ptrs : Nat)      -- vartypeNode
  | lu (o : Op) (e : Expr)                  -- leftUnaryOpNode
  | ru (o : Op) (e : Expr)                  -- rightUnaryOpNode
  | bin (o : Op) (l r : Expr)               -- binaryOpNode
  | tern (c t f : Expr)                     -- ternaryOpNode
  | paren (e : Expr)                        -- parenthesesNode
  | call (f args : Expr)                    -- callNode; `args` is the comma tree inside ( ), see `commaArgs`
  | sub (v i : Expr)                        -- subscriptNode
  | cast (name : String) (ptrs : Nat) (e : Expr)   -- parenCastNode
  | sizeof (e : Expr)                       -- sizeofNode
  | throw_ (e : Expr)                       -- throwNode
  | tuple (args : Expr)                     -- tupleNode
  | pair (o : Op) (e : Expr)                -- pairNode (transient; `o` is the closing operator)
  deriving DecidableEq, Repr, Inhabited

inductive Err where
  | unableToApply | ambiguous | pairMismatch | expectedIdentifier | unableToForm
  | unsupported | waldo | lex
  | trap          -- the C++ pops the root scope (undefined behaviour): `)` without `(`
  deriving DecidableEq, Repr

/-! ## the parser -/

/-- an entry of the operator stack (`exprOpNode`; for a cast the `leftUnaryOpNode(parenCast, type)`
    that `transformLastPair` pushes) -/
structure OpNode where
  op : Op
  castName : String := ""
  castPtrs : Nat := 0
  deriving DecidableEq, Repr

/-- `expressionScopedState` (stacks: head = top) -/
structure Scope where
  out : List Expr := []
  ops : List OpNode := []
  before : Option Tok := none
  deriving Repr

/-- `expressionState` -/
structure St where
  cur : Scope := {}
  stack : List Scope := []
  prev : Option Tok := none
  prevCastEnd : Bool := false     -- `prevToken == castEndToken`
  deriving Repr

/-- `expressionParser::pushOutputNode` -/
def nodeOf : Tok → Expr
  | .ident s => .ident s
  | .prim s => .prim s
  | .str e v u => .str e v u
  | .chr e v u => .chr e v u
  | .vtype n p => .vtype n p
  | .op _ => .empty

def isTypeNode : Expr → Bool
  | .vtype _ _ => true
  | _ => false

/-- `expressionParser::applyTernary` -/
def applyTernary (out : List Expr) : List Expr :=
  match out with
  | .lu o2 fv :: .lu o1 tv :: c :: rest =>
    if o1.ty == T.questionMark && o2.ty == T.colon then .tern c tv fv :: rest else out
  | _ => out

/-- `expressionParser::applyLeftUnaryOperator` -/
def applyLeftUnary (n : OpNode) (v : Expr) : Except Err Expr :=
  let ty := n.op.ty
  if !has ty T.special then .ok (.lu n.op v)
  else if has ty T.parenCast then .ok (.cast n.castName n.castPtrs v)
  else if has ty T.sizeof_ then .ok (.sizeof v)
  else if has ty T.new_ then .error .unsupported
  else if has ty T.delete_ then .error .unsupported
  else if has ty T.throw_ then .ok (.throw_ v)
  else .error .waldo

def isPairStartTok (t : Option Tok) : Bool :=
  match t with
  | some t => has t.opType T.pairStart
  | none => false

/-- `expressionParser::applyOperator`; `prev` is `state.prevToken` -/
def applyOperator (n : OpNode) (prev : Option Tok) (out : List Expr) : Except Err (List Expr) :=
  let ty := n.op.ty
  if has ty T.binary then
    match out with
    | r :: l :: rest => .ok (.bin n.op l r :: rest)
    | _ => .error .unableToApply
  else if has ty T.leftUnary then
    match out with
    | v :: rest =>
      match applyLeftUnary n v with
      | .ok e => .ok (if has ty T.colon then applyTernary (e :: rest) else e :: rest)
      | .error x => .error x
    | [] => .error .unableToApply
  else if has ty T.rightUnary then
    match out with
    | v :: rest => .ok (.ru n.op v :: rest)
    | [] => .error .unableToApply
  else if has ty T.pair then
    match out with
    | v :: rest => if !isPairStartTok prev then .ok (.pair n.op v :: rest) else .ok (.pair n.op .empty :: v :: rest)
    | [] => .ok [.pair n.op .empty]
  else .ok out

def tokIsOp : Tok → Bool
  | .op _ => true
  | _ => false

/-- `expressionParser::operatorIsLeftUnary` for the (still ambiguous) operator `o`;
    `prevCastEnd`: the previous token is the `)` of a cast (`prevToken == castEndToken`; it is also
    what `prevPairIsCast` computes from the operator stack) -/
def isLeftUnary (o : Op) (prev next : Option Tok) (prevCastEnd : Bool := false) : Except Err Bool :=
  let chainable : Ty := (T.increment.1 ||| T.decrement.1 ||| T.parentheses.1,
                         T.increment.2 ||| T.decrement.2 ||| T.parentheses.2)
  let onlyUnary := has o.ty T.increment || has o.ty T.decrement
  match prev, next with
  | none, _ => .ok true
  | some _, none => .ok false
  | some p, some nx =>
    let prevTy := p.opType
    if has prevTy T.pairStart then .ok true
    else if castEndIsPrefix && prevCastEnd then .ok true
    else if pairEndEndsOperand && has nx.opType T.pairEnd then .ok false
    else
      let prevIsOp := has prevTy T.unary || has prevTy T.binary
      if prevIsOp && (has prevTy T.leftUnary || (has prevTy T.binary && !has prevTy T.unary)) then .ok true
      else if prevIsOp && !onlyUnary then .ok false
      else if operandThenBinary && !onlyUnary && !tokIsOp p then .ok false
      else if operandThenBinary && !onlyUnary && has prevTy T.pairEnd && !prevCastEnd then .ok false
      else
        let nextIsOp := has nx.opType T.unary || has nx.opType T.binary
        if prevIsOp != nextIsOp then .ok (if onlyUnary then prevIsOp else nextIsOp)
        else if !prevIsOp then
          if onlyUnary then .error .ambiguous else .ok false
        else if has prevTy chainable && has nx.opType chainable then .error .ambiguous
        else .ok (!has prevTy chainable)

/-- `expressionParser::updateOperatorToken` -/
def resolve (o : Op) (prev next : Option Tok) (prevCastEnd : Bool := false) : Except Err Op :=
  if !has o.ty T.ambiguous then .ok o
  else
    match isLeftUnary o prev next prevCastEnd with
    | .error x => .error x
    | .ok l =>
      match ambiguousTable.find? (fun e => has o.ty e.1) with
      | some (_, a, b) => .ok (if l then a else b)
      | none => .error .waldo

def leftAssoc (prec : Nat) : Bool := assoc.getD prec 0 == 0

/-- `applyPrevOp` / `foundQuestionMark` of `applyFasterOperators` for the incoming operator `o` and the
    pending operator `q`, in the three shapes the loop has had (`ternaryMode`) -/
def popDecision (o q : Op) : Bool × Bool :=
  let byPrec := o.prec > q.prec || (o.prec == q.prec && leftAssoc q.prec)
  if ternaryMode == 0 then (byPrec, false)
  else if ternaryMode == 1 then
    if o.prec == q.prec then
      if has o.ty T.questionMark then (false, false)
      else if has o.ty T.colon then (byPrec, has q.ty T.questionMark)
      else (byPrec, false)
    else (byPrec, false)
  else
    if has o.ty T.colon then (true, has q.ty T.questionMark)
    else if has q.ty T.questionMark then (false, false)
    else if o.prec == q.prec && has o.ty T.questionMark then (false, false)
    else (byPrec, false)

/-- the `while` loop of `expressionParser::applyFasterOperators` for the incoming operator `o` -/
def popFaster (o : Op) (prev : Option Tok) : List Expr → List OpNode → Except Err (List Expr × List OpNode)
  | out, [] => .ok (out, [])
  | out, n :: ops =>
    if has n.op.ty T.pairStart then .ok (out, n :: ops)
    else if (popDecision o n.op).1 then
      match applyOperator n prev out with
      | .error x => .error x
      | .ok out' => if (popDecision o n.op).2 then .ok (out', ops) else popFaster o prev out' ops
    else .ok (out, n :: ops)

/-- `expressionParser::extractArgs` on the content of a pair -/
def commaArgs : Expr → List Expr
  | .bin o l r => if has o.ty T.comma then commaArgs l ++ [r] else [.bin o l r]
  | e => [e]

/-- the loop of `expressionParser::closePair` after the closing operator has been popped -/
def closeLoop (endOp : Op) (prev : Option Tok) : List Expr → List OpNode → Except Err (List Expr × List OpNode)
  | _, [] => .error .pairMismatch
  | out, n :: ops =>
    if has n.op.ty T.pairStart then
      if endOp.ty == shl1 n.op.ty then
        match applyOperator { op := endOp } prev (applyTernary out) with
        | .error x => .error x
        | .ok out' => .ok (out', ops)
      else .error .pairMismatch
    else
      match applyOperator n prev out with
      | .error x => .error x
      | .ok out' => closeLoop endOp prev out' ops

/-- `expressionParser::transformLastPair` -/
def transformLastPair (out : List Expr) (ops : List OpNode) : Except Err (List Expr × List OpNode × Bool) :=
  match out with
  | .pair po v :: rest =>
    if !(has po.ty T.parentheses || has po.ty T.braces) then .error .expectedIdentifier
    else if has po.ty T.parentheses then
      match v with
      | .vtype n p => .ok (rest, { op := .parenCast, castName := n, castPtrs := p } :: ops, true)
      | _ => .ok (.paren v :: rest, ops, false)
    else .ok (.tuple v :: rest, ops, false)
  | _ => .error .waldo

/-- `expressionParser::attachPair`; the flag says that a cast operator was pushed -/
def attachPair (before : Option Tok) (out : List Expr) (ops : List OpNode) : Except Err (List Expr × List OpNode × Bool) :=
  if out.length < 2 then transformLastPair out ops
  else
    match before with
    | none => transformLastPair out ops
    | some (.op bo) =>
      if !has bo.ty T.pairEnd then transformLastPair out ops else attach out ops
    | some _ => attach out ops
where
  attach (out : List Expr) (ops : List OpNode) : Except Err (List Expr × List OpNode × Bool) :=
    match out with
    | .pair po v :: value :: rest =>
      if has po.ty T.parentheses then .ok (.call value v :: rest, ops, false)
      else if has po.ty T.brackets then .ok (.sub value v :: rest, ops, false)
      else if has po.ty T.cudaCall then .error .unsupported
      else .error .waldo
    | _ => .error .waldo

/-- one iteration of the loop of `expressionParser::getInitialExpression` -/
def step (s : St) (t : Tok) (next : Option Tok) : Except Err St :=
  match t with
  | .op o =>
    if has o.ty T.pairStart then
      .ok { cur := { out := [], ops := [{ op := o }],
                     before := if castEndIsPrefix && s.prevCastEnd then none else s.prev },
            stack := s.cur :: s.stack, prev := some t }
    else if has o.ty T.pairEnd then
      match s.stack with
      | [] => if unmatchedCloserIsError then .error .pairMismatch else .error .trap
      | parent :: rest =>
        -- pushOperator(&opToken); popPair(); closePair(); attachPair(opToken)
        match closeLoop o s.prev (s.cur.out ++ parent.out) (s.cur.ops ++ parent.ops) with
        | .error x => .error x
        | .ok (out, ops) =>
          match attachPair s.cur.before out ops with
          | .error x => .error x
          | .ok (out', ops', isCast) =>
            .ok { cur := { parent with out := out', ops := ops' }, stack := rest, prev := some t, prevCastEnd := isCast }
    else
      match resolve o s.prev next s.prevCastEnd with
      | .error x => .error x
      | .ok o' =>
        match popFaster o' s.prev s.cur.out s.cur.ops with
        | .error x => .error x
        | .ok (out, ops) =>
          .ok { s with cur := { s.cur with out := out, ops := { op := o' } :: ops }, prev := some (.op o'), prevCastEnd := false }
  | _ => .ok { s with cur := { s.cur with out := nodeOf t :: s.cur.out }, prev := some t, prevCastEnd := false }

/-- the token loop; `nxt` is what follows the last token of `ts` (nothing, for a whole expression) -/
def run (nxt : Option Tok) : St → List Tok → Except Err St
  | s, [] => .ok s
  | s, t :: ts =>
    match step s t (match ts with | [] => nxt | t' :: _ => some t') with
    | .error x => .error x
    | .ok s' => run nxt s' ts

/-- "Finish applying operators" of `expressionParser::parse` -/
def applyAll (prev : Option Tok) : List Expr → List OpNode → Except Err (List Expr)
  | out, [] => .ok out
  | out, n :: ops =>
    match applyOperator n prev out with
    | .error x => .error x
    | .ok out' => applyAll prev out' ops

def finish (s : St) : Except Err Expr :=
  match applyAll s.prev s.cur.out s.cur.ops with
  | .error x => .error x
  | .ok [] => .ok .empty
  | .ok [e] => .ok e
  | .ok _ => .error .unableToForm

/-- `expressionParser::parse` -/
def parse (ts : List Tok) : Except Err Expr :=
  match ts with
  | [] => .ok .empty
  | _ =>
    match run none {} ts with
    | .error x => .error x
    | .ok s => finish s

/-! ## printing -/

/-- `escape(value, c)` of utils/string.cpp (escape character `\`) -/
def escapeFrom (i : Nat) (c : Char) : List Char → List Char
  | [] => []
  | x :: xs =>
    if x != c then x :: escapeFrom (i + 1) c xs
    else if (i != 0 || !escapeSkipsIndex0) then '\\' :: c :: escapeFrom (i + 1) c xs
    else c :: escapeFrom (i + 1) c xs

def escape (c : Char) (s : List Char) : List Char := escapeFrom 0 c s

/-- `unescape(str, c)`: drops a backslash that is followed by `c` -/
def unescape (c : Char) : List Char → List Char
  | [] => []
  | [x] => [x]
  | x :: y :: xs => if x == '\\' && y == c then unescape c (y :: xs) else x :: unescape c (y :: xs)

/-- `lang::printer` writing into its own buffer (`out == NULL`) -/
structure P where
  buf : List Char := []
  indent : Nat := 0
  cfn : Nat := 0          -- charsFromNewline
  deriving Repr

def scanCols (cs : List Char) (cfn : Nat) : Nat :=
  cs.foldl (fun n c => if c == '\n' then 0 else n + 1) cfn

/-- `printer::print`: the column counter is recomputed from index `charsFromNewline` of the whole
    buffer (as the C++ does) -/
def P.put (p : P) (s : List Char) : P :=
  let buf := p.buf ++ s
  if buf.isEmpty then p else { p with buf := buf, cfn := scanCols (buf.drop p.cfn) p.cfn }

def P.puts (p : P) (s : String) : P := p.put s.toList
def P.last (p : P) : Char := p.buf.getLast?.getD '\x00'
def P.printNewline (p : P) : P := if p.last != '\n' then p.put ['\n'] else p
def P.printSpace (p : P) : P := if p.last != ' ' then p.put [' '] else p
def P.printIndentation (p : P) : P := p.put (List.replicate p.indent ' ')
def P.addIndentation (p : P) : P := { p with indent := p.indent + 2 }
def P.removeIndentation (p : P) : P := if p.indent ≥ 2 then { p with indent := p.indent - 2 } else p

/-- `vartype_t::printDeclaration(pout, "", type)` for a builtin type with `ptrs` plain pointers -/
def printType (name : String) (ptrs : Nat) (p : P) : P :=
  let p := p.puts name
  if ptrs == 0 then p else (p.printSpace).put (List.replicate ptrs '*')

def encPrefix (enc : String) : String := if enc == "-" then "" else enc

/-- blank between a prefix operator and a following prefix operator (leftUnaryOpNode::print) -/
def unaryNeedsBlank (o : Op) (v : Expr) : Bool :=
  match v with
  | .lu o2 _ =>
    match o.str.toList.getLast?, o2.str.toList.head? with
    | some a, some b => a == b && unarySeparatorChars.contains a
    | _, _ => false
  | _ => false

/-- `callNode::print` / `tupleNode::print` given the printers of the pieces -/
def printList (openS closeS : String) (startWidth : Nat) (head : P → P) (args : List (P → P)) (p : P) : P :=
  let widths := args.map fun a => (a {}).buf.length
  let lineW := widths.foldl (fun (acc : Nat × Bool) w =>
      let lw := acc.1 + w
      (lw, acc.2 || decide (w > prettierMaxVarWidth) || decide (lw > prettierMaxLineWidth))) (p.cfn + startWidth, false)
  let nl := lineW.2
  let p := (head p).puts openS
  let p := if nl then ((p.addIndentation).printNewline).printIndentation else p
  let rec go (first : Bool) (as : List (P → P)) (p : P) : P :=
    match as with
    | [] => p
    | a :: rest =>
      let p := if first then p else if nl then (((p.puts ",").printNewline).printIndentation) else p.puts ", "
      go false rest (a p)
  let p := go true args p
  let p := if nl then ((p.removeIndentation).printNewline).printIndentation else p
  p.puts closeS

/-- the printer of a node and the printers of its comma-separated pieces (`extractArgs`) -/
structure Sem where
  one : P → P
  args : List (P → P)

def isParenNode : Expr → Bool
  | .paren _ => true
  | _ => false

def isEmptyNode : Expr → Bool
  | .empty => true
  | _ => false

/-- `exprNode::print` for every node class -/
def sem : Expr → Sem
  | .empty => let one := fun p => p; { one, args := [one] }
  | .ident s => let one := fun (p : P) => p.puts s; { one, args := [one] }
  | .prim s => let one := fun (p : P) => p.puts s; { one, args := [one] }
  | .str enc v u =>
    let one := fun (p : P) =>
      let p := if stringNodePrintsEncoding then p.puts (encPrefix enc) else p
      let p := (p.puts "\"").put (escape '"' v.toList) |>.puts "\""
      if stringNodePrintsEncoding then p.puts u else p
    { one, args := [one] }
  | .chr enc v u =>
    let one := fun (p : P) =>
      let p := if charNodePrintsEncoding then p.puts (encPrefix enc) else p
      let p := (p.puts "'").put (escape '\'' v.toList) |>.puts "'"
      if charNodePrintsEncoding then p.puts u else p
    { one, args := [one] }
  | .vtype n k => let one := printType n k; { one, args := [one] }
  | .lu o e =>
    let se := sem e
    let one := fun (p : P) =>
      let p := p.puts o.str
      let p := if unaryNeedsBlank o e then p.puts " " else p
      se.one p
    { one, args := [one] }
  | .ru o e =>
    let se := sem e
    let one := fun (p : P) => (se.one p).puts o.str
    { one, args := [one] }
  | .bin o l r =>
    let sl := sem l
    let sr := sem r
    let one := fun (p : P) =>
      if has o.ty tightBinary then sr.one ((sl.one p).puts o.str)
      else if has o.ty T.comma then sr.one ((sl.one p).puts ", ")
      else sr.one ((((sl.one p).puts " ").puts o.str).puts " ")
    { one, args := if has o.ty T.comma then sl.args ++ [sr.one] else [one] }
  | .tern c t f =>
    let sc := sem c
    let st := sem t
    let sf := sem f
    let one := fun (p : P) => sf.one ((st.one ((sc.one p).puts " ? ")).puts " : ")
    { one, args := [one] }
  | .paren e =>
    let se := sem e
    let one := fun (p : P) => (se.one (p.puts "(")).puts ")"
    { one, args := [one] }
  | .call f a =>
    let sf := sem f
    let sa := sem a
    let one := fun (p : P) =>
      let name := (sf.one {}).buf
      printList "(" ")" name.length (fun q => q.put name) sa.args p
    { one, args := [one] }
  | .sub v i =>
    let sv := sem v
    let si := sem i
    let one := fun (p : P) => (si.one ((sv.one p).puts "[")).puts "]"
    { one, args := [one] }
  | .cast n k e =>
    let se := sem e
    let one := fun (p : P) => se.one ((printType n k (p.puts "(")).puts ") ")
    { one, args := [one] }
  | .sizeof e =>
    let se := sem e
    let one := fun (p : P) =>
      if !sizeofPrintsAsWritten then (se.one (p.puts "sizeof(")).puts ")"
      else if isParenNode e then se.one (p.puts "sizeof")
      else if isTypeNode e then (se.one (p.puts "sizeof(")).puts ")"
      else se.one (p.puts "sizeof ")
    { one, args := [one] }
  | .throw_ e =>
    let se := sem e
    let one := fun (p : P) => if isEmptyNode e then p.puts "throw" else se.one (p.puts "throw ")
    { one, args := [one] }
  | .tuple a =>
    let sa := sem a
    let one := fun (p : P) => printList "{" "}" 1 (fun q => q) sa.args p
    { one, args := [one] }
  | .pair _ _ => let one := fun p => p; { one, args := [one] }   -- pairNode::print only reports an error

/-- `exprNode::toString` -/
def toStr (e : Expr) : List Char := ((sem e).one {}).buf

/-! ## the token sequence of a printed tree (what the text is meant to be read back as) -/

/-- the operator token the tokenizer produces for the spelling of `o` (`-` is always read as
    `op::sub`, `++` as `op::leftIncrement`, ...; the parser resolves it again) -/
def lexedOp (o : Op) : Op := (registered.find? (fun r => r.str == o.str)).getD o

def printToks : Expr → List Tok
  | .empty => []
  | .ident s => [.ident s]
  | .prim s => [.prim s]
  | .str e v u => [.str e v u]
  | .chr e v u => [.chr e v u]
  | .vtype n k => [.vtype n k]
  | .lu o e => .op (lexedOp o) :: printToks e
  | .ru o e => printToks e ++ [.op (lexedOp o)]
  | .bin o l r => printToks l ++ [.op (lexedOp o)] ++ printToks r
  | .tern c t f => printToks c ++ [.op .questionMark] ++ printToks t ++ [.op .colon] ++ printToks f
  | .paren e => [.op .parenthesesStart] ++ printToks e ++ [.op .parenthesesEnd]
  | .call f a => printToks f ++ [.op .parenthesesStart] ++ printToks a ++ [.op .parenthesesEnd]
  | .sub v i => printToks v ++ [.op .bracketStart] ++ printToks i ++ [.op .bracketEnd]
  | .cast n k e => [.op .parenthesesStart, .vtype n k, .op .parenthesesEnd] ++ printToks e
  | .sizeof e => .op .sizeof_ :: printToks e
  | .throw_ e => .op .throw_ :: printToks e
  | .tuple a => [.op .braceStart] ++ printToks a ++ [.op .braceEnd]
  | .pair _ _ => []

/-! ## a tokenizer for printed expressions -/

def isIdStart (c : Char) : Bool := c.isAlpha || c == '_'
def isIdChar (c : Char) : Bool := c.isAlphanum || c == '_'
def isWs (c : Char) : Bool := c == ' ' || c == '\n' || c == '\t' || c == '\r' || c == '\x0b' || c == '\x0c'

def isPrefixOf : List Char → List Char → Bool
  | [], _ => true
  | _ :: _, [] => false
  | a :: as, b :: bs => a == b && isPrefixOf as bs

/-- `operatorTrie::getLongest`: the longest registered spelling that starts the text -/
def longestOp (cs : List Char) : Option (Op × Nat) :=
  registered.foldl (fun best o =>
    let s := o.str.toList
    if isPrefixOf s cs && (match best with | some (_, n) => s.length > n | none => true)
    then some (o, s.length) else best) none

def stringEncodings : List String := ["u8", "u", "U", "L", "R", "u8R", "uR", "UR", "LR"]
def charEncodings : List String := ["u", "U", "L"]

/-- text up to the closing delimiter (`skipTo`: a backslash protects the next character); `none` when
    a newline or the end comes first -/
def takeQuoted (q : Char) : List Char → Option (List Char × List Char)
  | [] => none
  | '\\' :: x :: rest =>
    match takeQuoted q rest with
    | some (v, r) => some ('\\' :: x :: v, r)
    | none => none
  | c :: rest =>
    if c == q then some ([], rest)
    else if c == '\n' then none
    else match takeQuoted q rest with
      | some (v, r) => some (c :: v, r)
      | none => none

def takeWhileC (f : Char → Bool) : List Char → List Char × List Char
  | [] => ([], [])
  | c :: cs => if f c then let (a, b) := takeWhileC f cs; (c :: a, b) else ([], c :: cs)

def isHexDigit (c : Char) : Bool := c.isDigit || ('a' ≤ c && c ≤ 'f') || ('A' ≤ c && c ≤ 'F')

def countWhile (f : Char → Bool) : List Char → Nat
  | [] => 0
  | c :: cs => if f c then countWhile f cs + 1 else 0

/-- how many characters `primitive::load` consumes (`none`: not a literal).  Only the extent is
    modelled: sign (exponents only), `0x`/`0b` digits, digits and dots, the `L U F` suffixes and
    an `E` exponent that is loaded recursively. -/
def scanNum : Nat → Bool → List Char → Option Nat
  | 0, _, _ => none
  | fuel + 1, includeSign, cs =>
    let signed := match cs with | c :: _ => c == '+' || c == '-' | [] => false
    if signed && !includeSign then none else
    let cs1 := if signed then cs.drop 1 else cs
    let ws := if signed then countWhile isWs cs1 else 0
    let cs2 := cs1.drop ws
    let pre := (if signed then 1 else 0) + ws
    let formatted := match cs2 with
      | '0' :: x :: _ => x == 'x' || x == 'X' || x == 'b' || x == 'B'
      | _ => false
    let rec suffix (fuel : Nat) (formatted : Bool) : List Char → Nat
      | [] => 0
      | c :: rest =>
        let C := c.toUpper
        if C == 'L' || C == 'U' then suffix fuel formatted rest + 1
        else if !formatted && C == 'E' then 1 + (scanNum fuel true rest).getD 0
        else if !formatted && C == 'F' then suffix fuel formatted rest + 1
        else 0
    if formatted then
      let isHex := match cs2 with | _ :: x :: _ => x == 'x' || x == 'X' | _ => false
      let body := cs2.drop 2
      let k := countWhile (fun c => if isHex then isHexDigit c else (c == '0' || c == '1')) body
      if k == 0 then none else some (pre + 2 + k + suffix fuel true (body.drop k))
    else
      let n := countWhile (fun c => c.isDigit || c == '.') cs2
      let d := ((cs2.take n).filter Char.isDigit).length
      if d == 0 then none else some (pre + n + suffix fuel false (cs2.drop n))

def udfOf (cs : List Char) : List Char × List Char :=
  match cs with
  | '_' :: _ => takeWhileC isIdChar cs
  | _ => ([], cs)

/-- the tokenizer, restricted to what the expression printers emit (fuel = length of the text) -/
def lexFuel : Nat → List Char → Except Err (List Tok)
  | 0, [] => .ok []
  | 0, _ :: _ => .error .lex
  | _ + 1, [] => .ok []
  | fuel + 1, c :: cs =>
    if isWs c then lexFuel fuel cs
    else if (c.isDigit || c == '.') && (scanNum (fuel + 1) false (c :: cs)).isSome &&
            !(match (c :: cs).drop ((scanNum (fuel + 1) false (c :: cs)).getD 0) with | x :: _ => isIdStart x | [] => false) then
      let n := (scanNum (fuel + 1) false (c :: cs)).getD 0
      match lexFuel fuel ((c :: cs).drop n) with
      | .ok ts => .ok (.prim (String.ofList ((c :: cs).take n)) :: ts)
      | .error x => .error x
    else if c.isDigit then .error .lex        -- a literal glued to an identifier: "Unable to parse"
    else if isIdStart c then
      let (idc, rest) := takeWhileC isIdChar (c :: cs)
      let id := String.ofList idc
      if registered.any (fun o => o.str == id) then
        -- sizeof, throw, new, delete, typeid, noexcept, alignof: read through the operator trie
        match longestOp (c :: cs) with
        | some (o, n) =>
          match lexFuel fuel ((c :: cs).drop n) with
          | .ok ts => .ok (.op o :: ts)
          | .error x => .error x
        | none => .error .lex
      else
        match rest with
        | '"' :: r1 =>
          if stringEncodings.contains id then
            if id.toList.contains 'R' then .error .lex     -- raw strings are outside the model
            else match takeQuoted '"' r1 with
              | some (v, r2) =>
                let (u, r3) := udfOf r2
                match lexFuel fuel r3 with
                | .ok ts => .ok (.str id (String.ofList (unescape '"' v)) (String.ofList u) :: ts)
                | .error x => .error x
              | none => .error .lex
          else
            match lexFuel fuel rest with
            | .ok ts => .ok ((if id == "true" || id == "false" then Tok.prim id else Tok.ident id) :: ts)
            | .error x => .error x
        | '\'' :: r1 =>
          if charEncodings.contains id then
            match takeQuoted '\'' r1 with
            | some (v, r2) =>
              let (u, r3) := udfOf r2
              match lexFuel fuel r3 with
              | .ok ts => .ok (.chr id (String.ofList (unescape '\'' v)) (String.ofList u) :: ts)
              | .error x => .error x
            | none => .error .lex
          else
            match lexFuel fuel rest with
            | .ok ts => .ok ((if id == "true" || id == "false" then Tok.prim id else Tok.ident id) :: ts)
            | .error x => .error x
        | _ =>
          match lexFuel fuel rest with
          | .ok ts => .ok ((if id == "true" || id == "false" then Tok.prim id else Tok.ident id) :: ts)
          | .error x => .error x
    else if c == '"' then
      match takeQuoted '"' cs with
      | some (v, r2) =>
        let (u, r3) := udfOf r2
        match lexFuel fuel r3 with
        | .ok ts => .ok (.str "-" (String.ofList (unescape '"' v)) (String.ofList u) :: ts)
        | .error x => .error x
      | none => .error .lex
    else if c == '\'' then
      match takeQuoted '\'' cs with
      | some (v, r2) =>
        let (u, r3) := udfOf r2
        match lexFuel fuel r3 with
        | .ok ts => .ok (.chr "-" (String.ofList (unescape '\'' v)) (String.ofList u) :: ts)
        | .error x => .error x
      | none => .error .lex
    else
      match longestOp (c :: cs) with
      | some (o, n) =>
        if has o.ty T.comment then .error .lex        -- comments never occur in printed expressions
        else match lexFuel fuel ((c :: cs).drop n) with
          | .ok ts => .ok (.op o :: ts)
          | .error x => .error x
      | none => .error .lex

def lex (cs : List Char) : Except Err (List Tok) := lexFuel (cs.length + 1) cs

def builtinTypes : List String := ["int", "float", "double", "char", "short", "bool", "void"]

/-- what `tokenContext_t::parseExpression` does to type keywords (the harness does the same for a
    builtin type name followed by `*`s): one vartype token -/
def typeTokensAux : Option (String × Nat) → List Tok → List Tok
  | none, [] => []
  | some (s, k), [] => [.vtype s k]
  | none, t :: rest =>
    match t with
    | .ident s => if builtinTypes.contains s then typeTokensAux (some (s, 0)) rest else t :: typeTokensAux none rest
    | _ => t :: typeTokensAux none rest
  | some (s, k), t :: rest =>
    match t with
    | .op .mult => typeTokensAux (some (s, k + 1)) rest
    | .ident s2 =>
      if builtinTypes.contains s2 then .vtype s k :: typeTokensAux (some (s2, 0)) rest
      else .vtype s k :: t :: typeTokensAux none rest
    | _ => .vtype s k :: t :: typeTokensAux none rest

def typeTokens (ts : List Tok) : List Tok := typeTokensAux none ts

end Occa.Expr
