/-
Model of dependency tracking in the kernel cache (C07):

  device::applyDependencyHash                     src/core/device.cpp      (`resolve`, `scanDeps`, `nextKey`)
  preprocessor_t::processInclude (dependencies)   lang/preprocessor.cpp    (`expand`: every file pushed as a source)
  parser_t::setSourceMetadata (dependencyHashes)  lang/parser.cpp          (`depsOf`: file → hashFile(file))
  modeDevice_t::writeKernelBuildFile              internal/core/device.cpp (`Entry.deps` = build.json kernel/dependencies)
  serial::device::buildKernel                     modes/serial/device.cpp  (`build`: binary present → load, else translate+compile)

The file system is a function path → text; the files named by the `#include` lines of a text
are given by the parameter `incl` (a function of the text: the preprocessor is deterministic);
the compiler is an uninterpreted function of the key-relevant view of the configuration and of
the expansion (the sequence of files the preprocessor pushed, with their texts).
The model covers OKL builds (okl/enabled, the default) with okl/strict_headers (the default: a
header that does not exist is an error); builds are assumed to run to completion (crashes: C08).
Core Lean only.
-/
import OccaModel.CacheKey

namespace Occa.DepHash
open Occa.CacheKeyBase Occa.CacheKey

/-- parameters: those of the key construction plus the cache directory of a key, the include
    scanner and the fuel of the include expansion -/
structure DEnv (κ σ δ : Type) extends Env κ σ where
  /-- io::hashDir(hash): the directory name is hash.getString() -/
  dir : κ → δ
  /-- the (resolved) files named by the #include lines of a text, in order -/
  incl : String → List String
  /-- bound on the work of one include expansion (the C++ has none) -/
  depth : Nat

/-- path ↦ contents -/
abbrev FS := String → Option String

/-- what one cache directory holds after a completed OKL build -/
structure Entry (κ β : Type) where
  /-- build.json, kernel/dependencies: file ↦ hash at build time (a std::map, sorted by path) -/
  deps : List (String × κ)
  /-- the compiled binary -/
  bin : β

abbrev Cache (κ δ β : Type) := List (δ × Entry κ β)

variable {κ σ δ β : Type} [DecidableEq κ] [DecidableEq δ]

/-- the sequence of (file, text) the preprocessor pushes while expanding the given #include
    lines; `none`: a file does not exist (error under strict headers) or the fuel ran out -/
def expand (incl : String → List String) (fs : FS) : Nat → List String → Option (List (String × String))
  | _, [] => some []
  | 0, _ :: _ => Option.none
  | n + 1, p :: ps =>
    match fs p with
    | Option.none => Option.none
    | some t =>
      match expand incl fs n (incl t), expand incl fs n ps with
      | some a, some b => some ((p, t) :: (a ++ b))
      | _, _ => Option.none

/-- setSourceMetadata: dependencyHashes[file] = hashFile(file) for every file pushed -/
def depsOf (e : DEnv κ σ δ) (x : List (String × String)) : List (String × κ) :=
  mkMap (x.map fun pt => (pt.1, e.H (e.raw pt.2)))

/-- the loop over the recorded dependencies in applyDependencyHash:
    (file ↦ current hash of the recorded files that still exist, foundDependencyChanges) -/
def scanDeps (e : DEnv κ σ δ) (fs : FS) : List (String × κ) → List (String × κ) × Bool
  | [] => ([], false)
  | (p, h) :: t =>
    let r := scanDeps e fs t
    match fs p with
    | some txt => ((p, e.H (e.raw txt)) :: r.1, r.2 || decide (e.H (e.raw txt) ≠ h))
    | Option.none => (r.1, true)

/-- `nextKey["hash"] = currentHash.getFullString(); nextKey["dependencies"] = currentDependencies;
    currentHash = occa::hash(nextKey)` -/
def nextKey (e : DEnv κ σ δ) (K : κ) (cur : List (String × κ)) : κ :=
  e.H (e.enc (mkObj [(Gen.chainHashLabel, render e.toEnv Gen.chainRender K),
                     (Gen.chainDepsLabel,
                      J.obj (mkMap (cur.map fun ph => (ph.1, render e.toEnv Gen.chainRender ph.2))))]))

inductive Res (κ : Type)
  | found (k : κ)        -- the key to build under / load from
  | cycle (k : κ)        -- OCCA_ERROR: the chain came back to a directory it already left
  | outOfFuel            -- artefact of the model (shown unreachable)
deriving Repr, DecidableEq

/-- device::applyDependencyHash, the `while (true)` loop; `vis` is visitedDirs -/
def resolve (e : DEnv κ σ δ) (fs : FS) (cache : Cache κ δ β) : Nat → List δ → κ → Res κ
  | 0, _, _ => .outOfFuel
  | n + 1, vis, K =>
    match cache.lookup (e.dir K) with
    | Option.none => .found K                        -- no build.json in hashDir(K)
    | some ent =>
      let r := scanDeps e fs ent.deps
      if r.2 = false then .found K                   -- nothing changed
      else if e.dir K ∈ vis then .cycle K            -- visitedDirs.insert(hashDir).second == false
      else resolve e fs cache n (e.dir K :: vis) (nextKey e K r.1)

inductive Outcome (β : Type)
  | hit (b : β)          -- "Loading cached": the binary found in the directory is run
  | miss (b : β)         -- translated and compiled now
  | parseError           -- an included file does not exist
  | chainError           -- applyDependencyHash raised
deriving Repr

/-- device::buildKernel for an OKL kernel -/
def build (e : DEnv κ σ δ) (compile : String × List (Option J) → List (String × String) → β)
    (fs : FS) (cache : Cache κ δ β) (c : Config) : Cache κ δ β × Outcome β × Option κ :=
  match resolve e fs cache (cache.length + 1) [] (baseKey e.toEnv c) with
  | .found K =>
    match cache.lookup (e.dir K) with
    | some ent => (cache, .hit ent.bin, some K)
    | Option.none =>
      match expand e.incl fs e.depth (e.incl c.src) with
      | Option.none => (cache, .parseError, some K)
      | some x =>
        let b := compile c.view x
        ((e.dir K, { deps := depsOf e x, bin := b }) :: cache, .miss b, some K)
  | .cycle K => (cache, .chainError, some K)
  | .outOfFuel => (cache, .chainError, Option.none)

/-! ### histories -/

inductive Op
  | write (path : String) (text : String)     -- create or edit a file
  | remove (path : String)
  | build (c : Config)

structure State (κ δ β : Type) where
  fs : FS
  cache : Cache κ δ β

def step (e : DEnv κ σ δ) (compile : String × List (Option J) → List (String × String) → β)
    (s : State κ δ β) : Op → State κ δ β × Option (Outcome β)
  | .write p t => ({ s with fs := fun q => if q = p then some t else s.fs q }, Option.none)
  | .remove p => ({ s with fs := fun q => if q = p then Option.none else s.fs q }, Option.none)
  | .build c =>
    let r := build e compile s.fs s.cache c
    ({ s with cache := r.1 }, some r.2.1)

def run (e : DEnv κ σ δ) (compile : String × List (Option J) → List (String × String) → β)
    (s : State κ δ β) : List Op → State κ δ β
  | [] => s
  | op :: ops => run e compile (step e compile s op).1 ops

end Occa.DepHash
