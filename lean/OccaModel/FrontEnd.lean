/-
C16 — model of `occa::lang::tokenContext_t` (src/occa/internal/lang/tokenContext.cpp): the token
window the whole statement parser navigates with.  Written after the C++ statement by statement.

What is explicit here and hidden by nothing:
  * every indexed read `tokens[tokenIndices[i]]` (`getToken`) is bounds-checked by the MODEL and
    yields `Res.trap` when the C++ would read outside the vector (std::vector::operator[] is unchecked);
  * the C-style down-cast `(pairOperator_t*) token->to<operatorToken>().op` yields `trap` when the
    operator object is not a `pairOperator_t` (the C++ would read `pairStr` past the object), and
    `err` when `to<operatorToken>()` fails (that one is a checked dynamic_cast -> occa::exception);
  * `bitfield::operator>>` shifts a 64-bit word by `shift - 64`, undefined for 128: `trap`;
  * `std::map::operator[]` in `getNextOperator` default-inserts 0 — modelled as such, and the loop
    takes fuel: running out of fuel is the outcome `hang`.
Core Lean only.
-/
import OccaGen.PairOps

namespace Occa.FrontEnd

/-- outcome of a C++ call -/
inductive Res (α : Type) where
  | ok   : α → Res α
  | err  : Res α          -- occa::exception (OCCA_ERROR / OCCA_FORCE_ERROR): allowed by the property
  | trap : Res α          -- invalid memory access or undefined behaviour: what C16 forbids
  | hang : Res α          -- loop did not finish within the fuel given
deriving Repr, DecidableEq

@[inline] def Res.bind {α β : Type} (x : Res α) (f : α → Res β) : Res β :=
  match x with
  | .ok a => f a
  | .err => .err
  | .trap => .trap
  | .hang => .hang

instance : Monad Res where
  pure := Res.ok
  bind := Res.bind

/-! ### bitfield (include/occa/types/bits.hpp) -/

def W : Nat := 18446744073709551616      -- 2^64, udim_t

structure Bitfield where
  b1 : Nat
  b2 : Nat
deriving Repr, DecidableEq

def Bitfield.ofPair (p : Nat × Nat) : Bitfield := ⟨p.1, p.2⟩
def Bitfield.and (x y : Bitfield) : Bitfield := ⟨x.b1 &&& y.b1, x.b2 &&& y.b2⟩
/-- `operator bool` -/
def Bitfield.toBool (x : Bitfield) : Bool := x.b1 != 0 || x.b2 != 0

/-- `bitfield::operator >> (const int shift)` -/
def Bitfield.shr (x : Bitfield) (shift : Int) : Res Bitfield :=
  if shift ≤ 0 then .ok x
  else if shift > 128 then .ok ⟨0, 0⟩
  else if shift ≥ 64 then
    -- `b1 >> (shift - bSize)`: shifting a 64-bit word by 64 is undefined
    if shift - 64 ≥ 64 then .trap else .ok ⟨0, x.b1 >>> (shift - 64).toNat⟩
  else
    let s := shift.toNat
    let carryOver := (x.b1 <<< (64 - s)) % W
    .ok ⟨x.b1 >>> s, (x.b2 >>> s) ||| carryOver⟩

def pairM : Bitfield := .ofPair Gen.PairOps.pairMask
def pairStartM : Bitfield := .ofPair Gen.PairOps.pairStartMask
def pairEndM : Bitfield := .ofPair Gen.PairOps.pairEndMask
def semicolonM : Bitfield := .ofPair Gen.PairOps.semicolonMask
def noneM : Bitfield := .ofPair Gen.PairOps.noneMask

/-! ### tokens -/

/-- an `operator_t` object: its `opType` and whether its dynamic class is `pairOperator_t` -/
structure Op where
  opType : Bitfield
  isPairOp : Bool
deriving Repr, DecidableEq

/-- a `token_t`: either an `operatorToken` (`type() == tokenType::op`) or any other token, of which
    only `type() & skippableTokenTypes` (comment | unknown | none) matters here -/
inductive Tok where
  | op (o : Op)
  | other (skippable : Bool)
deriving Repr, DecidableEq

def Tok.skippable : Tok → Bool
  | .op _ => false
  | .other s => s

/-- `token_t::getOpType()` -/
def Tok.getOpType : Tok → Bitfield
  | .op o => o.opType
  | .other _ => noneM

/-- `*((pairOperator_t*) token->to<operatorToken>().op)` -/
def Tok.asPairOp : Tok → Res Op
  | .op o => if o.isPairOp then .ok o else .trap
  | .other _ => .err

/-- the operator objects that exist (namespace op of operator.cpp, regenerated) -/
def knownOps : List Op :=
  Gen.PairOps.ops.map fun (_, _, b1, b2, p) => ⟨⟨b1, b2⟩, p⟩

/-! ### the context -/

structure Range where
  start : Int
  stop : Int          -- `end` in the C++
deriving Repr, DecidableEq

structure Ctx where
  tokens : Array Tok
  tokenIndices : Array Nat
  pairs : List (Int × Int)        -- std::map<int,int>; newest binding first, `lookup` finds it
  semicolons : List Int
  hasError : Bool
  supressErrors : Bool
  stack : List Range
  tp : Range
deriving Repr, DecidableEq

def lookup (m : List (Int × Int)) (k : Int) : Option Int :=
  match m with
  | [] => none
  | (a, b) :: r => if a = k then some b else lookup r k

/-- `tokens[tokenIndices[index]]`, both reads unchecked in the C++ -/
def Ctx.getToken (c : Ctx) (index : Int) : Res Tok :=
  if index < 0 then .trap
  else match c.tokenIndices[index.toNat]? with
    | none => .trap
    | some k => match c.tokens[k]? with
      | none => .trap
      | some t => .ok t

/-- `size()` -/
def Ctx.size (c : Ctx) : Int := c.tp.stop - c.tp.start

/-- `setupTokenIndices()` -/
def setupTokenIndices (tokens : Array Tok) : Array Nat :=
  (List.range tokens.size).foldl (fun acc i =>
    match tokens[i]? with
    | some t => if t.skippable then acc else acc.push i
    | none => acc) #[]

/-- result of the `findPairs` loop: the map and the error flag -/
structure PairsOut where
  pairs : List (Int × Int)
  hasError : Bool
deriving Repr, DecidableEq

/-- `findPairs()`: `rem` tokens remain, `i` is the loop variable, `st` is `pairStack` (top first).
    `rem = 0` is the code after the loop. -/
def findPairsLoop (c : Ctx) : (rem : Nat) → (i : Nat) → (st : List Nat) → (pairs : List (Int × Int)) → Res PairsOut
  | 0, _, st, pairs =>
    match st with
    | [] => .ok ⟨pairs, c.hasError⟩
    | pairIndex :: _ => do
      let t ← c.getToken pairIndex
      let _ ← t.asPairOp
      .ok ⟨pairs, if c.supressErrors then c.hasError else true⟩
  | rem + 1, i, st, pairs => do
    let token ← c.getToken i
    let opType := token.getOpType
    if !(opType.and pairM).toBool then
      findPairsLoop c rem (i + 1) st pairs
    else if (opType.and pairStartM).toBool then
      findPairsLoop c rem (i + 1) (i :: st) pairs
    else do
      let pairEndOp ← token.asPairOp
      match st with
      | [] => .ok ⟨pairs, if c.supressErrors then c.hasError else true⟩
      | pairIndex :: st' => do
        let t ← c.getToken pairIndex
        let pairStartOp ← t.asPairOp
        let shifted ← pairEndOp.opType.shr 1
        if pairStartOp.opType != shifted then
          .ok ⟨pairs, if c.supressErrors then c.hasError else true⟩
        else
          findPairsLoop c rem (i + 1) st' ((Int.ofNat pairIndex, Int.ofNat i) :: pairs)

def Ctx.findPairs (c : Ctx) : Res Ctx := do
  let out ← findPairsLoop c c.size.toNat 0 [] c.pairs
  .ok { c with pairs := out.pairs, hasError := out.hasError }

/-- `findSemicolons()` -/
def findSemicolonsLoop (c : Ctx) : (rem : Nat) → (i : Nat) → List Int → Res (List Int)
  | 0, _, acc => .ok acc
  | rem + 1, i, acc => do
    let token ← c.getToken i
    if (token.getOpType.and semicolonM).toBool then findSemicolonsLoop c rem (i + 1) (acc ++ [Int.ofNat i])
    else findSemicolonsLoop c rem (i + 1) acc

def Ctx.findSemicolons (c : Ctx) : Res Ctx := do
  let s ← findSemicolonsLoop c c.size.toNat 0 c.semicolons
  .ok { c with semicolons := s }

/-- `setup(tokens_)` after `clear()` -/
def setup (tokens : Array Tok) : Res Ctx := do
  let idx := setupTokenIndices tokens
  let c : Ctx := { tokens := tokens, tokenIndices := idx, pairs := [], semicolons := [], hasError := false,
                   supressErrors := false, stack := [], tp := ⟨0, Int.ofNat idx.size⟩ }
  let c ← c.findPairs
  c.findSemicolons

/-! ### navigation -/

/-- `indexInRange(index)` -/
def Ctx.indexInRange (c : Ctx) (index : Int) : Bool :=
  decide (index ≥ 0) && decide (c.tp.start + index < c.tp.stop)

/-- `set(start)` -/
def Ctx.set1 (c : Ctx) (start : Int) : Ctx :=
  if c.indexInRange start then { c with tp := ⟨c.tp.start + start, c.tp.stop⟩ }
  else { c with tp := ⟨c.tp.stop, c.tp.stop⟩ }

/-- `set(start, end)` -/
def Ctx.set2 (c : Ctx) (start stop : Int) : Ctx :=
  if c.indexInRange start then
    let c1 : Ctx := { c with tp := ⟨c.tp.start + start, c.tp.stop⟩ }
    if c1.indexInRange (stop - start) then { c1 with tp := ⟨c1.tp.start, c1.tp.start + (stop - start)⟩ } else c1
  else { c with tp := ⟨c.tp.stop, c.tp.stop⟩ }

def Ctx.push0 (c : Ctx) : Ctx := { c with stack := c.tp :: c.stack }
def Ctx.push1 (c : Ctx) (start : Int) : Ctx := (c.push0).set1 start
def Ctx.push2 (c : Ctx) (start stop : Int) : Ctx := (c.push0).set2 start stop

/-- `pop()`: OCCA_ERROR on an empty stack; returns the previous range relative to the restored one -/
def Ctx.pop (c : Ctx) : Res (Ctx × Range) :=
  match c.stack with
  | [] => .err
  | r :: rest =>
    let prev := c.tp
    let prevStart := prev.start - r.start
    .ok ({ c with tp := r, stack := rest }, ⟨prevStart, prevStart + (prev.stop - prev.start)⟩)

/-- `popAndSkip()` -/
def Ctx.popAndSkip (c : Ctx) : Res Ctx := do
  let (c', r) ← c.pop
  .ok (c'.set1 (r.stop + 1))

/-- `operator[](index)`: `none` is the NULL the C++ returns -/
def Ctx.at (c : Ctx) (index : Int) : Res (Option Tok) :=
  if !c.indexInRange index then .ok none
  else do let t ← c.getToken (c.tp.start + index); .ok (some t)

/-- `end()` -/
def Ctx.endTok (c : Ctx) : Res (Option Tok) :=
  if c.indexInRange (c.tp.stop - c.tp.start - 1) then do let t ← c.getToken (c.tp.stop - 1); .ok (some t)
  else .ok none

/-- `getPrintToken(atEnd)`: the token an error message is attached to (`none` = NULL).  With `atEnd`
    the C++ temporarily sets `tp.start = tp.end`, so the first test fails and the token before the
    end is taken. -/
def Ctx.getPrintToken (c : Ctx) (atEnd : Bool) : Res (Option Tok) :=
  if c.size = 0 then .ok none
  else
    let start := if atEnd then c.tp.stop else c.tp.start
    let c' : Ctx := { c with tp := ⟨start, c.tp.stop⟩ }
    let offset : Int := if !c'.indexInRange 0 && decide (0 < start) then -1 else 0
    do let t ← c.getToken (start + offset); .ok (some t)

/-- `getClosingPair()` -/
def Ctx.getClosingPair (c : Ctx) : Int :=
  if c.size = 0 then -1
  else match lookup c.pairs c.tp.start with
    | some e => e - c.tp.start
    | none => -1

/-- `getClosingPairToken()` -/
def Ctx.getClosingPairToken (c : Ctx) : Res (Option Tok) :=
  let e := c.getClosingPair
  if e ≥ 0 then do let t ← c.getToken (c.tp.start + e); .ok (some t) else .ok none

/-- `pushPairRange()` -/
def Ctx.pushPairRange (c : Ctx) : Res Ctx :=
  let e := c.getClosingPair
  if e ≥ 0 then .ok (c.push2 1 e) else .err

/-- `getNextOperator(opType)`: `pos = pairs[pos]` default-inserts 0 for a missing key (the map member
    is modified, so the loop returns it) -/
def getNextOperatorLoop (c : Ctx) (opType : Bitfield) : (fuel : Nat) → (pos : Int) → (pairs : List (Int × Int)) → Res (Int × List (Int × Int))
  | 0, _, _ => .hang
  | fuel + 1, pos, pairs =>
    if pos < c.tp.stop then do
      let token ← c.getToken pos
      match token with
      | .other _ => getNextOperatorLoop c opType fuel (pos + 1) pairs
      | .op o =>
        if (o.opType.and opType).toBool then .ok (pos - c.tp.start, pairs)
        else if (o.opType.and pairStartM).toBool then
          match lookup pairs pos with
          | some e => getNextOperatorLoop c opType fuel (e + 1) pairs
          | none => getNextOperatorLoop c opType fuel (0 + 1) ((pos, 0) :: pairs)
        else getNextOperatorLoop c opType fuel (pos + 1) pairs
    else .ok (-1, pairs)

def Ctx.getNextOperator (c : Ctx) (opType : Bitfield) (fuel : Nat) : Res (Ctx × Int) := do
  let (r, pairs) ← getNextOperatorLoop c opType fuel c.tp.start c.pairs
  .ok ({ c with pairs := pairs }, r)

/-! ### histories of navigation calls (what the statement parser does with the context) -/

inductive NavOp where
  | set1 (a : Int) | set2 (a b : Int) | push0 | push1 (a : Int) | push2 (a b : Int)
  | pop | popAndSkip | pushPairRange
  | at (i : Int) | endTok | closing | closingTok | next (opType : Bitfield) | printTok (atEnd : Bool)
deriving Repr

/-- one call; the observation is what the C++ returns (an index, or whether a token came back) -/
def Ctx.step (c : Ctx) : NavOp → Res (Ctx × Int)
  | .set1 a => .ok (c.set1 a, 0)
  | .set2 a b => .ok (c.set2 a b, 0)
  | .push0 => .ok (c.push0, 0)
  | .push1 a => .ok (c.push1 a, 0)
  | .push2 a b => .ok (c.push2 a b, 0)
  | .pop => do let (c', r) ← c.pop; .ok (c', r.stop)
  | .popAndSkip => do let c' ← c.popAndSkip; .ok (c', 0)
  | .pushPairRange => do let c' ← c.pushPairRange; .ok (c', 0)
  | .at i => do let t ← c.at i; .ok (c, if t.isSome then 1 else 0)
  | .endTok => do let t ← c.endTok; .ok (c, if t.isSome then 1 else 0)
  | .closing => .ok (c, c.getClosingPair)
  | .closingTok => do let t ← c.getClosingPairToken; .ok (c, if t.isSome then 1 else 0)
  | .next m => c.getNextOperator m (c.size.toNat + 1)
  | .printTok e => do let t ← c.getPrintToken e; .ok (c, if t.isSome then 1 else 0)

/-- run a history; calls that raise occa::exception leave the context unchanged (the parser reports
    and goes on) -/
def Ctx.run (c : Ctx) : List NavOp → Res Ctx
  | [] => .ok c
  | o :: r =>
    match c.step o with
    | .ok (c', _) => c'.run r
    | .err => c.run r
    | .trap => .trap
    | .hang => .hang

end Occa.FrontEnd
