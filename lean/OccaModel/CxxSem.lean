/-
C++ semantics of constant expressions over arithmetic literals — the SPECIFICATION side of C14.

Written from the C++17 standard for an LP64 target (the host of this project: `int` 32 bits,
`long` = `long long` 64 bits, two's complement, IEEE-754 float/double), not from occa:

  [lex.icon] Table 7     type of an integer literal = first type of a list (base, suffix) that fits
  [lex.fcon]             floating literals: double, or float with suffix f/F
  [conv.prom]            integral promotions (bool, char, short -> int)
  [expr.arith.conv]      usual arithmetic conversions
  [expr.unary.op]        ! + - ~
  [expr.mul] [expr.add]  * / % + -        (/ and % by zero, signed overflow: undefined)
  [expr.shift]           << >>            (type of the promoted LEFT operand; count < 0 or >= width
                                           undefined; C++17: signed << needs a non-negative left
                                           operand and a result representable in the unsigned type)
  [expr.rel] [expr.eq]   < <= > >= == !=  (result bool)
  [expr.bit.and] ...     & ^ |
  [expr.log.and/or]      && ||            (right operand not evaluated when the left decides)
  [expr.cond]            ?:               (only the selected operand is evaluated; result type is
                                           the common type of the second and third operand)
  [expr.pre]/4           a result that is not representable in its type is undefined behaviour

`long` and `long long` are identified (the property is about signedness and width).
Signed conversions of out-of-range values wrap modulo 2^n and `>>` of a negative value is an
arithmetic shift (implementation-defined in C++17; this is what g++ does and what C++20 mandates).
Values of floating type are carried as IEEE bit patterns and computed with Lean's runtime
`Float`/`Float32`: they can be *run* (and are validated against g++ by tools/checks/C14.py) but
nothing is proved about them.  Core Lean only.
-/
import OccaModel.CInt
import OccaModel.CExpr

namespace Occa.CxxSem
open Occa Occa.CExpr

/-! ### types and values -/

inductive Ty
  | bool | schar | uchar | short | ushort | int | uint | long | ulong | float | double
  deriving DecidableEq, Repr

def Ty.isFloat : Ty → Bool
  | .float | .double => true
  | _ => false

def Ty.bits : Ty → Nat
  | .bool => 1
  | .schar | .uchar => 8
  | .short | .ushort => 16
  | .int | .uint | .float => 32
  | .long | .ulong | .double => 64

def Ty.signed : Ty → Bool
  | .schar | .short | .int | .long => true
  | _ => false

/-- integer conversion rank [conv.rank] -/
def Ty.crank : Ty → Nat
  | .bool => 0
  | .schar | .uchar => 1
  | .short | .ushort => 2
  | .int | .uint => 3
  | .long | .ulong => 4
  | .float | .double => 5

def Ty.toUnsigned : Ty → Ty
  | .schar => .uchar | .short => .ushort | .int => .uint | .long => .ulong
  | t => t

/-- a value of arithmetic type: integers and bool carry the mathematical value, floating types
    carry the IEEE-754 bit pattern (as a natural number) -/
structure Val where
  ty : Ty
  v  : Int
  deriving DecidableEq, Repr

def Ty.minVal (t : Ty) : Int := if t.signed then -(2 ^ (t.bits - 1)) else 0
def Ty.maxVal (t : Ty) : Int := if t.signed then 2 ^ (t.bits - 1) - 1 else 2 ^ t.bits - 1

def inRange (t : Ty) (x : Int) : Bool := decide (t.minVal ≤ x) && decide (x ≤ t.maxVal)

/-- conversion of an integer value to an integer type [conv.integral], [conv.bool] -/
def wrapTo (t : Ty) (x : Int) : Int :=
  match t with
  | .bool => if x = 0 then 0 else 1
  | _ => if t.signed then wrapS t.bits x else wrapU t.bits x

/-! ### floating point through the runtime (not reasoned about) -/

def f64 (b : Int) : Float := Float.ofBits (UInt64.ofNat b.toNat)
def b64 (x : Float) : Int := Int.ofNat x.toBits.toNat
def f32 (b : Int) : Float32 := Float32.ofBits (UInt32.ofNat b.toNat)
def b32 (x : Float32) : Int := Int.ofNat x.toBits.toNat

def ofBool (b : Bool) : Val := ⟨.bool, if b then 1 else 0⟩

/-- contextual conversion to bool [conv.bool] -/
def truth (a : Val) : Bool :=
  match a.ty with
  | .float => !(f32 a.v == 0)
  | .double => !(f64 a.v == 0)
  | _ => decide (a.v ≠ 0)

/-- implicit conversion of a value to an arithmetic type.  (floating -> integer other than bool never
    happens implicitly in this expression language; it is mapped to 0 and never used.) -/
def cvt (t : Ty) (a : Val) : Val :=
  match a.ty.isFloat, t with
  | false, .float  => ⟨.float, b32 (Float32.ofInt a.v)⟩
  | false, .double => ⟨.double, b64 (Float.ofInt a.v)⟩
  | false, _       => ⟨t, wrapTo t a.v⟩
  | true, .float   => if a.ty = .float then a else ⟨.float, b32 (f64 a.v).toFloat32⟩
  | true, .double  => if a.ty = .double then a else ⟨.double, b64 (f32 a.v).toFloat⟩
  | true, .bool    => ofBool (truth a)
  | true, _        => ⟨t, 0⟩

/-- integral promotion [conv.prom] -/
def Ty.promote : Ty → Ty
  | .bool | .schar | .uchar | .short | .ushort => .int
  | t => t

/-- usual arithmetic conversions [expr.arith.conv] -/
def common (a b : Ty) : Ty :=
  if a = .double ∨ b = .double then .double
  else if a = .float ∨ b = .float then .float
  else
    let a := a.promote
    let b := b.promote
    if a = b then a
    else if a.signed = b.signed then (if a.crank ≥ b.crank then a else b)
    else
      let u := if a.signed then b else a
      let s := if a.signed then a else b
      if u.crank ≥ s.crank then u
      else if s.bits > u.bits then s          -- the signed type represents every value of the unsigned one
      else s.toUnsigned

/-! ### results -/

inductive UB
  | divZero | divOverflow | overflow | shiftCount | shiftNeg | shiftOverflow
  | floatRange (ieee : Val)       -- result not finite; `ieee` is what IEEE arithmetic yields
  deriving DecidableEq, Repr

inductive Res
  | val (v : Val)
  | undef (u : UB)
  | illformed          -- not a well-formed C++ expression (e.g. `1.5 % 2`, literal too large)
  | unsupported        -- a floating literal outside the exactly-converted subset (see `decToFloat`)
  deriving DecidableEq, Repr

def Res.bind (r : Res) (f : Val → Res) : Res :=
  match r with
  | .val v => f v
  | r => r

/-- result of an integer operation whose exact value is `r`, in type `t` -/
def arithInt (t : Ty) (r : Int) : Res :=
  if t.signed then (if inRange t r then .val ⟨t, r⟩ else .undef .overflow)
  else .val ⟨t, wrapU t.bits r⟩

def finite32 (t : Ty) (x : Float32) : Res :=
  if x.isFinite then .val ⟨t, b32 x⟩ else .undef (.floatRange ⟨t, b32 x⟩)
def finite64 (t : Ty) (x : Float) : Res :=
  if x.isFinite then .val ⟨t, b64 x⟩ else .undef (.floatRange ⟨t, b64 x⟩)

/-! ### operators on values -/

def unop (op : UnOp) (a : Val) : Res :=
  match op with
  | .lnot => .val (ofBool (!truth a))
  | .plus => if a.ty.isFloat then .val a else .val (cvt a.ty.promote a)
  | .neg =>
    match a.ty with
    | .float => .val ⟨.float, b32 (-(f32 a.v))⟩
    | .double => .val ⟨.double, b64 (-(f64 a.v))⟩
    | _ => arithInt a.ty.promote (-(cvt a.ty.promote a).v)
  | .bnot =>
    if a.ty.isFloat then .illformed
    else .val ⟨a.ty.promote, wrapTo a.ty.promote (-(cvt a.ty.promote a).v - 1)⟩

def intBin (op : BinOp) (t : Ty) (x y : Int) : Res :=
  match op with
  | .mul => arithInt t (x * y)
  | .add => arithInt t (x + y)
  | .sub => arithInt t (x - y)
  | .div =>
    if y = 0 then .undef .divZero
    else if t.signed ∧ x = t.minVal ∧ y = -1 then .undef .divOverflow
    else .val ⟨t, Int.tdiv x y⟩
  | .mod =>
    if y = 0 then .undef .divZero
    else if t.signed ∧ x = t.minVal ∧ y = -1 then .undef .divOverflow
    else .val ⟨t, Int.tmod x y⟩
  | .lt => .val (ofBool (decide (x < y)))
  | .le => .val (ofBool (decide (x ≤ y)))
  | .gt => .val (ofBool (decide (x > y)))
  | .ge => .val (ofBool (decide (x ≥ y)))
  | .eq => .val (ofBool (decide (x = y)))
  | .ne => .val (ofBool (decide (x ≠ y)))
  | .band => .val ⟨t, wrapTo t (cand x y)⟩
  | .bxor => .val ⟨t, wrapTo t (cxor x y)⟩
  | .bor  => .val ⟨t, wrapTo t (cor x y)⟩
  | _ => .illformed

def floatBin (op : BinOp) (t : Ty) (x y : Int) : Res :=
  if t = .float then
    let a := f32 x
    let b := f32 y
    match op with
    | .mul => finite32 t (a * b)
    | .add => finite32 t (a + b)
    | .sub => finite32 t (a - b)
    | .div => if b == 0 then .undef (.floatRange ⟨t, b32 (a / b)⟩) else finite32 t (a / b)
    | .lt => .val (ofBool (decide (a < b)))
    | .le => .val (ofBool (decide (a ≤ b)))
    | .gt => .val (ofBool (decide (b < a)))
    | .ge => .val (ofBool (decide (b ≤ a)))
    | .eq => .val (ofBool (a == b))
    | .ne => .val (ofBool (!(a == b)))
    | _ => .illformed
  else
    let a := f64 x
    let b := f64 y
    match op with
    | .mul => finite64 t (a * b)
    | .add => finite64 t (a + b)
    | .sub => finite64 t (a - b)
    | .div => if b == 0 then .undef (.floatRange ⟨t, b64 (a / b)⟩) else finite64 t (a / b)
    | .lt => .val (ofBool (decide (a < b)))
    | .le => .val (ofBool (decide (a ≤ b)))
    | .gt => .val (ofBool (decide (b < a)))
    | .ge => .val (ofBool (decide (b ≤ a)))
    | .eq => .val (ofBool (a == b))
    | .ne => .val (ofBool (!(a == b)))
    | _ => .illformed

/-- `a << c` / `a >> c` [expr.shift]: `t` is the promoted type of the left operand, `x` its value -/
def shift (left : Bool) (t : Ty) (x c : Int) : Res :=
  if c < 0 ∨ c ≥ t.bits then .undef .shiftCount
  else if left then
    if t.signed then
      if x < 0 then .undef .shiftNeg
      else if x * 2 ^ c.toNat ≥ 2 ^ t.bits then .undef .shiftOverflow
      else .val ⟨t, wrapS t.bits (x * 2 ^ c.toNat)⟩
    else .val ⟨t, wrapU t.bits (x * 2 ^ c.toNat)⟩
  else .val ⟨t, x / 2 ^ c.toNat⟩

/-- a binary operator applied to two operand VALUES (both already evaluated) -/
def binop (op : BinOp) (a b : Val) : Res :=
  match op with
  | .land => .val (ofBool (truth a && truth b))
  | .lor  => .val (ofBool (truth a || truth b))
  | .shl | .shr =>
    if a.ty.isFloat ∨ b.ty.isFloat then .illformed
    else shift (op == .shl) a.ty.promote (cvt a.ty.promote a).v b.v   -- promotion keeps the count's value
  | _ =>
    let t := common a.ty b.ty
    if t.isFloat then floatBin op t (cvt t a).v (cvt t b).v
    else intBin op t (cvt t a).v (cvt t b).v

/-! ### literals -/

def digitVal (c : Char) : Nat :=
  if '0' ≤ c ∧ c ≤ '9' then c.toNat - '0'.toNat
  else if 'a' ≤ c ∧ c ≤ 'f' then c.toNat - 'a'.toNat + 10
  else if 'A' ≤ c ∧ c ≤ 'F' then c.toNat - 'A'.toNat + 10
  else 0

def isDigitOf (radix : Nat) (c : Char) : Bool :=
  (('0' ≤ c ∧ c ≤ '9') ∨ ('a' ≤ c ∧ c ≤ 'f') ∨ ('A' ≤ c ∧ c ≤ 'F')) && decide (digitVal c < radix)

/-- value of a digit string, most significant digit first -/
def digitsVal (radix : Nat) (ds : List Char) : Nat :=
  ds.foldl (fun acc c => acc * radix + digitVal c) 0

def intSuffixes : List (List Char) :=
  ["", "u", "U", "l", "L", "ll", "LL",
   "ul", "uL", "Ul", "UL", "ull", "uLL", "Ull", "ULL",
   "lu", "lU", "Lu", "LU", "llu", "llU", "LLu", "LLU"].map String.toList

def _root_.Occa.CExpr.IntLit.radix (l : IntLit) : Nat :=
  if l.pre = ['0'] then 8
  else if l.pre = ['0', 'x'] ∨ l.pre = ['0', 'X'] then 16
  else if l.pre = ['0', 'b'] ∨ l.pre = ['0', 'B'] then 2
  else 10

/-- well-formed integer literal [lex.icon] (binary literals are C++14) -/
def _root_.Occa.CExpr.IntLit.wf (l : IntLit) : Bool :=
  (l.pre = [] ∨ l.pre = ['0'] ∨ l.pre = ['0', 'x'] ∨ l.pre = ['0', 'X'] ∨ l.pre = ['0', 'b'] ∨ l.pre = ['0', 'B'])
  && l.digits.all (isDigitOf l.radix)
  && (if l.pre = [] then (match l.digits with | [] => false | d :: _ => d ≠ '0')     -- decimal: nonzero first digit
      else if l.pre = ['0'] then true                                                -- octal: "0" alone is octal
      else !l.digits.isEmpty)
  && intSuffixes.contains l.suf

def _root_.Occa.CExpr.IntLit.isUnsigned (l : IntLit) : Bool := l.suf.any (fun c => c = 'u' ∨ c = 'U')
def _root_.Occa.CExpr.IntLit.longs (l : IntLit) : Nat := (l.suf.filter (fun c => c = 'l' ∨ c = 'L')).length

/-- Table 7 of [lex.icon]: candidate types in order -/
def _root_.Occa.CExpr.IntLit.candidates (l : IntLit) : List Ty :=
  let dec := l.radix = 10
  match l.isUnsigned, l.longs with
  | false, 0 => if dec then [.int, .long] else [.int, .uint, .long, .ulong]
  | true,  0 => [.uint, .ulong]
  | false, _ => if dec then [.long] else [.long, .ulong]
  | true,  _ => [.ulong]

def intLitVal (l : IntLit) : Res :=
  if l.wf then
    let v : Int := Int.ofNat (digitsVal l.radix l.digits)
    match l.candidates.find? (fun t => inRange t v) with
    | some t => .val ⟨t, v⟩
    | none => .illformed
  else .illformed

/-- `m * 10^e` for `m < 2^53`, `|e| ≤ 22`: one correctly rounded IEEE operation on exact operands -/
def decToFloat (m : Nat) (e : Int) : Float :=
  if e ≥ 0 then Float.ofNat m * Float.ofNat (10 ^ e.toNat) else Float.ofNat m / Float.ofNat (10 ^ (-e).toNat)

def _root_.Occa.CExpr.FloatLit.wf (l : FloatLit) : Bool :=
  l.ipart.all (isDigitOf 10) && l.frac.all (isDigitOf 10)
  && (l.dot || l.frac.isEmpty)
  && !(l.ipart.isEmpty && l.frac.isEmpty)
  && (l.dot || l.expo.isSome)
  && (match l.expo with
      | none => true
      | some (e, s, d) => (e = 'e' ∨ e = 'E') && (s = [] ∨ s = ['+'] ∨ s = ['-']) && !d.isEmpty && d.all (isDigitOf 10))
  && (l.suf = [] ∨ l.suf = ['f'] ∨ l.suf = ['F'])

def _root_.Occa.CExpr.FloatLit.mantissa (l : FloatLit) : Nat := digitsVal 10 (l.ipart ++ l.frac)
def _root_.Occa.CExpr.FloatLit.exp10 (l : FloatLit) : Int :=
  (match l.expo with
   | none => 0
   | some (_, s, d) => if s = ['-'] then -(Int.ofNat (digitsVal 10 d)) else Int.ofNat (digitsVal 10 d))
  - Int.ofNat l.frac.length

/-- number of digits of the exponent (0 when there is none) -/
def _root_.Occa.CExpr.FloatLit.expDigits (l : FloatLit) : Nat :=
  match l.expo with
  | none => 0
  | some (_, _, d) => d.length

def floatLitVal (l : FloatLit) : Res :=
  if l.wf then
    if l.mantissa < 2 ^ 53 ∧ -22 ≤ l.exp10 ∧ l.exp10 ≤ 22 ∧ l.expDigits ≤ 3 then
      let d := decToFloat l.mantissa l.exp10
      if l.suf = [] then finite64 .double d else finite32 .float d.toFloat32
    else .unsupported
  else .illformed

def litVal : Lit → Res
  | .bool b => .val (ofBool b)
  | .int l => intLitVal l
  | .float l => floatLitVal l

/-! ### static typing (needed for the operand of `?:` that is not evaluated, and for well-formedness) -/

def litType (l : Lit) : Option Ty :=
  match litVal l with
  | .val v => some v.ty
  | _ => none

def unType (op : UnOp) (t : Ty) : Option Ty :=
  match op with
  | .lnot => some .bool
  | .plus | .neg => some (if t.isFloat then t else t.promote)
  | .bnot => if t.isFloat then none else some t.promote

def binType (op : BinOp) (a b : Ty) : Option Ty :=
  match op with
  | .land | .lor | .lt | .le | .gt | .ge | .eq | .ne => some .bool
  | .shl | .shr => if a.isFloat ∨ b.isFloat then none else some a.promote
  | .mod | .band | .bxor | .bor => if (common a b).isFloat then none else some (common a b)
  | .mul | .div | .add | .sub => some (common a b)

/-- [expr.cond]: same type -> that type (no promotion); otherwise the usual arithmetic conversions -/
def condType (a b : Ty) : Ty := if a = b then a else common a b

def typeOf : Expr → Option Ty
  | .lit l => litType l
  | .paren e => typeOf e
  | .un op e => (typeOf e).bind (unType op)
  | .bin op l r => (typeOf l).bind fun a => (typeOf r).bind fun b => binType op a b
  | .tern c t f => (typeOf c).bind fun _ => (typeOf t).bind fun a => (typeOf f).bind fun b => some (condType a b)

/-! ### evaluation by the abstract machine -/

def eval : Expr → Res
  | .lit l => litVal l
  | .paren e => eval e
  | .un op e => (eval e).bind (unop op)
  | .bin .land l r =>
    (eval l).bind fun a => if truth a then (eval r).bind fun b => .val (ofBool (truth b)) else .val (ofBool false)
  | .bin .lor l r =>
    (eval l).bind fun a => if truth a then .val (ofBool true) else (eval r).bind fun b => .val (ofBool (truth b))
  | .bin op l r => (eval l).bind fun a => (eval r).bind fun b => binop op a b
  | .tern c t f =>
    (eval c).bind fun a =>
      match typeOf t, typeOf f with
      | some ta, some tb =>
        if truth a then (eval t).bind fun x => .val (cvt (condType ta tb) x)
        else (eval f).bind fun x => .val (cvt (condType ta tb) x)
      | _, _ => .illformed

/-- some floating literal of `e` lies outside the subset this file converts exactly -/
def hasUnsupported : Expr → Bool
  | .lit l => litVal l == .unsupported
  | .paren e => hasUnsupported e
  | .un _ e => hasUnsupported e
  | .bin _ l r => hasUnsupported l || hasUnsupported r
  | .tern c t f => hasUnsupported c || hasUnsupported t || hasUnsupported f

/-- the meaning of the text: ill-formed programs have none; otherwise what the abstract machine computes -/
def evalTop (e : Expr) : Res :=
  if hasUnsupported e then .unsupported
  else
    match typeOf e with
    | none => .illformed
    | some _ => eval e

/-- "the C++ result is defined" -/
def defined (e : Expr) : Prop := ∃ v, evalTop e = .val v

end Occa.CxxSem
