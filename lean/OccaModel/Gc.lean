/-
Model of the reference rings and the five handle classes of occa (property C01).

Sources followed statement by statement (the repaired code: fixes F01 swap, F02 device free):
  src/occa/internal/utils/gc.tpp, gc.cpp            ring_t::addRef/removeRef/needsFree, ringEntry_t::removeRef
  src/core/{device,memory,memoryPool,kernel,stream}.cpp      setModeX / removeXRef / free / swap / dontUseRefs
  src/occa/internal/core/{device,buffer,memory,memoryPool,kernel,stream}.cpp   destructors, freeResources/freeRing

Two layers.
* Ring layer (`Links`, `RingP`): the intrusive circular doubly linked list exactly as in gc.tpp —
  two link fields per entry, a head pointer per ring.  OccaProofs/Lemmas/GcRing.lean proves that on
  well-formed rings these functions compute `Ring.add` / `Ring.remove` on the list of entries
  (walk `rightRingEntry` from `head`).
* Handle layer (`St`, `step`): rings are the lists justified by the ring layer; backend objects
  are numbered in creation order; every access to an object goes through `touch` / `died`, which set
  `trap` when the object has already been destroyed (use after free / double delete).

Abstractions (see design-notes/C01.md): only Serial-mode behaviour; stream tags, wrapped memory and
the byte contents are not modelled; a pool's inner buffer is one object for the pool's whole life
(the real `resize` replaces it by a fresh buffer) and pool-owned bytes are not counted in `devBytes`.
-/
namespace Occa.Gc

/-- function update -/
def upd {α β : Type} [DecidableEq α] (f : α → β) (a : α) (b : β) : α → β :=
  fun x => if x = a then b else f x

/-! ## Ring layer: gc.tpp / gc.cpp, pointer level -/

/-- `leftRingEntry` / `rightRingEntry` of every entry -/
structure Links (α : Type) where
  left : α → α
  right : α → α

/-- `ring_t`: `useRefs`, `head` (`none` = NULL) -/
structure RingP (α : Type) where
  useRefs : Bool
  head : Option α

section RingLayer
variable {α : Type} [DecidableEq α]

/-- `ringEntry_t::removeRef()` -/
def Links.unlink (L : Links α) (e : α) : Links α :=
  let L1 : Links α :=
    if L.left e ≠ e then
      -- leftRingEntry->rightRingEntry = rightRingEntry;
      let La : Links α := ⟨L.left, upd L.right (L.left e) (L.right e)⟩
      -- rightRingEntry->leftRingEntry = leftRingEntry;
      ⟨upd La.left (La.right e) (La.left e), La.right⟩
    else L
  -- leftRingEntry = rightRingEntry = this;
  ⟨upd L1.left e e, upd L1.right e e⟩

/-- `ring_t::ring_t()` -/
def RingP.empty : RingP α := ⟨true, none⟩

/-- `ring_t::addRef(entry)` for a non-NULL entry -/
def RingP.addRef (L : Links α) (r : RingP α) (e : α) : Links α × RingP α :=
  -- if (!entry || head == entry) return;
  if r.head = some e then (L, r) else
  -- entry->removeRef();
  let L := L.unlink e
  match r.head with
  | none => (L, { r with head := some e })          -- if (!head) { head = entry; return; }
  | some h =>
    let tail := L.left h                              -- ringEntry_t *tail = head->leftRingEntry;
    let L : Links α := ⟨upd L.left e tail, L.right⟩   -- entry->leftRingEntry  = tail;
    let L : Links α := ⟨L.left, upd L.right tail e⟩   -- tail->rightRingEntry  = entry;
    let L : Links α := ⟨upd L.left h e, L.right⟩      -- head->leftRingEntry   = entry;
    let L : Links α := ⟨L.left, upd L.right e h⟩      -- entry->rightRingEntry = head;
    (L, r)

/-- `ring_t::removeRef(entry)` for a non-NULL entry -/
def RingP.removeRef (L : Links α) (r : RingP α) (e : α) : Links α × RingP α :=
  match r.head with
  | none => (L, r)                                    -- if (!entry || !head) return;
  | some h =>
    let tail := L.left h                              -- ringEntry_t *tail = head->leftRingEntry;
    let L := L.unlink e                               -- entry->removeRef();
    if h = e then
      (L, { r with head := if tail ≠ e then some tail else none })
    else (L, r)

/-- `ring_t::needsFree()` -/
def RingP.needsFree (r : RingP α) : Bool := r.useRefs && r.head.isNone

/-- follow `rightRingEntry` `n` times starting at `x`, collecting the entries passed -/
def Links.walk (L : Links α) : Nat → α → List α
  | 0, _ => []
  | n+1, x => x :: L.walk n (L.right x)

/-- `ring_t::length()`: count entries until the walk is back at `head` (with fuel) -/
def RingP.lengthFuel (L : Links α) (r : RingP α) (fuel : Nat) : Nat :=
  match r.head with
  | none => 0
  | some h =>
    let rec go : Nat → α → Nat → Nat
      | 0, _, c => c
      | f+1, p, c => if p = h then c else go f (L.right p) (c + 1)
    go fuel (L.right h) 1

/-! ### list view of a ring -/

/-- the entries of a ring in ring order (from `head`, following `rightRingEntry`) after
    `addRef e`: nothing if `e` is the head, otherwise `e` moves / is appended to the tail -/
def Ring.add (l : List α) (e : α) : List α :=
  if l.head? = some e then l else l.erase e ++ [e]

/-- … after `removeRef e`: a non-head entry is unlinked; removing the head makes the old *tail*
    the new head, i.e. the remaining entries are rotated by one -/
def Ring.remove (l : List α) (e : α) : List α :=
  match l with
  | [] => []
  | h :: t =>
    if h = e then
      match t.getLast? with
      | none => []
      | some x => x :: t.dropLast
    else h :: t.erase e

end RingLayer

/-! ## Handle layer -/

/-- classes of backend objects (`modeDevice_t`, `modeBuffer_t`, `modeMemory_t`, `modeMemoryPool_t`
    (which is also a buffer), `modeKernel_t`, `modeStream_t`) -/
inductive Kind | dev | buf | mem | pool | ker | str
  deriving DecidableEq, Repr, Inhabited

/-- handle classes `occa::device, memory, memoryPool, kernel, stream` -/
inductive HKind | dev | mem | pool | ker | str
  deriving DecidableEq, Repr, Inhabited

def HKind.obj : HKind → Kind
  | .dev => .dev | .mem => .mem | .pool => .pool | .ker => .ker | .str => .str

/-- handle objects: the variables of the program, the `currentStream` member of every device
    object, and the temporary inside `swap` -/
inductive Var
  | user (k : HKind) (i : Nat)
  | cur (d : Nat)
  | tmp (k : HKind)
  deriving DecidableEq, Repr

def Var.kind : Var → HKind
  | .user k _ => k
  | .cur _ => .str
  | .tmp k => k

@[ext] structure St where
  next : Nat                     -- objects created so far; ids are 0 .. next-1
  kind : Nat → Kind
  alive : Nat → Bool
  dtors : Nat → Nat              -- how often the destructor of the object ran
  useRefs : Nat → Bool           -- `useRefs` of the object's ring of handles
  ring : Nat → List Var          -- the object's ring of handles
  par : Nat → Option Nat         -- mem: modeBuffer;  buf/pool/ker/str: modeDevice
  kids : Nat → List Nat          -- buf/pool: modeMemoryRing (the slices)
  dKer : Nat → List Nat          -- dev: kernelRing
  dBuf : Nat → List Nat          -- dev: memoryRing
  dStr : Nat → List Nat          -- dev: streamRing
  inner : Nat → Option Nat       -- pool: buffer
  size : Nat → Nat               -- mem, buf: size in bytes
  devBytes : Nat → Int           -- dev: bytesAllocated (pool bytes excluded)
  ptr : Var → Option Nat         -- the handle's modeX pointer
  vlive : Var → Bool             -- the handle object exists (constructed, not yet destroyed)
  trap : Bool                    -- a destroyed object was used or destroyed again

def St.init : St :=
  { next := 0, kind := fun _ => .dev, alive := fun _ => false, dtors := fun _ => 0,
    useRefs := fun _ => true, ring := fun _ => [], par := fun _ => none, kids := fun _ => [],
    dKer := fun _ => [], dBuf := fun _ => [], dStr := fun _ => [], inner := fun _ => none,
    size := fun _ => 0, devBytes := fun _ => 0, ptr := fun _ => none, vlive := fun _ => false,
    trap := false }

namespace St

def setRing (s : St) (o : Nat) (l : List Var) : St := { s with ring := upd s.ring o l }
def setPtr (s : St) (v : Var) (p : Option Nat) : St := { s with ptr := upd s.ptr v p }
def setVLive (s : St) (v : Var) (b : Bool) : St := { s with vlive := upd s.vlive v b }
def setKids (s : St) (o : Nat) (l : List Nat) : St := { s with kids := upd s.kids o l }
def setPar (s : St) (o : Nat) (p : Option Nat) : St := { s with par := upd s.par o p }
def setUseRefs (s : St) (o : Nat) (b : Bool) : St := { s with useRefs := upd s.useRefs o b }
def addBytes (s : St) (d : Nat) (n : Int) : St := { s with devBytes := upd s.devBytes d (s.devBytes d + n) }

/-- the device's ring for children of class `k` (kernelRing / memoryRing / streamRing) -/
def chGet (s : St) (k : Kind) (d : Nat) : List Nat :=
  match k with
  | .ker => s.dKer d
  | .str => s.dStr d
  | _ => s.dBuf d

def chSet (s : St) (k : Kind) (d : Nat) (l : List Nat) : St :=
  match k with
  | .ker => { s with dKer := upd s.dKer d l }
  | .str => { s with dStr := upd s.dStr d l }
  | _ => { s with dBuf := upd s.dBuf d l }

/-- any read or write of a field of object `o` -/
def touch (s : St) (o : Nat) : St := if s.alive o then s else { s with trap := true }

/-- entry of the destructor of `o` -/
def died (s : St) (o : Nat) : St :=
  if s.alive o then
    { s with alive := upd s.alive o false, dtors := upd s.dtors o (s.dtors o + 1) }
  else
    { s with trap := true, dtors := upd s.dtors o (s.dtors o + 1) }

/-- `new X(...)`: a fresh object -/
def alloc (s : St) (k : Kind) (parent : Option Nat) (sz : Nat) : St × Nat :=
  let o := s.next
  ({ s with next := o + 1, kind := upd s.kind o k, alive := upd s.alive o true,
            dtors := upd s.dtors o 0, useRefs := upd s.useRefs o true, ring := upd s.ring o [],
            par := upd s.par o parent, kids := upd s.kids o [], dKer := upd s.dKer o [],
            dBuf := upd s.dBuf o [], dStr := upd s.dStr o [], inner := upd s.inner o none,
            size := upd s.size o sz, devBytes := upd s.devBytes o 0 }, o)

end St

/-- `while (ring.head) { h = (handle*) ring.head; ring.removeRef(h); h->modeX = NULL; }`
    (first statement of every backend destructor) -/
def nullWrappers : Nat → St → Nat → St
  | 0, s, _ => s
  | n+1, s, o =>
    match s.ring o with
    | [] => s
    | v :: _ => nullWrappers n ((s.setRing o (Ring.remove (s.ring o) v)).setPtr v none) o

/-- `~modeMemory_t` up to the call of `removeModeMemoryRef()` -/
def dtorMemBody (s : St) (m : Nat) : St :=
  let s := s.died m
  nullWrappers (s.ring m).length s m

/-- `while (modeMemoryRing.head) { mem = head; removeModeMemoryRef(mem); mem->modeBuffer = NULL; delete mem; }`
    in `~modeBuffer_t` (with `modeBuffer == NULL`, `~modeMemory_t`'s `removeModeMemoryRef()` returns at once) -/
def destroySlices : Nat → St → Nat → St
  | 0, s, _ => s
  | n+1, s, b =>
    match s.kids b with
    | [] => s
    | m :: _ =>
      let s := s.setKids b (Ring.remove (s.kids b) m)
      let s := s.setPar m none
      let s := dtorMemBody s m
      destroySlices n s b

/-- `~modeBuffer_t` -/
def dtorBufBase (s : St) (b : Nat) : St :=
  let s := destroySlices (s.kids b).length s b
  match s.par b with                               -- if (modeDevice)
  | none => s
  | some d =>
    let s := s.touch d
    let s := s.addBytes d (- (s.size b : Int))      -- if (!isWrapped) modeDevice->bytesAllocated -= size;
    s.chSet .buf d (Ring.remove (s.chGet .buf d) b) -- modeDevice->removeMemoryRef(this);

/-- `delete buf` for a `modeBuffer_t*` that is a plain buffer or a memory pool:
    `~modeMemoryPool_t` (NULL all wrappers; `if (buffer) delete buffer;`) then `~modeBuffer_t` -/
def deleteBuf (s : St) (b : Nat) : St :=
  let s := s.died b
  let s :=
    if s.kind b = .pool then
      let s := nullWrappers (s.ring b).length s b
      match s.inner b with
      | none => s
      | some i => dtorBufBase (s.died i) i
    else s
  dtorBufBase s b

/-- `modeBuffer_t::needsFree()` (virtual: the pool looks at its ring of pool handles) -/
def needsFreeBuf (s : St) (b : Nat) : Bool :=
  if s.kind b = .pool then s.useRefs b && (s.ring b).isEmpty else (s.kids b).isEmpty

/-- `delete mem` for a `modeMemory_t*`: `~modeMemory_t` including `removeModeMemoryRef()` -/
def deleteMem (s : St) (m : Nat) : St :=
  let s := dtorMemBody s m
  match s.par m with                                -- if (modeBuffer == NULL) return;
  | none => s
  | some b =>
    let s := s.touch b
    let s := s.setKids b (Ring.remove (s.kids b) m) -- modeBuffer->removeModeMemoryRef(this);
    let s := if needsFreeBuf s b then deleteBuf s b else s   -- if (modeBuffer->needsFree()) delete modeBuffer;
    s.setPar m none                                 -- modeBuffer = NULL;

/-- `~modeKernel_t` / `~modeStream_t`: NULL all wrappers, remove from the device's ring -/
def deleteChild (k : Kind) (s : St) (o : Nat) : St :=
  let s := s.died o
  let s := nullWrappers (s.ring o).length s o
  match s.par o with
  | none => s
  | some d =>
    let s := s.touch d
    s.chSet k d (Ring.remove (s.chGet k d) o)

/-- `delete ptr` inside `freeRing<modeType_t>` -/
def deleteOf (k : Kind) (s : St) (o : Nat) : St :=
  match k with
  | .ker => deleteChild .ker s o
  | .str => deleteChild .str s o
  | _ => deleteBuf s o

/-- `freeRing(ring)` on the device's own ring (F02 repaired: the ring is passed by reference):
    `while (ring.head) { ptr = head; ring.removeRef(ptr); delete ptr; }` -/
def freeRing (k : Kind) : Nat → St → Nat → St
  | 0, s, _ => s
  | n+1, s, d =>
    match s.chGet k d with
    | [] => s
    | x :: _ =>
      let s := s.chSet k d (Ring.remove (s.chGet k d) x)
      let s := deleteOf k s x
      freeRing k n s d

/-- `X::removeXRef()` of a handle: leave the ring; `if (needsFree()) { delete / free(); modeX = NULL; }` -/
def dropRefWith (del : St → Nat → St) (s : St) (v : Var) : St :=
  match s.ptr v with
  | none => s                                        -- if (!modeX) return;
  | some o =>
    let s := s.touch o
    let s := s.setRing o (Ring.remove (s.ring o) v)  -- modeX->removeXRef(this);
    if s.useRefs o && (s.ring o).isEmpty then        -- if (modeX->needsFree())
      (del s o).setPtr v none
    else s

/-- `device::free()` body for a non-NULL `modeDevice`: `freeResources(); delete modeDevice;`
    where `~modeDevice_t` NULLs all wrappers and then destroys its member `currentStream` -/
def deleteDev (s : St) (d : Nat) : St :=
  let s := s.touch d
  let s := freeRing .ker (s.chGet .ker d).length s d
  let s := freeRing .buf (s.chGet .buf d).length s d
  let s := freeRing .str (s.chGet .str d).length s d
  let s := s.died d
  let s := nullWrappers (s.ring d).length s d
  let s := dropRefWith (deleteChild .str) s (.cur d)
  (s.setPtr (.cur d) none).setVLive (.cur d) false

/-- what `delete modeX` / `free()` means for each handle class -/
def deleteObj : HKind → St → Nat → St
  | .dev => deleteDev
  | .mem => deleteMem
  | .pool => deleteBuf
  | .ker => deleteChild .ker
  | .str => deleteChild .str

def dropRef (s : St) (v : Var) : St := dropRefWith (deleteObj v.kind) s v

/-- `X::setModeX(modeX_)` -/
def setMode (s : St) (v : Var) (tgt : Option Nat) : St :=
  if s.ptr v = tgt then s else                       -- if (modeX != modeX_)
  let s := dropRef s v                               -- removeXRef();
  let s := s.setPtr v tgt                            -- modeX = modeX_;
  match tgt with
  | none => s
  | some o =>                                        -- if (modeX) modeX->addXRef(this);
    let s := s.touch o
    s.setRing o (Ring.add (s.ring o) v)

/-- default constructor of a handle -/
def construct (s : St) (v : Var) : St := (s.setVLive v true).setPtr v none

/-- destructor of a handle -/
def destruct (s : St) (v : Var) : St := ((dropRef s v).setPtr v none).setVLive v false

/-- `X::free()`: `if (modeX == NULL) return; delete modeX (device: freeResources first); modeX = NULL;` -/
def freeHandle (s : St) (v : Var) : St :=
  match s.ptr v with
  | none => s
  | some o =>
    match v.kind with
    | .pool => deleteObj .pool s o      -- memoryPool::free(): `delete modeMemoryPool;` and nothing else —
                                        -- the calling handle is reset only by the destructor's ring walk
    | k => (deleteObj k s o).setPtr v none

/-- `X::dontUseRefs()` -/
def dontUseRefs (s : St) (v : Var) : St :=
  match s.ptr v with
  | none => s
  | some o => (s.touch o).setUseRefs o false

/-- repaired `memory::swap` / `memoryPool::swap`: `X tmp(*this); *this = m; m = tmp;` and `~tmp` -/
def swapHandles (s : St) (a b : Var) : St :=
  let t := Var.tmp a.kind
  let s := setMode (construct s t) t (s.ptr a)
  let s := setMode s a (s.ptr b)
  let s := setMode s b (s.ptr t)
  destruct s t

/-- `modeDevice` of the object a handle refers to (`X::getDevice()` / `getModeDevice()`) -/
def deviceOf (s : St) (o : Nat) : Option Nat :=
  match s.kind o with
  | .dev => some o
  | .mem => match s.par o with
            | none => none
            | some b => s.par b
  | _ => s.par o

/-! ### operations of the line protocol -/

inductive Op
  | ctor (k : HKind) (i : Nat)
  | copy (k : HKind) (d s : Nat)
  | asg (k : HKind) (d s : Nat)
  | swap (k : HKind) (a b : Nat)
  | free (k : HKind) (i : Nat)
  | drop (k : HKind) (i : Nat)
  | norefs (k : HKind) (i : Nat)
  | mkdev (i : Nat)
  | malloc (m d n : Nat)
  | slice (m1 m2 off n : Nat)
  | mkpool (p d : Nat)
  | reserve (m p n : Nat)
  | mkker (k d : Nat)
  | mkstr (s d : Nat)
  | getstr (s d : Nat)
  | setstr (d s : Nat)
  | getdev (d : Nat) (k : HKind) (i : Nat)
  deriving Repr

inductive Res | ok | err | bad
  deriving DecidableEq, Repr

/-- the temporary handle that a creating call returns: `X tmp(modeX)` (constructor from the raw pointer) -/
def tempOf (s : St) (k : HKind) (o : Nat) : St :=
  setMode (construct s (.tmp k)) (.tmp k) (some o)

/-- `v = <the returned temporary>;` and the destruction of the temporary at the end of the statement -/
def assignTemp (s : St) (v : Var) (k : HKind) : St :=
  destruct (setMode s v (s.ptr (.tmp k))) (.tmp k)

/-- `occa::device(props)` for Serial (`device::setup` on a temporary device handle): a new device
    object, referenced by the temporary, with its first stream as `currentStream` -/
def newDevice (s : St) : St :=
  let (s, d) := s.alloc .dev none 0                            -- occa::newModeDevice(props)
  let s := construct s (.cur d)                                --   its member currentStream
  let s := tempOf s .dev d                                     -- setModeDevice(...) of the temporary
  let (s, st) := s.alloc .str (some d) 0                       -- createStream(): new serial::stream(this, props)
  let s := s.chSet .str d (Ring.add (s.chGet .str d) st)       --   modeStream_t(): modeDevice->addStreamRef(this)
  let s := tempOf s .str st                                    --   returned as a temporary stream handle
  assignTemp s (.cur d) .str                                   -- setStream(s): currentStream = s; ~s

def step (s : St) : Op → St × Res
  | .ctor k i =>
    let v := Var.user k i
    if s.vlive v then (s, .bad) else (construct s v, .ok)
  | .copy k d a =>
    let vd := Var.user k d; let va := Var.user k a
    if s.vlive vd || !s.vlive va then (s, .bad) else
    (setMode (construct s vd) vd (s.ptr va), .ok)
  | .asg k d a =>
    let vd := Var.user k d; let va := Var.user k a
    if !s.vlive vd || !s.vlive va then (s, .bad) else (setMode s vd (s.ptr va), .ok)
  | .swap k a b =>
    let va := Var.user k a; let vb := Var.user k b
    if !(k = .mem || k = .pool) || !s.vlive va || !s.vlive vb then (s, .bad) else
    (swapHandles s va vb, .ok)
  | .free k i =>
    let v := Var.user k i
    if !s.vlive v then (s, .bad) else (freeHandle s v, .ok)
  | .drop k i =>
    let v := Var.user k i
    if !s.vlive v then (s, .bad) else (destruct s v, .ok)
  | .norefs k i =>
    let v := Var.user k i
    if !s.vlive v then (s, .bad) else (dontUseRefs s v, .ok)
  | .mkdev i =>
    let v := Var.user .dev i
    if !s.vlive v then (s, .bad) else
    (assignTemp (newDevice s) v .dev, .ok)
  | .malloc m d n =>
    let vm := Var.user .mem m; let vd := Var.user .dev d
    if !s.vlive vm || !s.vlive vd then (s, .bad) else
    match s.ptr vd with
    | none => (s, .err)                                        -- assertInitialized()
    | some dv =>
      if n = 0 then (setMode s vm none, .ok) else              -- if (entries == 0) return memory();
      let s := s.touch dv
      let (s, b) := s.alloc .buf (some dv) n                   -- new serial::buffer(this, bytes, props)
      let s := s.chSet .buf dv (Ring.add (s.chGet .buf dv) b)  --   modeDevice->addMemoryRef(this)
      let (s, mm) := s.alloc .mem (some b) n                   -- new serial::memory(buf, bytes, 0)
      let s := s.setKids b (Ring.add (s.kids b) mm)            --   modeBuffer->addModeMemoryRef(this)
      let s := s.addBytes dv n                                 -- modeDevice->bytesAllocated += bytes
      (assignTemp (tempOf s .mem mm) vm .mem, .ok)
  | .slice m1 m2 off n =>
    let v1 := Var.user .mem m1; let v2 := Var.user .mem m2
    if !s.vlive v1 || !s.vlive v2 then (s, .bad) else
    match s.ptr v2 with
    | none => (setMode s v1 none, .ok)                         -- if (!isInitialized()) return memory();
    | some mo =>
      let s0 := s.touch mo
      if off + n > s0.size mo then (s0, .err) else             -- OCCA_ERROR(offset + count <= size())
      match s0.par mo with
      | none => (s0, .err)                                     -- OCCA_ERROR(modeBuffer != NULL)
      | some b =>
        let s1 := s0.touch b
        let (s1, ms) := s1.alloc .mem (some b) n               -- modeBuffer->slice(...) = new memory(this, bytes, offset)
        let s1 := s1.setKids b (Ring.add (s1.kids b) ms)
        (assignTemp (tempOf s1 .mem ms) v1 .mem, .ok)
  | .mkpool p d =>
    let vp := Var.user .pool p; let vd := Var.user .dev d
    if !s.vlive vp || !s.vlive vd then (s, .bad) else
    match s.ptr vd with
    | none => (s, .err)
    | some dv =>
      let s := s.touch dv
      let (s, pl) := s.alloc .pool (some dv) 0                 -- new serial::memoryPool(this, props)
      let s := s.chSet .buf dv (Ring.add (s.chGet .buf dv) pl) --   modeBuffer_t(): modeDevice->addMemoryRef(this)
      (assignTemp (tempOf s .pool pl) vp .pool, .ok)
  | .reserve m p n =>
    let vm := Var.user .mem m; let vp := Var.user .pool p
    if !s.vlive vm || !s.vlive vp then (s, .bad) else
    match s.ptr vp with
    | none => (s, .err)                                        -- assertInitialized()
    | some pl =>
      if n = 0 then (setMode s vm none, .ok) else
      let s := s.touch pl
      -- modeMemoryPool->reserve(bytes): the first reservation makes the inner buffer
      -- (F02 repaired: the inner buffer is taken out of the device's ring, the pool owns it)
      let s := match s.inner pl with
        | some _ => s
        | none =>
          let (s, ib) := s.alloc .buf (s.par pl) 0
          { s with inner := upd s.inner pl (some ib) }
      let (s, mr) := s.alloc .mem (some pl) n                  -- slice(offset, bytes) = new memory(this, ...)
      let s := s.setKids pl (Ring.add (s.kids pl) mr)
      (assignTemp (tempOf s .mem mr) vm .mem, .ok)
  | .mkker k d =>
    let vk := Var.user .ker k; let vd := Var.user .dev d
    if !s.vlive vk || !s.vlive vd then (s, .bad) else
    match s.ptr vd with
    | none => (s, .err)
    | some dv =>
      let s := s.touch dv
      let (s, ko) := s.alloc .ker (some dv) 0
      let s := s.chSet .ker dv (Ring.add (s.chGet .ker dv) ko)
      (assignTemp (tempOf s .ker ko) vk .ker, .ok)
  | .mkstr st d =>
    let vs := Var.user .str st; let vd := Var.user .dev d
    if !s.vlive vs || !s.vlive vd then (s, .bad) else
    match s.ptr vd with
    | none => (s, .err)
    | some dv =>
      let s := s.touch dv
      let (s, so) := s.alloc .str (some dv) 0
      let s := s.chSet .str dv (Ring.add (s.chGet .str dv) so)
      (assignTemp (tempOf s .str so) vs .str, .ok)
  | .getstr st d =>
    let vs := Var.user .str st; let vd := Var.user .dev d
    if !s.vlive vs || !s.vlive vd then (s, .bad) else
    match s.ptr vd with
    | none => (s, .err)
    | some dv =>
      let s := s.touch dv
      (setMode s vs (s.ptr (.cur dv)), .ok)                    -- return modeDevice->currentStream;
  | .setstr d st =>
    let vd := Var.user .dev d; let vs := Var.user .str st
    if !s.vlive vd || !s.vlive vs then (s, .bad) else
    match s.ptr vd with
    | none => (s, .err)
    | some dv =>
      let s := s.touch dv
      (setMode s (.cur dv) (s.ptr vs), .ok)                    -- modeDevice->currentStream = s;
  | .getdev d k i =>
    let vd := Var.user .dev d; let vx := Var.user k i
    if k = .dev || !s.vlive vd || !s.vlive vx then (s, .bad) else
    match s.ptr vx with
    | none => (setMode s vd none, .ok)                         -- occa::device(NULL)
    | some o =>
      let s := s.touch o
      (setMode s vd (deviceOf s o), .ok)

def run (ops : List Op) : St := ops.foldl (fun s op => (step s op).1) St.init

end Occa.Gc
