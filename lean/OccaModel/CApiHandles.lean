/-
The handle table of the C API (C29, clause "C handles created by the API stay valid until occaFree").

Pointer-level machine, written after include/occa/c/types.h (`occaType` is a plain struct that C code
copies freely), `occaFree` and the accessors `occa::c::json/dtype/memory/…` of
src/occa/internal/c/types.cpp:

  * a C variable (`slot`) holds an `occaType`: magic header, tag, pointer to an object, needsFree;
  * an API call that creates an object allocates it and returns a handle (`create`);
  * C code copies the struct (`copy`); the API returns non-owning handles to (parts of) an
    existing object, e.g. occaJsonObjectGet (`borrow`: same object, needsFree = false);
  * every API call that takes the handle dereferences the pointer (`use`) — after looking at the
    tag only; some accessors (memory, kernel, device, stream…) first test the magic header and
    return an empty object for an undefined handle;
  * `occaFree(&v)`: nothing if the header is already undefined; otherwise delete/free the object
    according to the tag (json: only if needsFree), then overwrite the header of *that variable*.

Dereferencing or deleting an object that is not allocated is a `trap` (use after free / double free).
Which tags delete, and which accessors test the header, comes from the generated tables.
Core Lean only.
-/
import OccaGen.CTypes
import OccaModel.CApiTypes

namespace Occa.CApi
open Occa.Gen.CTypes

structure HSlot where
  hdrOk : Bool
  tag : Nat
  obj : Nat
  needsFree : Bool
  deriving DecidableEq, Repr, Inhabited

structure HState where
  slots : Nat → Option HSlot     -- C variables holding object handles
  alloc : Nat → Bool             -- which objects are allocated
  next : Nat                     -- the allocator never returns an address twice (model assumption)

def HState.init : HState := ⟨fun _ => none, fun _ => false, 0⟩

inductive HOp where
  | create (s tag : Nat) (needsFree : Bool)
  | copy (s' s : Nat)
  | borrow (s' s : Nat)
  | use (s : Nat)
  | free (s : Nat)
  deriving DecidableEq, Repr, Inhabited

inductive HOut where
  | ok
  | undefinedHandle   -- the accessor saw an undefined header and returned an empty object (no dereference)
  | noSuchVar
  | trap              -- use after free / double free
  deriving DecidableEq, Repr, Inhabited

/-- does `occaFree` release the object of a handle with this tag / needsFree? -/
def releases (tag : Nat) (needsFree : Bool) : Bool :=
  match freeCase tag with
  | .nothing => false
  | .modeFree => true
  | .delete => true
  | .deleteIfNeedsFree => needsFree

def HState.setSlot (h : HState) (s : Nat) (v : HSlot) : HState :=
  { h with slots := fun x => if x = s then some v else h.slots x }

def HState.setAlloc (h : HState) (o : Nat) (b : Bool) : HState :=
  { h with alloc := fun x => if x = o then b else h.alloc x }

/-- the dereference done by `occa::c::<kind>(v)` -/
def HState.deref (h : HState) (sl : HSlot) : HOut :=
  if accessorChecksHeader sl.tag && !sl.hdrOk then .undefinedHandle
  else if h.alloc sl.obj then .ok else .trap

def HState.step (h : HState) : HOp → HState × HOut
  | .create s tag nf =>
    (({ h with next := h.next + 1 }.setAlloc h.next true).setSlot s ⟨true, tag, h.next, nf⟩, .ok)
  | .copy s' s =>
    match h.slots s with
    | none => (h, .noSuchVar)
    | some sl => (h.setSlot s' sl, .ok)
  | .borrow s' s =>
    match h.slots s with
    | none => (h, .noSuchVar)
    | some sl =>
      match h.deref sl with
      | .ok => (h.setSlot s' ⟨true, sl.tag, sl.obj, false⟩, .ok)
      | o => (h, o)
  | .use s =>
    match h.slots s with
    | none => (h, .noSuchVar)
    | some sl => (h, h.deref sl)
  | .free s =>
    match h.slots s with
    | none => (h, .noSuchVar)
    | some sl =>
      if !sl.hdrOk then (h, .ok)                    -- `if (occaIsUndefined(valueRef)) return;`
      else if releases sl.tag sl.needsFree then
        if h.alloc sl.obj then ((h.setAlloc sl.obj false).setSlot s { sl with hdrOk := false }, .ok)
        else (h.setSlot s { sl with hdrOk := false }, .trap)
      else (h.setSlot s { sl with hdrOk := false }, .ok)

def HState.run (h : HState) : List HOp → HState × List HOut
  | [] => (h, [])
  | op :: ops =>
    let (h', o) := h.step op
    let (h'', os) := h'.run ops
    (h'', o :: os)

/-! ## the discipline a C program follows, stated on variable names only

Each variable is assigned once.  Variables that designate the same object form a *group* (named
after the variable that received the handle from the creating call).  A variable is *owning* when
`occaFree` on it releases the object.  Freeing an owning variable retires every variable of its
group; freeing a borrowed one retires only that variable.  A retired variable is never used again. -/

structure PVar where
  group : Nat
  owning : Bool
  tag : Nat
  deriving DecidableEq, Repr, Inhabited

structure PState where
  vars : Nat → Option PVar
  retired : Nat → Bool          -- per variable
  released : Nat → Bool         -- per group: its object was released

def PState.init : PState := ⟨fun _ => none, fun _ => false, fun _ => false⟩

def PState.setVar (p : PState) (s : Nat) (v : PVar) : PState :=
  { p with vars := fun x => if x = s then some v else p.vars x }

/-- usable: assigned, not retired -/
def PState.live (p : PState) (s : Nat) : Option PVar :=
  match p.vars s with
  | some v => if p.retired s then none else some v
  | none => none

/-- one step of the discipline: `none` = the program breaks it -/
def PState.step (p : PState) : HOp → Option PState
  | .create s tag nf =>
    if (p.vars s).isSome then none
    else some (p.setVar s ⟨s, releases tag nf, tag⟩)
  | .copy s' s =>
    match p.live s with
    | some v => if (p.vars s').isSome then none else some (p.setVar s' v)
    | none => none
  | .borrow s' s =>
    match p.live s with
    | some v => if (p.vars s').isSome then none else some (p.setVar s' ⟨v.group, releases v.tag false, v.tag⟩)
    | none => none
  | .use s => if (p.live s).isSome then some p else none
  | .free s =>
    match p.live s with
    | some v =>
      if v.owning then
        some { p with retired := fun x => p.retired x || (match p.vars x with | some w => w.group == v.group | none => false),
                      released := fun g => p.released g || g == v.group }
      else some { p with retired := fun x => p.retired x || x == s }
    | none => none

def PState.wf (p : PState) : List HOp → Bool
  | [] => true
  | op :: ops => match p.step op with
    | some p' => p'.wf ops
    | none => false

def PState.runP (p : PState) : List HOp → Option PState
  | [] => some p
  | op :: ops => (p.step op).bind fun p' => p'.runP ops

end Occa.CApi
