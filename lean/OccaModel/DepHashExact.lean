/-
The dependency-chain model instantiated with the exact hash_t model: what the driver runs.
Core Lean only.
-/
import OccaModel.DepHash
import OccaModel.CacheKeyExact

namespace Occa.DepHash
open Occa Occa.Hash Occa.CacheKey

/-- `exactEnv` plus the cache directory name of io::hashDir (`getString()`), the include scanner
    for `#include "…"` lines and a bound on the expansion work -/
def exactDEnv (openmp : Bool) (dev : Lanes) (depth : Nat) : DEnv Lanes String String :=
  { exactEnv openmp dev with dir := shortStr, incl := scanIncludes, depth := depth }

end Occa.DepHash
