/-
Path access, set/remove and merging of occa::json  (src/types/json.cpp: operator[] (both),
getPathValue, has, remove, operator+=, mergeWithObject; json.tpp: set, get).

A path string is split into keys the way the C++ loops do it (`lex::skipTo(c, '/', '\\')`, then an
optional `++c` over the slash): segments between unescaped slashes, a trailing empty segment is
dropped, leading/inner empty segments are kept, the backslash stays part of the key.
All operations then work on the key list.  The model is of the repaired code (see Json.lean).
-/
import OccaModel.Json

namespace Occa.Json

/-- `lex::skipTo(c, '/', '\\')`: the skipped segment and the cursor.  A backslash skips itself and
    the following character (both stay in the segment); `esc` = the previous character was a backslash. -/
def takeSegE : Bool → Bytes → Bytes → Bytes × Bytes
  | _, [], acc => (acc, [])
  | true, d :: r, acc => takeSegE false r (acc ++ [d])
  | false, c :: r, acc =>
    if c = cBackslash then takeSegE true r (acc ++ [c])
    else if c = cSlash then (acc, c :: r)
    else takeSegE false r (acc ++ [c])

def takeSeg (s acc : Bytes) : Bytes × Bytes := takeSegE false s acc

/-- the keys visited by `while (*c != '\0') { skipTo; key; if (*c == '/') ++c; … }` -/
def splitPathF : Nat → Bytes → List Bytes
  | 0, _ => []
  | _, [] => []
  | n+1, s =>
    let (k, r) := takeSeg s []
    k :: splitPathF n (if peek r = cSlash then r.drop 1 else r)

/-- keys of a path as operator[] (both), getPathValue (after fix FJ6), has and remove see it -/
def splitPath (s : Bytes) : List Bytes := splitPathF (s.length + 1) (cstr s)

/-! ## reads -/

/-- const operator[] / getPathValue on a key list: missing or through a non-object -> `none` -/
def readK : List Bytes → Json → Json
  | [], j => j
  | k :: ks, .obj kvs =>
    match lookup k kvs with
    | some v => readK ks v
    | Option.none => .none
  | _ :: _, _ => .none

/-- json::has -/
def hasK : List Bytes → Json → Bool
  | [], _ => true
  | k :: ks, .obj kvs =>
    match lookup k kvs with
    | some v => hasK ks v
    | Option.none => false
  | _ :: _, _ => false

/-! ## non-const operator[] -/

/-- the walk of the non-const operator[] below the root, followed by applying `f` to the node
    the returned reference designates.  `ex` is the C++ flag `exists`. -/
def touchGo (f : Json → Json) : List Bytes → Json → Bool → Except Err Json
  | [], j, ex => .ok (f (if ex then j else .none))
  | k :: ks, .obj kvs, ex =>
    let child := (lookup k kvs).getD .none
    let fresh := child.isNone        -- `j->type == none_`: the node becomes an object and `exists = false`
    match touchGo f ks (if fresh then .obj [] else child) (!fresh && ex) with
    | .ok c => .ok (.obj (insert k c kvs))
    | .error e => .error e
  | _ :: _, _, _ => .error .notObject

/-- `f(root[path])` through the non-const operator[]: a `none` root becomes an object,
    missing members are created, `none` nodes on the way become objects, a leaf that did not
    exist before is left with type `none_` -/
def touchWith (f : Json → Json) (ks : List Bytes) (root : Json) : Except Err Json :=
  if root.isNone then touchGo f ks (.obj []) false else touchGo f ks root true

/-- `root[path];` -/
def touch (ks : List Bytes) (root : Json) : Except Err Json := touchWith id ks root

/-- `root[path] = v;` -/
def write (ks : List Bytes) (v : Json) (root : Json) : Except Err Json := touchWith (fun _ => v) ks root

/-- json::remove on a key list -/
def removeK : List Bytes → Json → Json
  | [], j => j
  | [k], .obj kvs => .obj (erase k kvs)
  | k :: k2 :: ks, .obj kvs =>
    match lookup k kvs with
    | some v => .obj (insert k (removeK (k2 :: ks) v) kvs)
    | Option.none => .obj kvs
  | _ :: _, j => j

/-- json::asObject -/
def asObject : Json → Json
  | .obj kvs => .obj kvs
  | _ => .obj []

/-- json::set(key, value): the key is used literally -/
def setLit (k : Bytes) (v : Json) (j : Json) : Json :=
  match asObject j with
  | .obj kvs => .obj (insert k v kvs)
  | o => o

/-! ## operator+= -/

mutual
/-- json::mergeWithObject(obj) applied to the member list `a`: members of `b` in key order -/
def mergeObj (a : Obj) : Obj → Obj
  | [] => a
  | (k, v) :: rest => mergeObj (insert k (mergeVal (lookup k a) v) a) rest
/-- the new value of one member: objects present on both sides are merged recursively,
    everything else is overwritten by the right-hand value -/
def mergeVal (old : Option Json) : Json → Json
  | .obj bkvs =>
    match old with
    | some (.obj akvs) => .obj (mergeObj akvs bkvs)
    | _ => .obj bkvs
  | v => v
end

/-- json::operator+= (and operator+): `a += b` -/
def add (a b : Json) : Except Err Json :=
  match b with
  | .none => .ok a
  | _ =>
    match a, b with
    -- "We're not defined, treat this as an = operator": the type is taken from `b`, then the
    -- per-type code runs on the cleared value
    | .none, .null => .ok .null
    | .none, .num q =>
      -- the cleared value holds the int 0
      (match primAdd ⟨.i32, 0, []⟩ q with
       | some r => .ok (.num r)
       | Option.none => .error .typeNotSet)
    | .none, .str s => .ok (.str s)
    | .none, .arr xs => .ok (.arr [.arr xs])
    | .none, .obj kvs => .ok (.obj (mergeObj [] kvs))
    | .arr xs, v => .ok (.arr (xs ++ [v]))
    | .null, .null => .ok .null
    | .num p, .num q =>
      (match primAdd p q with
       | some r => .ok (.num r)
       | Option.none => .error .typeNotSet)
    | .str s, .str t => .ok (.str (s ++ t))
    | .obj akvs, .obj bkvs => .ok (.obj (mergeObj akvs bkvs))
    | _, _ => .error .addTypes

/-- `a + b + c` as the C++ evaluates it -/
def add3 (a b c : Json) : Except Err Json :=
  match add a b with
  | .ok ab => add ab c
  | .error e => .error e

end Occa.Json
