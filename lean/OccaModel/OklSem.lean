/-
Execution semantics on the loop-structure level (C20 / C21).

`Sem`: a kernel after uniform control flow has been resolved for one argument list: @outer and
@inner loops with their trip counts, sequential loops with a uniform trip count, opaque
statements, barriers (first-child / next-sibling encoding).

  seqTrace   the sequential reading: the statement instances in program order
  thr        what one GPU thread (block index b, thread index t, one component per nesting depth)
             executes in the launcher-style translation: an @outer/@inner loop is a block that
             binds its iterator to the block/thread index of its depth (withLauncher::replaceOccaFor)
  launchDims the dimensions withLauncher::setKernelLaunch takes: the first loop of each depth
  Interleave any interleaving of sequences of atomic steps (OpenMP threads at statement
             granularity, GPU threads within a barrier phase)
  counterRun the exclusive-index bookkeeping of serialParser::setupExclusiveIndices

Core Lean only.
-/
namespace Occa.OklSem

inductive Sem
  | nil
  | outer (n : Nat) (body : Sem) (next : Sem)
  | inner (n : Nat) (body : Sem) (next : Sem)
  | seq (n : Nat) (body : Sem) (next : Sem)
  | stmt (id : Nat) (next : Sem)
  | barrier (next : Sem)
  deriving Repr, DecidableEq

/-- one execution of a statement: which statement, and the indices of the loops around it -/
structure Inst where
  id : Nat
  os : List Nat
  is : List Nat
  js : List Nat
  deriving Repr, DecidableEq

def seqTrace (os is js : List Nat) : Sem → List Inst
  | .nil => []
  | .outer n body next =>
    (List.range n).flatMap (fun o => seqTrace (os ++ [o]) is js body) ++ seqTrace os is js next
  | .inner n body next =>
    (List.range n).flatMap (fun i => seqTrace os (is ++ [i]) js body) ++ seqTrace os is js next
  | .seq n body next =>
    (List.range n).flatMap (fun j => seqTrace os is (js ++ [j]) body) ++ seqTrace os is js next
  | .stmt id next => ⟨id, os, is, js⟩ :: seqTrace os is js next
  | .barrier next => seqTrace os is js next

/-- the statement instances executed by the thread with block index `b` and thread index `t`;
    `d`, `e`: number of @outer / @inner loops around the current position -/
def thr (b t : Nat → Nat) (d e : Nat) (os is js : List Nat) : Sem → List Inst
  | .nil => []
  | .outer _ body next => thr b t (d + 1) e (os ++ [b d]) is js body ++ thr b t d e os is js next
  | .inner _ body next => thr b t d (e + 1) os (is ++ [t e]) js body ++ thr b t d e os is js next
  | .seq n body next =>
    (List.range n).flatMap (fun j => thr b t d e os is (js ++ [j]) body) ++ thr b t d e os is js next
  | .stmt id next => ⟨id, os, is, js⟩ :: thr b t d e os is js next
  | .barrier next => thr b t d e os is js next

/-- every @outer loop at depth `k` runs `od k` times, every @inner loop at depth `k` runs `id k` times -/
def Uniform (od id : Nat → Nat) (d e : Nat) : Sem → Prop
  | .nil => True
  | .outer n body next => n = od d ∧ Uniform od id (d + 1) e body ∧ Uniform od id d e next
  | .inner n body next => n = id e ∧ Uniform od id d (e + 1) body ∧ Uniform od id d e next
  | .seq _ body next => Uniform od id d e body ∧ Uniform od id d e next
  | .stmt _ next => Uniform od id d e next
  | .barrier next => Uniform od id d e next

/-- trip count of the first (in statement order) @outer (`o = true`) / @inner loop at depth `k`;
    `d`: depth of the current position -/
def firstCount (o : Bool) (k : Nat) (d : Nat) : Sem → Option Nat
  | .nil => none
  | .outer n body next =>
    if o then
      (if d = k then some n else (firstCount o k (d + 1) body).orElse fun _ => firstCount o k d next)
    else (firstCount o k d body).orElse fun _ => firstCount o k d next
  | .inner n body next =>
    if o then (firstCount o k d body).orElse fun _ => firstCount o k d next
    else (if d = k then some n else (firstCount o k (d + 1) body).orElse fun _ => firstCount o k d next)
  | .seq _ body next => (firstCount o k d body).orElse fun _ => firstCount o k d next
  | .stmt _ next => firstCount o k d next
  | .barrier next => firstCount o k d next

/-- the launch dimensions: unset dimensions are 1 -/
def launchDims (s : Sem) : (Nat → Nat) × (Nat → Nat) :=
  (fun k => (firstCount true k 0 s).getD 1, fun k => (firstCount false k 0 s).getD 1)

/-! ### interleavings of step sequences -/

/-- `Interleave ls l`: `l` is an interleaving of the sequences `ls` (each keeps its own order) -/
inductive Interleave {α : Type} : List (List α) → List α → Prop
  | done (ls : List (List α)) : (∀ l ∈ ls, l = []) → Interleave ls []
  | step (pre : List (List α)) (x : α) (r : List α) (post : List (List α)) (l : List α) :
      Interleave (pre ++ r :: post) l → Interleave (pre ++ (x :: r) :: post) (x :: l)

def run {α σ : Type} (f : α → σ → σ) (l : List α) (s : σ) : σ := l.foldl (fun s x => f x s) s

/-! ### the exclusive index -/

/-- the values `_occa_exclusive_index` takes at the inner-most bodies of one nest of @inner loops
    with the given trip counts, starting from `c`: (values in visiting order, final counter) -/
def counterRun : List Nat → Nat → List Nat × Nat
  | [], c => ([c], c + 1)                       -- inner-most body: use the cell, then `++index`
  | n :: r, c => rep n r c
where
  rep : Nat → List Nat → Nat → List Nat × Nat
    | 0, _, c => ([], c)
    | k + 1, r, c =>
      let (a, c1) := counterRun r c
      let (b, c2) := rep k r c1
      (a ++ b, c2)

end Occa.OklSem
