/-
Model of occa's constant folding — the IMPLEMENTATION side of C14 — written after
  src/types/primitive.cpp                 primitive::load / loadHex / loadBinary, the operator functions
  include/occa/types/primitive.hpp        primitive::to<T>()
  src/occa/internal/utils/string.cpp      parseBinary (octal digits)
  src/occa/internal/lang/expr/*.cpp       primitiveNode / parenthesesNode / leftUnaryOpNode /
                                          binaryOpNode / ternaryOpNode ::evaluate
statement by statement.  What the *host compiler* does with one C++ operator applied to two typed
operands (`a.to<T>() + b.to<T>()`: promotions, usual arithmetic conversions, wrap-around) is the
C++ semantics of that operator and is taken from `CxxSem.unop/binop`; everything occa decides
itself — literal parsing and typing, the type each operand is converted to, which `case` row
computes, which rows raise, evaluation order — is here, and the per-type rows, the rank order,
the retType rules, the literal typing branches and the presence of the short-circuit are read
from the GENERATED `OccaGen/PrimTypes.lean`.

Outcomes that are not a value are explicit:
  err   an occa::exception (OCCA_FORCE_ERROR rows, to<T>() of an unset primitive)
  trap  the host traps: integer / and % by zero, INT_MIN / -1  (SIGFPE on x86-64)
  ub    the host code itself has undefined behaviour without a deterministic effect
        (signed overflow, oversized shift, raw union read): no claim about the value
Core Lean only.
-/
import OccaModel.CxxSem
import OccaGen.PrimTypes

namespace Occa.Prim
open Occa Occa.CExpr Occa.CxxSem Occa.Gen

/-- `occa::primitive` as far as constant folding is concerned: type tag (`none` = primitiveType::none)
    and the value stored in the union member of that type (floats: IEEE bits) -/
structure Prim where
  ty : Option Ty
  v  : Int
  deriving DecidableEq, Repr

/-- `primitive()` -/
def Prim.none : Prim := ⟨.none, 0⟩
def Prim.ofVal (x : Val) : Prim := ⟨some x.ty, x.v⟩

inductive Outcome (α : Type)
  | ok (a : α)
  | err
  | trap
  | ub
  deriving DecidableEq, Repr

def Outcome.bind {α β : Type} (o : Outcome α) (f : α → Outcome β) : Outcome β :=
  match o with
  | .ok a => f a
  | .err => .err
  | .trap => .trap
  | .ub => .ub

/-- what running one host-compiled C++ operator gives -/
def ofHost : Res → Outcome Prim
  | .val x => .ok (Prim.ofVal x)
  | .undef .divZero => .trap
  | .undef .divOverflow => .trap
  | .undef (.floatRange ieee) => .ok (Prim.ofVal ieee)      -- IEEE hardware: inf / nan, no trap
  | .undef _ => .ub
  | .illformed => .ub                                        -- such a row would not compile
  | .unsupported => .ub

/-- `p.to<T>()` (primitive.hpp): a C++ conversion of the stored member to `T`;
    `default: OCCA_FORCE_ERROR("Type not set")` -/
def toT (t : Ty) (p : Prim) : Outcome Val :=
  match p.ty with
  | .none => .err
  | some s =>
    if s.isFloat && !t.isFloat && t != .bool then .ub      -- (intN_t) floating value: not needed, not modelled
    else .ok (cvt t ⟨s, p.v⟩)

/-- `(bool) p` = `p.to<bool>()` -/
def toBool (p : Prim) : Outcome Bool := (toT .bool p).bind fun x => .ok (decide (x.v ≠ 0))

/-! ### operators (primitive::not_, positive, ..., leftShift) -/

/-- unary primitive:: functions: `switch(p.type)` over the generated rows -/
def unary (op : UnOp) (p : Prim) : Outcome Prim :=
  match p.ty with
  | .none => .ok Prim.none
  | some t =>
    match unRow op t with
    | .native sym => ofHost (CxxSem.unop sym ⟨t, p.v⟩)
    | .error => .err
    | .missing => .ok Prim.none

def rankOf (p : Prim) : Nat :=
  match p.ty with
  | .none => primRankNone
  | some t => primRank t

/-- `const int retType = ...` -/
def retType (op : BinOp) (a b : Prim) : Option Ty :=
  match binRet op with
  | .maxType => if rankOf a > rankOf b then a.ty else b.ty
  | .leftUnlessRightFloat => if (match b.ty with | some t => t.isFloat | .none => false) then b.ty else a.ty

/-- `checkIntegerDivision(a, b, retType, op)` (present when `divGuard`): an integer `/` or `%` whose
    divisor is zero, or INT_MIN / -1 at int32_ / int64_, raises instead of reaching the host division -/
def checkIntegerDivision (a b : Prim) (t : Ty) : Outcome Unit :=
  if t.isFloat then .ok ()
  else
    (toT .ulong b).bind fun z =>
      if z.v = 0 then .err
      else if t = .int then
        (toT .int a).bind fun x => (toT .int b).bind fun y =>
          if x.v = Ty.minVal .int ∧ y.v = -1 then .err else .ok ()
      else if t = .long then
        (toT .long a).bind fun x => (toT .long b).bind fun y =>
          if x.v = Ty.minVal .long ∧ y.v = -1 then .err else .ok ()
      else .ok ()

/-- binary primitive:: functions: `switch(retType)` over the generated rows -/
def binary (op : BinOp) (a b : Prim) : Outcome Prim :=
  match retType op a b with
  | .none =>
    -- checkIntegerDivision runs before the switch: b.to<uint64_t>() of an unset primitive raises
    if divGuard ∧ (op = .div ∨ op = .mod) ∧ b.ty.isNone then .err else .ok Prim.none
  | some t =>
    (if divGuard ∧ (op = .div ∨ op = .mod) then checkIntegerDivision a b t else .ok ()).bind fun _ =>
    match binRow op t with
    | .compute sym lt rt =>
      (toT lt a).bind fun x =>
        -- the host's own && / || do not call b.to<T>() when x decides
        if sym = .land ∧ truth x = false then .ok (Prim.ofVal (ofBool false))
        else if sym = .lor ∧ truth x = true then .ok (Prim.ofVal (ofBool true))
        else (toT rt b).bind fun y =>
          match CxxSem.binop sym x y with
          | .undef .divZero =>
            -- idiv traps for int/long operands; for narrower operand types the optimiser may use the
            -- value range (`bool % bool` is folded to 0): undefined without a fixed effect
            if x.ty.bits < 32 ∨ y.ty.bits < 32 then .ub else .trap
          | r => ofHost r
    | .rawBits _ => .ub
    | .error => .err
    | .missing => .ok Prim.none

/-! ### primitive::load -/

def upper (c : Char) : Char := if 'a' ≤ c ∧ c ≤ 'z' then Char.ofNat (c.toNat - 32) else c

/-- `*c` of a NUL-terminated string -/
def hd (s : List Char) : Char := s.headD (Char.ofNat 0)

def isWs (c : Char) : Bool := c = ' ' ∨ c = '\t' ∨ c = '\r' ∨ c = '\n' ∨ c = Char.ofNat 11 ∨ c = Char.ofNat 12

def skipWs : List Char → List Char
  | [] => []
  | c :: r => if isWs c then skipWs r else c :: r

def two64 : Nat := 18446744073709551616

/-- the digit loop of loadHex: `value_ = (value_ << 4) | digit` in uint64_t -/
def scanHex : List Char → Nat → Nat → Nat × Nat × List Char
  | [], v, n => (v, n, [])
  | c :: r, v, n =>
    let C := upper c
    if '0' ≤ C ∧ C ≤ '9' then scanHex r ((v * 16 + (C.toNat - '0'.toNat)) % two64) (n + 1)
    else if 'A' ≤ C ∧ C ≤ 'F' then scanHex r ((v * 16 + (10 + C.toNat - 'A'.toNat)) % two64) (n + 1)
    else (v, n, c :: r)

/-- the digit loop of loadBinary -/
def scanBin : List Char → Nat → Nat → Nat × Nat × List Char
  | [], v, n => (v, n, [])
  | c :: r, v, n =>
    if c = '0' ∨ c = '1' then scanBin r ((v * 2 + (c.toNat - '0'.toNat)) % two64) (n + 1)
    else (v, n, c :: r)

/-- the common tail of loadHex / loadBinary: the width class from the number of bits read -/
def sizedPrim (value bits : Nat) (isNegative : Bool) : Prim :=
  let neg : Int := Int.ofNat ((two64 - value) % two64)      -- `-value_` in uint64_t
  if bits < 8 then (if isNegative then ⟨some .schar, wrapTo .schar neg⟩ else ⟨some .uchar, wrapTo .uchar value⟩)
  else if bits < 16 then (if isNegative then ⟨some .short, wrapTo .short neg⟩ else ⟨some .ushort, wrapTo .ushort value⟩)
  else if bits < 32 then (if isNegative then ⟨some .int, wrapTo .int neg⟩ else ⟨some .uint, wrapTo .uint value⟩)
  else (if isNegative then ⟨some .long, wrapTo .long neg⟩ else ⟨some .ulong, wrapTo .ulong value⟩)

def loadHex (s : List Char) (isNegative : Bool) : Prim × List Char :=
  let (v, n, r) := scanHex s 0 0
  if n = 0 then (Prim.none, r) else (sizedPrim v (4 * n + (if isNegative then 1 else 0)) isNegative, r)

def loadBinary (s : List Char) (isNegative : Bool) : Prim × List Char :=
  let (v, n, r) := scanBin s 0 0
  if n = 0 then (Prim.none, r) else (sizedPrim v (n + (if isNegative then 1 else 0)) isNegative, r)

/-- the digit loop of primitive::load: digits and '.' -/
def scanDigits : List Char → Nat → Bool → Nat × Bool × List Char
  | [], digits, decimal => (digits, decimal, [])
  | c :: r, digits, decimal =>
    if '0' ≤ c ∧ c ≤ '9' then scanDigits r (digits + 1) decimal
    else if c = '.' then scanDigits r digits true
    else (digits, decimal, c :: r)

structure Suffix where
  longs : Nat
  unsigned_ : Bool
  decimal : Bool
  float_ : Bool
  rest : List Char

/-- the suffix loop of primitive::load; `loadRec` is primitive::load itself, called on the text after 'E' -/
def scanSuffix (loadRec : List Char → Prim × List Char) (formatted : Bool) : List Char → Suffix → Suffix
  | [], st => { st with rest := [] }
  | c :: r, st =>
    let C := upper c
    if C = 'L' then scanSuffix loadRec formatted r { st with longs := st.longs + 1 }
    else if C = 'U' then scanSuffix loadRec formatted r { st with unsigned_ := true }
    else if !formatted then
      if C = 'E' then
        let (exp, r') := loadRec r
        { st with decimal := true, float_ := (match exp.ty with | some t => t.isFloat | .none => false), rest := r' }
      else if C = 'F' then scanSuffix loadRec formatted r { st with float_ := true }
      else { st with rest := c :: r }
    else { st with rest := c :: r }

/-- decimal digits of the non-formatted path (post-repair code): `value_ = 10 * value_ + digit` in uint64_t -/
def decVal (ds : List Char) : Nat := ds.foldl (fun v c => (10 * v + (c.toNat - '0'.toNat)) % two64) 0

/-- occa::parseBinary on a digit string that starts with '0' and has no x/b: three bits per digit
    (digits 8 and 9 pass its range check, `maxDigitValue` is 10 on this path) -/
def octVal (ds : List Char) : Nat := (ds.drop 1).foldl (fun v c => (v * 8 + (c.toNat - '0'.toNat)) % two64) 0

/-! floating literals go through atof / sscanf("%lf") of the consumed text; modelled with the
    runtime `Float` (exact for the subset `CxxSem.decToFloat` describes; best effort outside it) -/

def takeDigits : List Char → List Char × List Char
  | [] => ([], [])
  | c :: r => if '0' ≤ c ∧ c ≤ '9' then let (d, r') := takeDigits r; (c :: d, r') else ([], c :: r)

/-- the exponent part `[eE][+-]digits` of strtod; 0 when there is none -/
def atofExp (s : List Char) : Int :=
  if upper (hd s) = 'E' then
    let s1 := s.drop 1
    let (eneg, s2) := if hd s1 = '-' then (true, s1.drop 1) else if hd s1 = '+' then (false, s1.drop 1) else (false, s1)
    let ed := (takeDigits s2).1
    if ed.isEmpty then 0 else (if eneg then -(Int.ofNat (digitsVal 10 ed)) else Int.ofNat (digitsVal 10 ed))
  else 0

def atof (s : List Char) : Float :=
  let s := skipWs s
  let neg := hd s = '-'
  let s := if hd s = '-' ∨ hd s = '+' then s.drop 1 else s
  let ip := (takeDigits s).1
  let s := (takeDigits s).2
  let fp := if hd s = '.' then (takeDigits (s.drop 1)).1 else []
  let s := if hd s = '.' then (takeDigits (s.drop 1)).2 else s
  let e10 := atofExp s
  let m := digitsVal 10 (ip ++ fp)
  let e := e10 - Int.ofNat fp.length
  let x : Float :=
    if m < 2 ^ 53 ∧ -22 ≤ e ∧ e ≤ 22 then decToFloat m e
    else if e ≥ 0 then Float.ofNat (m * 10 ^ e.toNat)
    else Float.ofScientific m true (-e).toNat
  -- no digits after the optional sign ("- 5"): strtod converts nothing and returns +0.0
  if ip.isEmpty ∧ fp.isEmpty then 0.0 else if neg then -x else x

/-- the sign of a signed string ("-0xF") is applied once the literal has its type: `primitive::negative(p)`
    (only in the code that types literals by value; before that the sign went into the digits) -/
def applySign (negative : Bool) (q : Ty × Int) : Prim :=
  if negative ∧ literalTypedByValue then
    match ofHost (CxxSem.unop .neg ⟨q.1, q.2⟩) with
    | .ok r => r
    | _ => ⟨some q.1, q.2⟩
  else ⟨some q.1, q.2⟩

/-- the part of primitive::load after loadHex / loadBinary returned `p`: suffix loop and typing.
    `s` is the text after the digits. -/
def finishFormatted (loadRec : List Char → Prim × List Char) (p : Prim) (s : List Char) (negative : Bool) :
    Prim × List Char :=
  let st := scanSuffix loadRec true s ⟨0, false, false, false, s⟩
  match toT .ulong p with                                           -- `p.to<uint64_t>()`
  | .ok x => (applySign negative (integerLiteral x.v.toNat false st.unsigned_ st.longs), st.rest)
  | _ => (Prim.none, st.rest)

/-- the part of primitive::load for text that is not a hex / binary literal: digit loop, suffix loop,
    then a floating or an integer (decimal / octal) literal.  `c0` is the start of the text (sign
    included), `cDigits` the text after the sign. -/
def finishPlain (loadRec : List Char → Prim × List Char) (c0 cDigits : List Char) (negative : Bool) :
    Prim × List Char :=
  let (digits, decimal, s) := scanDigits cDigits (if hd cDigits = '0' then 1 else 0) false
  let cDigitsEnd := s
  if digits = 0 then (Prim.none, c0)
  else
    let st := scanSuffix loadRec false s ⟨0, false, decimal, false, s⟩
    if st.decimal ∨ st.float_ then
      -- the sign (and blanks after it) were consumed before `cDigits`: the digits are converted and
      -- the sign applied afterwards (`primitive::negative`), as in the integer branch
      let digitsText := cDigits.take (cDigits.length - st.rest.length)
      let x := if negative then -(atof digitsText) else atof digitsText
      if st.float_ then (⟨some .float, b32 (if negative then -((atof digitsText).toFloat32) else (atof digitsText).toFloat32)⟩, st.rest)
      else (⟨some .double, b64 x⟩, st.rest)
    else
      let ds := cDigits.take (cDigits.length - cDigitsEnd.length)
      let isDecimal := hd cDigits ≠ '0'
      let mag := if isDecimal then decVal ds else octVal ds
      let value := if negative ∧ !literalTypedByValue then (two64 - mag) % two64 else mag
      (applySign negative (integerLiteral value isDecimal st.unsigned_ st.longs), st.rest)

/-- primitive::load(const char *&c, bool includeSign); returns the primitive and `c` afterwards.
    `fuel` bounds the recursion through the exponent (`primitive::load(++c)`). -/
def load : Nat → List Char → Bool → Prim × List Char
  | 0, s, _ => (Prim.none, s)
  | fuel + 1, c0, includeSign =>
    if "true".toList.isPrefixOf c0 then (⟨some .bool, 1⟩, c0.drop 4)
    else if "false".toList.isPrefixOf c0 then (⟨some .bool, 0⟩, c0.drop 5)
    else
      let signed := hd c0 = '+' ∨ hd c0 = '-'
      if signed ∧ !includeSign then (Prim.none, c0)
      else
        let negative := hd c0 = '-'
        let s := if signed then skipWs (c0.drop 1) else c0
        -- `if (*c == '0')`: hex / binary prefix
        let C := upper (hd (s.drop 1))
        if hd s = '0' ∧ (C = 'B' ∨ C = 'X') then
          let neg' := if literalTypedByValue then false else negative
          let (p, r) := if C = 'B' then loadBinary (s.drop 2) neg' else loadHex (s.drop 2) neg'
          if p.ty.isNone then (Prim.none, c0)
          else finishFormatted (fun t => load fuel t true) p r negative
        else finishPlain (fun t => load fuel t true) c0 s negative

/-- tokenizer_t::getPrimitiveToken: `primitive::load(fp.start)` on the text of the token -/
def loadTok (text : List Char) : Prim := (load (text.length + 1) text true).1

/-! ### exprNode::evaluate -/

def eval : Expr → Outcome Prim
  | .lit l => .ok (loadTok l.text)                               -- primitiveNode
  | .paren e => eval e                                           -- parenthesesNode
  | .un op e => (eval e).bind (unary op)                         -- leftUnaryOpNode
  | .bin op l r =>                                               -- binaryOpNode
    (eval l).bind fun pl =>
      let isLogic := op = .land ∨ op = .lor
      if shortCircuit ∧ isLogic ∧ pl.ty.isSome then
        (toBool pl).bind fun leftIsTrue =>
          if op = .land ∧ leftIsTrue = false then .ok (Prim.ofVal (ofBool false))
          else if op = .lor ∧ leftIsTrue = true then .ok (Prim.ofVal (ofBool true))
          else (eval r).bind fun pr => binary op pl pr
      else (eval r).bind fun pr => binary op pl pr
  | .tern c t f =>                                               -- ternaryOpNode
    (eval c).bind fun pc => (toBool pc).bind fun b => if b then eval t else eval f

/-! ### canonical text of an outcome (shared with harness/h_prim.cpp) -/

def hexDigits (n : Nat) : String := String.ofList (Nat.toDigits 16 n)

def tag : Ty → String
  | .bool => "bool" | .schar => "i8" | .uchar => "u8" | .short => "i16" | .ushort => "u16"
  | .int => "i32" | .uint => "u32" | .long => "i64" | .ulong => "u64" | .float => "f32" | .double => "f64"

def showVal (t : Ty) (v : Int) : String :=
  match t with
  | .float => tag t ++ " " ++ hexDigits (if (f32 v).isNaN then 0x7fc00000 else v.toNat)
  | .double => tag t ++ " " ++ hexDigits (if (f64 v).isNaN then 0x7ff8000000000000 else v.toNat)
  | .bool => tag t ++ " " ++ (if v = 0 then "0" else "1")
  | _ => tag t ++ " " ++ hexDigits (wrapU t.bits v).toNat

def Prim.show (p : Prim) : String :=
  match p.ty with
  | .none => "none"
  | some t => showVal t p.v

def showOutcome : Outcome Prim → String
  | .ok p => p.show
  | .err => "err"
  | .trap => "trap"
  | .ub => "ub"

end Occa.Prim

namespace Occa.Prim
open Occa Occa.CExpr Occa.CxxSem Occa.Gen

/-! ### where occa (with the repairs F18–F21, F35 applied) still deviates from C++: the guard of the
    partial theorem, also used by the check's generator to steer around the known findings -/

/-- no `~` on a bool operand, no `& ^ |` on two bool operands (occa: logical not / error, kept by its
    own unit tests), no `?:` whose second and third operand have different types (occa returns the
    selected operand unconverted) -/
def clean : Expr → Bool
  | .lit _ => true
  | .paren e => clean e
  | .un op e => clean e && !(op = .bnot && typeOf e = some .bool)
  | .bin op l r =>
    clean l && clean r &&
      !((op = .band || op = .bxor || op = .bor) && typeOf l = some .bool && typeOf r = some .bool)
  | .tern c t f => clean c && clean t && clean f && (typeOf t == typeOf f)

/-- built from integer and boolean literals only -/
def integral : Expr → Bool
  | .lit (.float _) => false
  | .lit _ => true
  | .paren e => integral e
  | .un _ e => integral e
  | .bin _ l r => integral l && integral r
  | .tern c t f => integral c && integral t && integral f

end Occa.Prim

namespace Occa.Prim
open Occa Occa.CExpr Occa.CxxSem Occa.Gen

/-- `&&` / `||` with a floating operand: the two operands must then have the same type.  (occa converts
    both operands to the larger type before testing them against zero; that this keeps "non-zero" when
    an integer or a float is widened to float/double is an IEEE fact nothing here assumes.) -/
def logicOk (a b : Option Ty) : Bool :=
  match a, b with
  | some x, some y => (!x.isFloat && !y.isFloat) || x == y
  | _, _ => true

/-- the guard of the agreement theorem for expressions that may contain floating literals:
    `clean` plus `logicOk` at every `&&` / `||` -/
def cleanF : Expr → Bool
  | .lit _ => true
  | .paren e => cleanF e
  | .un op e => cleanF e && !(op = .bnot && typeOf e = some .bool)
  | .bin op l r =>
    cleanF l && cleanF r &&
      !((op = .band || op = .bxor || op = .bor) && typeOf l = some .bool && typeOf r = some .bool) &&
      (!(op = .land || op = .lor) || logicOk (typeOf l) (typeOf r))
  | .tern c t f => cleanF c && cleanF t && cleanF f && (typeOf t == typeOf f)

end Occa.Prim
