/-
C04 — Memory-pool accounting matches its live reservations.

Model: OccaModel/Pool.lean with the statement variants of the current source (`Gen.poolCfg`).
The union measure is defined in OccaProofs/Lemmas/PoolMeasure.lean independently of the sweeps of
the implementation: `measure a l` is the cardinality of the finite set of byte positions that lie
in `[⌊off/a⌋·a, ⌈(off+size)/a⌉·a)` for at least one reservation of `l`.
Clauses:
  reserved() = total size of the union of the aligned live ranges    C04_reserved_is_union_measure
  numReservations() = number of live reservations                    C04_numReservations
  size() >= reserved()                                               C04_reserved_le_size
  releasing every reservation brings reserved() back to 0            C04_release_all
  resizing below reserved() raises an error (state unchanged)        C04_resize_below_errs,
     and nothing else makes resize / shrinkToFit fail                C04_resize_otherwise_succeeds
All for every reachable state `run Gen.poolCfg ops`, `ops : List Op` arbitrary (alignment changes
in mid-history, slices at unaligned offsets, slices that outlive their parent included).
-/
import OccaProofs.Lemmas.PoolKeep
import OccaGen.PoolConsts

namespace Occa.Pool.C04
open Occa Occa.Pool Finset

/-- tie: the source currently contains every repaired statement the proofs rely on -/
theorem C04_source_is_repaired : Gen.poolCfg.Fixed := by decide

/-- the union measure counts byte positions: `p` is counted iff some reservation's aligned range
    contains it (this is the definition, restated so that the theorem below can be read alone) -/
theorem C04_measure_counts_positions (a : Nat) (l : List Resv) :
    measure a l = (spanU a l).card ∧
    ∀ p, p ∈ spanU a l ↔ ∃ r ∈ l, rdn a r.off ≤ p ∧ p < rup a (r.off + r.size) := by
  refine ⟨rfl, fun p => ?_⟩
  rw [mem_spanU]
  constructor
  · rintro ⟨r, hr, hp⟩; exact ⟨r, hr, mem_span.1 hp⟩
  · rintro ⟨r, hr, hp⟩; exact ⟨r, hr, mem_span.2 hp⟩

/-- two overlapping aligned ranges are counted once: [0,12) and the slice [0,4) measure 12; an
    unaligned remnant [5,6) is rounded out to [4,8) -/
example : measure 4 [⟨0, 0, 12, 0⟩, ⟨1, 0, 4, 0⟩] = 12 := by decide
example : measure 4 [⟨1, 5, 1, 0⟩] = 4 := by decide

/-- reserved() equals the union measure after every operation of every history -/
theorem C04_reserved_is_union_measure (ops : List Op) (i : Nat) (p : Pool)
    (hp : (run Gen.poolCfg ops).pool i = some p) : p.reserved = measure p.align p.resv :=
  ((run_inv C04_source_is_repaired ops).pools i p hp).inv.reserved_eq

example : ∃ ops p, (run Gen.poolCfg ops).pool 0 = some p ∧ p.reserved = 128 ∧ p.resv.length = 1 :=
  ⟨[.pool 0, .reserve 0 0 384, .slice 1 0 0 128, .release 0], _, rfl, by decide, by decide⟩

/-- numReservations() (the length of the reservation list) is the number of live reservations:
    the list holds each live memory object (slot) exactly once -/
theorem C04_numReservations (ops : List Op) (i : Nat) (p : Pool)
    (hp : (run Gen.poolCfg ops).pool i = some p) :
    (p.resv.map (·.slot)).Nodup ∧ (p.resv.map (·.slot)).toFinset.card = p.resv.length := by
  have h := ((run_inv C04_source_is_repaired ops).pools i p hp).inv.nodup
  refine ⟨h, ?_⟩
  rw [List.toFinset_card_of_nodup h, List.length_map]

/-- size() is at least reserved() -/
theorem C04_reserved_le_size (ops : List Op) (i : Nat) (p : Pool)
    (hp : (run Gen.poolCfg ops).pool i = some p) : p.reserved ≤ p.size :=
  ((run_inv C04_source_is_repaired ops).pools i p hp).inv.reserved_le

/-- once every reservation has been released reserved() is 0 again -/
theorem C04_release_all (ops : List Op) (i : Nat) (p : Pool)
    (hp : (run Gen.poolCfg ops).pool i = some p) (hnone : p.resv = []) : p.reserved = 0 := by
  rw [C04_reserved_is_union_measure ops i p hp, hnone, measure_nil]

/-- resizing below reserved() raises an error and leaves the whole state unchanged -/
theorem C04_resize_below_errs (ops : List Op) (i n : Nat) (p : Pool)
    (hp : (run Gen.poolCfg ops).pool i = some p) (hlt : n < p.reserved) :
    step Gen.poolCfg (run Gen.poolCfg ops) (.resize i n) = (run Gen.poolCfg ops, .err) :=
  step_resize_below hp hlt

/-- and that is the only way resize can fail; shrinkToFit never fails -/
theorem C04_resize_otherwise_succeeds (ops : List Op) (i n : Nat) (p : Pool)
    (hp : (run Gen.poolCfg ops).pool i = some p) :
    (p.reserved ≤ n → (step Gen.poolCfg (run Gen.poolCfg ops) (.resize i n)).2 = .ok) ∧
    (step Gen.poolCfg (run Gen.poolCfg ops) (.shrink i)).2 = .ok :=
  ⟨fun hle => step_resize_succeeds (run_inv C04_source_is_repaired ops) hp hle,
   step_shrink_succeeds (run_inv C04_source_is_repaired ops) hp⟩

/-! ### why the F07 repair is needed -/

def cfgNoF07 : Cfg := { Gen.poolCfg with sweepAccumulatesGaps := false }

/-- F07 as a model trace (alignment 2): reserve 6, slice [0,2), release the parent, release the
    slice: the unrepaired sweep leaves reserved = 2 with no reservation -/
theorem C04_release_all_fails_without_F07 :
    ¬ ∀ (ops : List Op) (i : Nat) (p : Pool), (run cfgNoF07 ops).pool i = some p → p.resv = [] → p.reserved = 0 := by
  intro h
  have := h [.pool 0, .align 0 2, .reserve 0 0 6, .slice 1 0 0 2, .release 0, .release 1] 0 _ rfl rfl
  exact absurd this (by decide)

def cfgNoF07b : Cfg := { Gen.poolCfg with reserveComparesAligned := false }

/-- F07b as a model trace: an empty pool of 4 bytes, alignment changed to 6, reserve 4: the
    unrepaired comparison accepts the block, reserved = 6 > size = 4 -/
theorem C04_reserved_le_size_fails_without_F07b :
    ¬ ∀ (ops : List Op) (i : Nat) (p : Pool), (run cfgNoF07b ops).pool i = some p → p.reserved ≤ p.size := by
  intro h
  have := h [.pool 0, .align 0 4, .resize 0 4, .align 0 6, .reserve 0 0 4] 0 _ rfl
  exact absurd this (by decide)

end Occa.Pool.C04
