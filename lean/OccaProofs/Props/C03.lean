/-
C03 — Memory-pool reservations never overlap and keep their contents.

Model: OccaModel/Pool.lean, instantiated with the statement variants that translate/gen_pool.py
reads from the current source (`Gen.poolCfg`); the theorems need all repairs to be present
(`C03_source_is_repaired`, checked by `decide` on the generated record).
Statement of the property, clause by clause:
  (a) all live reservations occupy pairwise-disjoint byte ranges inside the pool
        C03_layout (every reachable state), C03_reserve_fresh_block (a new block shares no byte
        with any live memory), C03_slice_inside_parent
  (b) every live reservation and every slice reads back the bytes last written to it
        C03_write_sets_exactly (a write changes exactly the addressed bytes, seen through every
        alias), C03_write_leaves_other_allocations, C03_reserve_fresh_block (fill reads back),
        C03_nonwriting_op_preserves (every other operation keeps every live memory's bytes)
  (c) growing, compacting, re-aligning never changes what a reservation reads back
        C03_packing_preserves, C03_packing_is_identity_on_view (resize / shrinkToFit / setAlignment
        are the identity on the abstract map memory ↦ bytes), and the growth inside
        reserve via C03_nonwriting_op_preserves); aliasing (slices stay inside their parent at
        the same place) is part of both
  release: C03_release_keeps_others.
Histories: `run Gen.poolCfg ops` for arbitrary `ops : List Op` (no bound on length, sizes, alignments).
-/
import OccaProofs.Lemmas.PoolKeep
import OccaGen.PoolConsts

namespace Occa.Pool.C03
open Occa Occa.Pool

/-- tie: the source currently contains every repaired statement the proofs rely on -/
theorem C03_source_is_repaired : Gen.poolCfg.Fixed := by decide

/-- tie: the model's rounding functions are the expressions found in memoryPool.cpp -/
theorem C03_rounding_is_source : rup = Gen.alignUp ∧ rdn = Gen.alignDown := ⟨rfl, rfl⟩

/-- the layout clause of C03 for one pool -/
structure Layout (p : Pool) : Prop where
  /-- the reservation list is ordered by offset (the order the sweeps rely on) -/
  sorted : OffSorted p.resv
  /-- every reservation lies inside the pool, the backing buffer has the pool's size -/
  inside : ∀ r ∈ p.resv, r.off + r.size ≤ p.size
  backing : p.buf.length = p.size
  /-- memories of different allocations (different reserve() calls) share no byte -/
  disjoint : ∀ r ∈ p.resv, ∀ r' ∈ p.resv, r.fam ≠ r'.fam → NoShare r r'
  /-- one memory object per slot -/
  distinct : (p.resv.map (·.slot)).Nodup

/-- (a) layout invariant over all histories -/
theorem C03_layout (ops : List Op) (i : Nat) (p : Pool) (hp : (run Gen.poolCfg ops).pool i = some p) :
    Layout p := by
  have h := ((run_inv C03_source_is_repaired ops).pools i p hp).inv
  exact ⟨h.sorted, fun r hr => h.inBounds hr, h.buflen, h.famDisj, h.nodup⟩

example : ∃ ops p, (run Gen.poolCfg ops).pool 0 = some p ∧ p.resv.length = 3 ∧ p.size = 512 :=
  ⟨[.pool 0, .reserve 0 0 128, .reserve 0 1 128, .reserve 0 2 128, .reserve 0 3 128, .release 1, .slice 5 2 8 16,
    .release 3, .reserve 0 4 256, .release 2], _, rfl, by decide, by decide⟩

/-- (a),(b) a successful reserve: the block has the requested size, belongs to a new allocation,
    shares no byte with any other live memory of the pool (whatever the fragmentation, also when
    the pool had to be packed or grown) and reads back what was written into it -/
theorem C03_reserve_fresh_block (ops : List Op) (i k n : Nat) (p : Pool)
    (hp : (run Gen.poolCfg ops).pool i = some p) (hk : k < NSLOT)
    (hfree : (run Gen.poolCfg ops).slotLive k = false) (hn : 0 < n) :
    (step Gen.poolCfg (run Gen.poolCfg ops) (.reserve i k n)).2 = .ok ∧
    ∃ p' r, (step Gen.poolCfg (run Gen.poolCfg ops) (.reserve i k n)).1.pool i = some p' ∧
      findSlot k p'.resv = some r ∧ r.size = n ∧ r.fam = (run Gen.poolCfg ops).nextFam ∧
      readAt p'.buf r.off r.size = pattern (1000 + (run Gen.poolCfg ops).nextFam) n ∧
      ∀ r' ∈ p'.resv, r'.slot ≠ k → NoShare r r' :=
  step_reserve_new C03_source_is_repaired (run_inv C03_source_is_repaired ops) hp hk hfree hn

/-- (a) a slice lies inside its parent, in the parent's allocation, over the parent's bytes -/
theorem C03_slice_inside_parent (ops : List Op) (k j off i bytes : Nat) (cnt : Int) (p : Pool) (r : Resv)
    (hloc : (run Gen.poolCfg ops).locate j = some (.inPool i p r))
    (hk : k < NSLOT) (hfree : (run Gen.poolCfg ops).slotLive k = false) (hcnt : -1 ≤ cnt)
    (hsb : sliceBytes r.size off cnt = .ok bytes) :
    (step Gen.poolCfg (run Gen.poolCfg ops) (.slice k j off cnt)).2 = .ok ∧ off + bytes ≤ r.size ∧
    ∃ p' x, (step Gen.poolCfg (run Gen.poolCfg ops) (.slice k j off cnt)).1.pool i = some p' ∧
      findSlot k p'.resv = some x ∧ x.off = r.off + off ∧ x.size = bytes ∧ x.fam = r.fam ∧ p'.buf = p.buf :=
  step_slice_new C03_source_is_repaired (run_inv C03_source_is_repaired ops) hloc (locate_inPool hloc).1
    (locate_inPool hloc).2.1 hk hfree hcnt hsb

example : ∃ ops p r, (run Gen.poolCfg ops).locate 0 = some (.inPool 0 p r) ∧ r.size = 6 ∧
    (run Gen.poolCfg ops).slotLive 1 = false ∧ sliceBytes r.size 2 (-1) = .ok 4 :=
  ⟨[.pool 0, .align 0 4, .reserve 0 0 6], _, _, rfl, rfl, by decide, by decide⟩

/-- (b),(c) every operation other than write / release / pfree / freeall — in particular reserve
    (with its internal growth and packing), slice, resize, shrinkToFit, setAlignment — keeps every
    live memory of every pool live, with the same size, allocation and bytes, and two bytes of live
    memories are the same byte afterwards iff they were the same byte before -/
theorem C03_nonwriting_op_preserves (ops : List Op) (op : Op) (hop : op.keepsAll = true) :
    Preserves (run Gen.poolCfg ops) (step Gen.poolCfg (run Gen.poolCfg ops) op).1 :=
  step_keepsAll C03_source_is_repaired (run_inv C03_source_is_repaired ops) op hop

/-- (c) the packing operations spelled out: after resize / shrinkToFit / setAlignment (successful or
    not) every live reservation `k` of the pool reads back exactly what it read before -/
theorem C03_packing_preserves (ops : List Op) (op : Op)
    (hop : (∃ i n, op = .resize i n) ∨ (∃ i, op = .shrink i) ∨ (∃ i a, op = .align i a))
    (j : Nat) (p p' : Pool) (hp : (run Gen.poolCfg ops).pool j = some p)
    (hp' : (step Gen.poolCfg (run Gen.poolCfg ops) op).1.pool j = some p') (k : Nat) (r : Resv)
    (hr : findSlot k p.resv = some r) :
    ∃ r', findSlot k p'.resv = some r' ∧ r'.size = r.size ∧
      readAt p'.buf r'.off r'.size = readAt p.buf r.off r.size := by
  have hk : op.keepsAll = true := by
    rcases hop with ⟨i, n, rfl⟩ | ⟨i, rfl⟩ | ⟨i, a, rfl⟩ <;> rfl
  obtain ⟨r', h1, h2, _, h3⟩ := (C03_nonwriting_op_preserves ops op hk j p p' hp hp').1 k r hr
  exact ⟨r', h1, h2, h3⟩

example : ∃ ops p p', (run Gen.poolCfg ops).pool 0 = some p ∧
    (step Gen.poolCfg (run Gen.poolCfg ops) (.align 0 64)).1.pool 0 = some p' ∧ p'.buf ≠ p.buf :=
  ⟨[.pool 0, .align 0 8, .reserve 0 0 8, .reserve 0 1 8, .reserve 0 2 8, .release 1], _, _, rfl, rfl, by decide⟩

/-- (c) as a refinement statement: with `view p k` = the bytes memory object `k` of pool `p` reads back
    (`none` if there is no such reservation), resize / shrinkToFit / setAlignment are the identity on
    the abstract map `memory object ↦ bytes` of every pool -/
theorem C03_packing_is_identity_on_view (ops : List Op) (op : Op)
    (hop : (∃ i n, op = .resize i n) ∨ (∃ i, op = .shrink i) ∨ (∃ i a, op = .align i a))
    (j : Nat) (p p' : Pool) (hp : (run Gen.poolCfg ops).pool j = some p)
    (hp' : (step Gen.poolCfg (run Gen.poolCfg ops) op).1.pool j = some p') : view p' = view p := by
  have hk : op.keepsAll = true := by
    rcases hop with ⟨i, n, rfl⟩ | ⟨i, rfl⟩ | ⟨i, a, rfl⟩ <;> rfl
  exact view_eq_of (C03_nonwriting_op_preserves ops op hk j p p' hp hp').1
    (step_packing_slots C03_source_is_repaired (run_inv C03_source_is_repaired ops) op hop j p p' hp hp')

/-- (b) a write through reservation `k` sets exactly the addressed bytes of the backing buffer;
    hence every live memory (the reservation itself, its slices, its parent — every alias) reads
    the new data at the addressed positions and its old bytes everywhere else -/
theorem C03_write_sets_exactly (ops : List Op) (k off len seed i : Nat) (p : Pool) (w : Resv)
    (hloc : (run Gen.poolCfg ops).locate k = some (.inPool i p w)) (hfit : off + len ≤ w.size) :
    step Gen.poolCfg (run Gen.poolCfg ops) (.write k off len seed) =
      ((run Gen.poolCfg ops).setPool i (some (p.write (w.off + off) (pattern seed len))), .ok) ∧
    (p.write (w.off + off) (pattern seed len)).resv = p.resv ∧
    (∀ q, (p.write (w.off + off) (pattern seed len)).buf[q]? =
      if w.off + off ≤ q ∧ q < w.off + off + len then (pattern seed len)[q - (w.off + off)]? else p.buf[q]?) ∧
    readAt (p.write (w.off + off) (pattern seed len)).buf (w.off + off) len = pattern seed len := by
  obtain ⟨hp, _, hw⟩ := locate_inPool hloc
  have hinv := ((run_inv C03_source_is_repaired ops).pools i p hp).inv
  refine ⟨step_write_pool hloc hfit, rfl, ?_, ?_⟩
  · intro q
    have := write_get hinv hw off (pattern seed len) (by rw [length_pattern]; exact hfit) q
    rw [length_pattern] at this
    exact this
  · have := write_reads_back hinv hw off (pattern seed len) (by rw [length_pattern]; exact hfit)
    rw [length_pattern] at this
    exact this

/-- (b) a write through a memory of one allocation leaves every memory of every other
    allocation unchanged -/
theorem C03_write_leaves_other_allocations (ops : List Op) (off len seed i : Nat) (p : Pool) (w x : Resv)
    (hp : (run Gen.poolCfg ops).pool i = some p) (hw : w ∈ p.resv) (hx : x ∈ p.resv)
    (hfit : off + len ≤ w.size) (hne : w.fam ≠ x.fam) :
    readAt (p.write (w.off + off) (pattern seed len)).buf x.off x.size = readAt p.buf x.off x.size := by
  have hinv := ((run_inv C03_source_is_repaired ops).pools i p hp).inv
  exact write_other hinv hw hx off (pattern seed len) (by rw [length_pattern]; exact hfit)
    (hinv.famDisj w hw x hx hne)

/-- a write beyond the end of the memory is rejected and changes nothing -/
theorem C03_write_out_of_range_rejected (s : State) (k off len seed i : Nat) (p : Pool) (w : Resv)
    (hloc : s.locate k = some (.inPool i p w)) (hfit : w.size < off + len) :
    step Gen.poolCfg s (.write k off len seed) = (s, .err) :=
  step_write_pool_err hloc hfit

/-- releasing memory `k` leaves the buffer and every other live memory of every pool untouched -/
theorem C03_release_keeps_others (ops : List Op) (k : Nat) :
    ReleaseRel k (run Gen.poolCfg ops) (step Gen.poolCfg (run Gen.poolCfg ops) (.release k)).1 :=
  (step_release C03_source_is_repaired (run_inv C03_source_is_repaired ops) k).2

/-! ### why the repairs are needed: the model with one repair switched off violates the layout -/

/-- the repaired configuration with the F06 repair (forced packing in reserve) removed -/
def cfgNoF06 : Cfg := { Gen.poolCfg with reservePacks := false }

/-- F06 as a model trace: A,B,C,D of 2 bytes at alignment 2; release B and D; reserve 4 bytes:
    without the repair the new block [4,8) covers C = [4,6) -/
theorem C03_layout_fails_without_F06 :
    ¬ ∀ (ops : List Op) (i : Nat) (p : Pool), (run cfgNoF06 ops).pool i = some p →
      ∀ r ∈ p.resv, ∀ r' ∈ p.resv, r.fam ≠ r'.fam → NoShare r r' := by
  intro h
  have := h [.pool 0, .align 0 2, .reserve 0 0 2, .reserve 0 1 2, .reserve 0 2 2, .reserve 0 3 2, .release 1,
    .release 3, .reserve 0 4 4] 0 _ rfl ⟨2, 4, 2, 2⟩ (by decide) ⟨4, 4, 4, 4⟩ (by decide) (by decide) 0 (by decide) 0 (by decide)
  exact this rfl

/-- the repaired configuration with the F06b repair (blocks formed on aligned spans) removed -/
def cfgNoF06b : Cfg := { Gen.poolCfg with resizeBlocksAligned := false }

/-- F06b as a model trace (alignment 4): reserve 4, slices [1,2) and [3,4), release the parent,
    reserve 4: the unrepaired packing needs 8 bytes for the two remnants, the new block lands at
    [8,12) in a pool of size 8 -/
theorem C03_layout_fails_without_F06b :
    ¬ ∀ (ops : List Op) (i : Nat) (p : Pool), (run cfgNoF06b ops).pool i = some p →
      ∀ r ∈ p.resv, r.off + r.size ≤ p.size := by
  intro h
  have := h [.pool 0, .align 0 4, .reserve 0 0 4, .slice 1 0 1 1, .slice 2 0 3 1, .release 0, .reserve 0 3 4] 0 _ rfl
    ⟨3, 8, 4, 1⟩ (by decide)
  exact absurd this (by decide)

/-- what the harness observes with `read k` is the view of C03_packing_is_identity_on_view -/
theorem C03_read_returns_view (s : State) (k i : Nat) (p : Pool) (r : Resv)
    (hloc : s.locate k = some (.inPool i p r)) :
    ∃ b, view p k = some b ∧ step Gen.poolCfg s (.read k) = (s, .bytes b) := by
  have hf := (locate_inPool hloc).2.1
  refine ⟨readAt p.buf r.off r.size, by simp only [view, hf, Option.map_some], ?_⟩
  have : s.readSlot k = some (readAt p.buf r.off r.size) := by simp only [State.readSlot, hloc]
  simp only [step, this]

end Occa.Pool.C03
