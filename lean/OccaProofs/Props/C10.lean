/-
C10 — Kernel argument validation accepts exactly the compatible argument lists.

Model: OccaModel/Dtype.lean — `validate` = modeKernel_t::setupRun (core/kernel.cpp), `canCast` =
dtype_t::canBeCastedTo / isCyclic (dtype.cpp, loops written out, trapping operations explicit),
`metaOfSignature` = parser_t::setSourceMetadata + vartype_t::dtype()/isPointerType(), metadata JSON
codec as in C11.  Lemmas: OccaProofs/Lemmas/{Cast,Validate,Dtype}.lean.

Statement of the property, clause by clause:
  (a) running raises exactly when the argument count differs, memory meets a non-pointer parameter
      or a non-memory value a pointer parameter, or a memory's element type cannot be cast to the
      parameter's; every compatible list runs
        C10_validate_spec, C10_compatible_pointwise, C10_cast_spec, C10_validate_disabled,
        C10_error_is_first_mismatch
  (b) the decision is identical for a freshly compiled kernel and one loaded from the cache
        C10_fresh_eq_cached, C10_fresh_eq_cached_signature, C10_zero_parameter_kernel
      what the parser records for a parameter: C10_array_parameter_flatten, C10_pointer_parameter
  (c) validation never traps (no division by zero in isCyclic, no out-of-bounds read)
        C10_no_trap, C10_cast_no_trap
  (d) obligations on the *current* source, from the regenerated tables
        C10_code_shape
-/
import OccaProofs.Lemmas.Validate

namespace Occa.Dtype.C10
open Occa Occa.Dtype

/-! ### (d) -/

/-- The repairs the model follows are present in the source the tables were generated from:
    isCyclic guards the division (F13), leaves are compared structurally (F15), the parser marks
    every @kernel's metadata initialized (F12) as kernelMetadata_t::fromJson does, the JSON codec is
    the one of C11 (F14, F15b), and an array of unknown extent flattens one element (F13b). -/
theorem C10_code_shape :
    Gen.cyclicGuard = true ∧ Gen.leafStructural = true ∧ Gen.parserMarksInitialized = true ∧
    Gen.fromJsonMarksInitialized = true ∧ Gen.enumWritesBytes = true ∧ Gen.fromJsonRestoresBytes = true ∧
    Gen.builtinByIdentity = true ∧ Gen.unknownExtentFlattensOne = true := by
  decide

/-! ### (a) accept exactly the compatible lists -/

/-- dtype_t::canBeCastedTo decides the declarative rule: `byte` on either side, or the longer
    flattened element list is a whole number (≥ 1) of repetitions of the shorter one. -/
theorem C10_cast_spec (a b : Dtype) : canCast a b = .ok true ↔ CastOK a b := by
  obtain ⟨r, hr, hr'⟩ := canCast_spec C10_code_shape.1 a b
  rw [hr]
  cases r <;> simp_all

example : CastOK (.prim "float") (.tuple "float4" (.prim "float") 4) :=
  Or.inr (Or.inr (Or.inl ⟨4, by omega, by simp [Dtype.flatten, repeatList]⟩))

/-- Clause (a): with validation enabled and metadata present, setupRun accepts an argument list
    iff it is `Compatible` with the parameter list. -/
theorem C10_validate_spec (m : KernelMeta) (args : List Arg) (hi : m.initialized = true) :
    validate m true args = .ok () ↔ Compatible m.arguments args := by
  unfold validate
  simp only [hi, Bool.and_self, Bool.not_true, Bool.false_eq_true, if_false]
  by_cases hl : args.length = m.arguments.length
  · simp only [hl, bne_self_eq_false, Bool.false_eq_true, if_false]
    exact (validateArgs_spec C10_code_shape.1 args m.arguments 1 hl).1
  · have hne : (args.length != m.arguments.length) = true := by simpa using hl
    simp only [hne, if_true]
    constructor
    · intro h; simp [throw, throwThe, MonadExceptOf.throw] at h
    · intro h; exact absurd ((compatible_iff _ _).mp h).1 hl

/-- `Compatible`, spelled out: the argument count equals the parameter count, and for every
    position: memory or occa::null iff the parameter is a pointer, and a memory's element type can
    be cast (`CastOK`) to the parameter's. -/
theorem C10_compatible_pointwise (ms : List ArgMeta) (args : List Arg) :
    Compatible ms args ↔ args.length = ms.length ∧
      ∀ i (h1 : i < args.length) (h2 : i < ms.length),
        match args[i] with
        | .mem d => ms[i].isPtr = true ∧ CastOK d ms[i].dtype
        | .null => ms[i].isPtr = true
        | .scalar => ms[i].isPtr = false
        | .hostPtr => ms[i].isPtr = false :=
  compatible_iff ms args

example : Compatible [⟨false, true, .tuple "" (.prim "int") 4, "x"⟩, ⟨true, false, .prim "int", "n"⟩]
    [.mem (.prim "int"), .scalar] := by
  refine ⟨⟨rfl, Or.inr (Or.inr (Or.inl ⟨4, by omega, by simp [Dtype.flatten, repeatList]⟩))⟩, rfl, trivial⟩

/-- Which exception a rejected list gets: the argument-count error, or the error of its FIRST
    non-fitting argument, with that argument's 1-based position (as in the message): "expects an
    occa::memory" / "expects a non-occa::memory type" when pointer-ness differs, otherwise "wrong
    runtime type" (`errKind`). -/
theorem C10_error_is_first_mismatch (m : KernelMeta) (args : List Arg) (e : VErr)
    (hi : m.initialized = true) (h : validate m true args = .error e) :
    (e = .count ∧ args.length ≠ m.arguments.length) ∨
    (args.length = m.arguments.length ∧
      ∃ k, ∃ (h1 : k < args.length) (h2 : k < m.arguments.length),
        (∀ j (g1 : j < args.length) (g2 : j < m.arguments.length), j < k → ArgFits args[j] m.arguments[j]) ∧
        ¬ ArgFits args[k] m.arguments[k] ∧ e = errKind args[k] m.arguments[k] (k + 1)) := by
  unfold validate at h
  simp only [hi, Bool.and_self, Bool.not_true, Bool.false_eq_true, if_false] at h
  by_cases hl : args.length = m.arguments.length
  · right
    simp only [hl, bne_self_eq_false, Bool.false_eq_true, if_false] at h
    obtain ⟨k, h1, h2, hb, hn, he⟩ := validateArgs_error C10_code_shape.1 args m.arguments 1 e hl h
    exact ⟨hl, k, h1, h2, hb, hn, by rw [he, Nat.add_comm]⟩
  · left
    have hne : (args.length != m.arguments.length) = true := by simpa using hl
    simp only [hne, if_true] at h
    simp [throw, throwThe, MonadExceptOf.throw] at h
    exact ⟨h.symm, hl⟩

/-- Without metadata (a kernel that is not in build.json, non-OKL source) or with the kernel
    property `type_validation: false` every argument list is accepted. -/
theorem C10_validate_disabled (m : KernelMeta) (tv : Bool) (args : List Arg)
    (h : m.initialized = false ∨ tv = false) : validate m tv args = .ok () := by
  unfold validate
  rcases h with h | h <;> simp [h, pure, Except.pure]

/-! ### (c) no trap -/

/-- dtype_t::canBeCastedTo never divides by zero and never reads outside the flattened vectors. -/
theorem C10_cast_no_trap (a b : Dtype) : ∃ r, canCast a b = .ok r := by
  obtain ⟨r, hr, _⟩ := canCast_spec C10_code_shape.1 a b
  exact ⟨r, hr⟩

/-- setupRun never traps, for any metadata (initialized or not), flag and argument list. -/
theorem C10_no_trap (m : KernelMeta) (tv : Bool) (args : List Arg) (t : Trap) :
    validate m tv args ≠ .error (.trap t) := by
  unfold validate
  by_cases h : (m.initialized && tv) = true
  · simp only [h, Bool.not_true, Bool.false_eq_true, if_false]
    by_cases hl : args.length = m.arguments.length
    · simp only [hl, bne_self_eq_false, Bool.false_eq_true, if_false]
      exact (validateArgs_spec C10_code_shape.1 args m.arguments 1 hl).2 t
    · have hne : (args.length != m.arguments.length) = true := by simpa using hl
      simp [hne, throw, throwThe, MonadExceptOf.throw]
  · simp [h, pure, Except.pure]

/-! ### (b) fresh = cached -/

/-- Clause (b) for any metadata a fresh build can carry (well formed, initialized): the metadata
    read back from build.json decides every argument list exactly as the original does, whatever
    the `type_validation` flag. -/
theorem C10_fresh_eq_cached (m : KernelMeta) (tv : Bool) (args : List Arg) (hw : m.WF)
    (hi : m.initialized = true) :
    ∃ m', KernelMeta.fromJson m.depth m.toJson = .ok m' ∧ validate m' tv args = validate m tv args := by
  refine ⟨m.norm, KernelMeta.fromJson_toJson C10_code_shape.2.2.2.2.1 C10_code_shape.2.2.2.2.2.1
    C10_code_shape.2.2.2.2.2.2.1 C10_code_shape.2.2.2.1 m m.depth hw (Nat.le_refl _), ?_⟩
  unfold validate
  simp [KernelMeta.norm, hi, validateArgs_norm]

/-- the metadata the parser produces for a kernel signature -/
theorem metaOfSignature_facts (kname : String) (ps : List Param) :
    (metaOfSignature kname ps).initialized = true ∧ (metaOfSignature kname ps).WF ∧
    (metaOfSignature kname ps).arguments.length = ps.length ∧ (metaOfSignature kname ps).name = kname := by
  unfold metaOfSignature
  have h := foldl_push (fun p => { isConst := p.isConst, isPtr := p.vtype.isPointerType,
                                   dtype := p.vtype.dtype, name := p.name }) ps
    { initialized := Gen.parserMarksInitialized, name := kname, arguments := [] }
  refine ⟨by rw [h.2.1]; simp [C10_code_shape.2.2.1], ?_, by rw [h.1]; simp, by rw [h.2.2]⟩
  intro a ha
  rw [h.1] at ha
  simp only [List.nil_append, List.mem_map] at ha
  obtain ⟨p, _, rfl⟩ := ha
  exact VType.dtype_wf p.vtype

/-- The element types of an array parameter, as the parser records them: the element types of the
    declared type (after the `long` adjustment) repeated once per entry, an unknown extent counting
    one entry — `T x[a][b]` flattens to `a*b` copies of `T`'s flattening, `T x[n]` (n not
    constant) to one.  With `C10_cast_spec` this is the rule the end-to-end oracle applies. -/
theorem C10_array_parameter_flatten (ty : OType) (longQ ptrs : Nat) (arrays : List (Option Int)) :
    (VType.mk ty longQ ptrs arrays).dtype.flatten =
      repeatList (extProd arrays) (VType.mk ty longQ ptrs []).dtype.flatten := by
  simp only [VType.dtype, List.foldl_nil]
  exact flatten_foldl_tuple C10_code_shape.2.2.2.2.2.2.2 arrays _

/-- ... and it is a pointer parameter iff it has a `*`, an array extent, or its typedef does. -/
theorem C10_pointer_parameter (ty : OType) (longQ ptrs : Nat) (arrays : List (Option Int)) :
    (VType.mk ty longQ ptrs arrays).isPointerType = (ptrs != 0 || arrays.length != 0 || ty.isPointerType) := by
  simp [VType.isPointerType]

example : (VType.mk (.prim "float") 0 0 [some 2, none, some 3]).dtype.flatten
    = repeatList 6 [Leaf.prim "float"] := by
  rw [C10_array_parameter_flatten]
  rfl

/-- Clause (b) for every kernel signature (any number of parameters, including none; primitives,
    vectors, typedef chains, pointers, arrays of constant or non-constant extent): the kernel
    loaded from the cache decides like the freshly compiled one. -/
theorem C10_fresh_eq_cached_signature (kname : String) (ps : List Param) (tv : Bool) (args : List Arg) :
    ∃ m', KernelMeta.fromJson (metaOfSignature kname ps).depth (metaOfSignature kname ps).toJson = .ok m' ∧
      validate m' tv args = validate (metaOfSignature kname ps) tv args :=
  C10_fresh_eq_cached _ tv args (metaOfSignature_facts kname ps).2.1 (metaOfSignature_facts kname ps).1

/-- The zero-parameter kernel (F12): fresh and cached both accept exactly the empty list. -/
theorem C10_zero_parameter_kernel (kname : String) (args : List Arg) :
    validate (metaOfSignature kname []) true args = .ok () ↔ args = [] := by
  rw [C10_validate_spec _ _ (metaOfSignature_facts kname []).1]
  have : (metaOfSignature kname []).arguments = [] := by simp [metaOfSignature]
  rw [this]
  cases args <;> simp [Compatible]

example : (metaOfSignature "k" [⟨true, .mk (.tdef (.mk (.prim "int") 1 0 [])) 0 1 [some 4], "x"⟩]).arguments.length = 1 :=
  (metaOfSignature_facts _ _).2.2.1

end Occa.Dtype.C10
