/-
C23 — functional arrays, ranges and forLoop match sequential semantics.

Model: OccaModel/Functional.lean over the generated OccaGen/RangeFns.lean.
Clauses of the property and the theorems stating them:
  (a) occa::range: `length()` is the number of iterations of the sequential loop, for both signs of the
      step, and the values the kernels compute are the values of that loop          C23_range_len, C23_range_values
  (b) ... (see below)
-/
import OccaProofs.Lemmas.FunctionalReduce
import OccaProofs.Lemmas.FunctionalState

namespace Occa.Functional.C23
open Occa Occa.Gen Occa.Functional

/-! ### (a) ranges -/

private theorem p64 : (2 : Int) ^ 64 = 18446744073709551616 := by decide
private theorem p63 : (2 : Int) ^ (64 - 1) = 9223372036854775808 := by decide

/-- values that fit a `dim_t` with room to spare (no overflow in `end - start + step ± 1`) -/
def Fits (x : Int) : Prop := -2305843009213693952 ≤ x ∧ x ≤ 2305843009213693952

instance (x : Int) : Decidable (Fits x) := by unfold Fits; infer_instance

private theorem wrapS64_small (x : Int) (h : -9223372036854775808 ≤ x ∧ x < 9223372036854775808) :
    wrapS 64 x = x := by
  unfold wrapS
  rw [p64, p63]
  omega

private theorem wrapU64_small (x : Int) (h : 0 ≤ x ∧ x < 18446744073709551616) : wrapU 64 x = x := by
  unfold wrapU
  rw [p64]
  omega

private theorem num_up (s e st : Int) (hs : Fits s) (he : Fits e) (hst : Fits st) :
    wrapS 64 (wrapS 64 (wrapS 64 (e - s) + st) - wrapS 64 1) = e - s + st - 1 := by
  unfold Fits at *
  unfold wrapS
  rw [p64, p63]
  omega

private theorem num_down (s e st : Int) (hs : Fits s) (he : Fits e) (hst : Fits st) :
    wrapS 64 (wrapS 64 (wrapS 64 (e - s) + st) + wrapS 64 1) = e - s + st + 1 := by
  unfold Fits at *
  unfold wrapS
  rw [p64, p63]
  omega

private theorem wrapS64_zero : wrapS 64 0 = 0 := by
  unfold wrapS; rw [p64, p63]; omega

private theorem wrapU64_zero : wrapU 64 0 = 0 := by
  unfold wrapU; rw [p64]; omega

/-- `range::length()` without the machine-integer wrappers, valid while nothing overflows -/
theorem rangeLength_unwrapped (s e st : Int) (hs : Fits s) (he : Fits e) (hst : Fits st) :
    rangeLength s e st =
      if (s < e ∧ st ≤ 0) ∨ (s > e ∧ st ≥ 0) then 0
      else if st > 0 then (e - s + st - 1) / st else (s - e + (-st) - 1) / (-st) := by
  unfold rangeLength
  simp only [wrapS64_zero, wrapU64_zero, num_up s e st hs he hst, num_down s e st hs he hst,
    Bool.or_eq_true, Bool.and_eq_true, decide_eq_true_eq]
  by_cases g : (s < e ∧ st ≤ 0) ∨ (s > e ∧ st ≥ 0)
  · rw [if_pos g, if_pos g]
  · rw [if_neg g, if_neg g]
    unfold Fits at *
    by_cases hp : st > 0
    · rw [if_pos hp, if_pos hp]
      have hn : 0 ≤ e - s + st - 1 := by omega
      rw [Int.tdiv_eq_ediv_of_nonneg hn]
      have h0 : 0 ≤ (e - s + st - 1) / st := Int.ediv_nonneg hn (by omega)
      have h1 : (e - s + st - 1) / st ≤ e - s + st - 1 := Int.ediv_le_self _ hn
      rw [wrapS64_small _ (by omega), wrapU64_small _ (by omega)]
    · rw [if_neg hp, if_neg hp]
      have hneg : st < 0 ∨ st = 0 := by omega
      have hn : 0 ≤ s - e + (-st) - 1 ∨ st = 0 := by omega
      rcases hneg with hneg | hz
      · obtain ⟨t, rfl⟩ : ∃ t, st = -t := ⟨-st, by omega⟩
        simp only [Int.neg_neg]
        have hn : 0 ≤ s - e + t - 1 := by omega
        have e1 : e - s + -t + 1 = -(s - e + t - 1) := by omega
        rw [e1, Int.neg_tdiv, Int.tdiv_neg, Int.neg_neg, Int.tdiv_eq_ediv_of_nonneg hn]
        have h0 : 0 ≤ (s - e + t - 1) / t := Int.ediv_nonneg hn (by omega)
        have h1 : (s - e + t - 1) / t ≤ s - e + t - 1 := Int.ediv_le_self _ hn
        rw [wrapS64_small _ (by omega), wrapU64_small _ (by omega)]
      · subst hz
        simp [Int.tdiv_zero, wrapS64_zero, wrapU64_zero]

/-- (a) `range::length()` is the number of iterations of the sequential loop
    `for (x = start; step > 0 ? x < end : x > end; x += step)`, for both signs of the step. -/
theorem C23_range_len (s e st : Int) (hs : Fits s) (he : Fits e) (hst : Fits st) (h0 : st ≠ 0) :
    rangeLength s e st = ((forVals s e st).length : Int) := by
  rw [rangeLength_unwrapped s e st hs he hst]
  by_cases hp : st > 0
  · rw [forVals_up s e st hp]
    simp only [List.length_map, List.length_range]
    by_cases g : (s < e ∧ st ≤ 0) ∨ (s > e ∧ st ≥ 0)
    · rw [if_pos g, upCount_ge s e st hp (by omega)]; rfl
    · rw [if_neg g, if_pos hp]
      unfold upCount
      have : 0 ≤ (e - s + st - 1) / st := Int.ediv_nonneg (by omega) (by omega)
      omega
  · have hn : st < 0 := by omega
    rw [forVals_down s e st hn]
    simp only [List.length_map, List.length_range]
    by_cases g : (s < e ∧ st ≤ 0) ∨ (s > e ∧ st ≥ 0)
    · rw [if_pos g, downCount_le s e st hn (by omega)]; rfl
    · rw [if_neg g, if_neg hp]
      unfold downCount
      have : 0 ≤ (s - e + (-st) - 1) / (-st) := Int.ediv_nonneg (by omega) (by omega)
      omega

example : Fits 2 ∧ Fits 10 ∧ Fits 3 ∧ (3 : Int) ≠ 0 ∧ rangeLength 2 10 3 = 3 := by
  refine ⟨?_, ?_, ?_, ?_, ?_⟩ <;> decide


/-- the kernels' values `start + step * i`, `i < length`, are the values of the sequential loop -/
theorem C23_range_values (r : Range) (hs : Fits r.start) (he : Fits r.stop) (hst : Fits r.step) (h0 : r.step ≠ 0) :
    r.values = r.seq := by
  unfold Range.values Range.seq Range.length Range.value
  rw [C23_range_len r.start r.stop r.step hs he hst h0, Int.toNat_natCast]
  by_cases hp : r.step > 0
  · rw [forVals_up _ _ _ hp]; simp
  · have hn : r.step < 0 := by omega
    rw [forVals_down _ _ _ hn]; simp

/-- every constructor of occa::range yields a non-zero step -/
theorem C23_range_ctor_step (a b c : Int) :
    (Range.mk1 a).step ≠ 0 ∧ (Range.mk2 a b).step ≠ 0 ∧ (Range.mk3 a b c).step ≠ 0 := by
  refine ⟨?_, ?_, ?_⟩
  · unfold Range.mk1; simp only; split <;> decide
  · unfold Range.mk2; simp only; split <;> decide
  · unfold Range.mk3; simp only; split
    · assumption
    · decide

example : (Range.mk3 10 0 (-3)).values = [10, 7, 4, 1] ∧ (Range.mk3 10 0 (-3)).seq = [10, 7, 4, 1] := by decide

/-- `occa::range(end)`: `|end|` values, counting up from 0 for `end ≥ 0` and down for `end < 0` -/
theorem C23_range_mk1 (e : Int) (he : Fits e) :
    (Range.mk1 e).length = (e.natAbs : Int) ∧
    (Range.mk1 e).values = (List.range e.natAbs).map (fun (i : Nat) => if e ≥ 0 then (i : Int) else -(i : Int)) := by
  have hs : Fits 0 := by decide
  have h1 : Fits (1 : Int) := by decide
  have hm1 : Fits (-1 : Int) := by decide
  by_cases hp : e ≥ 0
  · have hr : Range.mk1 e = ⟨0, e, 1⟩ := by unfold Range.mk1; rw [if_pos hp]
    have hv := C23_range_values ⟨0, e, 1⟩ hs he h1 (by simp)
    have hl := C23_range_len 0 e 1 hs he h1 (by decide)
    rw [hr]
    unfold Range.length Range.seq at *
    simp only at hv hl ⊢
    rw [hv, hl, forVals_one]
    simp only [Int.sub_zero, List.length_map, List.length_range, hp, if_true]
    have : e.toNat = e.natAbs := by omega
    rw [this]
    refine ⟨rfl, ?_⟩
    apply List.map_congr_left
    intro i _
    omega
  · have hr : Range.mk1 e = ⟨0, e, -1⟩ := by unfold Range.mk1; rw [if_neg hp]
    have hv := C23_range_values ⟨0, e, -1⟩ hs he hm1 (by simp)
    have hl := C23_range_len 0 e (-1) hs he hm1 (by decide)
    rw [hr]
    unfold Range.length Range.seq at *
    simp only at hv hl ⊢
    rw [hv, hl, forVals_neg 0 e (-1) (by decide)]
    simp only [Int.neg_zero, Int.neg_neg]
    rw [forVals_one]
    simp only [Int.sub_zero, List.length_map, List.length_range, List.map_map, hp, if_false]
    have : (-e).toNat = e.natAbs := by omega
    rw [this]
    refine ⟨rfl, ?_⟩
    apply List.map_congr_left
    intro i _
    simp only [Function.comp_apply]
    omega

example : (Range.mk1 (-10)).length = 10 ∧ (Range.mk1 (-3)).values = [0, -1, -2] := by decide
/-! ### (b) the tiled map loop visits every index exactly once -/

/-- With the in-tile bound spanning the whole block step, the Serial order of the tiled map loop is
    `0, 1, …, len-1`: every index, each once, for every length, tile size and tile iteration count. -/
theorem C23_map_cover (len ts ti : Int) (hl : 0 ≤ len) (hts : 1 ≤ ts) (hti : 1 ≤ ti) :
    mapIndicesP true len ts ti = forVals 0 len 1 := by
  unfold mapIndicesP
  simp only [if_true]
  have hm : 0 ≤ ts * ti := Int.mul_nonneg (by omega) (by omega)
  have hT : 0 < ts * ti * ti := by
    have h1 : 1 ≤ ts * ti := by
      have := Int.mul_le_mul (show 1 ≤ ts from hts) (show 1 ≤ ti from hti) (by omega) (by omega)
      omega
    have := Int.mul_le_mul h1 (show 1 ≤ ti from hti) (by omega) (by omega)
    omega
  have inner : ∀ blk : Int,
      ((forVals blk (blk + ts * ti * ti) ti).flatMap fun tile =>
        (forVals tile (tile + ti) 1).filter fun i => decide (i < len)) =
      (forVals blk (blk + ts * ti * ti) 1).filter fun i => decide (i < len) := by
    intro blk
    rw [← filter_flatMap']
    have := chunk_flatMap ti (by omega) (ts * ti).toNat blk
    rw [Int.toNat_of_nonneg hm] at this
    rw [this]
  simp only [inner]
  rw [← filter_flatMap']
  -- the blocks: k = ceil(len / T) of them, covering [0, k*T) ⊇ [0, len)
  have hq : 0 ≤ (len - 0 + ts * ti * ti - 1) / (ts * ti * ti) := Int.ediv_nonneg (by omega) (by omega)
  have hk : ((upCount 0 len (ts * ti * ti) : Nat) : Int) = (len - 0 + ts * ti * ti - 1) / (ts * ti * ti) := by
    unfold upCount; omega
  have hcover : len ≤ (upCount 0 len (ts * ti * ti) : Int) * (ts * ti * ti) := by
    rw [hk]
    have h1 := Int.mul_ediv_add_emod (len - 0 + ts * ti * ti - 1) (ts * ti * ti)
    have h2 := Int.emod_lt_of_pos (len - 0 + ts * ti * ti - 1) hT
    rw [Int.mul_comm] at h1
    omega
  have hcount : upCount 0 (0 + (upCount 0 len (ts * ti * ti) : Int) * (ts * ti * ti)) (ts * ti * ti)
      = upCount 0 len (ts * ti * ti) := by
    generalize upCount 0 len (ts * ti * ti) = k
    unfold upCount
    have e : 0 + (k : Int) * (ts * ti * ti) - 0 + ts * ti * ti - 1 = (ts * ti * ti - 1) + (k : Int) * (ts * ti * ti) := by omega
    rw [e, Int.add_mul_ediv_right _ _ (Int.ne_of_gt hT), Int.ediv_eq_zero_of_lt (by omega) (by omega)]
    omega
  rw [forVals_congr_count 0 len _ (ts * ti * ti) hT hcount.symm, chunk_flatMap (ts * ti * ti) hT _ 0,
    filter_lt_forVals_one 0 _ len hl (by omega)]

/-- … as a statement about multisets (any execution order of the OpenMP outer loop): a permutation of
    `0 .. len-1` without repetition -/
theorem C23_map_cover_perm (len : Nat) (ts ti : Int) (hts : 1 ≤ ts) (hti : 1 ≤ ti) :
    (mapIndicesP true len ts ti).Perm ((List.range len).map Int.ofNat) ∧ (mapIndicesP true len ts ti).Nodup := by
  have h := C23_map_cover len ts ti (by omega) hts hti
  have e : forVals 0 (len : Int) 1 = (List.range len).map Int.ofNat := by
    rw [forVals_one]
    simp only [Int.sub_zero, Int.toNat_natCast]
    apply List.map_congr_left
    intro i _
    simp
  rw [h, e]
  refine ⟨List.Perm.refl _, ?_⟩
  unfold List.Nodup
  rw [List.pairwise_map]
  exact List.Pairwise.imp (fun h hab => h (Int.ofNat.inj hab)) List.nodup_range

example : mapIndicesP true 7 2 3 = [0, 1, 2, 3, 4, 5, 6] := by decide

/-- the statement for the loop nest as @tile produces it today -/
def C23_map_cover_full : Prop :=
  ∀ len ts ti : Int, 0 ≤ len → 1 ≤ ts → 1 ≤ ti → mapIndicesP false len ts ti = forVals 0 len 1

/-- F25: the in-tile bound ignores the step, so with 2 tile iterations the indices [4,8), [12,16) are skipped -/
theorem C23_map_cover_full_fails : ¬ C23_map_cover_full := by
  intro h
  have := h 20 2 2 (by decide) (by decide) (by decide)
  revert this
  decide

/-- the strongest true restriction for the present @tile: one tile iteration -/
theorem C23_map_cover_partial (len ts : Int) (hl : 0 ≤ len) (hts : 1 ≤ ts) :
    mapIndicesP false len ts 1 = forVals 0 len 1 := by
  have h := C23_map_cover len ts 1 hl hts (by decide)
  unfold mapIndicesP at *
  simpa using h

example : mapIndicesP false 20 2 2 = [0, 1, 2, 3, 8, 9, 10, 11, 16, 17, 18, 19] := by decide

/-- tie: the loop nest printed by the OKL translator for the current tree is the hand-written one
    (with the in-tile bound the translator produces now) -/
theorem C23_map_gen_eq (len ts ti : Int) :
    mapIndicesGen len ts ti = mapIndicesP tileInnerScaled len ts ti := by
  simp only [mapIndicesGen, mapIndicesP, mapBlockInit, mapBlockBound, mapBlockStep, mapTileInit, mapTileBound,
    mapTileStep, mapInnerInit, mapInnerBound, mapInnerStep, tileInnerScaled, Bool.false_eq_true, if_false, if_true,
    Int.mul_assoc, Int.mul_comm, Int.mul_left_comm, Int.add_comm]


/-! ### (b') what `getMapArrayScope` feeds into the loop nest: the safe tile sizes never trap for a non-empty array -/

private theorem p32 : (2 : Int) ^ 32 = 4294967296 := by decide
private theorem p31 : (2 : Int) ^ (32 - 1) = 2147483648 := by decide

/-- lengths and tile settings that fit an `int` with room for `length + tileSize` -/
def FitsInt (x : Int) : Prop := -536870912 ≤ x ∧ x ≤ 536870912

instance (x : Int) : Decidable (FitsInt x) := by unfold FitsInt; infer_instance

private theorem wrapS32_small (x : Int) (h : -2147483648 ≤ x ∧ x < 2147483648) : wrapS 32 x = x := by
  unfold wrapS
  rw [p32, p31]
  omega

/-- for a non-empty array the scope computation divides by a positive number and yields a tile size and a
    tile iteration count ≥ 1, whatever `setTileSize` was given (also non-positive or huge values) -/
theorem C23_safe_tile (len ts ti : Int) (hl : 1 ≤ len) (fl : FitsInt len) (fts : FitsInt ts) (fti : FitsInt ti) :
    1 ≤ mapSafeTileSize len ts ∧ mapSafeTileSize len ts ≤ len ∧ mapTileDivisor len ts ≠ 0 ∧
    1 ≤ mapSafeTileIterations len ts ti := by
  unfold FitsInt at *
  have hs : 1 ≤ mapSafeTileSize len ts ∧ mapSafeTileSize len ts ≤ len := by
    unfold mapSafeTileSize
    simp only [decide_eq_true_eq]
    split <;> split <;> omega
  refine ⟨hs.1, hs.2, ?_, ?_⟩
  · unfold mapTileDivisor
    simp only
    omega
  · unfold mapSafeTileIterations
    simp only
    generalize mapSafeTileSize len ts = sts at hs
    have hn : 0 ≤ len + sts - 1 := by omega
    have hq1 : 1 ≤ (len + sts - 1) / sts := by
      have : (len + sts - 1) = (len - 1) + 1 * sts := by omega
      rw [this, Int.add_mul_ediv_right _ _ (by omega)]
      have : 0 ≤ (len - 1) / sts := Int.ediv_nonneg (by omega) (by omega)
      omega
    have hq2 : (len + sts - 1) / sts ≤ len + sts - 1 := Int.ediv_le_self _ hn
    rw [wrapS32_small (len + sts) (by omega), wrapS32_small (len + sts - 1) (by omega),
      Int.tdiv_eq_ediv_of_nonneg hn, wrapS32_small _ (by omega)]
    simp only [decide_eq_true_eq]
    split <;> split <;> omega

example : FitsInt 37 ∧ FitsInt 1024 ∧ FitsInt (-1) ∧ mapSafeTileSize 37 1024 = 37 ∧ mapSafeTileIterations 37 8 3 = 3 ∧
    mapSafeTileSize 37 (-1) = 1 := by
  refine ⟨?_, ?_, ?_, ?_, ?_, ?_⟩ <;> decide

/-- (b) for the whole entry point: whatever tile settings, a non-empty array's map kernel visits
    `0 .. len-1` in order once @tile scales its inner bound; with the empty-array guard, length 0 visits nothing -/
theorem C23_map_visit (len ts ti : Int) (hl : 0 ≤ len) (fl : FitsInt len) (fts : FitsInt ts) (fti : FitsInt ti)
    (hscaled : tileInnerScaled = true) :
    mapVisit true len ts ti = .ok (forVals 0 len 1) := by
  unfold mapVisit
  by_cases h0 : len = 0
  · subst h0
    simp [forVals_nil 0 0 1 (by decide) (by omega)]
  · have hl1 : 1 ≤ len := by omega
    obtain ⟨a, _, c, d⟩ := C23_safe_tile len ts ti hl1 fl fts fti
    have e1 : (true && len == 0) = false := by simp [h0]
    have e2 : (mapTileDivisor len ts == 0) = false := by simp [c]
    rw [e1, e2]
    simp only [Bool.false_eq_true, if_false]
    rw [C23_map_gen_eq, hscaled, C23_map_cover len _ _ hl a d]

/-- the same for the present @tile when no more than one tile iteration is requested -/
theorem C23_map_visit_partial (len ts ti : Int) (hl : 0 ≤ len) (fl : FitsInt len) (fts : FitsInt ts) (hti : ti ≤ 1)
    (fti : FitsInt ti) :
    mapVisit true len ts ti = .ok (forVals 0 len 1) := by
  unfold mapVisit
  by_cases h0 : len = 0
  · subst h0
    simp [forVals_nil 0 0 1 (by decide) (by omega)]
  · have hl1 : 1 ≤ len := by omega
    obtain ⟨a, _, c, d⟩ := C23_safe_tile len ts ti hl1 fl fts fti
    have e1 : (true && len == 0) = false := by simp [h0]
    have e2 : (mapTileDivisor len ts == 0) = false := by simp [c]
    rw [e1, e2]
    simp only [Bool.false_eq_true, if_false]
    -- safeTileIterations = min(max(1, ti), …) = 1
    have hone : mapSafeTileIterations len ts ti = 1 := by
      have hle : mapSafeTileIterations len ts ti ≤ 1 := by
        unfold mapSafeTileIterations
        simp only [decide_eq_true_eq]
        split <;> split <;> omega
      omega
    rw [C23_map_gen_eq, hone]
    cases tileInnerScaled
    · exact congrArg Res.ok (C23_map_cover_partial len _ hl a)
    · exact congrArg Res.ok (C23_map_cover len _ 1 hl a (by decide))

example : mapVisit true 5 1024 3 = .ok [0, 1, 2, 3, 4] ∨ tileInnerScaled = false := by
  cases h : tileInnerScaled
  · exact Or.inr rfl
  · exact Or.inl (by
      have := C23_map_visit 5 1024 3 (by decide) (by decide) (by decide) (by decide) h
      rw [this]; decide)

/-- F27 before the repair: without the early return an empty array (or range) divides by `safeTileSize = 0` -/
theorem C23_empty_traps_without_guard (ts ti : Int) : mapVisit false 0 ts ti = .trap := by
  unfold mapVisit mapTileDivisor mapSafeTileSize
  simp only [decide_eq_true_eq]
  have : (if (0 : Int) < if 1 < ts then ts else 1 then (0 : Int) else if 1 < ts then ts else 1) = 0 := by
    split <;> split <;> omega
  simp [this]


/-! ### (b'') `array::map` in the state model (buffers, views): the result is `std::transform` of the input -/

private theorem map_is_transform_of_visit (s : St) (src : Arr) (fn : List Int → Nat → Int)
    (hsrc : src.buf < s.bufs.length)
    (hvis : mapVisit emptyGuard src.len src.ts src.ti = .ok (forVals 0 src.len 1)) :
    ∃ s' out, mapArr s src fn = .ok (s', out) ∧ out.len = src.len ∧
      s'.read out = (List.range src.len).map (fn (s.read src)) ∧ s'.read src = s.read src := by
  obtain ⟨hb, hbuf, hlen, hread, hkeep⟩ := alloc_props s (List.replicate src.len poison)
  have hv : visit emptyGuard src = .ok (List.range src.len) := by
    unfold visit
    rw [hvis]
    simp only
    rw [map_toNat_forVals]
  have hne : (s.alloc (List.replicate src.len poison)).2.buf ≠ src.buf := by omega
  obtain ⟨h1, h2, _⟩ := mapInto_read src _ fn hne (List.range src.len) _ hb
  have hl : ((s.alloc (List.replicate src.len poison)).1.read (s.alloc (List.replicate src.len poison)).2).length = src.len := by
    rw [hread]; simp
  refine ⟨mapInto (s.alloc (List.replicate src.len poison)).1 src (s.alloc (List.replicate src.len poison)).2
      (List.range src.len) fn, (s.alloc (List.replicate src.len poison)).2, ?_, by rw [hlen]; simp, ?_, ?_⟩
  · unfold mapArr mapToArr
    simp only [hv]
  · rw [h1, hkeep src hsrc]
    have := foldl_set_range (fn (s.read src)) ((s.alloc (List.replicate src.len poison)).1.read (s.alloc (List.replicate src.len poison)).2)
    rw [hl] at this
    exact this
  · rw [h2, hkeep src hsrc]

/-- `a.map(fn)`: a fresh array holding `fn(values, i)` for every `i` in order, the input untouched — for
    every length (0 included), any tile settings, once @tile scales its inner bound -/
theorem C23_map_is_transform (s : St) (src : Arr) (fn : List Int → Nat → Int) (hsrc : src.buf < s.bufs.length)
    (fl : FitsInt src.len) (fts : FitsInt src.ts) (fti : FitsInt src.ti)
    (hguard : emptyGuard = true) (hscaled : tileInnerScaled = true) :
    ∃ s' out, mapArr s src fn = .ok (s', out) ∧ out.len = src.len ∧
      s'.read out = (List.range src.len).map (fn (s.read src)) ∧ s'.read src = s.read src := by
  apply map_is_transform_of_visit s src fn hsrc
  rw [hguard]
  exact C23_map_visit src.len src.ts src.ti (by omega) fl fts fti hscaled

example : ∃ s : St, ∃ a : Arr, a.buf < s.bufs.length ∧ FitsInt a.len ∧ FitsInt a.ts ∧ FitsInt a.ti ∧ s.read a = [5, -3, 2] :=
  ⟨(({} : St).alloc [5, -3, 2]).1, (({} : St).alloc [5, -3, 2]).2, by decide, by decide, by decide, by decide, by decide⟩

/-- … and for the unscaled @tile as long as no more than one tile iteration is requested -/
theorem C23_map_is_transform_partial (s : St) (src : Arr) (fn : List Int → Nat → Int) (hsrc : src.buf < s.bufs.length)
    (fl : FitsInt src.len) (fts : FitsInt src.ts) (hti : src.ti ≤ 1) (fti : FitsInt src.ti)
    (hguard : emptyGuard = true) :
    ∃ s' out, mapArr s src fn = .ok (s', out) ∧ out.len = src.len ∧
      s'.read out = (List.range src.len).map (fn (s.read src)) ∧ s'.read src = s.read src := by
  apply map_is_transform_of_visit s src fn hsrc
  rw [hguard]
  exact C23_map_visit_partial src.len src.ts src.ti (by omega) fl fts hti fti

/-! ### (c) the block-wise reduction equals the sequential fold -/

/-- the 128 index blocks of the Serial/OpenMP reduce kernel are consecutive and cover `0 .. len-1` exactly once -/
theorem C23_cpu_blocks_cover (len : Int) (hl : 0 ≤ len) : (cpuBlocks len).flatten = forVals 0 len 1 :=
  cpuBlocks_flatten len hl

/-- ANY partition into consecutive blocks, associative `op` with identity `e`: per-block folds from `e`,
    combined on the host in block order = the sequential fold (no commutativity needed: the blocks are in order) -/
theorem C23_reduce_blocks_monoid {β : Type} (op : β → β → β) (e : β)
    (assoc : ∀ a b c, op (op a b) c = op a (op b c)) (idl : ∀ a, op e a = a) (idr : ∀ a, op a e = a)
    (blocks : List (List β)) :
    reduceBlocks op op e blocks = blocks.flatten.foldl op e :=
  reduceBlocks_monoid op e assoc idl idr blocks

/-- … and for an associative, commutative, idempotent `op` (min, max, and, or) started from ANY value `a`
    in every block (the code starts from the first element) -/
theorem C23_reduce_blocks_semilattice {β : Type} (op : β → β → β)
    (assoc : ∀ a b c, op (op a b) c = op a (op b c)) (comm : ∀ a b, op a b = op b a) (idem : ∀ a, op a a = a)
    (a : β) (blocks : List (List β)) :
    reduceBlocks op op a blocks = blocks.flatten.foldl op a :=
  reduceBlocks_semilattice op assoc comm idem a blocks

/-- the CPU reduction kernel + host loop, for a monoid and a per-element function `g` of the index -/
theorem C23_cpu_reduce_monoid (op : Int → Int → Int) (e : Int)
    (assoc : ∀ a b c, op (op a b) c = op a (op b c)) (idl : ∀ a, op e a = a) (idr : ∀ a, op a e = a)
    (g : Int → Int) (len : Int) (hl : 0 ≤ len) :
    cpuReduce len e (fun acc i => op acc (g i)) op = ((forVals 0 len 1).map g).foldl op e := by
  rw [cpuReduce_eq_reduceBlocks, reduceBlocks_map, reduceBlocks_monoid op e assoc idl idr, flatten_map_map,
    cpuBlocks_flatten len hl]

theorem C23_cpu_reduce_semilattice (op : Int → Int → Int)
    (assoc : ∀ a b c, op (op a b) c = op a (op b c)) (comm : ∀ a b, op a b = op b a) (idem : ∀ a, op a a = a)
    (a : Int) (g : Int → Int) (len : Int) (hl : 0 ≤ len) :
    cpuReduce len a (fun acc i => op acc (g i)) op = ((forVals 0 len 1).map g).foldl op a := by
  rw [cpuReduce_eq_reduceBlocks, reduceBlocks_map, reduceBlocks_semilattice op assoc comm idem, flatten_map_map,
    cpuBlocks_flatten len hl]

/-- the built-in reductions over an int array `xs`, exactly as the operation layer of the model calls them -/
theorem C23_reduce_sum (xs : List Int) (p : Int) :
    cpuReduce xs.length 0 (redFn 0 0 p xs) (hostComb 0) = xs.foldl (· + ·) 0 := by
  have h := C23_cpu_reduce_monoid (· + ·) 0 (fun a b c => Int.add_assoc a b c) (fun a => Int.zero_add a)
    (fun a => Int.add_zero a) (fun i => xs.getD i.toNat 0) xs.length (by omega)
  rw [map_getD_forVals] at h
  rw [← h]
  rfl

theorem C23_reduce_product (xs : List Int) (p : Int) :
    cpuReduce xs.length 1 (redFn 1 0 p xs) (hostComb 1) = xs.foldl (· * ·) 1 := by
  have h := C23_cpu_reduce_monoid (· * ·) 1 (fun a b c => Int.mul_assoc a b c) (fun a => Int.one_mul a)
    (fun a => Int.mul_one a) (fun i => xs.getD i.toNat 0) xs.length (by omega)
  rw [map_getD_forVals] at h
  rw [← h]
  rfl

theorem C23_reduce_min (xs : List Int) (p a : Int) :
    cpuReduce xs.length a (redFn 7 0 p xs) (hostComb 7) = xs.foldl minI a := by
  have h := C23_cpu_reduce_semilattice minI (by intro a b c; simp only [minI_eq]; omega)
    (by intro a b; simp only [minI_eq]; omega) (by intro a; simp only [minI_eq]; omega)
    a (fun i => xs.getD i.toNat 0) xs.length (by omega)
  rw [map_getD_forVals] at h
  rw [← h]
  rfl

theorem C23_reduce_max (xs : List Int) (p a : Int) :
    cpuReduce xs.length a (redFn 8 0 p xs) (hostComb 8) = xs.foldl maxI a := by
  have h := C23_cpu_reduce_semilattice maxI (by intro a b c; simp only [maxI_eq]; omega)
    (by intro a b; simp only [maxI_eq]; omega) (by intro a; simp only [maxI_eq]; omega)
    a (fun i => xs.getD i.toNat 0) xs.length (by omega)
  rw [map_getD_forVals] at h
  rw [← h]
  rfl

example : cpuReduce ([3, 1, 4, 1, 5] : List Int).length 0 (redFn 0 0 0 [3, 1, 4, 1, 5]) (hostComb 0) = 14 := by
  rw [C23_reduce_sum]; rfl

/-- F62 (finding): an initial value that is not the identity is folded into each of the 128 blocks -/
theorem C23_local_init_counted_per_block :
    cpuReduce 2 5 (redFn 0 0 0 [1, 2]) (hostComb 0) = 128 * 5 + 3 := by decide +kernel

example : (cpuBlocks 300).flatten.length = 300 ∧ (cpuBlocks 300).length = 128 ∧ ((cpuBlocks 300).getD 99 []) = [297, 298, 299] := by
  decide +kernel

/-- the dot product is the CPU reduction of the element-wise products -/
theorem C23_dot (xs ys : List Int) :
    cpuReduce xs.length 0 (fun acc i => acc + xs.getD i.toNat 0 * ys.getD i.toNat 0) (hostComb 0) =
      ((List.range xs.length).map fun i => xs.getD i 0 * ys.getD i 0).foldl (· + ·) 0 := by
  have h := C23_cpu_reduce_monoid (· + ·) 0 (fun a b c => Int.add_assoc a b c) (fun a => Int.zero_add a)
    (fun a => Int.add_zero a) (fun i => xs.getD i.toNat 0 * ys.getD i.toNat 0) xs.length (by omega)
  have e : (forVals 0 (xs.length : Int) 1).map (fun i => xs.getD i.toNat 0 * ys.getD i.toNat 0) =
      (List.range xs.length).map fun i => xs.getD i 0 * ys.getD i 0 := by
    rw [forVals_one]
    simp only [Int.sub_zero, Int.toNat_natCast, List.map_map]
    apply List.map_congr_left
    intro i _
    simp
  rw [e] at h
  rw [← h]
  rfl

/-- the full statement for a reduction with an initial value: the fold from that value -/
def C23_reduce_init_full : Prop :=
  ∀ (xs : List Int) (init : Int), cpuReduce xs.length init (redFn 0 0 0 xs) (hostComb 0) = xs.foldl (· + ·) init

/-- F62: false, the initial value is folded into every block -/
theorem C23_reduce_init_full_fails : ¬ C23_reduce_init_full := by
  intro h
  have := h [1, 2] 5
  rw [show (([1, 2] : List Int).length : Int) = 2 from rfl, C23_local_init_counted_per_block] at this
  revert this
  decide

/-- what is true instead: the identity as initial value (any list); for the idempotent reductions any
    initial value is `C23_reduce_min` / `C23_reduce_max` -/
theorem C23_reduce_init_partial (xs : List Int) :
    cpuReduce xs.length 0 (redFn 0 0 0 xs) (hostComb 0) = xs.foldl (· + ·) 0 := C23_reduce_sum xs 0

/-- `array::indexOf(target)` — a min-reduction whose per-block start value is the array length — returns the
    first index holding the target, or -1 if there is none (for every array, the empty one included) -/
theorem C23_index_of (xs : List Int) (t : Int) :
    ∃ r : Int, indexOfArr xs t = .ok r ∧
      ((r = -1 ∧ ∀ i : Nat, i < xs.length → xs.getD i 0 ≠ t) ∨
       (0 ≤ r ∧ r < xs.length ∧ xs.getD r.toNat 0 = t ∧ ∀ i : Nat, (i : Int) < r → xs.getD i 0 ≠ t)) := by
  let g : Int → Int := fun i => if xs.getD i.toNat 0 = t then i else (xs.length : Int)
  -- the kernel's step function is `min acc (g i)` as long as the accumulator stays ≤ length
  have hstep : ∀ acc x : Int, acc ≤ (xs.length : Int) →
      (if (xs.getD x.toNat 0 != t || decide (acc ≤ x)) = true then acc else x) = minI acc (g x) ∧
      minI acc (g x) ≤ (xs.length : Int) := by
    intro acc x hacc
    simp only [g, minI_eq]
    by_cases hx : xs.getD x.toNat 0 = t
    · simp only [hx, bne_self_eq_false, Bool.false_or, decide_eq_true_eq, if_true]
      constructor
      · split <;> omega
      · omega
    · have : (xs.getD x.toNat 0 != t) = true := by simpa using hx
      simp only [this, Bool.true_or, if_true, hx, if_false]
      omega
  have hred : reduceGen xs.length 7 true (xs.length : Int) (xs.getD 0 0)
        (fun acc i => if (xs.getD i.toNat 0 != t || decide (acc ≤ i)) = true then acc else i) minI =
      .ok (((forVals 0 (xs.length : Int) 1).map g).foldl minI (xs.length : Int)) := by
    unfold reduceGen
    by_cases h0 : (emptyGuard && xs.length == 0) = true
    · have hl : xs.length = 0 := by
        simp only [Bool.and_eq_true, beq_iff_eq] at h0; exact h0.2
      rw [if_pos h0]
      simp only [if_true, hl]
      rw [forVals_nil 0 _ 1 (by decide) (by simp)]
      rfl
    · rw [if_neg h0]
      simp only [if_true]
      rw [cpuReduce_congr_inv (fun a => a ≤ (xs.length : Int)) _ (fun acc i => minI acc (g i)) minI _ _ hstep (Int.le_refl _),
        C23_cpu_reduce_semilattice minI (by intro a b c; simp only [minI_eq]; omega)
          (by intro a b; simp only [minI_eq]; omega) (by intro a; simp only [minI_eq]; omega) _ g _ (by omega)]
  obtain ⟨hle, hall⟩ := foldl_minI_le ((forVals 0 (xs.length : Int) 1).map g) (xs.length : Int)
  have hmem := foldl_minI_mem ((forVals 0 (xs.length : Int) 1).map g) (xs.length : Int)
  generalize hm : ((forVals 0 (xs.length : Int) 1).map g).foldl minI (xs.length : Int) = m at hred hle hall hmem
  have hg : ∀ i : Nat, i < xs.length → m ≤ g i := by
    intro i hi
    apply hall
    exact List.mem_map.mpr ⟨(i : Int), (mem_forVals_one 0 _ _).mpr ⟨by omega, by omega⟩, rfl⟩
  refine ⟨if m < (xs.length : Int) then m else -1, ?_, ?_⟩
  · unfold indexOfArr
    simp only
    rw [hred]
  · by_cases hlt : m < (xs.length : Int)
    · rw [if_pos hlt]
      right
      rcases hmem with e | e
      · omega
      · obtain ⟨i, hi, hgi⟩ := List.mem_map.mp e
        have hi' := (mem_forVals_one 0 _ _).mp hi
        have hmatch : xs.getD i.toNat 0 = t ∧ m = i := by
          simp only [g] at hgi
          by_cases hx : xs.getD i.toNat 0 = t
          · rw [if_pos hx] at hgi; exact ⟨hx, hgi.symm⟩
          · rw [if_neg hx] at hgi; omega
        refine ⟨by omega, hlt, by rw [hmatch.2]; exact hmatch.1, ?_⟩
        intro k hk hxk
        have := hg k (by omega)
        simp only [g, Int.toNat_natCast, hxk, if_true] at this
        omega
    · rw [if_neg hlt]
      left
      refine ⟨rfl, ?_⟩
      intro i hi hxi
      have := hg i hi
      simp only [g, Int.toNat_natCast, hxi, if_true] at this
      omega

example : indexOfArr [5, 1, 2, 1, 9, 1] 1 = .ok 1 ∧ indexOfArr [5, 1, 2] 7 = .ok (-1) := by decide +kernel

/-! ### (c') every / some / findIndex over the visited indices -/

/-- `every` is the conjunction and `some` the disjunction over the visited indices (with `C23_map_visit`:
    over all indices) -/
theorem C23_every_some (vis : List Nat) (f : Nat → Bool) :
    everyOf vis f = vis.all f ∧ (decide (findLast vis f ≥ 0) = vis.any f) := by
  refine ⟨rfl, ?_⟩
  rw [findLast_eq]
  cases h : vis.reverse.find? f with
  | some i =>
    have := List.find?_some h
    have hm : i ∈ vis := by simpa using List.mem_of_find?_eq_some h
    have : vis.any f = true := List.any_eq_true.mpr ⟨i, hm, this⟩
    simp [this]
  | none =>
    have hn : ∀ x ∈ vis, ¬ f x = true := by
      intro x hx
      exact List.find?_eq_none.mp h x (by simpa using hx)
    have : vis.any f = false := by
      rw [List.any_eq_false]; exact hn
    simp [this]

/-- the full statement for findIndex: the first match, as `std::find_if` -/
def C23_find_full : Prop := ∀ (vis : List Nat) (f : Nat → Bool), findLast vis f = firstMatch vis f

/-- F60: false — every match overwrites the result cell, the last one wins -/
theorem C23_find_full_fails : ¬ C23_find_full := by
  intro h
  have := h [0, 1] (fun _ => true)
  revert this
  decide

/-- the strongest true restriction: at most one matching element -/
theorem C23_find_partial (vis : List Nat) (f : Nat → Bool) (h : countMatches vis f ≤ 1) :
    findLast vis f = firstMatch vis f := by
  rw [findLast_eq, reverse_find?_of_unique vis f h]
  rfl

/-- and in general the result is sound: -1 iff nothing matches, otherwise a visited matching index -/
theorem C23_find_sound (vis : List Nat) (f : Nat → Bool) :
    (findLast vis f = -1 ↔ ∀ i ∈ vis, f i = false) ∧
    (∀ i : Nat, findLast vis f = (i : Int) → i ∈ vis ∧ f i = true) := by
  rw [findLast_eq]
  cases h : vis.reverse.find? f with
  | some j =>
    have hf := List.find?_some h
    have hm : j ∈ vis := by simpa using List.mem_of_find?_eq_some h
    refine ⟨⟨fun e => by simp at e, fun e => by rw [e j hm] at hf; cases hf⟩, ?_⟩
    intro i e
    have : j = i := by simp at e; omega
    exact this ▸ ⟨hm, hf⟩
  | none =>
    have hn : ∀ x ∈ vis, ¬ f x = true := by
      intro x hx
      exact List.find?_eq_none.mp h x (by simpa using hx)
    refine ⟨⟨fun _ i hi => by simpa using hn i hi, fun _ => rfl⟩, ?_⟩
    intro i e
    simp at e

example : findLast [0, 1, 2, 3] (fun i => i % 2 == 1) = 3 ∧ firstMatch [0, 1, 2, 3] (fun i => i % 2 == 1) = 1 := by decide

/-! ### (d) forLoop: the body runs exactly once per index tuple -/

/-- membership: a tuple is visited iff every component is a value of its iteration -/
theorem C23_forloop_tuples_mem (ds : List (List Int)) :
    ∀ t : List Int, t ∈ tuples ds ↔ tupleOf t ds := by
  induction ds with
  | nil =>
    intro t
    simp only [tuples, List.mem_singleton]
    cases t <;> simp [tupleOf]
  | cons d ds ih =>
    intro t
    simp only [tuples, List.mem_flatMap, List.mem_map]
    constructor
    · rintro ⟨x, hx, u, hu, rfl⟩
      exact ⟨hx, (ih u).mp hu⟩
    · intro h
      cases t with
      | nil => simp [tupleOf] at h
      | cons x u => exact ⟨x, h.1, u, (ih u).mpr h.2, rfl⟩

/-- number of body executions = product of the iteration lengths -/
theorem C23_forloop_tuples_length (ds : List (List Int)) :
    (tuples ds).length = (ds.map List.length).foldr (· * ·) 1 := by
  induction ds with
  | nil => rfl
  | cons d ds ih =>
    simp only [tuples, List.map_cons, List.foldr_cons]
    rw [← ih]
    induction d with
    | nil => simp
    | cons x d ihd =>
      simp only [List.flatMap_cons, List.length_append, List.length_map, List.length_cons, ihd]
      rw [Nat.add_mul]; omega

/-- each tuple once: if no iteration repeats a value, no tuple is visited twice -/
theorem C23_forloop_tuples_nodup (ds : List (List Int)) (h : ∀ d ∈ ds, d.Nodup) : (tuples ds).Nodup := by
  induction ds with
  | nil => simp [tuples]
  | cons d ds ih =>
    have hd : d.Nodup := h d (by simp)
    have hds : (tuples ds).Nodup := ih (fun d' hd' => h d' (by simp [hd']))
    simp only [tuples]
    clear ih h
    induction d with
    | nil => simp
    | cons x d ihd =>
      rw [List.nodup_cons] at hd
      simp only [List.flatMap_cons]
      rw [List.nodup_append]
      refine ⟨?_, ihd hd.2, ?_⟩
      · unfold List.Nodup
        rw [List.pairwise_map]
        exact List.Pairwise.imp (fun hne heq => hne (List.cons.inj heq).2) hds
      · intro a ha b hb hab
        subst hab
        simp only [List.mem_map] at ha
        obtain ⟨u, _, rfl⟩ := ha
        simp only [List.mem_flatMap, List.mem_map] at hb
        obtain ⟨y, hy, v, _, hv⟩ := hb
        have : y = x := (List.cons.inj hv).1
        exact hd.1 (this ▸ hy)

example : (∀ d ∈ [[7, 3, -2], [0, 1]], d.Nodup) ∧ (tuples [[7, 3, -2], [0, 1]]).length = 6 ∧
    tupleOf [3, 1] [[7, 3, -2], [0, 1]] := by
  refine ⟨?_, by decide, ?_⟩
  · intro d hd
    simp only [List.mem_cons, List.mem_nil_iff, or_false] at hd
    rcases hd with rfl | rfl <;> decide
  · simp [tupleOf]

/-- the values of a range iteration in the generated kernel are the values of the sequential loop, for both
    signs of the step, once the descending loop subtracts the magnitude of the step (repair of F61) -/
theorem C23_forloop_range_vals (r : Range) : Iter.vals true (.range r) = .ok r.seq := by
  simp [Iter.vals, Range.seq]

/-- `forLoop::tile`: a range loop tiled by `@tile(T, @outer, @inner)` (check on) visits exactly the values of the
    plain loop, in order, once @tile scales its inner bound — ascending ranges -/
theorem C23_tiled_range_up (s e st T : Int) (hst : 0 < st) (hT : 1 ≤ T) :
    tiledVals true s e st T = forVals s e st := by
  obtain ⟨n, rfl⟩ : ∃ n : Nat, T = (n : Int) := ⟨T.toNat, by omega⟩
  have hn : 0 < n := by omega
  have hB : 0 < (n : Int) * st := Int.mul_pos (by omega) hst
  unfold tiledVals
  rw [if_pos hst]
  simp only [if_true]
  rw [← filter_flatMap', forVals_to_aligned s e _ hB, chunk_flatMap_step st hst n hn _ s,
    filter_lt_forVals _ st e hst _ s rfl]
  have := upCount_cover s e _ hB
  rw [show min (s + (upCount s e ((n : Int) * st) : Int) * ((n : Int) * st)) e = e by omega]

/-- … and descending ranges (mirror image) -/
theorem C23_tiled_range_down (s e st T : Int) (hst : st < 0) (hT : 1 ≤ T) :
    tiledVals true s e st T = forVals s e st := by
  have hB : T * st < 0 := by
    have := Int.mul_pos (show 0 < T by omega) (show 0 < -st by omega)
    rw [Int.mul_neg] at this; omega
  have up := C23_tiled_range_up (-s) (-e) (-st) T (by omega) hT
  unfold tiledVals at up ⊢
  rw [if_pos (by omega)] at up
  rw [if_neg (by omega)]
  simp only [if_true] at up ⊢
  rw [forVals_neg s e st hst, ← up, List.map_flatMap, forVals_neg s e (T * st) hB, List.flatMap_map]
  have e1 : -(T * st) = T * -st := by rw [Int.mul_neg]
  rw [e1]
  congr 1
  funext blk
  have e2 : -(-blk + T * st) = blk + T * -st := by rw [Int.mul_neg]; omega
  rw [forVals_neg (-blk) (-blk + T * st) st hst, Int.neg_neg, e2, List.filter_map]
  congr 1
  apply List.filter_congr
  intro x _
  simp only [Function.comp_apply, decide_eq_decide]
  omega

example : tiledVals true 10 0 (-3) 2 = [10, 7, 4, 1] ∧ tiledVals false 0 20 2 4 = [0, 2, 8, 10, 16, 18] := by decide

/-- F61 before the repair: a descending range made the generated loop run away -/
theorem C23_forloop_descending_ran_away : Iter.vals false (.range ⟨5, 0, -1⟩) = .trap := by decide

example : tuples [[0, 1], [5, 3, 1]] = [[0, 5], [0, 3], [0, 1], [1, 5], [1, 3], [1, 1]] := by decide

end Occa.Functional.C23
