/-
C23 — functional arrays, ranges and forLoop match sequential semantics.

Model: OccaModel/Functional.lean over the generated OccaGen/RangeFns.lean.
Clauses of the property and the theorems stating them:
  (a) occa::range: `length()` is the number of iterations of the sequential loop, for both signs of the
      step, and the values the kernels compute are the values of that loop          C23_range_len, C23_range_values
  (b) ... (see below)
-/
import OccaProofs.Lemmas.FunctionalLoops

namespace Occa.Functional.C23
open Occa Occa.Gen Occa.Functional

/-! ### (a) ranges -/

private theorem p64 : (2 : Int) ^ 64 = 18446744073709551616 := by decide
private theorem p63 : (2 : Int) ^ (64 - 1) = 9223372036854775808 := by decide

/-- values that fit a `dim_t` with room to spare (no overflow in `end - start + step ± 1`) -/
def Fits (x : Int) : Prop := -2305843009213693952 ≤ x ∧ x ≤ 2305843009213693952

instance (x : Int) : Decidable (Fits x) := by unfold Fits; infer_instance

private theorem wrapS64_small (x : Int) (h : -9223372036854775808 ≤ x ∧ x < 9223372036854775808) :
    wrapS 64 x = x := by
  unfold wrapS
  rw [p64, p63]
  omega

private theorem wrapU64_small (x : Int) (h : 0 ≤ x ∧ x < 18446744073709551616) : wrapU 64 x = x := by
  unfold wrapU
  rw [p64]
  omega

private theorem num_up (s e st : Int) (hs : Fits s) (he : Fits e) (hst : Fits st) :
    wrapS 64 (wrapS 64 (wrapS 64 (e - s) + st) - wrapS 64 1) = e - s + st - 1 := by
  unfold Fits at *
  unfold wrapS
  rw [p64, p63]
  omega

private theorem num_down (s e st : Int) (hs : Fits s) (he : Fits e) (hst : Fits st) :
    wrapS 64 (wrapS 64 (wrapS 64 (e - s) + st) + wrapS 64 1) = e - s + st + 1 := by
  unfold Fits at *
  unfold wrapS
  rw [p64, p63]
  omega

private theorem wrapS64_zero : wrapS 64 0 = 0 := by
  unfold wrapS; rw [p64, p63]; omega

private theorem wrapU64_zero : wrapU 64 0 = 0 := by
  unfold wrapU; rw [p64]; omega

/-- `range::length()` without the machine-integer wrappers, valid while nothing overflows -/
theorem rangeLength_unwrapped (s e st : Int) (hs : Fits s) (he : Fits e) (hst : Fits st) :
    rangeLength s e st =
      if (s < e ∧ st ≤ 0) ∨ (s > e ∧ st ≥ 0) then 0
      else if st > 0 then (e - s + st - 1) / st else (s - e + (-st) - 1) / (-st) := by
  unfold rangeLength
  simp only [wrapS64_zero, wrapU64_zero, num_up s e st hs he hst, num_down s e st hs he hst,
    Bool.or_eq_true, Bool.and_eq_true, decide_eq_true_eq]
  by_cases g : (s < e ∧ st ≤ 0) ∨ (s > e ∧ st ≥ 0)
  · rw [if_pos g, if_pos g]
  · rw [if_neg g, if_neg g]
    unfold Fits at *
    by_cases hp : st > 0
    · rw [if_pos hp, if_pos hp]
      have hn : 0 ≤ e - s + st - 1 := by omega
      rw [Int.tdiv_eq_ediv_of_nonneg hn]
      have h0 : 0 ≤ (e - s + st - 1) / st := Int.ediv_nonneg hn (by omega)
      have h1 : (e - s + st - 1) / st ≤ e - s + st - 1 := Int.ediv_le_self _ hn
      rw [wrapS64_small _ (by omega), wrapU64_small _ (by omega)]
    · rw [if_neg hp, if_neg hp]
      have hneg : st < 0 ∨ st = 0 := by omega
      have hn : 0 ≤ s - e + (-st) - 1 ∨ st = 0 := by omega
      rcases hneg with hneg | hz
      · obtain ⟨t, rfl⟩ : ∃ t, st = -t := ⟨-st, by omega⟩
        simp only [Int.neg_neg]
        have hn : 0 ≤ s - e + t - 1 := by omega
        have e1 : e - s + -t + 1 = -(s - e + t - 1) := by omega
        rw [e1, Int.neg_tdiv, Int.tdiv_neg, Int.neg_neg, Int.tdiv_eq_ediv_of_nonneg hn]
        have h0 : 0 ≤ (s - e + t - 1) / t := Int.ediv_nonneg hn (by omega)
        have h1 : (s - e + t - 1) / t ≤ s - e + t - 1 := Int.ediv_le_self _ hn
        rw [wrapS64_small _ (by omega), wrapU64_small _ (by omega)]
      · subst hz
        simp [Int.tdiv_zero, wrapS64_zero, wrapU64_zero]

/-- (a) `range::length()` is the number of iterations of the sequential loop
    `for (x = start; step > 0 ? x < end : x > end; x += step)`, for both signs of the step. -/
theorem C23_range_len (s e st : Int) (hs : Fits s) (he : Fits e) (hst : Fits st) (h0 : st ≠ 0) :
    rangeLength s e st = ((forVals s e st).length : Int) := by
  rw [rangeLength_unwrapped s e st hs he hst]
  by_cases hp : st > 0
  · rw [forVals_up s e st hp]
    simp only [List.length_map, List.length_range]
    by_cases g : (s < e ∧ st ≤ 0) ∨ (s > e ∧ st ≥ 0)
    · rw [if_pos g, upCount_ge s e st hp (by omega)]; rfl
    · rw [if_neg g, if_pos hp]
      unfold upCount
      have : 0 ≤ (e - s + st - 1) / st := Int.ediv_nonneg (by omega) (by omega)
      omega
  · have hn : st < 0 := by omega
    rw [forVals_down s e st hn]
    simp only [List.length_map, List.length_range]
    by_cases g : (s < e ∧ st ≤ 0) ∨ (s > e ∧ st ≥ 0)
    · rw [if_pos g, downCount_le s e st hn (by omega)]; rfl
    · rw [if_neg g, if_neg hp]
      unfold downCount
      have : 0 ≤ (s - e + (-st) - 1) / (-st) := Int.ediv_nonneg (by omega) (by omega)
      omega

example : Fits 2 ∧ Fits 10 ∧ Fits 3 ∧ (3 : Int) ≠ 0 ∧ rangeLength 2 10 3 = 3 := by
  refine ⟨?_, ?_, ?_, ?_, ?_⟩ <;> decide

end Occa.Functional.C23
