/-
C20 (PARTIAL) — Translated kernels compute what the OKL kernel means, on every backend.

What is proved here is the loop-structure level (OccaModel/OklSem.lean, OccaModel/OklT.lean):
which statement instances the launcher-style translation executes under the GPU launch model,
that independent iterations may run in any interleaving within barrier phases, that the Serial
translation's exclusive arrays give every inner iteration its own cell.  Expression-level
rewrites, qualifiers, @restrict/@dim and the compilers are covered by the execution tie of
tools/checks/C20.py only (exploration).
-/
import OccaProofs.Lemmas.OklSem
import OccaModel.OklT
import OccaGen.OklFacts

namespace Occa.OklSem.C20
open Occa.OklSem

/-- what the whole launch grid executes -/
def GpuExecutes (od id : Nat → Nat) (s : Sem) (x : Inst) : Prop :=
  ∃ b t, InGrid od id b t ∧ x ∈ thr b t 0 0 [] [] [] s

/-- C20, index coverage: when all @outer (@inner) loops of the same nesting depth have the same
    positive trip count, the launch grid executes exactly the statement instances of the
    sequential reading: every one of them, and no other. -/
theorem C20_index_coverage_partial (od id : Nat → Nat) (hod : ∀ k, 0 < od k) (hid : ∀ k, 0 < id k)
    (s : Sem) (hu : Uniform od id 0 0 s) (x : Inst) :
    x ∈ seqTrace [] [] [] s ↔ GpuExecutes od id s x :=
  coverage od id hod hid s 0 0 [] [] [] x hu

example : ∃ s, Uniform (fun _ => 2) (fun _ => 3) 0 0 s ∧ (seqTrace [] [] [] s).length = 12 :=
  ⟨.outer 2 (.inner 3 (.stmt 0 .nil) (.inner 3 (.stmt 1 .nil) .nil)) .nil, by simp [Uniform], rfl⟩

/-- the statement the property makes for *every* rule-conforming kernel, with the dimensions the
    launcher actually takes (those of the first loop of each depth) -/
def C20_index_coverage_full : Prop :=
  ∀ (s : Sem) (x : Inst),
    x ∈ seqTrace [] [] [] s ↔ GpuExecutes (launchDims s).1 (launchDims s).2 s x

/-- … is false of the current code (finding F66): two sibling @inner loops with different trip counts
    pass every OKL rule; the launcher takes the dimensions of the first, the second then runs for
    thread indices it has no iteration for. -/
theorem C20_index_coverage_full_fails : ¬ C20_index_coverage_full := by
  intro h
  have := (h (.outer 1 (.inner 2 (.stmt 0 .nil) (.inner 1 (.stmt 1 .nil) .nil)) .nil) ⟨1, [0], [1], []⟩).2
    ⟨fun _ => 0, fun k => if k = 0 then 1 else 0,
      ⟨by
        intro k
        by_cases hk : k = 0
        · subst hk; simp [launchDims, firstCount]
        · have : ¬ 0 = k := fun h => hk h.symm
          simp [launchDims, firstCount, this],
       by
        intro k
        by_cases hk : k = 0
        · subst hk; simp [launchDims, firstCount]
        · have : ¬ 0 = k := fun h => hk h.symm
          simp [launchDims, firstCount, hk, this]⟩, by simp [thr]⟩
  simp [seqTrace] at this

/-- C20, independent iterations: the GPU runs the threads of a block phase by phase (a phase ends
    at a barrier); within a phase the steps of different threads may interleave in any way.  If
    within every phase steps of different threads commute, the block ends in the same state as
    the sequential reading, which runs the threads of each phase one after the other. -/
theorem C20_independent_commute {α σ : Type} (f : α → σ → σ)
    (phases : List (List (List α))) (exec : List (List α))
    (hlen : exec.length = phases.length)
    (hint : ∀ p (hp : p < phases.length), Interleave phases[p] (exec[p]'(by omega)))
    (hcomm : ∀ ph ∈ phases, CrossCommute f ph) (s : σ) :
    run f exec.flatten s = run f (phases.map List.flatten).flatten s := by
  induction phases generalizing exec s with
  | nil =>
    have : exec = [] := by simpa using hlen
    subst this; rfl
  | cons ph rest ih =>
    cases exec with
    | nil => simp at hlen
    | cons e es =>
      simp only [List.flatten_cons, List.map_cons, run_append]
      have h0 := hint 0 (by simp)
      simp only [List.getElem_cons_zero] at h0
      rw [run_interleave f ph e h0 (hcomm ph (by simp))]
      apply ih es (by simpa using hlen)
      · intro p hp
        have := hint (p + 1) (by simp; omega)
        simpa using this
      · intro q hq; exact hcomm q (by simp [hq])

example : Interleave [[1, 2], [3]] [1, 3, 2] :=
  .step [] 1 [2] [[3]] _ (.step [[2]] 3 [] [] _ (.step [] 2 [] [[]] _ (.done _ (by simp))))

/-- C20, @exclusive: in the Serial translation the exclusive index is set to 0 before every
    outer-most @inner loop and incremented at the end of every inner-most @inner body; so within a
    nest of @inner loops with trip counts `dims` the inner-most bodies see the values
    0, 1, …, ∏dims − 1 in order: the same inner iteration gets the same cell in every @inner
    section, different iterations get different cells, all below the array size ∏dims. -/
theorem C20_exclusive_private (dims : List Nat) :
    (counterRun dims 0).1 = List.range dims.prod ∧
    (counterRun dims 0).1.Nodup ∧ ∀ c ∈ (counterRun dims 0).1, c < dims.prod := by
  rw [counterRun_spec]
  refine ⟨?_, ?_, ?_⟩
  · simp [List.range_eq_range']
  · simp [List.nodup_range']
  · intro c hc
    simp [List.mem_range'] at hc
    omega

example : (counterRun [2, 3] 0).1 = [0, 1, 2, 3, 4, 5] := by rw [counterRun_spec]; rfl

open Occa.Okl Occa.OklT in
/-- C20, barriers: in the launcher-style translation an outer-most @inner loop that mentions a
    @shared variable and is followed by another @inner loop (in its block or in an enclosing block
    of the kernel) or lies inside a sequential loop, and is not marked @nobarrier, is followed by a
    barrier. -/
theorem C20_barrier_after_shared_section (c : LCtx) (o : Bool) (h : Hdr) (uses : List Bool) (kids next : Tree)
    (hin : c.inInner = false)
    (hfollow : hasInnerAttr next = true ∨ c.after = true ∨ c.inLoop = true)
    (hshared : uses.any id = true ∨ mentionsShared kids = true) :
    ∃ body, devGo c (.node ⟨.okl false true h false, uses⟩ kids next) =
      .node .block body (.node .barrier .nil (devGo c next)) := by
  refine ⟨TT.node .declPlain .nil (devGo ⟨c.dev, true, c.inLoop, c.after || hasInnerAttr next⟩ kids), ?_⟩
  have h1 : (hasInnerAttr next || c.after || c.inLoop) = true := by
    rcases hfollow with h | h | h <;> simp [h]
  have h2 : (uses.any id || mentionsShared kids) = true := by
    rcases hshared with h | h <;> simp [h]
  simp only [devGo, hin, h1, h2, Bool.not_false, Bool.and_true, Bool.true_and, ↓reduceIte, TT.leaf]

/-- the barrier rule above is the repaired one (F64): the source looks at every enclosing block -/
theorem C20_source_has_barrier_repair : Occa.Gen.Okl.barrierLooksUp = true := by decide

end Occa.OklSem.C20
