import OccaModel.Prim
namespace Occa.Prim.C14
open Occa Occa.CExpr Occa.CxxSem Occa.Prim

/-- placeholder while the framework is brought up -/
theorem C14_paren (e : Expr) : Prim.eval (.paren e) = Prim.eval e := by
  simp [Prim.eval]

end Occa.Prim.C14
