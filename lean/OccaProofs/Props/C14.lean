/-
C14 — Constant folding computes what C++ computes.

  implementation model   OccaModel/Prim.lean   (primitive::load, the operator functions and
                         exprNode::evaluate, over the tables GENERATED from primitive.cpp / .hpp,
                         operator.cpp, binaryOpNode.cpp by translate/gen_prim.py)
  specification          OccaModel/CxxSem.lean (C++17 on LP64, written from the standard; validated
                         against g++/clang constant evaluation on every run of tools/checks/C14.py)

Clauses of the property and where they are proved:
  (a) value, signedness and width equal the C++ result whenever that is defined
                                   C14_agrees_partial  (full statement: C14_agrees_full, refuted by
                                   C14_agrees_full_fails for the three deviations kept as known findings
                                   F36 `~bool`, F37 `bool & bool`, F38 `c ? int : unsigned`)
  (b) literal text gets the C++ type            C14_literal_type, C14_literal_in_context   (no guard)
  (c) operands C++ does not evaluate are not evaluated
                                   C14_lazy_and, C14_lazy_or, C14_lazy_cond   (no guard, any operand)
  corollary: no trap / exception / host UB on a defined expression     C14_defined_no_trap
  (a'), (b') the same for expressions with floating literals   C14_agrees_float_partial, C14_float_literal_type
All theorems are about ALL expression trees (induction on the tree, no depth bound).
Floating point (DESIGN.md section 3): the IEEE operations themselves are never reasoned about — they
are Lean's runtime `Float`/`Float32` in both the specification and the model.  (a') and (b') show that
occa applies THE SAME operations to THE SAME operands in the same types as C++ prescribes (so the
results are equal whatever the operations compute); that Lean's `Float` operations are what the host's
IEEE hardware and g++'s constant folder compute is covered by the correspondence run only.
-/
import OccaProofs.Lemmas.PrimEval
import OccaProofs.Lemmas.PrimEvalF

namespace Occa.Prim.C14
open Occa Occa.CExpr Occa.CxxSem Occa.Gen Occa.Prim Occa.Prim.Lemmas

/-- (a), full strength: for every integer/boolean expression whose C++ result is defined, occa's
    evaluator returns exactly that value with exactly that type. -/
def C14_agrees_full : Prop :=
  ∀ (e : Expr) (v : Val), integral e = true → evalTop e = .val v → Prim.eval e = .ok (Prim.ofVal v)

/-- `~true`: C++ promotes to int and gives -2; primitive::tilde has `case bool_: return !p.value.bool_` -/
def witnessTildeBool : Expr := .un .bnot (.lit (.bool true))
/-- `true & false`: C++ gives int 0; primitive::bitAnd raises for retType bool_ -/
def witnessBoolBitAnd : Expr := .bin .band (.lit (.bool true)) (.lit (.bool false))
/-- `true ? 1 : 2u`: C++ gives unsigned 1; ternaryOpNode::evaluate returns the int operand unconverted -/
def witnessMixedCond : Expr :=
  .tern (.lit (.bool true)) (.lit (.int ⟨[], ['1'], []⟩)) (.lit (.int ⟨[], ['2'], ['u']⟩))

/-- (a) is false of the current code: three concrete witnesses (known findings F36, F37, F38). -/
theorem C14_agrees_full_fails : ¬ C14_agrees_full := by
  intro h
  have := h witnessTildeBool ⟨.int, -2⟩ (by decide) (by decide)
  revert this
  decide

example : evalTop witnessBoolBitAnd = .val ⟨.int, 0⟩ ∧ Prim.eval witnessBoolBitAnd = .err := by decide
example : evalTop witnessMixedCond = .val ⟨.uint, 1⟩ ∧ Prim.eval witnessMixedCond = .ok ⟨some .int, 1⟩ := by decide

/-- (a), the strongest true restriction: outside the three deviations (`clean`, a decidable syntactic
    guard over the C++ static types) occa's result is the C++ result — value, signedness and width —
    for every integer/boolean expression tree whose C++ result is defined. -/
theorem C14_agrees_partial (e : Expr) (v : Val) (hi : integral e = true) (hc : clean e = true)
    (h : evalTop e = .val v) : Prim.eval e = .ok (Prim.ofVal v) := by
  unfold evalTop at h
  split at h
  · cases h
  · split at h
    · cases h
    · rename_i τ hτ
      exact (eval_agree e hi hc τ hτ v h).1

/-- hypotheses of `C14_agrees_partial` are satisfiable by a non-trivial tree:
    `(0 && 1 / 0) + (-1 >> 1u) * 0xFFFFFFFF` -/
example :
    let e : Expr := .bin .add
      (.paren (.bin .land (.lit (.int ⟨['0'], [], []⟩)) (.bin .div (.lit (.int ⟨[], ['1'], []⟩)) (.lit (.int ⟨['0'], [], []⟩)))))
      (.bin .mul (.paren (.bin .shr (.un .neg (.lit (.int ⟨[], ['1'], []⟩))) (.lit (.int ⟨[], ['1'], ['u']⟩))))
        (.lit (.int ⟨['0', 'x'], "FFFFFFFF".toList, []⟩)))
    integral e = true ∧ clean e = true ∧ evalTop e = .val ⟨.uint, 1⟩ ∧ Prim.eval e = .ok ⟨some .uint, 1⟩ := by
  decide

/-- (b) Literal text gets the type C++ gives it: for every well-formed integer literal (any base,
    any of the 23 suffix spellings, any digits) and for `true` / `false`, primitive::load returns the
    type and value of [lex.icon] Table 7. -/
theorem C14_literal_type (l : Lit) (v : Val) (hl : integral (.lit l) = true) (h : litVal l = .val v) :
    loadTok l.text = Prim.ofVal v :=
  (lit_agree hl h).1

/-- (b) in context: the tokenizer hands primitive::load a pointer into the source text, not an isolated
    token.  Whatever follows the literal (`rest`: nothing, a blank, a closing parenthesis or an
    operator character — `Term`), load returns the C++ type and value and stops exactly at the end of
    the literal. -/
theorem C14_literal_in_context (l : Lit) (v : Val) (hl : integral (.lit l) = true) (h : litVal l = .val v)
    (rest : List Char) (hr : Term rest) (fuel : Nat) :
    load (fuel + 1) (l.text ++ rest) true = (Prim.ofVal v, rest) := by
  cases l with
  | bool b => simp [litVal] at h; subst h; exact boollit_load b rest fuel
  | int il => exact (intlit_load il v h rest hr fuel).1
  | float fl => simp [integral] at hl

example : Term " + 1".toList := Or.inr ⟨' ', "+ 1".toList, rfl, by decide⟩
example : litVal (.int ⟨[], "2147483648".toList, []⟩) = .val ⟨.long, 2147483648⟩ := by decide
example : litVal (.int ⟨['0', 'x'], "FFFFFFFF".toList, []⟩) = .val ⟨.uint, 4294967295⟩ := by decide

/-- (a') The agreement extended to expressions with floating literals (decimal floating literals of the
    exactly converted subset, `f` suffix or not, mixed freely with integer and boolean operands):
    type and value of occa's result are the C++ result — as the same term over the IEEE operations.
    Guard `cleanF` = `clean` plus: `&&` / `||` with a floating operand need both operands of one type
    (occa tests the operands against zero after converting them to the larger type; that widening keeps
    "non-zero" is an IEEE fact nothing here assumes). -/
theorem C14_agrees_float_partial (e : Expr) (v : Val) (hc : cleanF e = true) (h : evalTop e = .val v) :
    Prim.eval e = .ok (Prim.ofVal v) := by
  unfold evalTop at h
  split at h
  · cases h
  · split at h
    · cases h
    · rename_i τ hτ
      exact (eval_agreeF e hc τ hτ v h).1

/-- the guard is satisfiable with floats: `(1 + 1.5f) * 2 < 0.5` (its *value* cannot be shown by kernel
    evaluation — IEEE operations are opaque to the kernel — the driver evaluates it: `f32`/`bool`) -/
example :
    cleanF (.bin .lt (.bin .mul (.paren (.bin .add (.lit (.int ⟨[], ['1'], []⟩)) (.lit (.float ⟨['1'], true, ['5'], none, ['f']⟩))))
        (.lit (.int ⟨[], ['2'], []⟩))) (.lit (.float ⟨['0'], true, ['5'], none, []⟩))) = true := by
  decide

/-- (b') Floating literal text gets the C++ type: `double`, or `float` with an f/F suffix — also behind
    an exponent (`1e5f`: primitive::load finds the suffix through its recursive call on the exponent). -/
theorem C14_float_literal_type (l : FloatLit) (v : Val) (h : floatLitVal l = .val v) :
    loadTok l.text = Prim.ofVal v ∧ (v.ty = .float ∨ v.ty = .double) :=
  floatlit_agree l v h

/-- (c) `&&`: when the left operand is false the right operand is not evaluated — the result does not
    depend on it at all, whatever it is (an expression that traps, raises, or is ill-formed). -/
theorem C14_lazy_and (l r : Expr) (p : Prim) (hl : Prim.eval l = .ok p) (hf : toBool p = .ok false) :
    Prim.eval (.bin .land l r) = .ok (Prim.ofVal (ofBool false)) := by
  have hs : p.ty.isSome = true := by
    cases hp : p.ty with
    | none => simp [toBool, toT, hp, Outcome.bind] at hf
    | some t => rfl
  simp [Prim.eval, hl, Outcome.bind, shortCircuit_on, hs, hf]

/-- (c) `||`: when the left operand is true the right operand is not evaluated. -/
theorem C14_lazy_or (l r : Expr) (p : Prim) (hl : Prim.eval l = .ok p) (ht : toBool p = .ok true) :
    Prim.eval (.bin .lor l r) = .ok (Prim.ofVal (ofBool true)) := by
  have hs : p.ty.isSome = true := by
    cases hp : p.ty with
    | none => simp [toBool, toT, hp, Outcome.bind] at ht
    | some t => rfl
  simp [Prim.eval, hl, Outcome.bind, shortCircuit_on, hs, ht]

/-- (c) `?:`: only the selected operand is evaluated. -/
theorem C14_lazy_cond (c t f : Expr) (p : Prim) (b : Bool) (hc : Prim.eval c = .ok p) (hb : toBool p = .ok b) :
    Prim.eval (.tern c t f) = if b then Prim.eval t else Prim.eval f := by
  simp [Prim.eval, hc, Outcome.bind, hb]

/-- the guarded division of the property statement: `0 && 1 / 0` is false, `1 / 0` alone traps or raises -/
example :
    Prim.eval (.bin .land (.lit (.int ⟨['0'], [], []⟩)) (.bin .div (.lit (.int ⟨[], ['1'], []⟩)) (.lit (.int ⟨['0'], [], []⟩))))
      = .ok ⟨some .bool, 0⟩ := by decide

/-- Corollary of (a): on a defined expression the evaluator neither traps (SIGFPE), nor raises, nor
    executes undefined behaviour of its own. -/
theorem C14_defined_no_trap (e : Expr) (v : Val) (hi : integral e = true) (hc : clean e = true)
    (h : evalTop e = .val v) : Prim.eval e ≠ .trap ∧ Prim.eval e ≠ .err ∧ Prim.eval e ≠ .ub := by
  rw [C14_agrees_partial e v hi hc h]
  exact ⟨by simp, by simp, by simp⟩

end Occa.Prim.C14
