/-
C30 — With sharable devices, concurrent handle use is race-free.

Model: OccaModel/GcConc.lean (micro-steps of the reference protocol, arbitrary schedules, any
number of threads); lock scopes: OccaGen/LockRegions.lean (regenerated from the C++).

  C30_locked_safe              if link, unlink+check+delete and the counter update are each one critical
                               section, EVERY schedule of EVERY set of thread programs is safe (no double
                               free, no use after free, no lost reference, no leak)
  C30_counter_exact            … and the byte counter at quiescence is exactly the sum of all updates
  C30_unlocked_check_races     if the needsFree() check is outside the unlink's critical section (what the
                               generated table says about the current tree) some schedule double-frees
  C30_nonatomic_counter_loses  if the counter update is a plain read-modify-write some schedule miscounts
  C30_unlocked_addRef_loses    if addRef is not locked some schedule loses a reference
The theorems are conditional on the lock configuration, so they keep checking whatever the table
says; the check (tools/checks/C30.py) reads the regenerated table to know which side applies.
What the model cannot exhibit: data races on plain fields as such, the C++ memory model, the
real mutex, races outside the reference protocol (kernel cache map, settings) — TSan only.
-/
import OccaModel.GcConc

namespace Occa.GcConc.C30
open Occa.GcConc

/-! ### invariant preservation for the atomic micro-steps -/

theorem inv_safe (s : State) (h : Inv s) : Safe s := by
  refine ⟨?_, ?_, ?_, ?_⟩
  · intro hd
    unfold DoubleFree at hd
    cases ha : s.alive
    · have := h.dead_once ha; omega
    · have := h.alive_zero ha; omega
  · intro hu; unfold UseAfterFree at hu; rw [h.no_uaf] at hu; cases hu
  · rintro ⟨x, hp, hn⟩; exact hn (h.ptr_ring x hp)
  · rintro ⟨ha, hu, hr⟩; exact h.no_leak hu ha hr

theorem inv_init (hs : List Nat) (hne : hs ≠ []) : Inv (init hs) := by
  refine ⟨?_, ?_, ?_, ?_, ?_, ?_⟩ <;> simp [init, hne]

private theorem mem_addTo (r : List Nat) (h x : Nat) : x ∈ addTo r h ↔ x ∈ r ∨ x = h := by
  unfold addTo
  split
  · rename_i hc
    simp only [List.contains_eq_mem, decide_eq_true_eq] at hc
    constructor
    · intro hx; exact Or.inl hx
    · rintro (hx | rfl)
      · exact hx
      · exact hc
  · simp

private theorem addTo_ne_nil (r : List Nat) (h : Nat) : addTo r h ≠ [] := by
  intro he
  have : h ∈ addTo r h := (mem_addTo r h h).2 (Or.inr rfl)
  rw [he] at this; cases this

theorem inv_link (s : State) (h src : Nat) (hi : Inv s) : Inv (exec s (.link h src)) := by
  simp only [exec]
  split
  · rename_i hp
    have hal : s.alive = true := hi.ring_alive (List.ne_nil_of_mem (hi.ptr_ring src hp))
    have ht : touch s = s := by simp [touch, hal]
    simp only [ht]
    refine ⟨?_, ?_, ?_, ?_, ?_, ?_⟩
    · intro x hx
      simp only [setPtr] at hx
      show x ∈ addTo s.ring h
      rw [mem_addTo]
      by_cases hxh : x = h
      · exact Or.inr hxh
      · simp [hxh] at hx; exact Or.inl (hi.ptr_ring x hx)
    · intro _; exact hal
    · intro ha; exact hi.dead_once ha
    · intro ha; exact hi.alive_zero ha
    · exact hi.no_uaf
    · intro _ _; exact addTo_ne_nil _ _
  · exact hi

theorem inv_release (s : State) (h : Nat) (hi : Inv s) : Inv (exec s (.release h)) := by
  simp only [exec]
  split
  · rename_i hp
    have hal : s.alive = true := hi.ring_alive (List.ne_nil_of_mem (hi.ptr_ring h hp))
    have ht : touch s = s := by simp [touch, hal]
    simp only [ht]
    have hz := hi.alive_zero hal
    unfold destroyIfNeeded
    by_cases hc : (s.useRefs && (s.ring.erase h).isEmpty) = true
    · simp only [hc, if_true]
      simp only [Bool.and_eq_true, List.isEmpty_iff] at hc
      refine ⟨?_, ?_, ?_, ?_, ?_, ?_⟩
      · intro x hx
        simp only [setPtr] at hx
        by_cases hxh : x = h
        · simp [hxh] at hx
        · simp [hxh] at hx
          have := hi.ptr_ring x hx
          have : x ∈ s.ring.erase h := (List.mem_erase_of_ne hxh).2 this
          rw [hc.2] at this; cases this
      · intro hne; exact absurd hc.2 hne
      · intro _; show s.dtorRuns + 1 = 1; omega
      · intro ha; cases ha
      · exact hi.no_uaf
      · intro _ ha; cases ha
    · simp only [hc, if_false, Bool.false_eq_true]
      refine ⟨?_, ?_, ?_, ?_, ?_, ?_⟩
      · intro x hx
        simp only [setPtr] at hx
        by_cases hxh : x = h
        · simp [hxh] at hx
        · simp [hxh] at hx
          exact (List.mem_erase_of_ne hxh).2 (hi.ptr_ring x hx)
      · intro _; exact hal
      · intro ha; exact hi.dead_once ha
      · intro ha; exact hi.alive_zero ha
      · exact hi.no_uaf
      · intro hu _ he
        apply hc
        simp only [Bool.and_eq_true, List.isEmpty_iff]
        exact ⟨hu, he⟩
  · exact hi

theorem inv_ctrAdd (s : State) (d : Int) (hi : Inv s) : Inv (exec s (.ctrAdd d)) := by
  simp only [exec]
  exact ⟨hi.ptr_ring, hi.ring_alive, hi.dead_once, hi.alive_zero, hi.no_uaf, hi.no_leak⟩

theorem inv_exec_atomic (s : State) (m : Micro) (ha : m.atomic = true) (hi : Inv s) : Inv (exec s m) := by
  cases m <;> simp [Micro.atomic] at ha
  · exact inv_link s _ _ hi
  · exact inv_release s _ hi
  · exact inv_ctrAdd s _ hi

/-! ### every schedule -/

def AllAtomic (ps : List (List Micro)) : Prop := ∀ p ∈ ps, ∀ m ∈ p, m.atomic = true

private theorem allAtomic_set (ps : List (List Micro)) (t : Nat) (m : Micro) (ms : List Micro)
    (h : AllAtomic ps) (hg : ps[t]? = some (m :: ms)) : AllAtomic (ps.set t ms) ∧ m.atomic = true := by
  have hmem : (m :: ms) ∈ ps := List.mem_of_getElem? hg
  refine ⟨?_, h _ hmem m (by simp)⟩
  intro p hp x hx
  rcases List.mem_or_eq_of_mem_set hp with hp' | rfl
  · exact h p hp' x hx
  · exact h _ hmem x (by simp [hx])

theorem inv_runSched (sched : List Nat) : ∀ (s : State) (ps : List (List Micro)),
    Inv s → AllAtomic ps → Inv (runSched s ps sched).1 := by
  induction sched with
  | nil => intro s ps hi _; simpa [runSched] using hi
  | cons t rest ih =>
    intro s ps hi ha
    unfold runSched
    split
    · rename_i m ms hg
      obtain ⟨ha', hm⟩ := allAtomic_set ps t m ms ha hg
      exact ih _ _ (inv_exec_atomic s m hm hi) ha'
    · exact ih _ _ hi ha

def FullyLocked (c : LockCfg) : Prop := c.addRefLocked = true ∧ c.checkInsideLock = true ∧ c.counterAtomic = true

theorem expand_atomic (c : LockCfg) (hc : FullyLocked c) (t : Nat) (o : Op) : ∀ m ∈ expand c t o, m.atomic = true := by
  obtain ⟨h1, h2, h3⟩ := hc
  cases o <;> simp [expand, h1, h2, h3, Micro.atomic]

theorem expandAll_atomic (c : LockCfg) (hc : FullyLocked c) (progs : List (List Op)) : AllAtomic (expandAll c progs) := by
  intro p hp m hm
  unfold expandAll at hp
  rw [List.mem_iff_getElem] at hp
  obtain ⟨i, hi, rfl⟩ := hp
  simp only [List.getElem_zipWith, expandProg, List.mem_flatMap] at hm
  obtain ⟨o, _, ho⟩ := hm
  exact expand_atomic c hc _ o m ho

/-- The property, for a lock configuration `c`: every schedule of every set of thread programs,
    starting from an object referenced by the handles `hs`, is safe. -/
def C30_full (c : LockCfg) : Prop :=
  ∀ (hs : List Nat), hs ≠ [] → ∀ (progs : List (List Op)) (sched : List Nat),
    Safe (runSched (init hs) (expandAll c progs) sched).1

/-- With the unlink, the needsFree() check and the delete in one critical section (and addRef
    locked), every interleaving of any number of threads is safe. -/
theorem C30_locked_safe (c : LockCfg) (hc : FullyLocked c) : C30_full c := by
  intro hs hne progs sched
  exact inv_safe _ (inv_runSched sched _ _ (inv_init hs hne) (expandAll_atomic c hc progs))

/-- non-vacuity: a fully locked configuration exists and a 3-thread program has the claimed safety -/
example : Safe (runSched (init [0]) (expandAll ⟨true, true, true, true⟩
    [[.acquire 1 0, .drop 1], [.acquire 2 0, .drop 2], [.drop 0]]) [0, 1, 2, 1, 0, 2]).1 :=
  C30_locked_safe _ ⟨rfl, rfl, rfl⟩ [0] (by simp) _ _

/-! ### the byte counter -/

/-- the counter change a micro-step performs when it is an atomic update -/
def delta : Micro → Int
  | .ctrAdd d => d
  | _ => 0

def pendingSum (ps : List (List Micro)) : Int :=
  (ps.map fun p => (p.map delta).sum).sum

private theorem exec_counter_atomic (s : State) (m : Micro) (ha : m.atomic = true) :
    (exec s m).counter = s.counter + delta m := by
  cases m <;> simp [Micro.atomic] at ha
  · simp only [exec, delta]; split <;> simp [touch]; split <;> simp
  · simp only [exec, delta]; split
    · simp only [touch, destroyIfNeeded]; split <;> split <;> simp
    · simp
  · simp [exec, delta]

private theorem sum_set (ps : List (List Micro)) (t : Nat) (m : Micro) (ms : List Micro)
    (hg : ps[t]? = some (m :: ms)) :
    pendingSum ps = pendingSum (ps.set t ms) + delta m := by
  unfold pendingSum
  induction ps generalizing t with
  | nil => simp at hg
  | cons p rest ih =>
    cases t with
    | zero =>
      simp only [List.getElem?_cons_zero, Option.some.injEq] at hg
      subst hg
      simp only [List.set_cons_zero, List.map_cons, List.sum_cons]
      omega
    | succ k =>
      simp only [List.getElem?_cons_succ] at hg
      simp only [List.set_cons_succ, List.map_cons, List.sum_cons]
      have := ih k hg
      omega

/-- counter + pending updates is invariant under every schedule when updates are atomic -/
theorem counter_conserved (sched : List Nat) : ∀ (s : State) (ps : List (List Micro)), AllAtomic ps →
    (runSched s ps sched).1.counter + pendingSum (runSched s ps sched).2 = s.counter + pendingSum ps := by
  induction sched with
  | nil => intro s ps _; simp [runSched]
  | cons t rest ih =>
    intro s ps ha
    unfold runSched
    split
    · rename_i m ms hg
      obtain ⟨ha', hm⟩ := allAtomic_set ps t m ms ha hg
      rw [ih _ _ ha', exec_counter_atomic s m hm, sum_set ps t m ms hg]
      omega
    · exact ih _ _ ha

/-- At quiescence (no thread has a step left) the counter equals the sum of all updates,
    whatever the schedule was: allocations and frees that cancel leave it at its initial value. -/
theorem C30_counter_exact (c : LockCfg) (hc : FullyLocked c) (hs : List Nat) (progs : List (List Op))
    (sched : List Nat) (hq : pendingSum (runSched (init hs) (expandAll c progs) sched).2 = 0) :
    (runSched (init hs) (expandAll c progs) sched).1.counter = pendingSum (expandAll c progs) := by
  have := counter_conserved sched (init hs) _ (expandAll_atomic c hc progs)
  rw [hq] at this
  simpa [init] using this

/-! ### what goes wrong when a region is not locked: concrete schedules -/

/-- If the needsFree() check runs outside the critical section of the unlink (the shape of all six
    remove*Ref functions in the current tree), two threads dropping the last two handles can both
    see an empty ring: the object is destroyed twice and read after its destruction. -/
theorem C30_unlocked_check_races (c : LockCfg) (h1 : c.removeRefLocked = true) (h2 : c.checkInsideLock = false) :
    ¬ C30_full c := by
  intro hf
  have := hf [0, 1] (by simp) [[.drop 0], [.drop 1]] [0, 1, 0, 1]
  obtain ⟨a, r, k, ca⟩ := c
  simp only at h1 h2
  subst h1 h2
  have hd : DoubleFree (runSched (init [0, 1]) (expandAll ⟨a, true, false, ca⟩ [[.drop 0], [.drop 1]]) [0, 1, 0, 1]).1 := by
    show 2 ≤ _
    cases a <;> cases ca <;> decide
  exact this.1 hd

/-- A non-atomic counter update loses an update under the schedule read₀, read₁, write₀, write₁. -/
theorem C30_nonatomic_counter_loses (c : LockCfg) (h : c.counterAtomic = false) :
    (runSched (init [0]) (expandAll c [[.alloc 8], [.alloc 8]]) [0, 1, 0, 1]).1.counter = 8 := by
  obtain ⟨a, r, k, ca⟩ := c
  simp only at h
  subst h
  cases a <;> cases r <;> cases k <;> decide

/-- An unlocked addRef loses a reference: two concurrent copies, one link is overwritten. -/
theorem C30_unlocked_addRef_loses (c : LockCfg) (h : c.addRefLocked = false) : ¬ C30_full c := by
  intro hf
  have := hf [0] (by simp) [[.acquire 1 0], [.acquire 2 0]] [0, 1, 0, 1]
  obtain ⟨a, r, k, ca⟩ := c
  simp only at h
  subst h
  apply this.2.2.1
  refine ⟨1, ?_, ?_⟩ <;> cases r <;> cases k <;> cases ca <;> decide

end Occa.GcConc.C30
