/-
C16 — The OKL front end reports malformed input instead of crashing.

What is PROVED here is deliberately small and exactly delimited: the token window
`occa::lang::tokenContext_t` (src/occa/internal/lang/tokenContext.cpp), through which the whole
statement parser reads its input.  The model (OccaModel/FrontEnd.lean) follows the C++ statement by
statement and makes the trapping operations explicit: unchecked `tokens[tokenIndices[i]]` reads, the
C cast to `pairOperator_t*`, the undefined 64-bit shift inside `bitfield::operator>>`, and the
default-inserting `pairs[pos]` of `getNextOperator` (non-termination = `hang`).  The operator table
the theorems quantify over is regenerated from operator.cpp on every run (OccaGen/PairOps.lean).

  (a) setup never traps, for every token list                        C16_tokctx_setup_total
  (b) unbalanced brackets are reported: no error flag ⇒ every opening bracket is bound to a later
      closing bracket of its kind and every closing bracket is bound   C16_tokctx_unbalanced_reported
  (c) after a successful setup, every history of navigation calls with arbitrary integer arguments
      stays inside the token vector, never traps, never hangs          C16_tokctx_history_safe
  (d) getNextOperator terminates: false for a context whose setup reported an error (kept as
      C16_getNextOperator_full / _full_fails), true otherwise          C16_getNextOperator_partial
  (e) bitfield::operator>> : undefined shift for shift = 128 (C16_bitfield_shr_full_fails), none for
      the only use in the front end, `>> 1`                            C16_bitfield_shr_partial
  (f) the C cast `(pairOperator_t*) op` is applied only to pair operators   C16_pair_cast_sound

Everything else of the property (tokenizer, preprocessor, statement parser, type loaders, attribute
transforms, the seven backends' tree surgery, recursion depth) is NOT modelled: for that part the
check is exploration (harness/fuzz_okl.cpp), see design-notes/C16.md.
-/
import OccaProofs.Lemmas.FrontEndSafe

namespace Occa.FrontEnd.C16
open Occa Occa.FrontEnd

/-! ### example tokens: `x ( y ; ) ]`-style lists built from the generated table -/

def opOf (name : String) : Tok :=
  match Gen.PairOps.ops.find? (fun e => e.1 == name) with
  | some (_, _, b1, b2, p) => .op ⟨⟨b1, b2⟩, p⟩
  | none => .other false

def exBalanced : Array Tok := #[.other false, opOf "parenthesesStart", .other true, opOf "bracketStart", opOf "bracketEnd",
                                opOf "semicolon", opOf "parenthesesEnd", opOf "semicolon"]
def exUnclosed : Array Tok := #[.other false, opOf "parenthesesStart"]
def exMismatch : Array Tok := #[opOf "parenthesesStart", opOf "bracketEnd"]

private theorem exBalanced_typed : Typed exBalanced := typed_of_check _ (by decide)
private theorem exUnclosed_typed : Typed exUnclosed := typed_of_check _ (by decide)

/-! ### (a) setup -/

/-- (a) For every list of tokens whose operator tokens refer to operator objects of operator.cpp,
    `tokenContext_t::setup` returns normally: no out-of-bounds read, no bad cast, no undefined
    shift, no exception. -/
theorem C16_tokctx_setup_total (tokens : Array Tok) (ht : Typed tokens) :
    ∃ c, setup tokens = .ok c := by
  obtain ⟨c, h, _⟩ := setup_spec tokens ht
  exact ⟨c, h⟩

example : ∃ c, setup exBalanced = .ok c := C16_tokctx_setup_total _ exBalanced_typed

/-! ### (b) unbalanced brackets are reported -/

/-- (b) If `setup` does not raise `hasError`, the pair map is a complete matching: bindings go
    forward and stay inside the list, join an opening bracket with a closing bracket of the same
    kind (the C++ test), every opening bracket has a binding and every closing bracket is one.
    Contrapositive: an unclosed, unopened or mismatched bracket sets `hasError`, and the parser
    stops (`success &= !tokenContext.hasError`). -/
theorem C16_tokctx_unbalanced_reported (tokens : Array Tok) (ht : Typed tokens) (c : Ctx)
    (hs : setup tokens = .ok c) (he : c.hasError = false) :
    PairsBounded c ∧ PairsMatch c ∧ Covered c ∧ ClosersCovered c := by
  obtain ⟨c', h, _, hb, _, _, _, hc, hm, hcl, _⟩ := setup_spec tokens ht
  rw [hs] at h
  cases h
  exact ⟨hb, hm, hc he, hcl he⟩

example : (match setup exBalanced with | .ok c => c.hasError | _ => true) = false := by decide
example : (match setup exUnclosed with | .ok c => c.hasError | _ => false) = true := by decide
example : (match setup exMismatch with | .ok c => c.hasError | _ => false) = true := by decide

/-! ### (c) navigation histories -/

/-- (c) After a `setup` that reported no error, every sequence of navigation calls (`set`, `push`,
    `pop`, `popAndSkip`, `pushPairRange`, `operator[]`, `end`, `getClosingPair(Token)`,
    `getNextOperator`, `getPrintToken`) with arbitrary integer arguments runs to completion: every token read is
    inside the vectors, nothing hangs; calls that raise occa::exception (pop of an empty stack,
    pushPairRange without a pair) are allowed by the property and leave the context unchanged. -/
theorem C16_tokctx_history_safe (tokens : Array Tok) (ht : Typed tokens) (c : Ctx)
    (hs : setup tokens = .ok c) (he : c.hasError = false) (ops : List NavOp) :
    ∃ c', c.run ops = .ok c' := by
  obtain ⟨c', h, hv, hb, _, _, _, hc, _⟩ := setup_spec tokens ht
  rw [hs] at h
  cases h
  obtain ⟨c'', h2, _⟩ := run_good ⟨hv, hb, hc he⟩ ops
  exact ⟨c'', h2⟩

example : (do let c ← setup exBalanced
              let c' ← c.run [.push2 1 100, .set1 (-3), .at 7, .pop, .pop, .next semicolonM, .pushPairRange,
                              .closingTok, .popAndSkip]
              pure (c.hasError, c.pairs, c'.tp) : Res _) = .ok (false, [(1, 5), (2, 3)], ⟨0, 7⟩) := by decide

/-- the window never leaves the token list (the invariant behind (c)) -/
theorem C16_tokctx_window_in_bounds (tokens : Array Tok) (ht : Typed tokens) (c : Ctx)
    (hs : setup tokens = .ok c) (he : c.hasError = false) (ops : List NavOp) (c' : Ctx)
    (hr : c.run ops = .ok c') :
    0 ≤ c'.tp.start ∧ c'.tp.start ≤ c'.tp.stop ∧ c'.tp.stop ≤ (c'.tokenIndices.size : Int) := by
  obtain ⟨c0, h, hv, hb, _, _, _, hc, _⟩ := setup_spec tokens ht
  rw [hs] at h
  cases h
  obtain ⟨c'', h2, hg⟩ := run_good ⟨hv, hb, hc he⟩ ops
  rw [hr] at h2
  cases h2
  exact ⟨hg.valid.lo, hg.valid.mid, hg.valid.hi⟩

/-! ### (d) getNextOperator -/

/-- full strength: on every context produced by `setup`, `getNextOperator` terminates -/
def C16_getNextOperator_full : Prop :=
  ∀ (tokens : Array Tok), Typed tokens → ∀ c, setup tokens = .ok c →
    ∀ m, ∃ fuel, c.getNextOperator m fuel ≠ .hang

private theorem hang_loop (c : Ctx) (m : Bitfield) (o : Op)
    (hget : c.getToken 1 = .ok (.op o)) (hm : (o.opType.and m).toBool = false)
    (hs : (o.opType.and pairStartM).toBool = true) (hstop : (1 : Int) < c.tp.stop) :
    ∀ fuel, getNextOperatorLoop c m fuel 1 [(1, 0)] = .hang := by
  intro fuel
  induction fuel with
  | zero => rfl
  | succ n ih =>
    unfold getNextOperatorLoop
    simp only [hstop, if_true, hget, ok_bind, hm, Bool.false_eq_true, if_false, hs, lookup]
    simpa using ih

/-- witness: `x (` — setup reports the unclosed parenthesis; a later `getNextOperator(semicolon)`
    reads `pairs[1]`, gets the default 0, and returns to position 1 for ever.  (Not reachable through
    parser_t, which stops on `hasError`; it is the reason (c) needs `hasError = false`.) -/
theorem C16_getNextOperator_full_fails : ¬ C16_getNextOperator_full := by
  intro h
  have ht : Typed exUnclosed := exUnclosed_typed
  obtain ⟨c, hc⟩ : ∃ c, setup exUnclosed = .ok c := C16_tokctx_setup_total _ ht
  obtain ⟨fuel, hf⟩ := h exUnclosed ht c hc semicolonM
  apply hf
  have hc' : setup exUnclosed = .ok c := hc
  have e : setup exUnclosed = .ok ⟨exUnclosed, #[0, 1], [], [], true, false, [], ⟨0, 2⟩⟩ := by decide
  rw [e] at hc'
  cases hc'
  cases fuel with
  | zero => rfl
  | succ n =>
    cases n with
    | zero => rfl
    | succ n =>
      have hl := hang_loop ⟨exUnclosed, #[0, 1], [], [], true, false, [], ⟨0, 2⟩⟩ semicolonM
        ⟨⟨Gen.PairOps.parenthesesStartMask.1, Gen.PairOps.parenthesesStartMask.2⟩, true⟩
        (by decide) (by decide) (by decide) (by decide) n
      unfold Ctx.getNextOperator
      have : getNextOperatorLoop ⟨exUnclosed, #[0, 1], [], [], true, false, [], ⟨0, 2⟩⟩ semicolonM (n + 1 + 1) 0 []
          = getNextOperatorLoop ⟨exUnclosed, #[0, 1], [], [], true, false, [], ⟨0, 2⟩⟩ semicolonM n 1 [(1, 0)] := by
        rfl
      simp only [this, hl]
      rfl

/-- (d) the strongest true restriction: on a context whose setup reported no error (and after any
    navigation history), `getNextOperator` returns within `size + 1` iterations, does not touch the
    pair map, and answers -1 or a position inside the window. -/
theorem C16_getNextOperator_partial (tokens : Array Tok) (ht : Typed tokens) (c : Ctx)
    (hs : setup tokens = .ok c) (he : c.hasError = false) (ops : List NavOp) (c' : Ctx)
    (hr : c.run ops = .ok c') (m : Bitfield) :
    ∃ r, c'.getNextOperator m (c'.size.toNat + 1) = .ok (c', r) ∧ (r = -1 ∨ (0 ≤ r ∧ r < c'.size)) := by
  obtain ⟨c0, h, hv, hb, _, _, _, hc, _⟩ := setup_spec tokens ht
  rw [hs] at h
  cases h
  obtain ⟨c'', h2, hg⟩ := run_good ⟨hv, hb, hc he⟩ ops
  rw [hr] at h2
  cases h2
  exact getNextOperator_ok hg m _ (by omega)

/-! ### (e) bitfield::operator>> -/

/-- full strength: `operator>>` has no undefined behaviour for any shift -/
def C16_bitfield_shr_full : Prop := ∀ (x : Bitfield) (shift : Int), x.shr shift ≠ .trap

/-- witness: `shift == 128` passes the `shift > 2 * bSize` test and evaluates `b1 >> 64` -/
theorem C16_bitfield_shr_full_fails : ¬ C16_bitfield_shr_full := by
  intro h
  exact h ⟨1, 1⟩ 128 (by decide)

/-- (e) no undefined shift for every shift other than 128; in particular for `>> 1`, the only
    use in the front end (findPairs) -/
theorem C16_bitfield_shr_partial (x : Bitfield) (shift : Int) (h : shift ≠ 128) : x.shr shift ≠ .trap := by
  unfold Bitfield.shr
  split
  · simp
  · split
    · simp
    · split
      · split
        · omega
        · simp
      · simp

example : (Bitfield.mk 3 5).shr 1 = .ok ⟨1, 2 + 9223372036854775808⟩ := by decide

/-! ### (f) the C cast in findPairs -/

/-- (f) every operator object of operator.cpp whose opType has a `pair` bit is constructed as a
    `pairOperator_t`, so `(pairOperator_t*) token->to<operatorToken>().op` reads a real `pairStr`;
    and the C++ kind test `start.opType == (end.opType >> 1)` holds exactly for `{}`, `[]`, `()`,
    `<<< >>>` (re-checked against the regenerated table on every run). -/
theorem C16_pair_cast_sound :
    (∀ o ∈ knownOps, (o.opType.and pairM).toBool = true → o.isPairOp = true) ∧
    (∀ a ∈ knownOps, ∀ b ∈ knownOps, (a.opType.and pairStartM).toBool = true →
       (b.opType.and pairM).toBool = true → (b.opType.and pairStartM).toBool = false →
       (b.opType.shr 1 = .ok a.opType ↔ b.opType = ⟨2 * a.opType.b1, 2 * a.opType.b2⟩)) := by
  constructor
  · exact knownOps_pair_isPairOp
  · decide +kernel

end Occa.FrontEnd.C16
