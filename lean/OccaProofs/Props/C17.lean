/-
C17 — every backend visits exactly the iterations of each OKL loop.

Model: OccaModel/Loop.lean (numbers), OccaModel/LoopExpr.lean (trees and their printed text).
Clauses of the property:
  (a) launcher backends: the launch size and the index→iterator map reproduce the sequential loop's
      iterator values, each once, for every comparison / operand order / update form / positive step and
      for every operand value incl. empty and "negative" ranges           C17_launch_eq_seq, C17_each_once,
                                                                             C17_empty_range, C17_nest
  (b) Serial/OpenMP keep the loop                                          C17_kept_loop
  (c) operands are used as complete expressions whatever operators they contain
                                                                            C17_count_expr_value, C17_value_expr_value,
                                                                            C17_count_expr_faithful, C17_value_expr_faithful
                                                                            (+ C17_count_expr_old_misread: the tree built
                                                                            before fix F23)
  recorded finding that restricts (a): F72 (`long` iterators on 32-bit-unsigned thread indices): `_full`,
  `_full_fails`, `_partial`.  F70 (comparison and update direction disagree) is fixed: the translators now reject
  such headers (C17_valid_enforced, C17_invalid_direction_rejected); C17_direction_full_fails keeps the witness.
-/
import OccaProofs.Lemmas.Loop
import OccaProofs.Lemmas.ExprGroup
import OccaProofs.Lemmas.ExprGrammar

namespace Occa.Loop.C17
open Occa Occa.Loop Occa.LoopExpr

/-- Fuel: the sequential loop of the model is the C loop — running it with *any* larger amount of fuel
    gives the same list, so `seqIters` is not an artefact of the fuel bound. -/
theorem C17_seq_fuel (h : Header) (hv : h.Valid) (hs : 0 < h.step) (n : Nat) (hn : h.fuel ≤ n) :
    runFuel h n h.init = seqIters h :=
  runFuel_enough h hv hs n hn

example : (⟨3, 17, .le, true, .addEq 4⟩ : Header).Valid ∧ 0 < (⟨3, 17, .le, true, .addEq 4⟩ : Header).step := by decide

/-- (a) The threads launched for an OKL loop compute exactly the iterator values of the sequential loop,
    in index order: for all integer `init`, `bound`, all four comparisons, both operand orders,
    `++ -- += -=` with any positive step, whether the range is non-empty, empty or negative. -/
theorem C17_launch_eq_seq (h : Header) (hv : h.Valid) (hs : 0 < h.step) (hr : h.DimInRange) :
    launchIters h = seqIters h := by
  rw [launchIters_closed h hv hr, seqIters_closed h hv hs]

example : launchIters ⟨7, -2, .ge, true, .subEq 3⟩ = [7, 4, 1, -2] := by decide
example : launchIters ⟨0, -5, .lt, true, .addEq 3⟩ = [] ∧ count ⟨0, -5, .lt, true, .addEq 3⟩ = -1 := by decide

/-- (a) "each once": the sequential loop never takes a value twice, hence neither does the launch. -/
theorem C17_each_once (h : Header) (hv : h.Valid) (hs : 0 < h.step) : (seqIters h).Nodup := by
  rw [seqIters_closed h hv hs]
  refine List.Pairwise.map _ ?_ List.nodup_range
  intro a b hne hab
  apply hne
  simp only [valueOf_eq] at hab
  have key : h.step * (Int.ofNat a) = h.step * (Int.ofNat b) := by
    split at hab <;> omega
  have := Int.eq_of_mul_eq_mul_left (Int.ne_of_gt hs) key
  exact Int.ofNat.inj this

example : (⟨10, 1, .gt, false, .subEq 4⟩ : Header).Valid = False ∧ (⟨10, 1, .lt, false, .subEq 4⟩ : Header).Valid ∧
    seqIters ⟨10, 1, .lt, false, .subEq 4⟩ = [10, 6, 2] ∧ (⟨10, 1, .lt, false, .subEq 4⟩ : Header).DimInRange := by decide

/-- (a) run-time bounds that make the loop empty — by any amount — launch nothing. -/
theorem C17_empty_range (h : Header) (hv : h.Valid) (hs : 0 < h.step) (hr : h.DimInRange)
    (hempty : h.test h.init = false) : launchIters h = [] := by
  rw [C17_launch_eq_seq h hv hs hr]
  unfold seqIters Header.fuel runFuel
  simp [hempty]

example : (⟨0, -100, .lt, true, .addEq 3⟩ : Header).test 0 = false := by decide

/-- (a) a perfect nest of independent OKL loops: the launch (one dimension per loop, suppressed as a whole
    when any dimension is noop) visits the iterator tuples of the sequential nest, in the same order. -/
theorem C17_nest (hs : List Header) (hok : ∀ h ∈ hs, h.Valid ∧ 0 < h.step ∧ h.DimInRange) :
    launchNest hs = seqNest hs := by
  have key : ∀ l : List Header, (∀ h ∈ l, h.Valid ∧ 0 < h.step ∧ h.DimInRange) →
      (∀ h ∈ l, isNoopDim (toUDim (count h)) = false) → launchNest.go l = seqNest l := by
    intro l
    induction l with
    | nil => intro _ _; rfl
    | cons h r ih =>
      intro hv hn
      obtain ⟨v, s, d⟩ := hv h (by simp)
      have hl : launched (toUDim (count h)) = toUDim (count h) := by
        unfold launched; rw [hn h (by simp)]; rfl
      have e : (List.range (toUDim (count h))).map (fun k => valueOf h (Int.ofNat k)) = seqIters h := by
        rw [← hl]; exact C17_launch_eq_seq h v s d
      unfold launchNest.go seqNest
      rw [e, ih (fun x hx => hv x (by simp [hx])) (fun x hx => hn x (by simp [hx]))]
  unfold launchNest
  by_cases hany : hs.any (fun h => isNoopDim (toUDim (count h))) = true
  · rw [if_pos hany]
    -- some dimension is noop: that loop is sequentially empty, so the nest is empty
    obtain ⟨h, hm, hz⟩ := List.any_eq_true.mp hany
    obtain ⟨v, s, d⟩ := hok h hm
    have hempty : seqIters h = [] := by
      rw [← C17_launch_eq_seq h v s d]
      unfold launchIters launched
      rw [hz]; rfl
    clear hany hz
    induction hs with
    | nil => cases hm
    | cons x r ih =>
      unfold seqNest
      rcases List.mem_cons.mp hm with rfl | hr
      · rw [hempty]; rfl
      · have := ih (fun y hy => hok y (by simp [hy])) hr
        rw [← this]
        simp
  · rw [if_neg hany]
    apply key hs hok
    intro h hm
    by_contra hc
    exact hany (List.any_eq_true.mpr ⟨h, hm, by simpa using hc⟩)

example : launchNest [⟨0, 2, .lt, true, .inc⟩, ⟨5, 3, .gt, true, .dec⟩] = [[0, 5], [0, 4], [1, 5], [1, 4]] := by decide

/-- (b) Serial and OpenMP print the loop header they were given (attributes dropped), so the C++ compiler
    runs the original sequential loop. -/
theorem C17_kept_loop (l : LoopSpec) : hostLines false [.loop l] false = [forText l] := rfl

/-! ### (c) operands as complete expressions -/

/-- The count tree evaluates to the model's `count` of the evaluated header, whatever the operand
    expressions are (tree level: grouping is what the tree says). -/
theorem C17_count_expr_value (l : LoopSpec) (env : String → Int) :
    eval env (countExpr l) = count (l.header env) :=
  countExpr_value l env

/-- Same for the iterator reconstruction `(init) ± ((s) * (index))`. -/
theorem C17_value_expr_value (l : LoopSpec) (env : String → Int) (magic : String) :
    eval env (valueExpr l magic) = valueOf (l.header env) (env magic) :=
  valueExpr_value l env magic

/-- The printer adds no parentheses, so what the backend compiler reads is decided by the C expression
    grammar (`Derives`, OccaProofs/Lemmas/ExprGrammar.lean: the stratified grammar over the precedence
    table regenerated from operator.cpp, which `occa_prec_is_cxx` shows to be the C++ one).
    For operand expressions of *every* operator class — they only have to be `Grouped` themselves, as
    everything the OKL parser produced is — the text emitted for a launch dimension is the rendering of a
    token sequence that the grammar derives as a tree `r` whose value is the model's `count`. -/
theorem C17_count_expr_faithful (l : LoopSpec) (hi : Grouped l.init) (hb : Grouped l.bound)
    (hst : ∀ s, l.step = some s → Grouped s) :
    ∃ (r : Expr) (ts : List Tok), renderAll ts = print (countExpr l) ∧ Derives 16 ts r ∧
      ∀ env, eval env r = count (l.header env) := by
  obtain ⟨ts, h1, h2⟩ := grouped_reads (countRead l) (countRead_grouped l hi hb hst)
  exact ⟨countRead l, ts, by rw [h1, countRead_print], h2, countRead_value l⟩

example : Grouped (.bin "|" (.var "a") (.tern (.var "c") (.lit 1) (.lit 2))) = False := by decide
example : Grouped (.tern (.bin "&" (.var "a") (.var "b")) (.lit 1) (.bin "||" (.var "c") (.var "a"))) := by decide

/-- The iterator reconstruction `(init) ± ((s) * (index))` is read as built. -/
theorem C17_value_expr_faithful (l : LoopSpec) (magic : String) (hi : Grouped l.init)
    (hst : ∀ s, l.step = some s → Grouped s) :
    ∃ ts : List Tok, renderAll ts = print (valueExpr l magic) ∧ Derives 16 ts (valueExpr l magic) :=
  grouped_reads _ (valueExpr_grouped l magic hi hst)

/-- Before fix F23 (`bound` pasted without parentheses) the text for `for (o = N; o > a + b; --o)` was
    `N - a + b`: the grammar derives it as `(N - a) + b`, whose value differs from the count
    (N = 9, a = 2, b = 3: 10 work-groups for 4 iterations). -/
theorem C17_count_expr_old_misread :
    let l : LoopSpec := { var := "o", attr := .outer, index := none, ityp := "int", init := .var "N", cmp := .gt,
                          boundOnRight := true, bound := .bin "+" (.var "a") (.var "b"), positive := false,
                          post := false, step := none }
    let r : Expr := .bin "+" (.bin "-" (.var "N") (.var "a")) (.var "b")
    let env : String → Int := fun n => if n = "N" then 9 else if n = "a" then 2 else 3
    (∃ ts, renderAll ts = print (countExprOld l) ∧ Derives 16 ts r) ∧ eval env r = 10 ∧ count (l.header env) = 4 := by
  refine ⟨?_, by decide, by decide⟩
  obtain ⟨ts, h1, h2⟩ := grouped_reads (.bin "+" (.bin "-" (.var "N") (.var "a")) (.var "b")) (by decide)
  exact ⟨ts, by rw [h1]; decide, h2⟩

/-! ### recorded findings -/

/-- F72: with a `long` iterator on CUDA/HIP/Metal the reconstruction is evaluated in `unsigned int`. -/
def C17_u32_long_full : Prop :=
  ∀ h : Header, h.Valid → 0 < h.step → h.DimInRange → launchItersU32 h = seqIters h

theorem C17_u32_long_full_fails : ¬ C17_u32_long_full := by
  intro hf
  have := hf ⟨-2, 1, .lt, true, .inc⟩ (by decide) (by decide) (by decide)
  revert this
  decide

/-- … it is right exactly when every visited value is a non-negative 32-bit number. -/
theorem C17_u32_long_partial (h : Header) (hv : h.Valid) (hs : 0 < h.step) (hr : h.DimInRange)
    (hnn : ∀ x ∈ seqIters h, 0 ≤ x ∧ x < 4294967296) : launchItersU32 h = seqIters h := by
  have e := C17_launch_eq_seq h hv hs hr
  unfold launchItersU32
  unfold launchIters at e
  rw [← e] at hnn
  rw [← e]
  apply List.map_congr_left
  intro k hk
  have := hnn (valueOf h (Int.ofNat k)) (List.mem_map.mpr ⟨k, hk, rfl⟩)
  unfold valueOfU32
  have p : (2 : Int) ^ 32 = 4294967296 := by decide
  rw [p]
  exact Int.emod_eq_of_lt this.1 this.2

/-- Since fix F70 the `oklForStatement` constructor rejects every header whose update moves away from the bound:
    the translators accept a header only if its evaluated form is `Valid`, for every operand value.  So the
    hypothesis `Valid` of `C17_launch_eq_seq` holds of every loop that is translated at all. -/
theorem C17_valid_enforced (l : LoopSpec) (env : String → Int) :
    directionOk l = true ↔ (l.header env).Valid := by
  obtain ⟨var, attr, index, ityp, init, cmp, right, bound, positive, post, step⟩ := l
  cases cmp <;> cases right <;> cases positive <;> cases step <;>
    simp [directionOk, LoopSpec.header, Header.Valid, Header.upward, Header.positiveUpdate]

theorem C17_invalid_direction_rejected (l : LoopSpec) (t : Option TileSpec) (h : directionOk l = false)
    (hokl : l.attr ≠ .none) : nestRejected [(l, t)] = true := by
  simp [nestRejected, loopRejected, h, hokl]

/-- F70 (before the fix OKL never checked that comparison and update agree): without `Valid` the statement is
    false — this is why the guard is needed. -/
def C17_direction_full : Prop :=
  ∀ h : Header, 0 < h.step → h.DimInRange → launchIters h = seqIters h

theorem C17_direction_full_fails : ¬ C17_direction_full := by
  intro hf
  have := hf ⟨0, 3, .gt, true, .inc⟩ (by decide) (by decide)
  revert this
  decide

end Occa.Loop.C17
