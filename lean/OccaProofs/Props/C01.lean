/-
C01 — Handles release each backend object exactly once, for any handle history.

Model: OccaModel/Gc.lean (the repaired code: fixes F01 swap, F02 device free).  `run ops` is the state
after any list of operations (construct / copy / assign / swap / free / destroy / dontUseRefs of handle
variables of the five classes, and the calls that create devices, memories, slices, pools, pool
reservations, kernels and streams, get/set the current stream, recover the device of an object) from
the empty initial state; operations on variables that do not exist are rejected without effect, so every
list of operations is a history.  Nothing below bounds the length of the history, the number of
variables or the number of objects.

Clauses of the property:
  (a) each backend object is destroyed at most once, and exactly once when it has gone
                                                        C01_destroyed_at_most_once
  (b) … and is never touched afterwards               C01_never_touched_after_destruction
  (c) handles only point to live objects of their class, and a handle points to an object exactly when
      it is an entry of that object's reference ring   C01_handles_point_to_live_objects,
                                                        C01_ring_membership_iff_pointer
  (d) after free() every handle that referred to the object is uninitialised, the object is destroyed
                                                        C01_free_clears_every_alias
  (e) nothing alive is ownerless: every live object has a handle or a live owner, objects of a freed
      device are gone                                  C01_live_objects_have_owners
  (f) no history leaks: once all variables are destroyed, only objects pinned by dontUseRefs (and what
      they own) can be alive                            C01_no_leak
  (g) the pointer-level ring code of gc.tpp computes the list operations the handle model uses
                                                        C01_ring_addRef_refines, C01_ring_removeRef_refines, …
The accounted bytes (device.memoryAllocated) are part of the model and of the differential run but no
theorem is stated about them here (C05).
-/
import OccaProofs.Lemmas.GcUse
import OccaProofs.Lemmas.GcRing

namespace Occa.Gc.C01
open Occa.Gc

private theorem run_eq (ops : List Op) : run ops = runFrom St.init ops := rfl

private theorem run_snoc (ops : List Op) (op : Op) : run (ops ++ [op]) = (step (run ops) op).1 := by
  simp [run, List.foldl_append]

/-- the full invariant, for every history -/
theorem C01_inv (ops : List Op) : Inv (run ops) := run_inv ops

/-- (b) no operation of any history reads, writes or destroys an object that has already been
    destroyed (`trap` is set by every such access in the model) -/
theorem C01_never_touched_after_destruction (ops : List Op) : (run ops).trap = false :=
  (run_inv ops).inv.notrap

/-- (a) the destructor of an object runs at most once; it has not run while the object is alive and
    has run exactly once when the object is gone -/
theorem C01_destroyed_at_most_once (ops : List Op) (o : Nat) :
    (run ops).dtors o ≤ 1
      ∧ ((run ops).alive o = true → (run ops).dtors o = 0)
      ∧ (o < (run ops).next → (run ops).alive o = false → (run ops).dtors o = 1) := by
  have h := (run_inv ops).inv.dtors_eq o
  refine ⟨?_, ?_, ?_⟩
  · rw [h]; split <;> omega
  · intro ha; rw [h]; simp [ha]
  · intro h1 h2; rw [h]; simp [h1, h2]

/-- (c) a handle that holds a pointer is a live variable (or member), the object is alive and of the
    handle's class -/
theorem C01_handles_point_to_live_objects (ops : List Op) (v : Var) (o : Nat)
    (hp : (run ops).ptr v = some o) :
    (run ops).alive o = true ∧ (run ops).kind o = v.kind.obj ∧ (run ops).vlive v = true :=
  ⟨((run_inv ops).ptr_facts hp).1, ((run_inv ops).ptr_facts hp).2.1, (run_inv ops).inv.ptr_live v o hp⟩

/-- (c) ring membership and pointers agree, and no handle is twice in a ring -/
theorem C01_ring_membership_iff_pointer (ops : List Op) (v : Var) (o : Nat) :
    (v ∈ (run ops).ring o ↔ (run ops).ptr v = some o) ∧ ((run ops).ring o).Nodup :=
  ⟨⟨(run_inv ops).inv.ring_ptr v o, fun hp => ((run_inv ops).ptr_facts hp).2.2⟩,
    (run_inv ops).inv.ring_nodup o⟩

/-- (d) `free()` through an initialised handle: the object is destroyed (once) and no handle at all
    refers to it afterwards — every alias reports `isInitialized() == false` -/
theorem C01_free_clears_every_alias (ops : List Op) (k : HKind) (i o : Nat)
    (hl : (run ops).vlive (.user k i) = true) (hp : (run ops).ptr (.user k i) = some o) :
    (run (ops ++ [.free k i])).alive o = false
      ∧ (run (ops ++ [.free k i])).dtors o = 1
      ∧ ∀ w, (run (ops ++ [.free k i])).ptr w ≠ some o := by
  have h := run_inv ops
  have h' := run_inv (ops ++ [.free k i])
  obtain ⟨hd, hn⟩ := free_dead h hl hp
  rw [← run_snoc] at hd hn
  have hlt : o < (run ops).next := h.inv.alive_lt o (h.ptr_facts hp).1
  refine ⟨hd, ?_, ?_⟩
  · rw [h'.inv.dtors_eq o, hn]; simp [hlt, hd]
  · intro w hw
    have := (h'.ptr_facts hw).1
    rw [hd] at this; cases this

/-- (e) every live object has an owner: a device, pool, kernel, stream or memory object that counts
    references has a handle; a memory object sits in a live buffer or pool; a buffer has a slice or is
    the inner buffer of a live pool; everything except a device belongs to a live device — so nothing
    of a destroyed device survives -/
theorem C01_live_objects_have_owners (ops : List Op) (o : Nat) (ha : (run ops).alive o = true) :
    ((run ops).kind o ≠ .buf → (run ops).useRefs o = true → (run ops).ring o ≠ [])
      ∧ ((run ops).kind o = .buf →
          ((run ops).kids o ≠ [] ∨ ∃ p, (run ops).alive p = true ∧ (run ops).inner p = some o))
      ∧ ((run ops).kind o = .mem →
          ∃ b, (run ops).par o = some b ∧ o ∈ (run ops).kids b ∧ (run ops).alive b = true)
      ∧ ((run ops).kind o ≠ .dev → ∃ d, deviceOf (run ops) o = some d ∧ (run ops).alive d = true
          ∧ (run ops).kind d = .dev) := by
  have h := run_inv ops
  refine ⟨?_, ?_, ?_, ?_⟩
  · intro hk hu
    rcases h.inv.ring_ne o ha hk hu with x | ⟨_, x, _⟩
    · exact x
    · exact x.elim
  · intro hk; exact h.inv.buf_ne o ha hk
  · intro hk
    obtain ⟨b, hb1, hb2⟩ := h.inv.mem_par o ha hk
    exact ⟨b, hb1, hb2, (h.inv.kids_ok b o hb2).2.2.2.1⟩
  · intro hk
    have chp : ∀ c, (run ops).alive c = true → (run ops).kind c ≠ .dev → (run ops).kind c ≠ .mem →
        ∃ d, (run ops).par c = some d ∧ (run ops).alive d = true ∧ (run ops).kind d = .dev := by
      intro c hc h1 h2
      obtain ⟨d, e1, e2, e3, _⟩ := h.inv.ch_par c hc h1 h2
      exact ⟨d, e1, e2, e3⟩
    unfold deviceOf
    cases hko : (run ops).kind o
    · exact absurd hko hk
    · obtain ⟨d, e1, e2, e3⟩ := chp o ha (by rw [hko]; decide) (by rw [hko]; decide)
      exact ⟨d, by simp [e1], e2, e3⟩
    · obtain ⟨b, hb1, hb2⟩ := h.inv.mem_par o ha hko
      obtain ⟨_, _, _, hba, hbk⟩ := h.inv.kids_ok b o hb2
      obtain ⟨d, e1, e2, e3⟩ := chp b hba (by rcases hbk with x | x <;> rw [x] <;> decide)
        (by rcases hbk with x | x <;> rw [x] <;> decide)
      exact ⟨d, by simp [hb1, e1], e2, e3⟩
    · obtain ⟨d, e1, e2, e3⟩ := chp o ha (by rw [hko]; decide) (by rw [hko]; decide)
      exact ⟨d, by simp [e1], e2, e3⟩
    · obtain ⟨d, e1, e2, e3⟩ := chp o ha (by rw [hko]; decide) (by rw [hko]; decide)
      exact ⟨d, by simp [e1], e2, e3⟩
    · obtain ⟨d, e1, e2, e3⟩ := chp o ha (by rw [hko]; decide) (by rw [hko]; decide)
      exact ⟨d, by simp [e1], e2, e3⟩

/-- (f) no leak: after any history, destroy all variables (`vs` lists at least the existing ones).  Then
    no variable exists, and unless some object that is still alive was pinned with `dontUseRefs`,
    no backend object is alive -/
theorem C01_no_leak (ops : List Op) (vs : List (HKind × Nat))
    (hvs : ∀ k i, (run ops).vlive (.user k i) = true → (k, i) ∈ vs) :
    (∀ k i, (run (ops ++ dropAll vs)).vlive (.user k i) = false)
      ∧ ((∀ o, (run (ops ++ dropAll vs)).alive o = true → (run (ops ++ dropAll vs)).useRefs o = true) →
          ∀ o, (run (ops ++ dropAll vs)).alive o = false) := by
  have e : run (ops ++ dropAll vs) = runFrom (run ops) (dropAll vs) := by
    rw [run_eq, runFrom_append]; rfl
  have hv : ∀ k i, (run (ops ++ dropAll vs)).vlive (.user k i) = false := by
    intro k i
    rw [e, dropAll_vlive (run_inv ops)]
    cases hl : (run ops).vlive (.user k i)
    · simp
    · simp [hvs k i hl]
  exact ⟨hv, fun hu => no_leak_core (run_inv (ops ++ dropAll vs)) hv hu⟩

/-- (f) in particular: a history that never calls `dontUseRefs`, followed by the destruction of all
    variables, leaves no backend object alive -/
theorem C01_no_leak_without_dontUseRefs (ops : List Op) (vs : List (HKind × Nat))
    (hn : ∀ op ∈ ops, op.isNorefs = false)
    (hvs : ∀ k i, (run ops).vlive (.user k i) = true → (k, i) ∈ vs) :
    ∀ o, (run (ops ++ dropAll vs)).alive o = false := by
  apply (C01_no_leak ops vs hvs).2
  intro o _
  have : AllRefs (run (ops ++ dropAll vs)) := by
    rw [run_eq]
    apply runFrom_allRefs init_allRefs
    intro op hop
    rcases List.mem_append.mp hop with h | h
    · exact hn op h
    · unfold dropAll at h
      obtain ⟨v, _, hv⟩ := List.mem_map.mp h
      rw [← hv]; rfl
  exact this o

/-! ### why the two repairs are needed: the unrepaired code violates the property in the model -/

/-- the unrepaired `memory::swap` / `memoryPool::swap`: exchange of the two raw pointers only -/
def swapRaw (s : St) (a b : Var) : St := (s.setPtr a (s.ptr b)).setPtr b (s.ptr a)

/-- F01: after a pointer-only swap the handles are entries of the wrong rings — the invariant is gone
    (concrete witness: one device, one memory, an uninitialised second handle) -/
theorem C01_unrepaired_swap_fails :
    ∃ ops a b, Inv (run ops) ∧ ¬ InvX E (swapRaw (run ops) a b) := by
  refine ⟨[.ctor .dev 0, .mkdev 0, .ctor .mem 0, .ctor .mem 1, .malloc 0 0 16], .user .mem 0, .user .mem 1,
    run_inv _, ?_⟩
  intro h
  have hp : (swapRaw (run [.ctor .dev 0, .mkdev 0, .ctor .mem 0, .ctor .mem 1, .malloc 0 0 16])
      (.user .mem 0) (.user .mem 1)).ptr (.user .mem 1) = some 3 := by decide
  have := (h.ptr_ok _ _ hp (fun x => x)).2.2
  revert this
  decide

/-- F02: if the inner buffer of a pool is also an entry of the device's ring of buffers (as before the
    repair) and some other buffer was allocated before the pool, `device.free()` reaches the inner
    buffer before its pool and destroys it twice: the model traps -/
theorem C01_unrepaired_pool_buffer_fails :
    ∃ ops d p i, Inv (run ops) ∧ (run ops).inner p = some i ∧
      (deleteDev ((run ops).chSet .buf d (Ring.add ((run ops).chGet .buf d) i)) d).trap = true := by
  refine ⟨[.ctor .dev 0, .mkdev 0, .ctor .mem 1, .malloc 1 0 8, .ctor .pool 0, .mkpool 0 0, .ctor .mem 0,
    .reserve 0 0 16], 0, 4, 5, run_inv _, by decide, by decide⟩

/-! ### (g) the intrusive ring of gc.tpp refines the lists of the handle model

`RingRefine.WF L r l`: walking `rightRingEntry` from `r.head` through the link fields `L` visits exactly
the entries `l` (no repetition, linked both ways, closed).  The list operations `Ring.add` /
`Ring.remove` are the ones `OccaModel/Gc.lean` uses for every ring of handles and of child objects. -/

section ring
open RingRefine
variable {α : Type} [DecidableEq α]

/-- `ring_t::addRef(entry)` of an entry that is in no ring appends it: well-formedness is kept and the
    ring order becomes `Ring.add l e = l ++ [e]` -/
theorem C01_ring_addRef_refines {L : Links α} {r : RingP α} {l : List α} {e : α} (hw : WF L r l)
    (he : e ∉ l) (hu : Unlinked L e) :
    WF (RingP.addRef L r e).1 (RingP.addRef L r e).2 (Ring.add l e) ∧ Ring.add l e = l ++ [e]
      ∧ (RingP.addRef L r e).2.useRefs = r.useRefs := by
  obtain ⟨a, b, c⟩ := addRef_fresh hw he hu
  exact ⟨by rw [b]; exact a, b, c⟩

/-- `ring_t::removeRef(entry)` of a ring entry erases it (removing the head makes the old tail the
    new head: `Ring.remove`), keeps well-formedness, and leaves the entry unlinked -/
theorem C01_ring_removeRef_refines {L : Links α} {r : RingP α} {l : List α} {e : α} (hw : WF L r l)
    (he : e ∈ l) :
    WF (RingP.removeRef L r e).1 (RingP.removeRef L r e).2 (Ring.remove l e)
      ∧ Unlinked (RingP.removeRef L r e).1 e
      ∧ (Ring.remove l e).Perm (l.erase e)
      ∧ (RingP.removeRef L r e).2.useRefs = r.useRefs := by
  obtain ⟨a, b, c⟩ := removeRef_member hw he
  exact ⟨a, b, Ring.remove_perm_erase l e, c⟩

/-- `removeRef` of an unlinked entry that is not in the ring (the destructor of an object that its owner
    has already taken out of the ring) leaves the ring as it is -/
theorem C01_ring_removeRef_absent {L : Links α} {r : RingP α} {l : List α} {e : α} (hw : WF L r l)
    (he : e ∉ l) (hu : Unlinked L e) :
    WF (RingP.removeRef L r e).1 (RingP.removeRef L r e).2 l ∧ Ring.remove l e = l :=
  removeRef_nonmember hw he hu

/-- `ring_t::needsFree()` ↔ the ring is empty and reference counting is on -/
theorem C01_ring_needsFree_iff {L : Links α} {r : RingP α} {l : List α} (hw : WF L r l) :
    r.needsFree = true ↔ (l = [] ∧ r.useRefs = true) :=
  needsFree_iff hw

/-- the list is what a walk along `rightRingEntry` from `head` sees (this is how
    `modeDevice_t::finishAll` and `ring_t::length` traverse a ring) -/
theorem C01_ring_walk {L : Links α} {r : RingP α} {h : α} {t : List α} (hw : WF L r (h :: t)) :
    r.head = some h ∧ L.walk (t.length + 1) h = h :: t :=
  walk_eq hw

/-- all rings share one link space: an `addRef` / `removeRef` on one ring keeps every ring with other
    entries well-formed -/
theorem C01_ring_separation {L : Links α} {r r2 : RingP α} {l l2 : List α} {e : α} (hw : WF L r l)
    (hw2 : WF L r2 l2) (hd : ∀ x ∈ l2, x ∉ l) :
    (e ∈ l → WF (RingP.removeRef L r e).1 r2 l2)
      ∧ (Unlinked L e → e ∉ l2 → WF (RingP.addRef L r e).1 r2 l2) :=
  ⟨fun he => other_ring_removeRef hw he hw2 hd, fun hu he2 => other_ring_addRef hw hu hw2 hd he2⟩

/-- the hypotheses are satisfiable: the empty ring over unlinked entries is well-formed, and adding
    1, 2, 3 and removing the head gives the ring 3, 2 (the old tail becomes the head) -/
example : WF (⟨id, id⟩ : Links Nat) RingP.empty [] := ⟨rfl, List.nodup_nil, trivial⟩

example : Ring.remove (Ring.add (Ring.add (Ring.add ([] : List Nat) 1) 2) 3) 1 = [3, 2] := by decide

end ring

/-! ### the hypotheses are satisfiable by non-trivial histories (kernel-evaluated) -/

/-- a device, a memory with a slice, a pool with a reservation, swapped handles -/
def demo : List Op :=
  [.ctor .dev 0, .mkdev 0, .ctor .mem 0, .malloc 0 0 64, .ctor .mem 1, .slice 1 0 8 16,
   .ctor .pool 0, .mkpool 0 0, .ctor .mem 2, .reserve 2 0 100, .swap .mem 0 1]

example : (run demo).ptr (.user .mem 0) = some 4 ∧ (run demo).ptr (.user .mem 1) = some 3
    ∧ (run demo).alive 3 = true ∧ (run demo).vlive (.user .mem 0) = true := by decide

example : (run (demo ++ [.free .dev 0])).alive 3 = false := by decide

/-- dropping the five variables of `demo` leaves nothing alive (objects 0 .. 7 were created) -/
example : ∀ o, o < 8 →
    (run (demo ++ dropAll [(.dev, 0), (.mem, 0), (.mem, 1), (.mem, 2), (.pool, 0)])).alive o = false := by
  decide

end Occa.Gc.C01
