/-
C08 — A crash at any point of a kernel build never poisons the cache.

Model: OccaModel/BuildFS.lean (file system, atomic steps, the staging discipline `accepts`, the build
pipeline `buildProg` written after the C++), OccaGen/BuildFSSites.lean (regenerated from /repo).
Statement of the property, clause by clause:
  "killed at any point"            = the trace is cut after any prefix                    C08_prefix_good
  "no partially written source, build file or binary is ever treated as a completed
   cache entry"                    = a final name never denotes a partial file            C08_no_partial_read
  the real build obeys the discipline, whatever the file system answers                   C08_buildSteps_accepted
  "a later process that builds the same kernel ... succeeds and runs correct code"         C08_recovery
  the current source writes files only through staged temp names                          C08_write_sites_staged,
                                                                                          C08_stage_shape, C08_cache_names
Hypotheses (stated in the theorems): deterministic compiler (Spec.Coherent), atomic rename (one step),
unique temp names (FreshOuts / TokFresh, CfgOK.toks_inj).
-/
import OccaProofs.Lemmas.BuildFSProgress
import OccaGen.BuildFSSites
import OccaProofs.Lemmas.BuildFSExamples

namespace Occa.BuildFS.C08
open Occa Occa.BuildFS Occa.BuildFS.Examples

/-- Kill −9 at any step: after EVERY prefix of a trace that obeys the staging discipline, every
    final-named file is a complete, correct artefact (only temp-named debris is left behind).
    `fs0` may already contain any amount of temp-named debris. -/
theorem C08_prefix_good (S : Spec) (hS : S.Coherent) (fs0 : FS) (t : Trace)
    (hG : Good S fs0) (ha : accepts S t = true) (hf : FreshOuts fs0 t) :
    ∀ t1 t2, t = t1 ++ t2 → Good S (apply S t1 fs0) := by
  intro t1 t2 ht
  subst ht
  unfold accepts at ha
  rw [acceptsFrom_append] at ha
  cases h1 : acceptsFrom S AS.empty t1 with
  | none => rw [h1] at ha; cases ha
  | some st1 =>
    exact (trace_preserves hS fs0 t1 fs0 AS.empty st1 (Inv_empty S fs0) hG h1
      (fun e he => hf e (List.mem_append_left _ he))).2

/-- No partially written file is ever treated as complete: whenever a step of a discipline-obeying trace
    opens (or stats, or executes) a final name, that name is absent or denotes a closed, correct file. -/
theorem C08_no_partial_read (S : Spec) (hS : S.Coherent) (fs0 : FS) (t : Trace)
    (hG : Good S fs0) (ha : accepts S t = true) (hf : FreshOuts fs0 t)
    (t1 t2 : Trace) (e : Ev) (ht : t = t1 ++ e :: t2) (p : Path) (hp : p.tmp = none) :
    match (apply S t1 fs0).files p with
    | none => True
    | some f => f.closed = true ∧ S.valid p f.bytes = true := by
  have h := C08_prefix_good S hS fs0 t hG ha hf t1 (e :: t2) ht
  cases hfp : (apply S t1 fs0).files p with
  | none => trivial
  | some f => exact h p f hp hfp

/-- The modelled build (Serial/OpenMP, string/file, parse failure and `silent` included) obeys the staging
    discipline for ALL answers the file system may give, cut at any point. -/
theorem C08_buildSteps_accepted (S : Spec) (c : Config) (hc : CfgOK S c) (pid : Nat) (t : Trace)
    (ht : IsTrace pid (buildProg c) t) : accepts S t = true :=
  safe_trace (buildProg c) AS.empty _ (safe_buildProg (pid := pid) hc) t ht

/-- in particular the step list of a build that runs alone from any file system -/
theorem C08_buildSteps_accepted_run (S : Spec) (c : Config) (hc : CfgOK S c) (pid : Nat) (fs : FS) :
    accepts S (buildSteps S pid c fs) = true :=
  C08_buildSteps_accepted S c hc pid _ (run_isTrace (buildProg c) fs)

/-- Recovery: from ANY state in which the final-named files are complete (temp debris of killed builds
    included), the build returns normally, leaves every final-named file complete and correct, and the
    binary it loads exists, is closed and is the correct one. -/
theorem C08_recovery (S : Spec) (hS : S.Coherent) (c : Config) (hc : CfgOK S c) (hpo : c.parseOk = true)
    (pid : Nat) (fs : FS) (hG : Good S fs) (hfresh : TokFresh c fs) :
    (run S pid (buildProg c) fs).1 = some true ∧
    Good S (run S pid (buildProg c) fs).2.1 ∧
    loadable S c (run S pid (buildProg c) fs).2.1 := by
  obtain ⟨a, fs', t, es', h1, ⟨ha, hb'⟩, _⟩ :=
    triple_buildProg (S := S) (pid := pid) (c := c) (E := fun _ => True) (fun _ _ => trivial) hc.toks_inj
      (fun _ _ => trivial) hpo [] fs (EnvOK.nil S c _ fs) (fun _ h => by cases h)
  have hb : fs'.present (c.k "binary") = true := hb' _ (by unfold needed; split <;> simp)
  have hrun : run S pid (buildProg c) fs = (some a, fs', t) := by rw [run_eq_runE, h1]
  have htr : IsTrace pid (buildProg c) t := by
    have := run_isTrace (S := S) (pid := pid) (buildProg c) fs
    rw [hrun] at this; exact this
  have hacc : accepts S t = true := C08_buildSteps_accepted S c hc pid t htr
  have hfo : FreshOuts fs t := by
    intro e he x hx
    exact hfresh x (safe_outs (buildProg c) AS.empty _ (safe_buildProg (pid := pid) hc) t htr e he x hx)
  have hfs' : fs' = apply S t fs := by
    have := run_apply (S := S) (pid := pid) (buildProg c) fs
    rw [hrun] at this; exact this
  have hG' : Good S fs' := by
    rw [hfs']
    exact C08_prefix_good S hS fs t hG hacc hfo t [] (by simp)
  rw [hrun]
  refine ⟨by rw [ha], hG', ?_⟩
  simp only [FS.present] at hb
  cases hfb : fs'.files (c.k "binary") with
  | none => rw [hfb] at hb; cases hb
  | some f => exact ⟨f, hfb, hG' _ f rfl hfb⟩

/-- (T) Every call site of the current source that creates or overwrites a file (io::write, json::write,
    parser::writeToFile, fopen "w", a compiler's `-o`, a shell redirect) names a staged temp file. -/
theorem C08_write_sites_staged : ∀ s ∈ Gen.BuildFS.writeSites, s.staged = true := by decide

/-- (T) io::stageFiles / getStagedTempFilename / moveStagedTempFile / io::write / the completion test have
    the shape the model was written against. -/
theorem C08_stage_shape : ∀ x ∈ Gen.BuildFS.stageShape, x.2 = true := by decide

/-- (T) the cache file names in the current source are the ones the model's pipeline spells out -/
theorem C08_cache_names : Gen.BuildFS.cacheNames.map (·.2) =
    ["build.json", "binary", ".raw_source", ".source.cpp", "string_source.cpp", "findCompilerVendor.cpp", "binary", "output",
     "build.log", "compilerSupportsOpenMP.cpp", "binary", "output"] := by decide

/-! ### the hypotheses are satisfiable by a non-trivial value (objects in Lemmas/BuildFSExamples.lean) -/

example : (run exSpec 1 (buildProg exCfg) exFS).1 = some true ∧
    Good exSpec (run exSpec 1 (buildProg exCfg) exFS).2.1 ∧ loadable exSpec exCfg (run exSpec 1 (buildProg exCfg) exFS).2.1 :=
  C08_recovery exSpec exSpec_coherent exCfg exCfg_ok rfl 1 exFS exFS_good exFS_fresh

example : accepts exSpec (buildSteps exSpec 1 exCfg exFS) = true := C08_buildSteps_accepted_run exSpec exCfg exCfg_ok 1 exFS

end Occa.BuildFS.C08
