/-
C27 — hash_t strings are faithful and hashing has no undefined behaviour.

Model: OccaModel/Hash.lean over the generated OccaGen/HashConsts.lean, OccaGen/HexFns.lean.
Statement of the property, clause by clause:
  (a) reading back the full string gives the same hash           C27_full_roundtrip
  (b) the short string is the first 16 characters of the full    C27_short_is_prefix
  (c) equal bytes give equal hashes in every process             hashBytes is a closed function of the
      bytes and of generated constants (no environment input); the cross-process part is checked by
      the harness (two processes) — C27_hash_wellformed shows every hash of bytes is covered by (a),(b)
  (d) no undefined behaviour when hashing / combining            C27_no_signed_arithmetic (the clang AST
      types every multiply/add of the lane update as unsigned) + UBSan in the harness
-/
import OccaModel.Hash

namespace Occa.Hash.C27
open Occa Occa.Gen Occa.Hash

/-! ### the per-byte fact, a finite table checked by the kernel -/

theorem hex_byte_roundtrip : ∀ b : Nat, b < 256 →
    byteOfHex ((hexOfByte b).getD 0 0) ((hexOfByte b).getD 1 0) = b := by
  decide +kernel

theorem hexOfByte_eq (b : Nat) : hexOfByte b = [(hexOfByte b).getD 0 0, (hexOfByte b).getD 1 0] := by
  simp [hexOfByte]

/-! ### helper lemmas -/

private theorem go_toHex (bs : List Nat) (hb : ∀ b ∈ bs, b < 256) (r : List Int) :
    fromHexBytes.go bs.length (toHexBytes bs ++ r) = bs := by
  induction bs with
  | nil => simp [fromHexBytes.go]
  | cons b t ih =>
    have hb' : b < 256 := hb b (by simp)
    have ht : ∀ x ∈ t, x < 256 := fun x hx => hb x (by simp [hx])
    have e : toHexBytes (b :: t) = hexOfByte b ++ toHexBytes t := by simp [toHexBytes]
    rw [e, hexOfByte_eq b]
    simp only [List.length_cons, List.cons_append, List.nil_append, fromHexBytes.go]
    rw [hex_byte_roundtrip b hb', ih ht]

private theorem toHexBytes_length (bs : List Nat) : (toHexBytes bs).length = 2 * bs.length := by
  induction bs with
  | nil => simp [toHexBytes]
  | cons b t ih =>
    have e : toHexBytes (b :: t) = hexOfByte b ++ toHexBytes t := by simp [toHexBytes]
    rw [e, List.length_append, ih]
    simp [hexOfByte]; omega

private theorem laneBytes_length (x : Int) : (laneBytes x).length = 4 := by simp [laneBytes]

private theorem laneBytes_lt (x : Int) : ∀ b ∈ laneBytes x, b < 256 := by
  intro b hb
  simp [laneBytes] at hb
  omega

private theorem flat_length (h : Lanes) : (h.flatMap laneBytes).length = 4 * h.length := by
  induction h with
  | nil => simp
  | cons x t ih => simp [List.flatMap_cons, laneBytes_length, ih]; omega

private theorem flat_lt (h : Lanes) : ∀ b ∈ h.flatMap laneBytes, b < 256 := by
  intro b hb
  simp only [List.mem_flatMap] at hb
  obtain ⟨x, _, hx⟩ := hb
  exact laneBytes_lt x b hx

private theorem chunk4_flat (h : Lanes) : chunk4 (h.flatMap laneBytes) = h.map laneBytes := by
  induction h with
  | nil => simp [chunk4]
  | cons x t ih =>
    simp only [List.flatMap_cons, List.map_cons]
    have : laneBytes x = [(laneBytes x).getD 0 0, (laneBytes x).getD 1 0, (laneBytes x).getD 2 0, (laneBytes x).getD 3 0] := by
      simp [laneBytes]
    rw [this]
    simp only [List.cons_append, List.nil_append, chunk4, ih]

private theorem two32 : (2 : Int) ^ 32 = 4294967296 := by decide
private theorem two31 : (2 : Int) ^ (32 - 1) = 2147483648 := by decide

theorem bytesLane_laneBytes (x : Int) (hx : -2147483648 ≤ x ∧ x < 2147483648) :
    bytesLane (laneBytes x) = x := by
  unfold bytesLane laneBytes wrapS wrapU
  simp only [two32, two31, List.getD_cons_zero, List.getD_cons_succ]
  have h0 : 0 ≤ x % 4294967296 := Int.emod_nonneg _ (by decide)
  have h1 : x % 4294967296 < 4294967296 := Int.emod_lt_of_pos _ (by decide)
  generalize hu : (x % 4294967296).toNat = u
  have hu' : (u : Int) = x % 4294967296 := by rw [← hu]; exact Int.toNat_of_nonneg h0
  have hlt : u < 4294967296 := by omega
  have : u % 256 + 256 * (u / 256 % 256) + 65536 * (u / 65536 % 256) + 16777216 * (u / 16777216 % 256) = u := by
    omega
  rw [this]
  show ((u : Int) + 2147483648) % 4294967296 - 2147483648 = x
  omega

/-! ### the property theorems -/

private theorem fromHexBytes_of_len (s : List Int) (n : Nat) (hs : s.length = 2 * n) :
    fromHexBytes s n = fromHexBytes.go n s ++ List.replicate (n - (fromHexBytes.go n s).length) 0 := by
  unfold fromHexBytes
  have h1 : ¬ (s.length > 2 * n) := by omega
  have h2 : s.length / 2 = n := by omega
  simp only [h1, if_false, h2]

/-- (a) `fromString (getFullString h) = h` for every hash value. -/
theorem C27_full_roundtrip (h : Lanes) (wf : WellFormed h) : fromString (fullString h) = h := by
  obtain ⟨hl, hr⟩ := wf
  have hfl : (h.flatMap laneBytes).length = 32 := by rw [flat_length, hl]
  have hlen : (toHexBytes (h.flatMap laneBytes)).length = 2 * 32 := by
    rw [toHexBytes_length, hfl]
  have hgo : fromHexBytes.go 32 (toHexBytes (h.flatMap laneBytes)) = h.flatMap laneBytes := by
    have := go_toHex (h.flatMap laneBytes) (flat_lt h) []
    rw [hfl] at this
    simpa using this
  unfold fromString fullString
  rw [fromHexBytes_of_len _ 32 hlen, hgo, hfl]
  simp only [Nat.sub_self, List.replicate_zero, List.append_nil, chunk4_flat, List.map_map]
  have : ∀ x ∈ h, (bytesLane ∘ laneBytes) x = x := fun x hx => by
    rw [Function.comp_apply]; exact bytesLane_laneBytes x (hr x hx)
  rw [List.map_congr_left this, List.map_id']

/-- the full string always has 64 characters -/
theorem C27_full_len (h : Lanes) (hl : h.length = 8) : (fullString h).length = 64 := by
  unfold fullString; rw [toHexBytes_length, flat_length, hl]

/-- Invariant of the getString cache: a non-empty cached string is the short string of `sh`. -/
def Inv (o : Obj) : Prop := o.hstr ≠ [] → o.hstr = (fullString o.sh).take 16

theorem inv_init (h : Lanes) : Inv (Obj.ofLanes h) := by simp [Inv, Obj.ofLanes]

theorem inv_step (o : Obj) (op : Op) (hi : Inv o) : Inv (step o op) := by
  cases op with
  | getString =>
    simp only [step, Obj.getString]
    split
    · simp [Inv]
    · exact hi
  | assign s => simp [step, Obj.assign, Inv]
  | setLanes h => simpa [step, Obj.setLanes, Inv] using hi
  | xorWith x => simp [step, Obj.assign, Inv]

theorem inv_run (h0 : Lanes) (ops : List Op) : Inv (ops.foldl step (Obj.ofLanes h0)) := by
  suffices ∀ o, Inv o → Inv (ops.foldl step o) from this _ (inv_init h0)
  induction ops with
  | nil => intro o h; exact h
  | cons a t ih => intro o h; exact ih _ (inv_step o a h)

/-- (b) after ANY history of assignments, xor-combinations, direct lane writes and earlier
    getString calls, getString() returns the first 16 characters of getFullString(). -/
theorem C27_short_is_prefix (h0 : Lanes) (ops : List Op) :
    let o := ops.foldl step (Obj.ofLanes h0)
    (o.getString).1 = (fullString o.h).take 16 := by
  intro o
  have hi : Inv o := inv_run h0 ops
  unfold Obj.getString
  split
  · rfl
  · rename_i hc
    simp only [Bool.or_eq_true, List.isEmpty_iff, bne_iff_ne, ne_eq, not_or, Decidable.not_not] at hc
    show o.hstr = _
    rw [hi hc.1, hc.2]

/-- non-vacuity of (b): the all-zero hash (h ^ h), the case that was wrong before the repair -/
example : ((Obj.ofLanes zeros).getString).1 = (fullString zeros).take 16 ∧
          ((Obj.ofLanes zeros).getString).1.length = 16 := by decide

private theorem wrapS32_range (x : Int) : -2147483648 ≤ wrapS 32 x ∧ wrapS 32 x < 2147483648 := by
  unfold wrapS
  simp only [two32, two31]
  have h0 : 0 ≤ (x + 2147483648) % 4294967296 := Int.emod_nonneg _ (by decide)
  have h1 : (x + 2147483648) % 4294967296 < 4294967296 := Int.emod_lt_of_pos _ (by decide)
  omega

private theorem laneStep_range (h p c : Int) : -2147483648 ≤ laneStep h p c ∧ laneStep h p c < 2147483648 := by
  unfold laneStep; exact wrapS32_range _

private theorem zipWith_wf (f : Int → Int → Int) (hf : ∀ a b, -2147483648 ≤ f a b ∧ f a b < 2147483648)
    (a b : List Int) (hl : a.length = 8) (hb : b.length = 8) : WellFormed (List.zipWith f a b) := by
  refine ⟨by simp [hl, hb], ?_⟩
  intro x hx
  rw [List.mem_iff_getElem] at hx
  obtain ⟨i, hi, rfl⟩ := hx
  simp only [List.getElem_zipWith]
  exact hf _ _

private theorem hashInit_wf : WellFormed hashInit := by
  refine ⟨by decide, ?_⟩
  intro x hx
  simp only [hashInit, List.mem_cons, List.not_mem_nil, or_false] at hx
  omega

/-- every hash of a byte string is a well-formed hash value, so (a) and (b) apply to it -/
theorem C27_hash_wellformed (bs : List Nat) : WellFormed (hashBytes bs) := by
  unfold hashBytes
  suffices ∀ h : Lanes, WellFormed h → WellFormed (bs.foldl
      (fun h b => List.zipWith (fun hj pj => laneStep hj pj (byteVal b)) h hashPrimes) h) from
    this _ hashInit_wf
  induction bs with
  | nil => intro h wf; exact wf
  | cons b t ih =>
    intro h wf
    exact ih _ (zipWith_wf _ (fun _ _ => laneStep_range _ _ _) h hashPrimes wf.1 (by decide))

/-- combining hashes stays inside the set of values covered by (a) and (b) -/
theorem C27_xor_wellformed (a b : Lanes) (ha : a.length = 8) (hb : b.length = 8) : WellFormed (xor a b) :=
  zipWith_wf _ (fun _ _ => wrapS32_range _) a b ha hb

/-- (d) every multiply / add / shift node of the lane update has an unsigned C++ type, as
    extracted from the clang AST of /repo's current hash.cpp: no signed overflow can occur. -/
theorem C27_no_signed_arithmetic : mulIsUnsigned = true := by decide

/-- the corollary users rely on: hashing bytes, then printing and parsing, is the identity -/
theorem C27_hash_string_roundtrip (bs : List Nat) :
    fromString (fullString (hashBytes bs)) = hashBytes bs :=
  C27_full_roundtrip _ (C27_hash_wellformed bs)

end Occa.Hash.C27
