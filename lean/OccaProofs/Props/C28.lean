/-
C28 — The trie returns the longest stored prefix, frozen or not.

Model: OccaModel/Trie.lean (trieNode / trie<TM> after the repairs F32, F33, FC28a-c).
`Trie.run {} ops` executes a history `ops` of add / remove / freeze / defrost / clear /
autoFreeze operations from the empty trie (`none` = the C++ would trap: out-of-range read or
write of the frozen arrays or of `values`); `specRun [] ops` is the finite map the history
denotes (association list, distinct keys, `specAdd` overwrites or appends, `specRemove` deletes).

Statement of the property, clause by clause — every theorem is for ALL histories, ALL queries,
any character type with a decidable strict total order, any value type:
  (a) no operation of any history traps                               C28_history_no_trap
  (b) getLongest = longest stored prefix with its latest value        C28_getLongest (+ C28_longestPrefix_some/none,
                                                                      C28_spec_* : what "stored" and "latest" mean)
  (c) get / has succeed exactly for stored keys                       C28_get, C28_has, C28_has_sized, C28_has_char
  (d) size() counts the stored keys                                   C28_size (+ C28_spec_distinct_keys), C28_isEmpty
  (e) the answers are the same frozen or not                          C28_frozen_eq_unfrozen, C28_freeze_flattening
-/
import OccaProofs.Lemmas.TrieInv

namespace Occa.Trie.C28
open Occa.Trie

section Spec
variable {α V : Type} [DecidableEq α]

/-! ### the specification is a finite map (what "stored" and "most recently added" mean) -/

/-- after `add k v` the key `k` is stored with value `v` -/
theorem C28_spec_lookup_add_same (M : List (List α × V)) (k : List α) (v : V) :
    lookup k (specAdd M k v) = some v := by
  unfold specAdd
  split
  · rename_i h
    induction M with
    | nil => simp [lookup] at h
    | cons e r ih =>
      obtain ⟨k0, v0⟩ := e
      by_cases hk : k0 = k
      · subst hk; simp [lookup]
      · have hk' : ¬ k = k0 := fun e => hk e.symm
        simp only [lookup, hk', if_false] at h
        simp only [List.map_cons, hk, if_false, lookup, hk']
        exact ih h
  · induction M with
    | nil => simp [lookup]
    | cons e r ih =>
      obtain ⟨k0, v0⟩ := e
      rename_i h
      by_cases hk : k = k0
      · subst hk; simp [lookup] at h
      · simp only [lookup, hk, if_false] at h
        simp only [List.cons_append, lookup, hk, if_false]
        exact ih h

/-- `add k v` changes no other key -/
theorem C28_spec_lookup_add_other (M : List (List α × V)) (k k' : List α) (v : V) (h : k' ≠ k) :
    lookup k' (specAdd M k v) = lookup k' M := by
  unfold specAdd
  split
  · rename_i hc; clear hc
    induction M with
    | nil => rfl
    | cons e r ih =>
      obtain ⟨k0, v0⟩ := e
      by_cases hk : k0 = k
      · subst hk; simp only [List.map_cons, if_true, lookup, h, if_false]; exact ih
      · simp only [List.map_cons, hk, if_false, lookup]
        split
        · rfl
        · exact ih
  · rename_i hc; clear hc
    induction M with
    | nil => simp [lookup, h]
    | cons e r ih =>
      obtain ⟨k0, v0⟩ := e
      simp only [List.cons_append, lookup]
      split
      · rfl
      · exact ih

/-- after `remove k` the key `k` is not stored -/
theorem C28_spec_lookup_remove_same (M : List (List α × V)) (k : List α) :
    lookup k (specRemove M k) = none := by
  rw [lookup_eq_none_iff]
  unfold specRemove
  simp only [List.mem_map, List.mem_filter, not_exists, not_and]
  intro e he hek
  simp [hek] at he

/-- `remove k` changes no other key -/
theorem C28_spec_lookup_remove_other (M : List (List α × V)) (k k' : List α) (h : k' ≠ k) :
    lookup k' (specRemove M k) = lookup k' M := by
  unfold specRemove
  induction M with
  | nil => rfl
  | cons e r ih =>
    obtain ⟨k0, v0⟩ := e
    by_cases hk : k0 = k
    · subst hk
      rw [List.filter_cons_of_neg (by simp)]
      simp only [lookup, h, if_false]; exact ih
    · rw [List.filter_cons_of_pos (by simpa using hk)]
      simp only [lookup]
      split
      · rfl
      · exact ih

/-- `longestPrefix M q = some (n, v)` says exactly: the first `n` characters of `q` are a stored
    key with value `v`, and no longer prefix of `q` is stored -/
theorem C28_longestPrefix_some (M : List (List α × V)) (q : List α) (n : Nat) (v : V) :
    longestPrefix M q = some (n, v) ↔
      n ≤ q.length ∧ lookup (q.take n) M = some v ∧
        ∀ m, n < m → m ≤ q.length → lookup (q.take m) M = none := by
  rw [longestPrefix, longestPrefix_go_eq, longestTake_some_iff]

/-- `longestPrefix M q = none` says exactly: no prefix of `q` (not even the empty one) is stored -/
theorem C28_longestPrefix_none (M : List (List α × V)) (q : List α) :
    longestPrefix M q = none ↔ ∀ m, m ≤ q.length → lookup (q.take m) M = none := by
  rw [longestPrefix, longestPrefix_go_eq, longestTake_none_iff]

end Spec

variable {α V : Type} [DecidableEq α] [LT α] [DecidableRel (α := α) (· < ·)] [Inhabited α] [TotalLT α]

/-! ### the property -/

/-- the keys of the map denoted by a history are pairwise distinct, so its length is the number
    of stored keys -/
theorem C28_spec_distinct_keys (ops : List (Op α V)) :
    ((specRun ([] : List (List α × V)) ops).map (·.1)).Nodup := by
  obtain ⟨t, _, h⟩ := inv_run (inv_init (α := α) (V := V)) ops
  exact h.nodup


/-- (a) no history traps: every write of `freeze` and every read of the frozen lookup stays
    inside the arrays, reads only written cells, and `values` is never indexed out of range -/
theorem C28_history_no_trap (ops : List (Op α V)) : (Trie.run ({} : Trie α V) ops).isSome := by
  obtain ⟨t, e, _⟩ := inv_run (inv_init (α := α) (V := V)) ops
  simp [e]

/-- (b) after any history, `getLongest(q)` is the longest stored key that is a prefix of `q`,
    with its most recently added value — whether the trie is currently frozen or not -/
theorem C28_getLongest (ops : List (Op α V)) (t : Trie α V) (h : Trie.run {} ops = some t) (q : List α) :
    t.longest q = some (longestPrefix (specRun [] ops) q) := by
  obtain ⟨t', e, hi⟩ := inv_run (inv_init (α := α) (V := V)) ops
  rw [h] at e; cases e
  exact longest_eq hi q

/-- (c) `get(q)` succeeds exactly when `q` is stored, and then yields its latest value -/
theorem C28_get (ops : List (Op α V)) (t : Trie α V) (h : Trie.run {} ops = some t) (q : List α) :
    t.getValue q = some (lookup q (specRun [] ops)) := by
  obtain ⟨t', e, hi⟩ := inv_run (inv_init (α := α) (V := V)) ops
  rw [h] at e; cases e
  exact getValue_eq hi q

/-- (c) `has(const char*)` is true exactly for stored keys (the empty key included) -/
theorem C28_has (ops : List (Op α V)) (t : Trie α V) (h : Trie.run {} ops = some t) (q : List α) :
    t.has q = some (lookup q (specRun [] ops)).isSome := by
  obtain ⟨t', e, hi⟩ := inv_run (inv_init (α := α) (V := V)) ops
  rw [h] at e; cases e
  exact has_eq hi q

/-- (c) `has(c, size)` / `has(std::string)`: the explicit `OCCA_ERROR` for size 0, otherwise
    true exactly for stored keys -/
theorem C28_has_sized (ops : List (Op α V)) (t : Trie α V) (h : Trie.run {} ops = some t) (q : List α) :
    t.hasSized q = if q = [] then some none else some (some (lookup q (specRun [] ops)).isSome) := by
  obtain ⟨t', e, hi⟩ := inv_run (inv_init (α := α) (V := V)) ops
  rw [h] at e; cases e
  exact hasSized_eq hi q

/-- (c) `has(char c)` is true exactly when some stored key starts with `c` (no dead branches
    survive a removal) -/
theorem C28_has_char (ops : List (Op α V)) (t : Trie α V) (h : Trie.run {} ops = some t) (c : α) :
    t.hasChar c = some ((specRun [] ops).any fun e => e.1.head? = some c) := by
  obtain ⟨t', e, hi⟩ := inv_run (inv_init (α := α) (V := V)) ops
  rw [h] at e; cases e
  exact hasChar_eq hi c

/-- (d) `size()` is the number of stored keys, frozen (`values.size()`) or not (node count) -/
theorem C28_size (ops : List (Op α V)) (t : Trie α V) (h : Trie.run {} ops = some t) :
    t.size = (specRun ([] : List (List α × V)) ops).length := by
  obtain ⟨t', e, hi⟩ := inv_run (inv_init (α := α) (V := V)) ops
  rw [h] at e; cases e
  exact size_eq hi

/-- (d) `isEmpty()` is true exactly when no non-empty key is stored -/
theorem C28_isEmpty (ops : List (Op α V)) (t : Trie α V) (h : Trie.run {} ops = some t) :
    t.isEmpty = (specRun ([] : List (List α × V)) ops).all fun e => e.1 = [] := by
  obtain ⟨t', e, hi⟩ := inv_run (inv_init (α := α) (V := V)) ops
  rw [h] at e; cases e
  exact isEmpty_eq hi

/-- (e) flattening correctness on its own, for ANY tree with sorted child maps (not only reachable
    ones): `freeze()` never writes outside the arrays, and the frozen lookup — binary search per
    level over the flattened arrays — returns exactly the result of the recursive unfrozen lookup -/
theorem C28_freeze_flattening (t : Trie α V) (hs : Sorted t.root) (q : List α) :
    ∃ tf, t.freeze = some tf ∧ tf.root = t.root ∧ tf.values = t.values ∧ tf.frozen.isSome ∧
      tf.getLongest q = some (trieGetLongest t.root q) ∧
      tf.getLongest q = t.defrost.getLongest q := by
  obtain ⟨f, e, hf⟩ := freeze_spec t
  refine ⟨_, e, rfl, rfl, rfl, ?_, ?_⟩
  · exact getLongestFrozen_eq f t.root hf hs q
  · show getLongestFrozen f t.root.val q = some (trieGetLongest t.root q)
    exact getLongestFrozen_eq f t.root hf hs q

/-- (e) after any history the frozen and the unfrozen form give the same answers to every
    query: freezing or defrosting the reached state changes no `getLongest`, `get`, `has`, `size` -/
theorem C28_frozen_eq_unfrozen (ops : List (Op α V)) (t : Trie α V) (h : Trie.run {} ops = some t) (q : List α) :
    ∃ tf, t.freeze = some tf ∧ tf.frozen.isSome ∧ t.defrost.frozen = none ∧
      tf.longest q = t.defrost.longest q ∧ tf.longest q = t.longest q ∧
      tf.getValue q = t.defrost.getValue q ∧ tf.has q = t.defrost.has q ∧ tf.size = t.defrost.size := by
  obtain ⟨t', e, hi⟩ := inv_run (inv_init (α := α) (V := V)) ops
  rw [h] at e; cases e
  obtain ⟨tf, ef, hif, _⟩ := inv_freeze hi
  have hid := inv_defrost hi
  obtain ⟨f, e2, _⟩ := freeze_spec t
  have : tf.frozen.isSome := by rw [e2] at ef; cases ef; rfl
  exact ⟨tf, ef, this, rfl, by rw [longest_eq hif, longest_eq hid], by rw [longest_eq hif, longest_eq hi],
    by rw [getValue_eq hif, getValue_eq hid], by rw [has_eq hif, has_eq hid], by rw [size_eq hif, size_eq hid]⟩

/-- "most recently added": right after `add k v`, `get(k)` yields `v`, whatever came before -/
theorem C28_latest_value (ops : List (Op α V)) (k : List α) (v : V) (t : Trie α V)
    (h : Trie.run {} (ops ++ [.add k v]) = some t) : t.getValue k = some (some v) := by
  rw [C28_get _ t h, specRun_append_add, C28_spec_lookup_add_same]

/-! ### the hypotheses are satisfiable by non-trivial states -/

section Examples
open Op

/-- the history of the F32 ledger entry (keys a, abc, then ab; characters as `Nat`s) -/
def exOps : List (Op Nat Nat) :=
  [.setAuto false, .add [1] 10, .add [1, 2, 3] 20, .freeze, .add [1, 2] 30, .add [] 40, .remove [1], .freeze]

example : (Trie.run ({} : Trie Nat Nat) exOps).isSome := C28_history_no_trap exOps
example : specRun ([] : List (List Nat × Nat)) exOps = [([1, 2, 3], 20), ([1, 2], 30), ([], 40)] := by decide
example : longestPrefix (specRun ([] : List (List Nat × Nat)) exOps) [1, 2, 4] = some (2, 30) := by decide
example : longestPrefix (specRun ([] : List (List Nat × Nat)) exOps) [1, 3] = some (0, 40) := by decide
example : ∃ t, Trie.run ({} : Trie Nat Nat) exOps = some t ∧ t.size = 3 ∧
    t.longest [1, 2, 4] = some (some (2, 30)) ∧ t.getValue [1] = some none ∧ t.has [] = some true := by
  obtain ⟨t, e, hi⟩ := inv_run (inv_init (α := Nat) (V := Nat)) exOps
  refine ⟨t, e, ?_, ?_, ?_, ?_⟩
  · rw [C28_size exOps t e]; decide
  · rw [C28_getLongest exOps t e]; decide
  · rw [C28_get exOps t e]; decide
  · rw [C28_has exOps t e]; decide
example : ((Trie.run ({} : Trie Nat Nat) exOps).bind fun t => t.frozen.map fun f => f.baseNodeCount) = some 1 := by
  decide +kernel
example : Sorted (Node.mk none [((1 : Nat), Node.mk (some 0) []), (2, Node.mk none [(5, Node.mk (some 1) [])])]) := by
  simp [sorted_mk, KeysLt]

end Examples

end Occa.Trie.C28
