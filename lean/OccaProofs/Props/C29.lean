/-
C29 — C API values keep their value and type through conversions.

"For any scalar, string, null or JSON value passed through the C API (occaType constructors,
 occaJson set/get on objects and arrays, occaJsonGet* accessors, and kernel-argument conversion),
 reading it back yields the same value and the same C type, and C handles created by the API stay
 valid until occaFree."

Models: OccaModel/CApi.lean (values, occa::primitive, json paths/arrays), OccaModel/CApiHandles.lean
(handle table), both over the tables of OccaGen/CTypes.lean which are regenerated from
include/occa/c/types.h and src/occa/internal/c/types.cpp on every run: a changed tag, member,
sizeof or switch case re-checks every theorem below.

Clause by clause:
  constructors            C29_scalar_roundtrip, C29_public_ctor_type, C29_special_values
  occa::primitive         C29_prim_roundtrip_typed, C29_prim_roundtrip, C29_int_value_preserved, C29_untyped_overload_total
  json set/get (value+type)  C29_json_scalar_set_get, C29_json_bool_set_get, C29_json_string_null_set_get
  json paths / histories  C29_json_set_get_path, C29_json_set_frame, C29_json_history, C29_json_handle_set_get
  json arrays             C29_array_push_get, C29_array_history, C29_array_get_grows_keeps, C29_array_insert
  kernel arguments        C29_kernelarg_bytes, C29_kernelarg_public_ctor, C29_kernelarg_pointers, C29_kernelarg_bool_rejected
  handles                 C29_handles_safe, C29_handles_no_leak, C29_null_document_not_leaked, C29_entry_point_ownership
Conversions between *different* numeric types that involve float/double are computed with Lean's
runtime floats in the model and are only tested by the correspondence run (DESIGN.md section 3).
-/
import OccaProofs.Lemmas.CApiValues
import OccaProofs.Lemmas.CApiHandles

namespace Occa.CApi.C29
open Occa.CApi Occa.Gen.CTypes

/-! ### constructors -/

/-- Every `newOccaType<T>` (all 11 scalar C types), every argument bit pattern `v`, whatever the
    uninitialised union contained (`garbage`): the member a C programmer reads back holds exactly
    the argument (`bool`: 0/1), the tag is the tag of `T` and of no other type, `bytes = sizeof(T)`,
    the value is defined and not owned. -/
theorem C29_scalar_roundtrip (c : CTy) (garbage v : Nat) :
    fromOcca c (ofScalar c garbage v) = argBits c v ∧
    (ofScalar c garbage v).tag = (ctorSpec c).1 ∧
    (∀ c', (ctorSpec c').1 = (ofScalar c garbage v).tag → c' = c) ∧
    (ofScalar c garbage v).bytes = c.bytes ∧
    (ofScalar c garbage v).hdrOk = true ∧ (ofScalar c garbage v).needsFree = false := by
  refine ⟨fromOcca_ofScalar c garbage v, rfl, ?_, spec_bytes c, rfl, spec_needsFree c⟩
  intro c' h
  exact spec_tag_injective c' c h

example : fromOcca .i8 (ofScalar .i8 0xdeadbeefcafe1234 0xfb) = 0xfb ∧ (ofScalar .i8 0xdeadbeefcafe1234 0xfb).tag = tagInt8 := by
  decide

/-- the value read back is the argument itself for every non-bool type (all of its bits) -/
theorem C29_scalar_value (c : CTy) (hc : c ≠ .bool) (garbage v : Nat) :
    fromOcca c (ofScalar c garbage v) = v % 2 ^ c.bits := by
  rw [fromOcca_ofScalar]
  cases c <;> first | exact absurd rfl hc | rfl

/-- Every public constructor of include/occa/c/types.h (`occaBool` … `occaULong`, `occaFloat`,
    `occaDouble`) builds the value through `newOccaType<T>` for the fixed-width `T` that has the
    width and signedness of its C parameter type (LP64, plain char signed): same C type. -/
theorem C29_public_ctor_type (k : Ctor) (garbage v : Nat) :
    construct k garbage v = some (ofScalar k.cParam garbage v) := by
  simp [construct, ctorTarget_eq]

example : (construct .uchar 0 200).map (fun t => (t.tag, fromOcca .u8 t)) = some (tagUint8, 200) := by decide
example : (construct .long 7 (2 ^ 64 - 2)).map (fun t => (t.tag, t.bytes, fromOcca .i64 t)) = some (tagInt64, 8, 2 ^ 64 - 2) := by decide

/-- occaTrue / occaFalse are the bool values 1 / 0; occaNull, occaDefault, occaUndefined keep their kind -/
theorem C29_special_values :
    fromOcca .bool occaTrue = 1 ∧ fromOcca .bool occaFalse = 0 ∧ occaTrue.tag = tagBool ∧ occaFalse.tag = tagBool ∧
    occaNull.tag = tagNull ∧ occaNull.hdrOk = true ∧ occaDefault.tag = tagDefault ∧ occaUndefined.hdrOk = false := by
  decide

/-! ### occa::primitive -/

/-- `newOccaType(occa::c::primitive(t), t.type) = t` for every numeric scalar: converting to
    occa::primitive and back with the value's own tag returns the same value and type
    (`garbage'` = the uninitialised bytes of the new occaType, they are never read). -/
theorem C29_prim_roundtrip_typed (c : CTy) (hc : c ≠ .bool) (garbage garbage' v : Nat) :
    (toPrim (ofScalar c garbage v)).map (fun p => ofPrimTyped p (ctorSpec c).1 garbage') =
      some (.ok (ofScalar c garbage' v)) ∧
    fromOcca c (ofScalar c garbage' v) = argBits c v := by
  refine ⟨?_, fromOcca_ofScalar c garbage' v⟩
  have hr : readField c (ofScalar c garbage v).raw = argBits c v := by
    have := fromOcca_ofScalar c garbage v
    cases c <;> first | exact absurd rfl hc | exact this
  have key : ofScalar c garbage' (convTo c c (argBits c v)) = ofScalar c garbage' v := by
    rw [convTo_self_arg]
    unfold ofScalar
    rw [argBits_idem]
  cases c <;> first
    | exact absurd rfl hc
    | (simp only [toPrim, ofScalar, ctorSpec, primField, Option.map, ofPrimTyped, typedPrim] at hr key ⊢
       rw [hr]; exact congrArg _ (congrArg _ key))

/-- the same through the untyped overload `newOccaType(const primitive&)` -/
theorem C29_prim_roundtrip (c : CTy) (hc : c ≠ .bool) (garbage garbage' v : Nat) :
    (toPrim (ofScalar c garbage v)).map (fun p => ofPrim p garbage') = some (.ok (ofScalar c garbage' v)) := by
  have hr : readField c (ofScalar c garbage v).raw = argBits c v := by
    have := fromOcca_ofScalar c garbage v
    cases c <;> first | exact absurd rfl hc | exact this
  have key : ofScalar c garbage' (convTo c c (argBits c v)) = ofScalar c garbage' v := by
    rw [convTo_self_arg]
    unfold ofScalar
    rw [argBits_idem]
  cases c <;> first
    | exact absurd rfl hc
    | (simp only [toPrim, ofScalar, ctorSpec, primField, Option.map, ofPrim, untypedPrim] at hr key ⊢
       rw [hr]; exact congrArg _ (congrArg _ key))

/-- The same *value*, not only the same bits: a stored integer or bool read back through
    `occaJsonGetNumber` with ANY integer type that can represent it (e.g. an int8 read as int64, a
    uint32 read as uint64, a bool read as int) has the same mathematical value. -/
theorem C29_int_value_preserved (dst src : CTy) (v : Nat) (hs : src.isFloat = false) (hd : dst.isFloat = false)
    (hdb : dst ≠ .bool) (hfit : dst.lo ≤ intVal src v ∧ intVal src v ≤ dst.hi) :
    intVal dst (convTo dst src v) = intVal src v :=
  convTo_int_value dst src v hs hd hdb hfit

example : intVal .i64 (convTo .i64 .i8 0xfb) = -5 ∧ intVal .i8 0xfb = -5 := by decide

/-- The untyped overload has a case for every primitive type a json number can have (after the
    repair: bool included), and no C entry point of src/c/*.cpp calls it anyway. -/
theorem C29_untyped_overload_total : (∀ c : CTy, untypedPrim c = some c) ∧ untypedPrimCallSites = 0 := by
  refine ⟨?_, by decide⟩
  intro c; cases c <;> rfl

/-! ### json: value and C type after set / get -/

/-- what `occaJsonGetNumber(j, tag)` answers for a json number -/
def getNumber (j : J) (tag garbage : Nat) : Option (Res OType) :=
  match j with
  | .num p => some (ofPrimTyped p tag garbage)
  | _ => none

/-- Every scalar (all 11 C types, bool included) stored with occaJsonObjectSet / occaJsonArrayPush /
    occaJsonArrayInsert becomes a json number that remembers its C type; reading it with
    `occaJsonGetNumber(j, <tag of the type>)` returns the same value with the same tag and size;
    it reads as a json boolean iff it was a bool. -/
theorem C29_json_scalar_set_get (c : CTy) (garbage garbage' v : Nat) :
    ∃ j, inferJsonPlain (ofScalar c garbage v) = .ok j ∧
      j = .num ⟨some c, argBits c v⟩ ∧
      j.isNumber = true ∧ (j.isBool = true ↔ c = .bool) ∧
      getNumber j (ctorSpec c).1 garbage' = some (.ok (ofScalar c garbage' v)) ∧
      fromOcca c (ofScalar c garbage' v) = argBits c v ∧ (ofScalar c garbage' v).tag = (ctorSpec c).1 := by
  have hr := fromOcca_ofScalar c garbage v
  have key : ofScalar c garbage' (convTo c c (argBits c v)) = ofScalar c garbage' v := by
    rw [convTo_self_arg]
    unfold ofScalar
    rw [argBits_idem]
  refine ⟨.num ⟨some c, argBits c v⟩, ?_, rfl, rfl, ?_, ?_, fromOcca_ofScalar c garbage' v, rfl⟩
  · cases c
    · -- bool: `occa::json((bool) value.value.int8_)`
      simp only [fromOcca, ctorSpec] at hr
      simp only [inferJsonPlain, ofScalar, ctorSpec, inferJsonCase]
      have h01 : argBits .bool v = 0 ∨ argBits .bool v = 1 := by
        simp only [argBits]; split <;> simp
      simp only [ofScalar, ctorSpec] at hr
      simp only [hr]
      rcases h01 with h | h <;> simp [h]
    all_goals
      simp only [fromOcca, ctorSpec] at hr
      simp only [inferJsonPlain, ofScalar, ctorSpec, inferJsonCase, toPrim, primField, Option.map] at hr ⊢
      rw [hr]
  · cases c <;> simp [J.isBool]
  · cases c <;>
      (simp only [getNumber, ofPrimTyped, ctorSpec, typedPrim] at key ⊢
       exact congrArg _ (congrArg _ key))

/-- booleans: occaJsonGetBoolean returns the value that was stored (occaBool, occaTrue, occaFalse) -/
theorem C29_json_bool_set_get (garbage v : Nat) :
    inferJsonPlain (ofScalar .bool garbage v) = .ok (.num ⟨some .bool, argBits .bool v⟩) ∧
    (argBits .bool v ≠ 0 ↔ v % 2 ^ 8 ≠ 0) := by
  obtain ⟨j, h1, h2, _⟩ := C29_json_scalar_set_get .bool garbage 0 v
  refine ⟨by rw [h1, h2], ?_⟩
  simp only [argBits]
  split <;> simp_all

/-- strings (any bytes), null and NULL pointers keep their value and kind; pointers, structs,
    undefined and default values are rejected with an error instead of being stored as something else -/
theorem C29_json_string_null_set_get (s : List Nat) :
    inferJsonPlain (occaString s) = .ok (.str s) ∧
    inferJsonPlain occaNull = .ok .null ∧
    inferJsonPlain (occaPtr true) = .ok .null ∧
    (inferJsonPlain (occaPtr false) matches .err) ∧ (inferJsonPlain (occaStruct 16) matches .err) ∧
    (inferJsonPlain occaUndefined matches .err) ∧ (inferJsonPlain occaDefault matches .err) := by
  refine ⟨rfl, rfl, rfl, rfl, rfl, rfl, rfl⟩

/-! ### json: paths and histories of writes -/

/-- `occaJsonObjectSet(j, path, v)` then `occaJsonObjectGet(j, path, …)`: whatever the document was
    (uninitialised or any object), whatever the path (plain key, `a/b/c`, escaped slash, empty),
    a successful set is read back unchanged — any json value, nested documents included. -/
theorem C29_json_set_get_path (ks : List Key) (v j j' : J) (h : setPath ks v j = .ok j') :
    getPath ks j' = some v :=
  getPath_setPath ks v j j' h

example : ∃ j', setPath (splitPath [0x61, 0x2f, 0x62]) (.str [1, 2]) .none = .ok j' ∧
    getPath (splitPath [0x61, 0x2f, 0x62]) j' = some (.str [1, 2]) :=
  ⟨_, rfl, rfl⟩

/-- a set leaves every other path as it was (other = the two paths separate at some key) -/
theorem C29_json_set_frame (ks ks' : List Key) (v j j' : J) (h : setPath ks v j = .ok j')
    (hd : diverge ks ks' = true) : getPath ks' j' = getPath ks' j :=
  getPath_setPath_frame ks ks' v j j' h hd

/-- Histories: after ANY sequence of successful sets whose paths are pairwise equal or separate
    (no path is a proper prefix of another), every path reads back the LAST value written to it. -/
theorem C29_json_history (ws : List (List Key × J)) (j j' : J) (h : applySets ws j = .ok j')
    (hd : ∀ a ∈ ws, ∀ b ∈ ws, a.1 = b.1 ∨ diverge a.1 b.1 = true)
    (ks : List Key) (v : J) (hl : lastWrite ks ws = some v) : getPath ks j' = some v := by
  induction ws generalizing j with
  | nil => simp [lastWrite] at hl
  | cons a r ih =>
    obtain ⟨ks0, v0⟩ := a
    simp only [applySets] at h
    split at h
    · rename_i j1 h1
      have hd' : ∀ a ∈ r, ∀ b ∈ r, a.1 = b.1 ∨ diverge a.1 b.1 = true :=
        fun a ha b hb => hd a (List.mem_cons_of_mem _ ha) b (List.mem_cons_of_mem _ hb)
      simp only [lastWrite] at hl
      split at hl
      · rename_i x hx
        cases hl
        exact ih j1 h hd' hx
      · rename_i hnone
        split at hl
        · rename_i heq
          cases hl
          subst heq
          have hne := lastWrite_none ks0 r hnone
          have hdiv : ∀ w ∈ r, diverge w.1 ks0 = true := by
            intro w hw
            rcases hd w (List.mem_cons_of_mem _ hw) (ks0, v) List.mem_cons_self with e | e
            · exact absurd e (hne w hw)
            · exact e
          rw [applySets_frame r ks0 j1 j' h hdiv]
          exact getPath_setPath ks0 v j j1 h1
        · cases hl
    · cases h

example : ∃ j', applySets [([[1]], .null), ([[2]], .str [7]), ([[1]], .str [9])] .none = .ok j' ∧
    getPath [[1]] j' = some (.str [9]) ∧ getPath [[2]] j' = some (.str [7]) :=
  ⟨_, rfl, rfl, rfl⟩

/-- The same through a handle at ANY depth of a document (a handle obtained by any chain of
    occaJsonObjectGet / occaJsonArrayGet designates the node at `p`): after
    `occaJsonObjectSet(handle, path, v)` the value is found under `p ++ path` of the owning document,
    i.e. `occaJsonObjectGet(handle, path, …)` and a get from the owner both see it. -/
theorem C29_json_handle_set_get (doc doc' node node' : J) (p : List Step) (ks : List Key) (v : J)
    (hnode : resolve p doc = some node)
    (hset : setPath ks v (prepObject node) = .ok node')
    (hdoc : modifyAt p (fun _ => node') doc = some doc') :
    resolve (p ++ ks.map .key) doc' = some v := by
  rw [resolve_append, resolve_modifyAt p _ doc doc' hdoc, hnode]
  simp only [Option.map, Option.bind, resolve_keys]
  exact getPath_setPath ks v _ _ hset

/-! ### json arrays -/

/-- occaJsonArrayPush then occaJsonArrayGet(size-1) returns the pushed value; earlier places keep theirs -/
theorem C29_array_push_get (a : List J) (v : J) :
    (a ++ [v])[a.length]? = some v ∧ ∀ i, i < a.length → (a ++ [v])[i]? = a[i]? := by
  refine ⟨by simp, ?_⟩
  intro i hi
  exact List.getElem?_append_left hi

/-- histories of pushes: place `a.length + i` holds the i-th pushed value -/
theorem C29_array_history (a vs : List J) (i : Nat) :
    (vs.foldl (fun acc v => acc ++ [v]) a)[a.length + i]? = vs[i]? := by
  have : ∀ (vs a : List J), vs.foldl (fun acc v => acc ++ [v]) a = a ++ vs := by
    intro vs
    induction vs with
    | nil => intro a; simp
    | cons v r ih => intro a; simp [List.foldl, ih]
  rw [this, List.getElem?_append_right (by omega)]
  congr 1
  omega

/-- occaJsonArrayGet past the end grows the array (a quirk of json::operator[]) but never changes
    what was stored; the new place is uninitialised, not a copy of anything -/
theorem C29_array_get_grows_keeps (a : List J) (n : Nat) :
    (∀ i, i < a.length → (growTo a n)[i]? = a[i]?) ∧ (a.length ≤ n → (growTo a n)[n]? = some .none) :=
  ⟨fun i hi => growTo_get a n i hi, growTo_target a n⟩

/-- occaJsonArrayInsert(i, v): place i holds v, places before keep their value, places after shift by one -/
theorem C29_array_insert (a : List J) (i : Nat) (v : J) (hi : i ≤ a.length) :
    (insertAt a i v)[i]? = some v ∧ (∀ k, k < i → (insertAt a i v)[k]? = a[k]?) ∧
    (∀ k, i ≤ k → (insertAt a i v)[k + 1]? = a[k]?) :=
  ⟨insertAt_get a i v hi, fun k hk => insertAt_before a i k v hk hi, fun k hk => insertAt_after a i k v hk hi⟩

/-! ### kernel arguments -/

/-- For every numeric scalar type the kernel receives exactly `sizeof(T)` bytes and they are the
    little-endian bytes of the C value (whatever the unused union bytes contained). -/
theorem C29_kernelarg_bytes (c : CTy) (hc : c ≠ .bool) (garbage v : Nat) :
    ∃ bs, kernelArgOf (ofScalar c garbage v) = .bytes bs ∧ bs.length = c.bytes ∧
      (∀ b ∈ bs, b < 256) ∧ fromLE bs = v % 2 ^ c.bits := by
  have hr : readField c (ofScalar c garbage v).raw = argBits c v := by
    have := fromOcca_ofScalar c garbage v
    cases c <;> first | exact absurd rfl hc | exact this
  refine ⟨leBytes c.bytes (argBits c v), ?_, leBytes_length _ _, leBytes_lt _ _, ?_⟩
  · cases c <;> first
      | exact absurd rfl hc
      | (simp only [kernelArgOf, ofScalar, ctorSpec, kernelArgCase] at hr ⊢
         rw [hr]; rfl)
  · rw [fromLE_leBytes]
    have hl := argBits_lt c v
    cases c <;> first
      | exact absurd rfl hc
      | (simp only [argBits, CTy.bytes, CTy.bits] at hl ⊢
         omega)

/-- the same for every public integer/float constructor: the kernel gets the bytes of the C argument -/
theorem C29_kernelarg_public_ctor (k : Ctor) (hk : k ≠ .bool) (garbage v : Nat) :
    ∃ t bs, construct k garbage v = some t ∧ kernelArgOf t = .bytes bs ∧ bs.length = k.cParam.bytes ∧
      fromLE bs = v % 2 ^ k.cParam.bits := by
  have hc : k.cParam ≠ .bool := by cases k <;> first | exact absurd rfl hk | decide
  obtain ⟨bs, h1, h2, _, h4⟩ := C29_kernelarg_bytes k.cParam hc garbage v
  exact ⟨_, bs, C29_public_ctor_type k garbage v, h1, h2, h4⟩

/-- strings and structs are passed as the pointer with `value.bytes`; occaNull and occaPtr(NULL) as a null pointer -/
theorem C29_kernelarg_pointers (s : List Nat) (n : Nat) :
    kernelArgOf (occaString s) = .pointer (.str s) s.length ∧
    kernelArgOf (occaStruct n) = .pointer .opaque n ∧
    kernelArgOf occaNull = .nullPtr ∧ kernelArgOf (occaPtr true) = .nullPtr := by
  refine ⟨?_, rfl, rfl, rfl⟩
  simp [kernelArgOf, occaString, kernelArgCase, tagString]

/-- documented limit of the API: a bool (occaBool/occaTrue/occaFalse), like handles other than
    memory, is refused as kernel argument with an error — never passed with another value or size -/
theorem C29_kernelarg_bool_rejected (garbage v : Nat) :
    kernelArgOf (ofScalar .bool garbage v) = .error ∧ kernelArgOf occaUndefined = .error ∧ kernelArgOf occaDefault = .error := by
  refine ⟨rfl, rfl, rfl⟩

/-! ### handles -/

/-- Any C program (any history of create / struct copy / borrowed handle / API use / occaFree) that
    follows the ownership discipline on variable names — use only assigned, unretired variables;
    freeing an owning handle retires every variable that designates the same object, freeing a
    borrowed handle retires only that variable — never dereferences or deletes a freed object
    (no use after free, no double free) and never uses an unassigned variable. -/
theorem C29_handles_safe (ops : List HOp) (h : PState.init.wf ops = true) :
    ∀ o ∈ (HState.init.run ops).2, o = .ok :=
  run_ok inv_init ops h

/-- …and if every group of variables it created has been released at the end, no object is left
    allocated: nothing leaks. -/
theorem C29_handles_no_leak (ops : List HOp) (p : PState) (h : PState.init.runP ops = some p)
    (hall : ∀ g v, p.vars g = some v → p.released v.group = true) :
    ∀ o, (HState.init.run ops).1.alloc o = false := by
  intro o
  have I := run_inv inv_init ops h
  cases ha : (HState.init.run ops).1.alloc o with
  | false => rfl
  | true =>
    obtain ⟨g, vg, slg, a, b, _, _, e⟩ := I.allocd o ha
    have := hall g vg a
    rw [b, e] at this
    cases this

/-- occaJsonParse / occaJsonRead of a null document return occaNull, which designates no object:
    the heap json the entry point allocated is released on that path (generated from the source),
    so the machine's `create` is only ever performed for handles the program can free. -/
theorem C29_null_document_not_leaked : nullJsonFreesOwned = true := by decide

/-- The `create` and `borrow` steps of the machine are what src/c/json.cpp does (generated from the
    source): occaCreateJson / occaJsonParse return owning handles (needsFree), occaJsonObjectGet /
    occaJsonArrayGet return borrowed ones — freeing an element handle never deletes part of a document. -/
theorem C29_entry_point_ownership :
    createOwning = true ∧ parseOwning = true ∧ objectGetOwning = false ∧ arrayGetOwning = false ∧
    releases tagJson true = true ∧ releases tagJson false = false := by decide

/-- a non-trivial history satisfying the hypotheses: a json document, a borrowed child handle, a
    struct copy, frees of the borrowed handle and of the owner through its copy -/
example :
    let ops : List HOp := [.create 1 tagJson true, .borrow 2 1, .copy 3 1, .use 2, .free 2, .use 3, .free 3,
                           .create 4 tagDtype true, .use 4, .free 4]
    PState.init.wf ops = true ∧ (HState.init.run ops).2 = List.replicate 10 .ok := by
  decide

/-- the discipline is necessary: using the original after freeing through a copy is a use after
    free in the machine (and the discipline rejects that program) -/
example :
    let ops : List HOp := [.create 1 tagJson true, .copy 2 1, .free 2, .use 1]
    PState.init.wf ops = false ∧ (HState.init.run ops).2 = [.ok, .ok, .ok, .trap] := by
  decide

end Occa.CApi.C29
