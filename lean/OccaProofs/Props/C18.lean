/-
C18 — @tile covers the original loop's iterations exactly once.

Model: OccaModel/Loop.lean (`blockHeader`, `innerHeader`, `tiled`, `tiledLaunch`: tile.cpp after fix F25),
OccaModel/LoopExpr.lean (`blockSpec`, `innerSpec`, `expandTile`: the trees and their text).
Clauses of the property:
  (a) check = true (the default): the tiled loops run the body for exactly the iterator values of the
      original loop, in the original order (hence each once), for every positive tile size and step, both
      directions, all four comparisons, both operand orders, all run-time bounds      C18_tile_exact
  (b) check = false: the same whenever the iteration count is a multiple of T            C18_tile_nocheck
  (c) `@tile(T, @outer, @inner)` on a launcher backend (both loops become launch dimensions)
                                                                                         C18_tile_launch
  (d) the tile-size and step operands are used as complete expressions                   C18_inner_bound_faithful
  Before fix F25 the in-block bound was `xT ± T` instead of `xT ± T*step`: C18_old_step_witness shows
  the statement failing for the model of the old code, C18_old_step_partial what did hold (|step| = 1).
-/
import OccaProofs.Lemmas.Tile
import OccaProofs.Lemmas.ExprGroup
import OccaProofs.Lemmas.ExprGrammar

namespace Occa.Loop.C18
open Occa Occa.Loop Occa.LoopExpr

/-- (a) With the bounds check, block loop + in-block loop + `if` visit exactly the original loop's
    iterator values, in the original order, for every tile size `T > 0` and step `> 0`. -/
theorem C18_tile_exact (h : Header) (T : Int) (hv : h.Valid) (hs : 0 < h.step) (hT : 0 < T) :
    tiled h T true = seqIters h := by
  rw [tiled_closed h T true hv hs hT, seqIters_closed h hv hs]
  congr 1
  unfold tiledIdx
  simp only [Bool.not_true, Bool.false_or]
  rw [blocks_filtered]
  congr 1
  have := blocks_cover h.dist h.step T hs hT
  omega

example : tiled ⟨0, 20, .lt, true, .addEq 3⟩ 4 true = [0, 3, 6, 9, 12, 15, 18] := by decide
example : tiled ⟨10, -3, .le, false, .subEq 2⟩ 3 true = [10, 8, 6, 4, 2, 0, -2] := by decide

/-- (a) "each once" -/
theorem C18_tile_each_once (h : Header) (T : Int) (hv : h.Valid) (hs : 0 < h.step) (hT : 0 < T) :
    (tiled h T true).Nodup := by
  rw [C18_tile_exact h T hv hs hT, seqIters_closed h hv hs]
  refine List.Pairwise.map _ ?_ List.nodup_range
  intro a b hne hab
  apply hne
  simp only [valueOf_eq] at hab
  have key : h.step * (Int.ofNat a) = h.step * (Int.ofNat b) := by
    split at hab <;> omega
  exact Int.ofNat.inj (Int.eq_of_mul_eq_mul_left (Int.ne_of_gt hs) key)

/-- (b) Without the bounds check the same holds whenever `T` divides the iteration count. -/
theorem C18_tile_nocheck (h : Header) (T : Int) (hv : h.Valid) (hs : 0 < h.step) (hT : 0 < T)
    (hdiv : T.toNat ∣ (seqIters h).length) : tiled h T false = seqIters h := by
  rw [seqIters_closed h hv hs] at hdiv ⊢
  simp only [List.length_map, List.length_range] at hdiv
  rw [tiled_closed h T false hv hs hT]
  congr 1
  unfold tiledIdx
  have ft : ∀ l : List Nat, l.filter (fun _ => true) = l := fun l => List.filter_eq_self.mpr (by simp)
  simp only [Bool.not_false, Bool.true_or, ft]
  rw [blocks_full, blocks_exact h.dist h.step T hs hT hdiv]

example : tiled ⟨0, 24, .lt, true, .addEq 3⟩ 4 false = seqIters ⟨0, 24, .lt, true, .addEq 3⟩ := by decide
/-- without the hypothesis the unchecked tiling overshoots: 7 iterations, T = 4 -/
example : tiled ⟨0, 20, .lt, true, .addEq 3⟩ 4 false = [0, 3, 6, 9, 12, 15, 18, 21] := by decide

/-- (c) `@tile(T, @outer, @inner)` under the launch model: work-groups = blocks, work-items = in-block
    iterations (the host evaluates the in-block count from the loop's initial value), bounds check in
    the kernel. -/
theorem C18_tile_launch (h : Header) (T : Int) (check : Bool) (hv : h.Valid) (hs : 0 < h.step) (hT : 0 < T)
    (hrb : (blockHeader h T).DimInRange) (hri : (innerHeader h T h.init).DimInRange) :
    tiledLaunch h T check = tiled h T check := by
  rw [tiledLaunch_closed h T check hv hs hT hrb hri, tiled_closed h T check hv hs hT]

example : tiledLaunch ⟨0, 20, .lt, true, .addEq 3⟩ 4 true = [0, 3, 6, 9, 12, 15, 18] := by decide
example : (blockHeader ⟨0, 20, .lt, true, .addEq 3⟩ 4).DimInRange ∧ (innerHeader ⟨0, 20, .lt, true, .addEq 3⟩ 4 0).DimInRange := by
  decide

/-- (a) 2-D tiling: two nested `@tile(…, @outer, @inner)` loops, where `floatOuterLoopUp` moves the inner block
    loop above the outer in-block loop, visit a permutation of the untiled nest's iterator pairs — every pair
    exactly once. -/
theorem C18_tile_2d (hy hx : Header) (Ty Tx : Int) (vy : hy.Valid) (sy : 0 < hy.step) (ty : 0 < Ty)
    (vx : hx.Valid) (sx : 0 < hx.step) (tx : 0 < Tx) :
    (tiled2d hy Ty true hx Tx true).Perm (seqNest [hy, hx]) := by
  have ey := C18_tile_exact hy Ty vy sy ty
  have ex := C18_tile_exact hx Tx vx sx tx
  unfold tiled at ey ex
  have h1 : ∀ l : List Int, l.flatMap (fun i => [[i]]) = l.map fun i => [i] := by
    intro l
    induction l with
    | nil => rfl
    | cons a t ih => simp [List.flatMap_cons, ih]
  have hseq : seqNest [hy, hx] = (seqIters hy).flatMap fun y => (seqIters hx).map fun x => [y, x] := by
    simp [seqNest, h1, List.map_map, Function.comp_def]
  rw [hseq, ← ey, List.flatMap_assoc]
  unfold tiled2d
  refine List.Perm.flatMap_left _ fun yT _ => ?_
  refine (flatMap_comm_perm _ _ _).trans ?_
  refine List.Perm.flatMap_left _ fun y _ => ?_
  rw [← List.map_flatMap, ex]

example : (tiled2d ⟨0, 5, .lt, true, .inc⟩ 2 true ⟨0, 3, .lt, true, .inc⟩ 2 true).length = 15 := by decide

/-- (d) The texts of the in-block bound `(xT ± stride)` and of the block stride are derived by the C expression
    grammar as the trees that were built, for tile sizes and steps of every operator class; those trees denote
    the numeric `innerHeader` / `blockHeader` (`C18_tile_spec_value`). -/
theorem C18_inner_bound_faithful (l : LoopSpec) (t : TileSpec) (hT : Grouped t.T)
    (hst : ∀ s, l.step = some s → Grouped s) :
    (∃ ts, renderAll ts = print (innerSpec l t).bound ∧ Derives 16 ts (innerSpec l t).bound) ∧
    (∀ s, (blockSpec l t).step = some s → ∃ ts, renderAll ts = print (wrap s) ∧ Derives 16 ts (wrap s)) := by
  obtain ⟨h1, h2⟩ := tileSpec_grouped l t hT hst
  exact ⟨grouped_reads _ h1, fun s hs => grouped_reads _ (h2 s hs)⟩

theorem C18_tile_spec_value (l : LoopSpec) (t : TileSpec) (env : String → Int) (xT : Int)
    (hfresh : ∀ e : Expr, e = l.init ∨ e = l.bound ∨ l.step = some e ∨ e = t.T →
      eval (fun n => if n = tiledName l.var then xT else env n) e = eval env e) :
    (blockSpec l t).header env = blockHeader (l.header env) (eval env t.T) ∧
    (innerSpec l t).header (fun n => if n = tiledName l.var then xT else env n)
      = innerHeader (l.header env) (eval env t.T) xT :=
  tileSpec_value l t env xT hfresh

/-! ### the code before fix F25 (in-block bound `xT ± T`) -/

/-- s = 3, T = 8: a block advances 24 but the in-block loop covers 3 of its 8 iterations -/
theorem C18_old_step_witness :
    tiledOld ⟨0, 48, .lt, true, .addEq 3⟩ 8 true = [0, 3, 6, 24, 27, 30] ∧
    seqIters ⟨0, 48, .lt, true, .addEq 3⟩ = [0, 3, 6, 9, 12, 15, 18, 21, 24, 27, 30, 33, 36, 39, 42, 45] := by
  decide

/-- what the old code did get right: steps of 1 (`++`, `--`, `+= 1`, `-= 1`) -/
theorem C18_old_step_partial (h : Header) (T : Int) (check : Bool) (h1 : h.step = 1) :
    tiledOld h T check = tiled h T check := by
  have e : ∀ xT, innerHeaderOld h T xT = innerHeader h T xT := by
    intro xT
    have hst : stride h T = T := by rw [stride_eq, h1]; simp
    simp [innerHeaderOld, innerHeader, hst]
  unfold tiledOld tiled
  simp only [e]

end Occa.Loop.C18
