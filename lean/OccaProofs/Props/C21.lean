/-
C21 (PARTIAL) — OpenMP kernels are deterministic for every thread count and schedule.

Proved on the loop-structure level: any interleaving of independent outer iterations gives the
sequential result (an OpenMP execution with any number of threads and any schedule is such an
interleaving; `omp atomic` / `omp critical` statements are single steps), atomic additions are
never lost while an unguarded read-modify-write can be, and the structure of the OpenMP
translation (`openmpT`, compared with the real translator by tools/checks/C21.py): the pragma
before every outer-most @outer loop, every @shared/@exclusive declaration and the exclusive index
inside the parallel loop body (hence private to an outer iteration).  The OpenMP runtime and the
compiler are assumptions.
-/
import OccaProofs.Lemmas.OklSem
import OccaModel.OklT
import OccaGen.OklFacts

namespace Occa.OklSem.C21
open Occa.OklSem

/-- C21, schedules: `iters` are the step sequences of the outer iterations in loop order.  Whatever
    the number of threads and the schedule, an OpenMP execution runs the steps in an order that
    keeps each iteration's own order — an interleaving.  If steps of different iterations commute
    (the kernel is independent), every such execution ends in the state of the Serial translation. -/
theorem C21_schedule_independent {α σ : Type} (f : α → σ → σ) (iters : List (List α))
    (hind : CrossCommute f iters) (exec : List α) (h : Interleave iters exec) (s : σ) :
    run f exec s = run f iters.flatten s :=
  run_interleave f iters exec h hind s

/-- steps on a shared cell: an indivisible addition (`omp atomic`), or the two halves of an
    unguarded `x += c` of thread `t` (read into a register, write register + c) -/
inductive Step | atomicAdd (c : Nat) | read (t : Nat) | write (t : Nat) (c : Nat)

def stepf : Step → Nat × (Nat → Nat) → Nat × (Nat → Nat)
  | .atomicAdd c, (x, reg) => (x + c, reg)
  | .read t, (x, reg) => (x, fun u => if u = t then x else reg u)
  | .write t c, (_, reg) => (reg t + c, reg)

/-- C21, "updates marked @atomic are never lost": however the atomic additions of the outer
    iterations interleave, the cell ends with the sum of all of them. -/
theorem C21_atomic_not_lost (iters : List (List Nat)) (exec : List Step)
    (h : Interleave (iters.map (List.map Step.atomicAdd)) exec) (x : Nat) (reg : Nat → Nat) :
    (run stepf exec (x, reg)).1 = x + (iters.flatten).sum := by
  have hc : CrossCommute stepf (iters.map (List.map Step.atomicAdd)) := by
    unfold CrossCommute
    rw [List.pairwise_map]
    apply List.pairwise_of_forall
    intro a b p hp q hq s
    obtain ⟨c1, _, rfl⟩ := List.mem_map.1 hp
    obtain ⟨c2, _, rfl⟩ := List.mem_map.1 hq
    obtain ⟨y, r⟩ := s
    simp [stepf, Nat.add_right_comm]
  rw [run_interleave stepf _ exec h hc]
  have : ∀ (l : List Nat) (y : Nat), (run stepf (l.map Step.atomicAdd) (y, reg)).1 = y + l.sum := by
    intro l
    induction l with
    | nil => intro y; simp [run]
    | cons c l ih => intro y; rw [List.map_cons, run_cons]; simp only [stepf]; rw [ih]; simp; omega
  rw [← List.map_flatten]
  exact this _ x

/-- the same two increments without the guard can lose one -/
example : Interleave [[Step.read 0, .write 0 1], [.read 1, .write 1 1]] [.read 0, .read 1, .write 0 1, .write 1 1] ∧
    (run stepf [.read 0, .read 1, .write 0 1, .write 1 1] (0, fun _ => 0)).1 = 1 := by
  have h4 : Interleave ([[]] ++ ([] : List Step) :: []) [] := .done _ (by simp)
  have h3 : Interleave ([[]] ++ (Step.write 1 1 :: []) :: []) [Step.write 1 1] := .step [[]] _ [] [] _ h4
  have h2 : Interleave ([] ++ (Step.write 0 1 :: []) :: [[Step.write 1 1]]) [Step.write 0 1, Step.write 1 1] :=
    .step [] _ [] [[Step.write 1 1]] _ h3
  have h1 : Interleave ([[Step.write 0 1]] ++ (Step.read 1 :: [Step.write 1 1]) :: [])
      [Step.read 1, Step.write 0 1, Step.write 1 1] := .step [[Step.write 0 1]] _ [Step.write 1 1] [] _ h2
  have h0 : Interleave ([] ++ (Step.read 0 :: [Step.write 0 1]) :: [[Step.read 1, Step.write 1 1]])
      [Step.read 0, Step.read 1, Step.write 0 1, Step.write 1 1] :=
    .step [] _ [Step.write 0 1] [[Step.read 1, Step.write 1 1]] _ h1
  exact ⟨h0, rfl⟩

/-! ### structure of the OpenMP translation -/

open Occa.Okl Occa.OklT

/-- every outer-most @outer loop of a target tree directly follows `#pragma omp parallel for` -/
def PragmaOk (inOuter prevPragma : Bool) : TT → Prop
  | .nil => True
  | .node k kids next =>
    (k = .oFor → inOuter = true ∨ prevPragma = true) ∧
    PragmaOk (inOuter || decide (k = .oFor)) false kids ∧
    PragmaOk inOuter (decide (k = .pragma .ompParallelFor)) next

/-- declarations of @shared / @exclusive variables and everything that concerns the exclusive
    index occur only inside an @outer loop -/
def PrivateOk (inOuter : Bool) : TT → Prop
  | .nil => True
  | .node k kids next =>
    ((k = .declXi ∨ k = .xiZero ∨ k = .xiInc ∨ (∃ d, k = .declShared d) ∨ (∃ n, k = .declExcl n)) → inOuter = true) ∧
    PrivateOk (inOuter || decide (k = .oFor)) kids ∧ PrivateOk inOuter next

theorem PragmaOk_append (a b : TT) (io : Bool) : ∀ pp, PragmaOk io pp a →
    (∀ pp', PragmaOk io pp' b) → PragmaOk io pp (a.append b) := by
  induction a with
  | nil => intro pp _ hb; exact hb pp
  | node k kids next _ ihn =>
    intro pp ha hb
    simp only [TT.append, PragmaOk] at *
    exact ⟨ha.1, ha.2.1, ihn _ ha.2.2 hb⟩

theorem PrivateOk_append (a b : TT) (io : Bool) : PrivateOk io a → PrivateOk io b → PrivateOk io (a.append b) := by
  induction a with
  | nil => intro _ hb; exact hb
  | node k kids next _ ihn =>
    intro ha hb
    simp only [TT.append, PrivateOk] at *
    exact ⟨ha.1, ha.2.1, ihn ha.2.2 hb⟩

/-- C21, parallel region placement: in the OpenMP translation every outer-most @outer loop is
    immediately preceded by the `omp parallel for` pragma (and no other loop is). -/
theorem C21_pragma_before_outermost_outer (t : Tree) : ∀ (c : SCtx) (pp : Bool), c.omp = true →
    PragmaOk c.inOuter pp (hostGo c t) := by
  induction t with
  | nil => intro c pp _; simp [hostGo, PragmaOk]
  | node n kids next ihk ihn =>
    intro c pp homp
    have hn : ∀ pp', PragmaOk c.inOuter pp' (hostGo c next) := fun pp' => ihn c pp' homp
    obtain ⟨kind, uses⟩ := n
    cases kind with
    | okl o i h nb =>
      cases o with
      | true =>
        simp only [hostGo, homp, Bool.true_and]
        have hbody : ∀ c' : SCtx, c'.omp = true → c'.inOuter = true →
            PragmaOk true false (if (c.excl && ownsExcl kids) = true then TT.leaf .declXi (hostGo c' kids) else hostGo c' kids) := by
          intro c' h1 h2
          have := ihk c' false h1
          rw [h2] at this
          split
          · simp only [TT.leaf, PragmaOk]
            exact ⟨by simp, trivial, by simpa using ihk c' false h1 |> fun h => by rw [h2] at h; exact h⟩
          · exact this
        cases hio : c.inOuter with
        | true =>
          simp only [Bool.not_true, Bool.false_eq_true, ↓reduceIte, PragmaOk, true_or, implies_true, true_and,
            Bool.true_or]
          refine ⟨?_, ?_⟩
          · exact hbody _ (by simp [homp]) rfl
          · have := hn (decide (TKind.oFor = TKind.pragma Pragma.ompParallelFor)); rw [hio] at this; exact this
        | false =>
          simp only [Bool.not_false, ↓reduceIte, TT.leaf, PragmaOk, reduceCtorEq, false_imp_iff, true_and,
            decide_true, or_true, implies_true, Bool.false_or, decide_false]
          refine ⟨?_, ?_⟩
          · exact hbody _ (by simp [homp]) rfl
          · have := hn false; rw [hio] at this; exact this
      | false =>
        cases i with
        | true =>
          simp only [hostGo]
          have hk := ihk { c with inInner := true } false homp
          have hbody : PragmaOk c.inOuter false
              (if (c.xiScope && !hasInnerAttr kids) = true then (hostGo { c with inInner := true } kids).append (TT.leaf .xiInc .nil)
               else hostGo { c with inInner := true } kids) := by
            split
            · exact PragmaOk_append _ _ _ _ hk (fun pp' => by simp [TT.leaf, PragmaOk])
            · exact hk
          split
          · simp only [TT.leaf, PragmaOk, reduceCtorEq, false_imp_iff, true_and, decide_false, Bool.or_false]
            exact ⟨hbody, hn _⟩
          · simp only [PragmaOk, reduceCtorEq, false_imp_iff, true_and, decide_false, Bool.or_false]
            exact ⟨hbody, hn _⟩
        | false =>
          simp only [hostGo, PragmaOk, reduceCtorEq, false_imp_iff, true_and, decide_false, Bool.or_false]
          exact ⟨ihk c false homp, hn _⟩
    | block a =>
      simp only [hostGo, homp, Bool.true_and]
      split
      · split
        · simp [TT.leaf, PragmaOk, hn, exprOut]
        · simp only [TT.leaf, PragmaOk, reduceCtorEq, false_imp_iff, true_and, decide_false, Bool.or_false]
          exact ⟨ihk c false homp, hn _⟩
      · simp only [PragmaOk, reduceCtorEq, false_imp_iff, true_and, decide_false, Bool.or_false]
        exact ⟨ihk c false homp, hn _⟩
    | decl dk => cases dk <;> simp [hostGo, TT.leaf, PragmaOk, hn]
    | expr a b =>
      simp only [hostGo, homp, Bool.true_and]
      split
      · split <;> simp [TT.leaf, PragmaOk, hn, exprOut]
      · simp [TT.leaf, PragmaOk, hn, exprOut]
    | for_ | while_ | switch_ | if_ | elif_ | else_ =>
      simp only [hostGo, PragmaOk, reduceCtorEq, false_imp_iff, true_and, decide_false, Bool.or_false]
      exact ⟨ihk c false homp, hn _⟩
    | barrier | brk | cont | ret => simp [hostGo, TT.leaf, PragmaOk, hn]

/-- C21, no shared state: for a rule-conforming kernel every @shared / @exclusive declaration of the
    OpenMP (and Serial) translation, the exclusive index, its reset and its increment lie inside an
    @outer loop — and by the previous theorem inside the body of a parallel loop, so they are
    private to one outer iteration. -/
theorem C21_no_shared_state_go (t : Tree) : ∀ (c : SCtx) (ii : Bool),
    declsOk c.inOuter ii t = true → (c.xiScope = true → c.inOuter = true) → PrivateOk c.inOuter (hostGo c t) := by
  induction t with
  | nil => intro c ii _ _; simp [hostGo, PrivateOk]
  | node n kids next ihk ihn =>
    intro c ii hd hxi
    obtain ⟨kind, uses⟩ := n
    simp only [declsOk, Bool.and_eq_true] at hd
    obtain ⟨⟨⟨hown, _⟩, hkids⟩, hnext⟩ := hd
    have hn := ihn c ii hnext hxi
    cases kind with
    | okl o i h nb =>
      cases o with
      | true =>
        simp only [Kind.flags, Bool.or_true] at hkids
        have hk : ∀ c' : SCtx, c'.inOuter = true → PrivateOk true (hostGo c' kids) := by
          intro c' h1
          have := ihk c' (ii || i) (by rw [h1]; exact hkids) (fun _ => h1)
          rw [h1] at this; exact this
        simp only [hostGo]
        have hbody : ∀ c' : SCtx, c'.inOuter = true →
            PrivateOk true (if (c.excl && ownsExcl kids) = true then TT.leaf .declXi (hostGo c' kids) else hostGo c' kids) := by
          intro c' h1
          split
          · simp only [TT.leaf, PrivateOk]; exact ⟨by simp, trivial, by simpa using hk c' h1⟩
          · exact hk c' h1
        split
        · simp only [TT.leaf, PrivateOk, reduceCtorEq, false_or, exists_const, or_self, false_imp_iff, true_and,
            decide_true, Bool.or_true, decide_false, Bool.or_false]
          exact ⟨hbody _ rfl, hn⟩
        · simp only [PrivateOk, reduceCtorEq, false_or, exists_const, or_self, false_imp_iff, true_and,
            decide_true, Bool.or_true]
          exact ⟨hbody _ rfl, hn⟩
      | false =>
        cases i with
        | true =>
          simp only [Kind.flags, Bool.or_false, Bool.or_true] at hkids
          have hk := ihk { c with inInner := true } true hkids hxi
          simp only [hostGo]
          have hbody : PrivateOk c.inOuter
              (if (c.xiScope && !hasInnerAttr kids) = true then (hostGo { c with inInner := true } kids).append (TT.leaf .xiInc .nil)
               else hostGo { c with inInner := true } kids) := by
            split
            · rename_i hh
              simp only [Bool.and_eq_true] at hh
              exact PrivateOk_append _ _ _ hk (by simp only [TT.leaf, PrivateOk]; exact ⟨fun _ => hxi hh.1, trivial, trivial⟩)
            · exact hk
          split
          · rename_i hh
            simp only [Bool.and_eq_true] at hh
            simp only [TT.leaf, PrivateOk, reduceCtorEq, decide_false, Bool.or_false]
            exact ⟨fun _ => hxi hh.1, trivial, ⟨by simp, hbody, hn⟩⟩
          · simp only [PrivateOk, reduceCtorEq, decide_false, Bool.or_false]
            exact ⟨by simp, hbody, hn⟩
        | false =>
          simp only [Kind.flags, Bool.or_false] at hkids
          simp only [hostGo, PrivateOk, reduceCtorEq, decide_false, Bool.or_false]
          exact ⟨by simp, ihk c ii hkids hxi, hn⟩
    | block a =>
      simp only [Kind.flags] at hkids
      have hk := ihk c ii hkids hxi
      simp only [hostGo]
      split
      · split
        · simp only [TT.leaf, PrivateOk]
          exact ⟨by simp, trivial, by simp [exprOut], trivial, hn⟩
        · simp only [TT.leaf, PrivateOk]
          refine ⟨by simp, trivial, by simp, ?_, hn⟩
          simpa using hk
      · simp only [PrivateOk, reduceCtorEq, decide_false, Bool.or_false]
        exact ⟨by simp, hk, hn⟩
    | decl dk =>
      cases dk with
      | plain => simp only [hostGo, TT.leaf, PrivateOk]; exact ⟨by simp, trivial, hn⟩
      | shared d =>
        simp only [declHere, usageOk, ↓reduceIte, Bool.and_eq_true, Bool.not_eq_true'] at hown
        simp only [hostGo, TT.leaf, PrivateOk]; exact ⟨fun _ => hown.2.2, trivial, hn⟩
      | exclusive =>
        simp only [declHere, usageOk, ↓reduceIte, Bool.and_eq_true, Bool.not_eq_true'] at hown
        simp only [hostGo, TT.leaf, PrivateOk]; exact ⟨fun _ => hown.2, trivial, hn⟩
    | expr a b =>
      simp only [hostGo]
      split
      · split
        · simp only [TT.leaf, PrivateOk]; exact ⟨by simp, trivial, by simp [exprOut], trivial, hn⟩
        · simp only [TT.leaf, PrivateOk]
          exact ⟨by simp, trivial, by simp, ⟨by simp [exprOut], trivial, trivial⟩, hn⟩
      · simp only [TT.leaf, PrivateOk]; exact ⟨by simp [exprOut], trivial, hn⟩
    | for_ | while_ | switch_ | if_ | elif_ | else_ =>
      simp only [Kind.flags] at hkids
      simp only [hostGo, PrivateOk, reduceCtorEq, decide_false, Bool.or_false]
      exact ⟨by simp, ihk c ii hkids hxi, hn⟩
    | barrier | brk | cont | ret => simp only [hostGo, TT.leaf, PrivateOk]; exact ⟨by simp, trivial, hn⟩

theorem C21_no_shared_state (k : Kernel) (hk : rulesOk k = true) :
    PrivateOk false (hostGo ⟨true, hasExcl k.body, false, false, false, 1024⟩ k.body) ∧
    PragmaOk false false (hostGo ⟨true, hasExcl k.body, false, false, false, 1024⟩ k.body) := by
  have hd : declsOk false false k.body = true := by
    unfold rulesOk rulesRes at hk
    rw [beq_iff_eq] at hk
    cases h1 : k.retVoid
    · simp [h1, Res.ofBool, Res.and] at hk
    · cases h2 : loopsOk k.body
      · cases h3 : declsOk false false k.body
        · simp [h1, h2, h3, Res.ofBool, Res.and] at hk
        · rfl
      · simp [h1, h2, Res.ofBool, Res.and] at hk
      · simp [h1, h2, Res.ofBool, Res.and] at hk
  exact ⟨C21_no_shared_state_go k.body ⟨true, hasExcl k.body, false, false, false, 1024⟩ false hd (by simp),
    C21_pragma_before_outermost_outer k.body ⟨true, hasExcl k.body, false, false, false, 1024⟩ false rfl⟩


/-- the @atomic statements and regions of a kernel (a region holding exactly one `+= -= ++ --`
    statement counts once: `applyBlockCodeTransformation` turns it into that statement) -/
def atomicCount : Tree → Nat
  | .nil => 0
  | .node n kids next =>
    (match n.kind with
     | .expr a _ => if a then 1 else 0
     | .block true => if singleBasicExpr kids then 1 else 1 + atomicCount kids
     | .decl _ | .barrier | .brk | .cont | .ret => 0
     | _ => atomicCount kids) + atomicCount next

/-- `#pragma omp atomic` / `#pragma omp critical` lines of a target tree -/
def guardCount : TT → Nat
  | .nil => 0
  | .node k kids next =>
    (if k = .pragma .ompAtomic ∨ k = .pragma .ompCritical then 1 else 0) + guardCount kids + guardCount next

theorem guardCount_append (a b : TT) : guardCount (a.append b) = guardCount a + guardCount b := by
  induction a with
  | nil => simp [TT.append, guardCount]
  | node k kids next _ ihn => simp only [TT.append, guardCount, ihn]; omega

theorem gc_ite_leaf (b : Bool) (k : TKind) (hk : k ≠ .pragma .ompAtomic ∧ k ≠ .pragma .ompCritical) (x : TT) :
    guardCount (if b = true then TT.leaf k x else x) = guardCount x := by
  cases b <;> simp [TT.leaf, guardCount, hk.1, hk.2]

theorem gc_ite_inc (b : Bool) (x : TT) :
    guardCount (if b = true then x.append (TT.leaf .xiInc .nil) else x) = guardCount x := by
  cases b <;> simp [guardCount_append, TT.leaf, guardCount]

theorem gc_node (k : TKind) (hk : k ≠ .pragma .ompAtomic ∧ k ≠ .pragma .ompCritical) (a b : TT) :
    guardCount (.node k a b) = guardCount a + guardCount b := by
  simp [guardCount, hk.1, hk.2]

theorem single_false (kids : Tree) (h : ∀ a u, kids = .node ⟨.expr a true, u⟩ .nil .nil → False) :
    singleBasicExpr kids = false := by
  cases kids with
  | nil => rfl
  | node n k2 n2 =>
    obtain ⟨kd, u⟩ := n
    cases k2 with
    | node _ _ _ => simp [singleBasicExpr]
    | nil =>
      cases n2 with
      | node _ _ _ => simp [singleBasicExpr]
      | nil =>
        cases kd with
        | expr a b =>
          cases b with
          | true => exact absurd rfl (fun hh => h a u hh)
          | false => simp [singleBasicExpr]
        | _ => simp [singleBasicExpr]

/-- C21, atomics: the OpenMP translation emits exactly one `omp atomic` / `omp critical` guard per
    @atomic statement or region of the kernel (none is dropped, none is invented). -/
theorem C21_atomics_guarded (t : Tree) : ∀ (c : SCtx), c.omp = true → guardCount (hostGo c t) = atomicCount t := by
  induction t with
  | nil => intro c _; simp [hostGo, guardCount, atomicCount]
  | node n kids next ihk ihn =>
    intro c homp
    have hn := ihn c homp
    obtain ⟨kind, uses⟩ := n
    cases kind with
    | okl o i h nb =>
      cases o with
      | true =>
        simp only [hostGo]
        rw [gc_ite_leaf _ _ (by simp), gc_node _ (by simp), gc_ite_leaf _ _ (by simp), ihk _ (by simp [homp]), hn]
        simp [atomicCount]
      | false =>
        cases i with
        | true =>
          simp only [hostGo]
          rw [gc_ite_leaf _ _ (by simp), gc_node _ (by simp), gc_ite_inc, ihk _ (by simp [homp]), hn]
          simp [atomicCount]
        | false =>
          simp only [hostGo]
          rw [gc_node _ (by simp), ihk c homp, hn]
          simp [atomicCount]
    | block a =>
      cases a with
      | true =>
        simp only [hostGo, homp, Bool.true_and, ↓reduceIte]
        split
        · simp [TT.leaf, guardCount, atomicCount, hn, exprOut, singleBasicExpr]
        · rename_i hne
          simp only [TT.leaf, guardCount, reduceCtorEq, or_true, ↓reduceIte, false_or, ihk c homp, hn]
          have hs : singleBasicExpr kids = false := single_false kids (fun a u h => hne a u h)
          have : atomicCount (.node ⟨.block true, uses⟩ kids next) = 1 + atomicCount kids + atomicCount next := by
            simp [atomicCount, hs]
          rw [this]; omega
      | false =>
        simp only [hostGo, Bool.and_false, Bool.false_eq_true, ↓reduceIte]
        rw [gc_node _ (by simp), ihk c homp, hn]
        simp [atomicCount]
    | decl dk => cases dk <;> simp [hostGo, TT.leaf, guardCount, atomicCount, hn]
    | expr a b =>
      cases a <;> cases b <;> simp [hostGo, homp, TT.leaf, guardCount, atomicCount, hn, exprOut] <;> omega
    | for_ | while_ | switch_ | if_ | elif_ | else_ =>
      simp only [hostGo]
      rw [gc_node _ (by simp), ihk c homp, hn]
      simp [atomicCount]
    | barrier | brk | cont | ret => simp [hostGo, TT.leaf, guardCount, atomicCount, hn]

/-- the pragma the source emits, and who rewrites @atomic -/
theorem C21_source_facts : Occa.Gen.Okl.ompPragma = "omp parallel for" ∧ "openmp" ∈ Occa.Gen.Okl.atomicRewriters := by
  decide

end Occa.OklSem.C21
