/-
C06 — Kernel cache keys separate every build configuration.

Model: OccaModel/CacheKey.lean over the generated OccaGen/CacheKeyFields.lean (field lists,
combinators, renderings of serial::device::kernelHash, openmp::device::kernelHash,
kernelHeaderHash, device::setupKernelInfo).  The hash function `H`, the JSON encoder `enc`,
the embedding of texts `raw`, the hash rendering `full`, the mode constant `tweak` and the
device hash are PARAMETERS: every theorem below holds for all of them.
Statement of the property, clause by clause:
  "share a cached binary only if their effective build inputs are identical"
        C06_fields_cover     every named input is in the regenerated tables of hashed fields
        C06_table_shape      the regenerated tables have the labelled, full-width shape
        C06_injective        no collisions of H/enc/raw/full/tweak  ⇒  equal keys only for equal effective inputs
        C06_collision_reduces  without any idealisation: a key collision between different
                             effective inputs exhibits a collision of one of the parameters
  "identical builds in separate processes resolve to the same cache entry"
        C06_deterministic    the key is a function of the hashed properties and the source only
                             (no other property, no process-specific input); the two-process
                             part is checked by the harness
-/
import OccaProofs.Lemmas.CacheKey
import OccaProofs.Lemmas.JsonDump
import OccaProofs.Lemmas.HashExact

namespace Occa.CacheKey.C06
open Occa.CacheKeyBase Occa.CacheKey

variable {κ σ : Type}

/-- a collision of one of the parameters of the key construction -/
inductive Collision (e : Env κ σ) : Prop
  | hash (x y : σ) (hne : x ≠ y) (h : e.H x = e.H y)
  | enc (a b : J) (hne : a ≠ b) (h : e.enc a = e.enc b)
  | raw (s t : String) (hne : s ≠ t) (h : e.raw s = e.raw t)
  | full (k k' : κ) (hne : k ≠ k') (h : e.full k = e.full k')
  | tweak (k k' : κ) (hne : k ≠ k') (h : e.tweak k = e.tweak k')

/-- Tie to the source: the regenerated tables say that all three key assemblies hash ONE
    labelled object (not an xor of value hashes), skip unset values, render nested hashes with
    all 256 bits, use distinct labels and contain the device, mode, header and source parts. -/
theorem C06_table_shape : Shape := shape

/-- Every input named by the property occurs in the regenerated lists of hashed properties, and
    the source text is one of the parts of the key (decided on the table). -/
theorem C06_fields_cover : (∀ n ∈ namedProps, n ∈ hashedNames) ∧ hasPart .sourceHash = true := by
  constructor <;> decide

/-- The key determines every hashed input: with collision-free parameters, equal kernel keys
    imply equal source text and equal values of all hashed properties. -/
theorem C06_key_determines_inputs (e : Env κ σ) (hi : e.Inj (fun _ => True)) (c₁ c₂ : Config)
    (h : baseKey e c₁ = baseKey e c₂) : c₁.view = c₂.view :=
  view_eq_of_baseKey_eq e hi shape (Config.ok_all _ _) (Config.ok_all _ _) h

/-- "Two builds share a cached binary only if their effective build inputs are identical":
    for every hash function etc. without collisions, equal keys imply equal effective inputs
    (source text and the eleven named properties). -/
theorem C06_injective (e : Env κ σ) (hi : e.Inj (fun _ => True)) (c₁ c₂ : Config)
    (h : baseKey e c₁ = baseKey e c₂) : c₁.effective = c₂.effective := by
  unfold Config.effective
  rw [src_eq_of_baseKey_eq e hi shape (Config.ok_all _ _) (Config.ok_all _ _) h]
  rw [List.map_congr_left (fun n hn =>
    get_eq_of_baseKey_eq e hi shape (Config.ok_all _ _) (Config.ok_all _ _) h n (C06_fields_cover.1 n hn))]

/-- The same with the JSON encoder instantiated by the MODEL of json::dumpToString: its
    injectivity is not assumed but proved (Lemmas/JsonDump.lean, `dump_injective`) for
    well-formed values — no uninitialised json inside a value, number/boolean tokens are words
    over letters, digits and `+ - .`, object keys contain no `"` (the dump does not escape
    keys).  What remains assumed: no collisions of the hash function, of the text embedding and
    of the hash renderings, which must be well-formed JSON values (they are JSON strings). -/
theorem C06_injective_dump (e : Env κ String) (henc : e.enc = dump)
    (hH : Function.Injective e.H) (hraw : Function.Injective e.raw)
    (hfull : Function.Injective e.full) (htweak : Function.Injective e.tweak)
    (hfw : ∀ k, (e.full k).WF) (c₁ c₂ : Config) (w₁ : c₁.WF) (w₂ : c₂.WF)
    (h : baseKey e c₁ = baseKey e c₂) : c₁.effective = c₂.effective := by
  have hi : e.Inj J.WFtop :=
    ⟨hH, fun a b wa wb hab => dump_injective a b wa wb (by rw [henc] at hab; exact hab), hraw, hfull, htweak⟩
  have o₁ := ok_of_wf e shape hfw c₁ w₁
  have o₂ := ok_of_wf e shape hfw c₂ w₂
  unfold Config.effective
  rw [src_eq_of_baseKey_eq e hi shape o₁ o₂ h]
  rw [List.map_congr_left (fun n hn => get_eq_of_baseKey_eq e hi shape o₁ o₂ h n (C06_fields_cover.1 n hn))]

/-- The OpenMP device mixes a constant into the serial key with `^` (openmp::device::kernelHash;
    the constant is in the regenerated table as `Gen.openmpSalt`).  Any operation that is undone by
    applying it again with the same constant — `hash_t::operator^` is — gives an injective `tweak`:
    the xor that is left in the key construction cannot make two serial keys collide. -/
theorem C06_constant_mix_injective {κ : Type} (mix : κ → κ → κ) (hmix : ∀ a c, mix (mix a c) c = a)
    (c : κ) : Function.Injective (fun a => mix a c) := by
  intro a b h
  have := congrArg (fun k => mix k c) h
  simpa [hmix] using this

/-- The same without idealisation: for EVERY hash function, encoder and rendering, a key shared
    by two configurations with different effective inputs yields a collision of one of them —
    the key construction adds no collisions of its own. -/
theorem C06_collision_reduces (e : Env κ σ) (c₁ c₂ : Config)
    (h : baseKey e c₁ = baseKey e c₂) (hne : c₁.effective ≠ c₂.effective) : Collision e := by
  apply Classical.byContradiction
  intro hno
  apply hne
  apply C06_injective e _ c₁ c₂ h
  constructor
  · intro x y hxy
    exact Classical.byContradiction fun hn => hno (.hash x y hn hxy)
  · intro x y _ _ hxy
    exact Classical.byContradiction fun hn => hno (.enc x y hn hxy)
  · intro x y hxy
    exact Classical.byContradiction fun hn => hno (.raw x y hn hxy)
  · intro x y hxy
    exact Classical.byContradiction fun hn => hno (.full x y hn hxy)
  · intro x y hxy
    exact Classical.byContradiction fun hn => hno (.tweak x y hn hxy)

/-- For the model of the real encoder the reduction names the culprit: if two configurations
    with well-formed property values and different effective inputs have the same kernel key, then
    the HASH FUNCTION itself has a collision (two different strings with the same hash) — the
    text embedding, the renderings and the mode constant being injective, as they are in the C++
    (identity, hex string of all 256 bits, xor with a constant).  No injectivity of `H` is
    assumed: this is the statement that applies to occa's real 256-bit hash. -/
theorem C06_collision_is_hash_collision (e : Env κ String) (henc : e.enc = dump)
    (hraw : Function.Injective e.raw) (hfull : Function.Injective e.full)
    (htweak : Function.Injective e.tweak) (hfw : ∀ k, (e.full k).WF)
    (c₁ c₂ : Config) (w₁ : c₁.WF) (w₂ : c₂.WF)
    (h : baseKey e c₁ = baseKey e c₂) (hne : c₁.effective ≠ c₂.effective) :
    ∃ x y : String, x ≠ y ∧ e.H x = e.H y := by
  apply Classical.byContradiction
  intro hno
  apply hne
  apply C06_injective_dump e henc _ hraw hfull htweak hfw c₁ c₂ w₁ w₂ h
  intro x y hxy
  exact Classical.byContradiction fun hn => hno ⟨x, y, hn, hxy⟩

/-- The closed form for the exact model: `exactEnv` is the very instance the driver runs
    (lean/Driver/Cache.lean, whose keys are compared bit for bit with the real setupKernelInfo):
    the hash_t model of C27 on the bytes of a string, the dump model, the hex string of all 256
    bits, the OpenMP xor constant; `Lemmas/HashExact.lean` proves the
    side conditions — getFullString injective on well-formed hashes from C27's round trip, xor with
    a constant an involution), two configurations with well-formed property values, different
    effective inputs and the same kernel key exhibit two different strings with the same
    `occa::hash` — on Serial (`openmp = false`) and OpenMP (`openmp = true`) devices alike. -/
theorem C06_exact_collision_is_hash_collision (openmp : Bool) (dev : Hash.Lanes) (hdev : Hash.WellFormed dev)
    (c₁ c₂ : Config) (w₁ : c₁.WF) (w₂ : c₂.WF)
    (h : baseKey (exactEnv openmp dev) c₁ = baseKey (exactEnv openmp dev) c₂)
    (hne : c₁.effective ≠ c₂.effective) :
    ∃ x y : String, x ≠ y ∧ hashStr x = hashStr y := by
  have hW : baseKey (exactEnvW openmp ⟨dev, hdev⟩) c₁ = baseKey (exactEnvW openmp ⟨dev, hdev⟩) c₂ :=
    Subtype.ext (by rw [exactEnvW_baseKey, exactEnvW_baseKey]; exact h)
  obtain ⟨x, y, hxy, hh⟩ := C06_collision_is_hash_collision (exactEnvW openmp ⟨dev, hdev⟩) rfl (fun _ _ h => h)
    (exactEnvW_full_inj openmp _) (exactEnvW_tweak_inj openmp _) (exactEnvW_full_wf openmp _)
    c₁ c₂ w₁ w₂ hW hne
  exact ⟨x, y, hxy, congrArg Subtype.val hh⟩

/-- Identical builds resolve to the same key: the key is a function of the hashed properties
    and the source text alone — other properties (verbose, …) and anything process-specific do
    not enter. -/
theorem C06_deterministic (e : Env κ σ) (c₁ c₂ : Config)
    (hget : ∀ n ∈ hashedNames, c₁.get n = c₂.get n) (hsrc : c₁.src = c₂.src) :
    baseKey e c₁ = baseKey e c₂ :=
  baseKey_congr e hget hsrc

/-! ### the hypotheses are satisfiable, the conclusions are not vacuous -/

/-- a collision-free instance: keys are the hashed JSON values themselves -/
def freeEnv : Env J J where
  H := id
  enc := id
  raw := J.str
  full := id
  short := id
  tweak := id
  dev := J.null

example : (freeEnv).Inj (fun _ => True) :=
  ⟨fun _ _ h => h, fun _ _ _ _ h => h, fun _ _ h => J.str.inj h, fun _ _ h => h, fun _ _ h => h⟩

/-- an instance for C06_injective_dump: the real dump model as encoder, keys rendered as JSON strings -/
def dumpEnv : Env String String where
  H := id
  enc := dump
  raw := id
  full := J.str
  short := J.str
  tweak := id
  dev := ""

example : dumpEnv.enc = dump ∧ Function.Injective dumpEnv.H ∧ Function.Injective dumpEnv.full ∧
    (∀ k, (dumpEnv.full k).WF) :=
  ⟨rfl, fun _ _ h => h, fun _ _ h => J.str.inj h, fun _ => trivial⟩

def cfgA : Config := { props := [("compiler_flags", .str "-O1"), ("compiler_linker_flags", .str "-g")], src := "s" }
def cfgB : Config := { props := [("compiler_flags", .str "-g"), ("compiler_linker_flags", .str "-O1")], src := "s" }
def cfgA' : Config := { props := cfgA.props ++ [("verbose", .lit "true")], src := "s" }

/-- the exchanged-values pair of F09 has different effective inputs … -/
example : cfgA.effective ≠ cfgB.effective := by
  intro h
  have h2 := (List.map_inj_left.mp (congrArg Prod.snd h)) "compiler_flags" (by decide)
  have e1 : cfgA.get "compiler_flags" = some (J.str "-O1") := by
    simp [Config.get, cfgA]
  have e2 : cfgB.get "compiler_flags" = some (J.str "-g") := by
    simp [Config.get, cfgB]
  rw [e1, e2] at h2
  exact absurd (J.str.inj (Option.some.inj h2)) (by decide)

/-- Why F09 needed a different COMPOSITION rather than a better hash: with the historical
    composition — fold the hashes of the property values with any commutative, associative
    operation, names not included — the exchanged-values pair collides for every hash function. -/
theorem C06_value_fold_collides {κ : Type} (op : κ → κ → κ) (comm : ∀ a b, op a b = op b a)
    (assoc : ∀ a b c, op (op a b) c = op a (op b c)) (h : Option J → κ) (init : κ) :
    valueFoldKey op h init Gen.serialFields cfgA = valueFoldKey op h init Gen.serialFields cfgB := by
  simp (config := { decide := true }) only [valueFoldKey, Gen.serialFields, Config.get, cfgA, cfgB,
    List.foldl, lookup_cons_eq, List.lookup_nil, if_true, if_false]
  haveI : Std.Associative op := ⟨assoc⟩
  haveI : Std.Commutative op := ⟨comm⟩
  ac_rfl

/-- the configurations of the examples have well-formed property values (hypothesis of the
    theorems about the dump model) -/
example : cfgA.WF ∧ cfgB.WF := by
  constructor <;>
  · intro n v h
    simp only [Config.get, cfgA, cfgB, lookup_cons_eq, List.lookup_nil] at h
    split at h
    · cases h; simp [J.WF]
    · split at h
      · cases h; simp [J.WF]
      · simp at h

/-- … and an added `verbose` satisfies the hypotheses of C06_deterministic -/
example : (∀ n ∈ hashedNames, cfgA.get n = cfgA'.get n) ∧ cfgA.src = cfgA'.src := by
  refine ⟨fun n hn => ?_, rfl⟩
  have hv : n ≠ "verbose" := by
    intro e
    subst e
    exact absurd hn (by decide)
  show cfgA.props.lookup n = (cfgA.props ++ [("verbose", J.lit "true")]).lookup n
  simp only [cfgA, List.cons_append, List.nil_append, lookup_cons_eq, if_neg hv]

end Occa.CacheKey.C06
