/-
C11 — Dtype and kernel-metadata JSON serialisation round-trips.

Model: OccaModel/Dtype.lean (dtype_t as a value, toJson / fromJson key by key as in
src/dtype/dtype.cpp, argMetadata_t / kernelMetadata_t as in lang/kernelMetadata.cpp), over the
generated OccaGen/Builtins.lean.  Lemmas: OccaProofs/Lemmas/Dtype.lean.

Statement of the property, clause by clause:
  (a) serialising any dtype and reading it back yields an equivalent value: same kind, names,
      field order, element types and byte size
        C11_roundtrip, C11_roundtrip_value, C11_roundtrip_stable, C11_equiv_observables,
        C11_accepted_json_roundtrips
  (b) cast compatibility between any two dtypes is unchanged by the round trip
        C11_cast_invariant, C11_equiv_cast
  (c) the same for any kernel's argument metadata
        C11_meta_roundtrip, C11_meta_norm_spec
  (d) obligations on the *current* source, re-checked on every run against the regenerated tables
        C11_code_shape, C11_builtins_wellformed

All theorems quantify over all dtype trees (any depth, width, names, sizes).  `Dtype.WF` is what
the API guarantees (addField / addEnumerator reject duplicates; `prim n` is a builtin scalar).
"Names": a leaf keeps its name; the own name of an enum / tuple / struct / union node is by
design an *argument* of toJson (`dtype::toJson(d)` passes none, tests/src/dtype.cpp pins the JSON
text), so the read-back node is named by that argument — stated exactly by `C11_roundtrip_value`.
-/
import OccaProofs.Lemmas.Dtype

namespace Occa.Dtype.C11
open Occa Occa.Dtype

/-! ### (d) the current source has the shape the model follows -/

/-- The repairs the model follows are present in the source the tables were generated from:
    enum sizes are written and read (F14), struct/tuple/union sizes are recomputed by fromJson (F14),
    addField()/tuple() use bytes() (F14b), "builtin" is written only for the builtin itself (F15b),
    leaves are compared structurally (F15), fromJson marks metadata initialized. -/
theorem C11_code_shape :
    Gen.enumWritesBytes = true ∧ Gen.fromJsonRestoresBytes = true ∧ Gen.bytesViaAccessor = true ∧
    Gen.builtinByIdentity = true ∧ Gen.leafStructural = true ∧ Gen.fromJsonMarksInitialized = true := by
  decide

/-- every dtype `dtype_t::getBuiltin` can return (for any key, known or not) is well formed:
    the element of every registered vector is a builtin scalar (checked on the generated table,
    `builtin_table_ok` in Lemmas/Dtype.lean). -/
theorem C11_builtins_wellformed (key : String) : (getBuiltin key).WF := getBuiltin_wf key

example : getBuiltin "float4" = .tuple "float4" (.prim "float") 4 := by
  simp [getBuiltin, Gen.builtinMap, registeredByName, Gen.dtypeTuples, List.find?]

/-! ### (a) the round trip of a dtype -/

/-- Reading back the JSON of any well-formed dtype succeeds (with any fuel ≥ the nesting depth,
    in particular `d.depth`) and returns exactly `Dtype.norm n d`: the same tree with the node's
    own name replaced by the name given to toJson and nested node names dropped. -/
theorem C11_roundtrip_value (d : Dtype) (n : String) (fuel : Nat) (hw : d.WF) (hf : d.depth ≤ fuel) :
    Dtype.fromJson fuel (d.toJson n) = .ok (Dtype.norm n d) :=
  Dtype.fromJson_toJson C11_code_shape.1 C11_code_shape.2.1 C11_code_shape.2.2.2.1 d n fuel hw hf

/-- Clause (a): `fromJson (toJson d) = ok d'` with `d'` equivalent to `d` — same kind, field names
    and order, element types, leaf names and sizes (`Equiv`), same `bytes()`, same flattened
    element types, and `name()` is the leaf's name resp. the name the node was serialised under. -/
theorem C11_roundtrip (d : Dtype) (n : String) (hw : d.WF) :
    ∃ d', Dtype.fromJson d.depth (d.toJson n) = .ok d' ∧ d.Equiv d' ∧ d'.bytes = d.bytes ∧
      d'.flatten = d.flatten ∧ d'.name = (if d.isComposite then n else d.name) ∧ d'.WF :=
  ⟨Dtype.norm n d, C11_roundtrip_value d n d.depth hw (Nat.le_refl _), Dtype.equiv_norm d n,
   Dtype.bytes_norm d n, Dtype.flatten_norm d n, Dtype.name_norm d n, Dtype.wf_norm d n hw⟩

example : (Dtype.struct "foo" (.cons "a" (.prim "double") (.cons "v" (.tuple "" (.custom "myc" 12) 2) .nil))).WF := by
  simp [Dtype.WF, Fields.WF, Fields.names, isPrimName, Gen.builtinMap, Gen.dtypeTuples, List.find?]

/-- The read-back value serialises to the same JSON again and reads back as itself: a second
    trip (build.json rewritten from loaded metadata) changes nothing. -/
theorem C11_roundtrip_stable (d : Dtype) (n : String) (hw : d.WF) :
    (Dtype.norm n d).toJson n = d.toJson n ∧
    Dtype.fromJson d.depth ((Dtype.norm n d).toJson n) = .ok (Dtype.norm n d) := by
  refine ⟨Dtype.toJson_norm d n n, ?_⟩
  rw [Dtype.toJson_norm d n n]
  exact C11_roundtrip_value d n d.depth hw (Nat.le_refl _)

/-- The converse direction, for ARBITRARY json (hand-edited or foreign build.json): whatever
    `fromJson` accepts — any value, any fuel — is a well-formed dtype, so it serialises and reads
    back to an equivalent dtype of the same size. -/
theorem C11_accepted_json_roundtrips (fuel : Nat) (j : Json) (d : Dtype) (n : String)
    (h : Dtype.fromJson fuel j = .ok d) :
    d.WF ∧ ∃ d', Dtype.fromJson d.depth (d.toJson n) = .ok d' ∧ d.Equiv d' ∧ d'.bytes = d.bytes :=
  ⟨Dtype.fromJson_wf fuel j d h, Dtype.norm n d,
   C11_roundtrip_value d n d.depth (Dtype.fromJson_wf fuel j d h) (Nat.le_refl _),
   Dtype.equiv_norm d n, Dtype.bytes_norm d n⟩

example : Dtype.fromJson 2 (.obj [("type", .str "tuple"), ("dtype", .obj [("type", .str "builtin"), ("name", .str "int8")]),
    ("size", .num 3)]) = .ok (.tuple "" (.prim "char") 3) := by
  simp [Dtype.fromJson, Json.get, Json.has, List.find?, Json.toStr?, Json.isNumber, Json.toInt, isBuiltinKey, getBuiltin,
        Gen.builtinMap, registeredByName, Gen.dtypeTuples, isPrimName, pure, Except.pure]

/-- What `Equiv` gives an observer: equivalent dtypes have the same `bytes()`, the same
    flattened element types and agree on being the `byte` wildcard. -/
theorem C11_equiv_observables (d d' : Dtype) (h : d.Equiv d') :
    d.bytes = d'.bytes ∧ d.flatten = d'.flatten ∧ isByte d = isByte d' := by
  refine ⟨(Dtype.Equiv.props d d' h).1, (Dtype.Equiv.props d d' h).2, ?_⟩
  cases d <;> cases d' <;> simp [Dtype.Equiv] at h <;> simp [isByte, *]

/-! ### (b) the cast relation -/

/-- Clause (b): cast compatibility (including a trap, if there were one) between any two dtypes is
    the same before and after the round trip, with either or both sides read back from JSON under
    any names. -/
theorem C11_cast_invariant (a b : Dtype) (n m : String) (ha : a.WF) (hb : b.WF) :
    ∃ a' b', Dtype.fromJson a.depth (a.toJson n) = .ok a' ∧ Dtype.fromJson b.depth (b.toJson m) = .ok b' ∧
      canCast a' b' = canCast a b ∧ canCast a' b = canCast a b ∧ canCast a b' = canCast a b :=
  ⟨Dtype.norm n a, Dtype.norm m b, C11_roundtrip_value a n a.depth ha (Nat.le_refl _),
   C11_roundtrip_value b m b.depth hb (Nat.le_refl _),
   canCast_congr (isByte_norm a n) (Dtype.flatten_norm a n) (isByte_norm b m) (Dtype.flatten_norm b m),
   canCast_congr (isByte_norm a n) (Dtype.flatten_norm a n) rfl rfl,
   canCast_congr rfl rfl (isByte_norm b m) (Dtype.flatten_norm b m)⟩

/-- More generally the cast relation respects `Equiv` on both sides. -/
theorem C11_equiv_cast (a a' b b' : Dtype) (ha : a.Equiv a') (hb : b.Equiv b') :
    canCast a b = canCast a' b' :=
  canCast_congr (C11_equiv_observables a a' ha).2.2 (C11_equiv_observables a a' ha).2.1
    (C11_equiv_observables b b' hb).2.2 (C11_equiv_observables b b' hb).2.1

example : canCast (.custom "myc" 12) (.tuple "" (.custom "myc" 12) 2) = .ok true := by rfl

/-! ### (c) kernel argument metadata -/

/-- Clause (c): the JSON of any kernel's metadata (name, argument list) reads back, with any fuel ≥
    the deepest argument dtype, as `m.norm`. -/
theorem C11_meta_roundtrip (m : KernelMeta) (fuel : Nat) (hw : m.WF) (hf : m.depth ≤ fuel) :
    KernelMeta.fromJson fuel m.toJson = .ok m.norm :=
  KernelMeta.fromJson_toJson C11_code_shape.1 C11_code_shape.2.1 C11_code_shape.2.2.2.1
    C11_code_shape.2.2.2.2.2 m fuel hw hf

/-- `m.norm` is `m` up to equivalence of the argument dtypes: same kernel name, same number and
    order of arguments, same const / pointer flags and argument names, equivalent dtypes with the
    same sizes; and it is marked initialized. -/
theorem C11_meta_norm_spec (m : KernelMeta) :
    m.norm.initialized = true ∧ m.norm.name = m.name ∧ m.norm.arguments.length = m.arguments.length ∧
    ∀ i (h : i < m.arguments.length),
      let a := m.arguments[i]
      let a' := m.norm.arguments[i]'(by simpa [KernelMeta.norm] using h)
      a'.isConst = a.isConst ∧ a'.isPtr = a.isPtr ∧ a'.name = a.name ∧ a.dtype.Equiv a'.dtype ∧
      a'.dtype.bytes = a.dtype.bytes := by
  refine ⟨rfl, rfl, by simp [KernelMeta.norm], ?_⟩
  intro i h
  simp [KernelMeta.norm, ArgMeta.norm, Dtype.equiv_norm, Dtype.bytes_norm]

example : (KernelMeta.mk true "k" [⟨true, true, .tuple "" (.prim "int") 4, "x"⟩, ⟨false, false, .prim "long", "n"⟩]).WF := by
  intro a ha
  simp at ha
  rcases ha with rfl | rfl <;>
    simp [Dtype.WF, isPrimName, Gen.builtinMap, Gen.dtypeTuples, List.find?]

end Occa.Dtype.C11
