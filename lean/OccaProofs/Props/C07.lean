/-
C07 — Editing an included header always invalidates stale cached kernels.

Model: OccaModel/DepHash.lean (device::applyDependencyHash, dependency recording, cache lookup,
build) over OccaModel/CacheKey.lean and the generated OccaGen/CacheKeyFields.lean.  Parameters,
all universally quantified: hash function, JSON encoder, hash rendering, mode constant, device
hash, directory naming `dir`, include scanner `incl`, expansion fuel, compiler `compile`,
initial file system.
Statement of the property, clause by clause:
  "every build … runs code that reflects the current contents of all files it includes"
        C07_every_build_current   after ANY finite history of writes/removals/builds from an
                                  empty cache, a completed build (hit or miss) runs
                                  compile(configuration, expansion under the CURRENT files)
  "a build never reuses a binary compiled against an older version of an included file"
        C07_hit_is_fresh          a hit means every recorded dependency exists with its recorded
                                  hash, and the reused binary is the one compiled from the
                                  current expansion
  termination of the key resolution (the F11 defect was a non-terminating resolution)
        C07_resolve_terminates    for EVERY hash function, within cache size + 1 iterations
        C07_no_chain_error        without collisions the visited-directory guard never fires
  tie to the source
        C07_table_shape           applyDependencyHash hashes one labelled object per step, with
                                  full-width renderings, in a loop with the guard
The hypotheses `e.Inj` are the idealisation "no collisions of the hash, the encoder, the
renderings and the 64-bit directory names".
-/
import OccaProofs.Lemmas.DepHash
import OccaProofs.Lemmas.DepHashWF
import OccaProofs.Lemmas.HashExact
import OccaProofs.Lemmas.DepHashExact

namespace Occa.DepHash.C07
open Occa.CacheKeyBase Occa.CacheKey Occa.DepHash

variable {κ σ δ β : Type} [DecidableEq κ] [DecidableEq δ]

/-- Tie to the source: the regenerated description of device::applyDependencyHash. -/
theorem C07_table_shape : ChainShape := chainShape

/-- The key resolution terminates for every hash function, every file system, every cache
    (reachable or not) and every start key: cache size + 1 iterations suffice. -/
theorem C07_resolve_terminates (e : DEnv κ σ δ) (fs : FS) (cache : Cache κ δ β) (K : κ) :
    resolve e fs cache (cache.length + 1) [] K ≠ .outOfFuel :=
  resolve_fuel e fs cache _ [] K List.nodup_nil (by simp) (by simp)

/-- Without collisions the resolution of a configuration's key never raises the chain error. -/
theorem C07_no_chain_error (e : DEnv κ σ δ) (hi : e.Inj (fun _ => True)) (fs : FS) (cache : Cache κ δ β)
    (c : Config) (K' : κ) : resolve e fs cache (cache.length + 1) [] (baseKey e.toEnv c) ≠ .cycle K' :=
  resolve_no_cycle e hi shape chainShape fs cache (fun _ _ _ _ => trivial) c (Config.ok_all _ _)
    _ [] _ 0 ChainN.base (by simp) K'

/-- The cache after any history starting from an empty cache. -/
def reached (e : DEnv κ σ δ) (compile : String × List (Option J) → List (String × String) → β)
    (fs0 : FS) (ops : List Op) : State κ δ β :=
  run e compile { fs := fs0, cache := [] } ops

/-- Reuse is fresh: if, after any history, a build is served from the cache (entry `ent` of the
    directory of the resolved key `K`), then every dependency recorded in that entry exists and
    has its recorded hash, the current expansion of the kernel's includes exists, and the reused
    binary is exactly what the compiler yields for the current configuration and expansion. -/
theorem C07_hit_is_fresh (e : DEnv κ σ δ) (hi : e.Inj (fun _ => True))
    (compile : String × List (Option J) → List (String × String) → β)
    (fs0 : FS) (ops : List Op) (c : Config) (b : β)
    (hit : (build e compile (reached e compile fs0 ops).fs (reached e compile fs0 ops).cache c).2.1 = .hit b) :
    (∃ K ent, (reached e compile fs0 ops).cache.lookup (e.dir K) = some ent ∧ ent.bin = b ∧
        ∀ p h, (p, h) ∈ ent.deps →
          ∃ txt, (reached e compile fs0 ops).fs p = some txt ∧ e.H (e.raw txt) = h) ∧
    ∃ x, expand e.incl (reached e compile fs0 ops).fs e.depth (e.incl c.src) = some x ∧
      b = compile c.view x := by
  have hinv : Inv e (fun _ => True) compile (reached e compile fs0 ops).cache :=
    inv_run e hi compile ops _ (histOk_all e compile ops) (inv_nil e _ compile)
  refine ⟨?_, (build_current e hi compile _ _ hinv (fun _ _ _ _ => trivial) c (Config.ok_all _ _)).2.1 b (Or.inl hit)⟩
  generalize reached e compile fs0 ops = s at hit hinv
  cases hres : resolve e s.fs s.cache (s.cache.length + 1) [] (baseKey e.toEnv c) with
  | outOfFuel => unfold build at hit; rw [hres] at hit; simp at hit
  | cycle K => unfold build at hit; rw [hres] at hit; simp at hit
  | found K =>
    cases hl : s.cache.lookup (e.dir K) with
    | none =>
      cases hx : expand e.incl s.fs e.depth (e.incl c.src) with
      | none => rw [build_parseError e compile _ _ c hres hl hx] at hit; simp at hit
      | some x => rw [build_miss e compile _ _ c hres hl hx] at hit; simp at hit
    | some ent =>
      rw [build_hit e compile _ _ c hres hl] at hit
      exact ⟨K, ent, hl, Outcome.hit.inj hit,
        scan_unchanged e s.fs ent.deps (resolve_found_spec e s.fs s.cache _ _ _ _ hres ent hl)⟩

/-- The property: after any finite history of file writes, removals and builds (each build
    updating the shared cache), every build
    * that completes — served from the cache or compiled now — runs the binary the compiler
      yields for its configuration and the CURRENT contents of all transitively included files,
    * is rejected only when the current files have no expansion (an included file is missing),
    * never fails in the key resolution. -/
theorem C07_every_build_current (e : DEnv κ σ δ) (hi : e.Inj (fun _ => True))
    (compile : String × List (Option J) → List (String × String) → β)
    (fs0 : FS) (ops : List Op) (c : Config) :
    (∀ b, ((build e compile (reached e compile fs0 ops).fs (reached e compile fs0 ops).cache c).2.1 = .hit b ∨
           (build e compile (reached e compile fs0 ops).fs (reached e compile fs0 ops).cache c).2.1 = .miss b) →
        ∃ x, expand e.incl (reached e compile fs0 ops).fs e.depth (e.incl c.src) = some x ∧
          b = compile c.view x) ∧
    ((build e compile (reached e compile fs0 ops).fs (reached e compile fs0 ops).cache c).2.1 = .parseError →
        expand e.incl (reached e compile fs0 ops).fs e.depth (e.incl c.src) = Option.none) ∧
    (build e compile (reached e compile fs0 ops).fs (reached e compile fs0 ops).cache c).2.1 ≠ .chainError :=
  (build_current e hi compile _ _
    (inv_run e hi compile ops _ (histOk_all e compile ops) (inv_nil e _ compile))
    (fun _ _ _ _ => trivial) c (Config.ok_all _ _)).2

/-- The property with the JSON encoder instantiated by the MODEL of json::dumpToString, whose
    injectivity on well-formed values is proved (Lemmas/JsonDump.lean) instead of assumed.
    Side conditions that take its place: the property values of every configuration built are
    well-formed JSON, the hash renderings are well-formed JSON values (they are JSON strings), and
    the paths produced by the include scanner contain no `"` (they become object keys of the
    chained key, which json::dumpToString does not escape).  Still assumed: no collisions of the
    hash function, of the renderings and of the directory names. -/
theorem C07_every_build_current_dump (e : DEnv κ String δ) (henc : e.enc = dump)
    (hH : Function.Injective e.H) (hraw : Function.Injective e.raw)
    (hfull : Function.Injective e.full) (htweak : Function.Injective e.tweak)
    (hdir : Function.Injective e.dir) (hfw : ∀ k, (e.full k).WF)
    (hincl : ∀ t p, p ∈ e.incl t → keyOk p)
    (compile : String × List (Option J) → List (String × String) → β)
    (fs0 : FS) (ops : List Op) (hops : ∀ c, Op.build c ∈ ops → c.WF) (c : Config) (hc : c.WF) :
    (∀ b, ((build e compile (reached e compile fs0 ops).fs (reached e compile fs0 ops).cache c).2.1 = .hit b ∨
           (build e compile (reached e compile fs0 ops).fs (reached e compile fs0 ops).cache c).2.1 = .miss b) →
        ∃ x, expand e.incl (reached e compile fs0 ops).fs e.depth (e.incl c.src) = some x ∧
          b = compile c.view x) ∧
    ((build e compile (reached e compile fs0 ops).fs (reached e compile fs0 ops).cache c).2.1 = .parseError →
        expand e.incl (reached e compile fs0 ops).fs e.depth (e.incl c.src) = Option.none) ∧
    (build e compile (reached e compile fs0 ops).fs (reached e compile fs0 ops).cache c).2.1 ≠ .chainError := by
  have hi : e.Inj J.WFtop :=
    ⟨⟨hH, fun a b wa wb hab => dump_injective a b wa wb (by rw [henc] at hab; exact hab), hraw, hfull, htweak⟩, hdir⟩
  have ho : HistOk e J.WFtop compile ops :=
    ⟨fun c' hc' => ok_of_wf e.toEnv shape hfw c' (hops c' hc'),
     fun cache fs hinv => cacheW_of_inv e chainShape hfw hincl compile cache hinv fs⟩
  have hinv := inv_run e hi compile ops { fs := fs0, cache := [] } ho (inv_nil e _ compile)
  exact (build_current e hi compile _ _ hinv (ho.cache _ _ hinv) c (ok_of_wf e.toEnv shape hfw c hc)).2

/-- The form that applies to the real, non-injective hash: with the dump model as encoder and
    injective embedding / renderings / mode constant (as in the C++), after any history of
    well-formed configurations a build can be stale, wrongly rejected or fail in the key
    resolution ONLY IF the hash function has a collision or two different keys share a cache
    directory (the 64-bit directory names). -/
theorem C07_stale_build_needs_collision (e : DEnv κ String δ) (henc : e.enc = dump)
    (hraw : Function.Injective e.raw) (hfull : Function.Injective e.full)
    (htweak : Function.Injective e.tweak) (hfw : ∀ k, (e.full k).WF)
    (hincl : ∀ t p, p ∈ e.incl t → keyOk p)
    (compile : String × List (Option J) → List (String × String) → β)
    (fs0 : FS) (ops : List Op) (hops : ∀ c, Op.build c ∈ ops → c.WF) (c : Config) (hc : c.WF) :
    (∃ x y : String, x ≠ y ∧ e.H x = e.H y) ∨ (∃ k k' : κ, k ≠ k' ∧ e.dir k = e.dir k') ∨
    ((∀ b, ((build e compile (reached e compile fs0 ops).fs (reached e compile fs0 ops).cache c).2.1 = .hit b ∨
           (build e compile (reached e compile fs0 ops).fs (reached e compile fs0 ops).cache c).2.1 = .miss b) →
        ∃ x, expand e.incl (reached e compile fs0 ops).fs e.depth (e.incl c.src) = some x ∧
          b = compile c.view x) ∧
    ((build e compile (reached e compile fs0 ops).fs (reached e compile fs0 ops).cache c).2.1 = .parseError →
        expand e.incl (reached e compile fs0 ops).fs e.depth (e.incl c.src) = Option.none) ∧
    (build e compile (reached e compile fs0 ops).fs (reached e compile fs0 ops).cache c).2.1 ≠ .chainError) := by
  by_cases h1 : ∃ x y : String, x ≠ y ∧ e.H x = e.H y
  · exact Or.inl h1
  by_cases h2 : ∃ k k' : κ, k ≠ k' ∧ e.dir k = e.dir k'
  · exact Or.inr (Or.inl h2)
  refine Or.inr (Or.inr ?_)
  apply C07_every_build_current_dump e henc _ hraw hfull htweak _ hfw hincl compile fs0 ops hops c hc
  · intro x y hxy
    exact Classical.byContradiction fun hn => h1 ⟨x, y, hn, hxy⟩
  · intro k k' hkk
    exact Classical.byContradiction fun hn => h2 ⟨k, k', hn, hkk⟩

/-- The closed form for the exact model: `exactDEnv` is the very instance the driver runs
    (lean/Driver/Cache.lean: the hash_t model of C27, the dump model, the 16-character directory
    names of io::hashDir, the scanner for `#include "…"` lines), whose hit/miss decisions and keys the
    runner compares with the real builds.  After any history of builds of configurations with
    well-formed property values, a build is stale, wrongly rejected or fails in the key resolution
    only if two different strings have the same `occa::hash`, or two different hashes have the same
    16-character directory name.  (Proved for `exactDEnvW`, which carries the well-formedness of
    every hash, and transferred by the lock-step lemmas of Lemmas/DepHashExact.lean.) -/
theorem C07_exact_stale_build_needs_collision (openmp : Bool) (dev : Hash.Lanes) (hdev : Hash.WellFormed dev)
    (depth : Nat)
    (compile : String × List (Option J) → List (String × String) → β)
    (fs0 : FS) (ops : List Op) (hops : ∀ c, Op.build c ∈ ops → c.WF) (c : Config) (hc : c.WF) :
    (∃ x y : String, x ≠ y ∧ hashStr x = hashStr y) ∨
    (∃ k k' : WLanes, k ≠ k' ∧ shortStr k.1 = shortStr k'.1) ∨
    ((∀ b, ((build (exactDEnv openmp dev depth) compile (reached (exactDEnv openmp dev depth) compile fs0 ops).fs
              (reached (exactDEnv openmp dev depth) compile fs0 ops).cache c).2.1 = .hit b ∨
           (build (exactDEnv openmp dev depth) compile (reached (exactDEnv openmp dev depth) compile fs0 ops).fs
              (reached (exactDEnv openmp dev depth) compile fs0 ops).cache c).2.1 = .miss b) →
        ∃ x, expand scanIncludes (reached (exactDEnv openmp dev depth) compile fs0 ops).fs depth (scanIncludes c.src) = some x ∧
          b = compile c.view x) ∧
    ((build (exactDEnv openmp dev depth) compile (reached (exactDEnv openmp dev depth) compile fs0 ops).fs
        (reached (exactDEnv openmp dev depth) compile fs0 ops).cache c).2.1 = .parseError →
        expand scanIncludes (reached (exactDEnv openmp dev depth) compile fs0 ops).fs depth (scanIncludes c.src) = Option.none) ∧
    (build (exactDEnv openmp dev depth) compile (reached (exactDEnv openmp dev depth) compile fs0 ops).fs
        (reached (exactDEnv openmp dev depth) compile fs0 ops).cache c).2.1 ≠ .chainError) := by
  rcases C07_stale_build_needs_collision (exactDEnvW openmp ⟨dev, hdev⟩ depth) rfl (fun _ _ h => h)
      (exactEnvW_full_inj openmp _) (exactEnvW_tweak_inj openmp _) (exactEnvW_full_wf openmp _)
      scanIncludes_keyOk compile fs0 ops hops c hc with ⟨x, y, hxy, hh⟩ | h2 | h3
  · exact Or.inl ⟨x, y, hxy, congrArg Subtype.val hh⟩
  · exact Or.inr (Or.inl h2)
  · refine Or.inr (Or.inr ?_)
    obtain ⟨hfs, hout⟩ := exact_outcome_eq openmp ⟨dev, hdev⟩ depth compile fs0 ops c
    unfold reached at h3 ⊢
    rw [hout, hfs]
    exact h3

/-- Why F11 needed a different chaining rather than a better hash: with the historical step —
    fold the current hashes of the recorded files into the key with a self-inverse operation
    (`^`) and recurse — two recorded files that have been given the same new contents lead back
    to the same key, and the resolution runs out of every amount of fuel, for every hash
    function. -/
theorem C07_fold_chaining_diverges (e : DEnv κ σ δ) (op : κ → κ → κ) (hop : ∀ k z, op (op k z) z = k)
    (fs : FS) (K : κ) (a b t : String) (h₁ h₂ : κ) (bin : β)
    (hne : e.H (e.raw t) ≠ h₁) (ha : fs a = some t) (hb : fs b = some t) (fuel : Nat) :
    foldResolve e op fs [(e.dir K, ({ deps := [(a, h₁), (b, h₂)], bin := bin } : Entry κ β))] fuel K
      = .outOfFuel :=
  foldResolve_diverges e op hop fs K a b t h₁ h₂ β bin hne ha hb fuel

/-! ### the hypotheses are satisfiable -/

/-- a collision-free instance: keys, hashed values and directory names are JSON values -/
def freeEnv : DEnv J J J where
  H := id
  enc := id
  raw := J.str
  full := id
  short := id
  tweak := id
  dev := J.null
  dir := id
  incl := fun _ => []
  depth := 8

example : (freeEnv).Inj (fun _ => True) :=
  ⟨⟨fun _ _ h => h, fun _ _ _ _ h => h, fun _ _ h => J.str.inj h, fun _ _ h => h, fun _ _ h => h⟩, fun _ _ h => h⟩

/-- the theorems apply to it (equality of JSON values is decidable classically) -/
noncomputable example (fs0 : FS) (ops : List Op) (c : Config) :=
  @C07_every_build_current J J J (List (String × String)) (Classical.typeDecidableEq J) (Classical.typeDecidableEq J)
    freeEnv ⟨⟨fun _ _ h => h, fun _ _ _ _ h => h, fun _ _ h => J.str.inj h, fun _ _ h => h, fun _ _ h => h⟩, fun _ _ h => h⟩
    (fun _ x => x) fs0 ops c

end Occa.DepHash.C07
