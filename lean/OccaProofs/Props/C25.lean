/-
C25 — JSON path access and merging follow nested-dictionary semantics.

Model: OccaModel/JsonPath.lean (operator[] const and non-const, getPathValue/get<T>, has, remove, set,
operator+= / mergeWithObject) over OccaModel/Json.lean, of the repaired code (fixes FJ1, FJ2, FJ3, FJ6).
A path string is split into keys like the C++ loops do (`splitPath`); C25_path_string ties "a/b/c" to the
key list.  The nested-dictionary model of the property is stated through its observations: the const read
`readK` (= const operator[] / getPathValue, `none` = the undefined value), `hasK` (= has) and `size`.
  writes create missing intermediate objects            C25_read_after_write, C25_read_below_write, C25_write_creates_intermediates,
                                                         C25_write_frame, C25_write_through_leaf_fails
  reads of missing paths are undefined, create nothing  C25_read_missing_undefined, C25_has_of_defined, C25_has_iff_defined (reads are
                                                         pure functions of the value: nothing can be created)
  the non-const operator[] used as a read               C25_touch_* (exactly what it changes: a placeholder that
                                                         `has` reports and const reads see as undefined)
  remove, set                                            C25_remove_spec, C25_remove_frame, C25_set_spec
  += merges recursively, right-hand side wins            C25_merge_spec, C25_merge_keys, C25_merge_size_le, C25_merge_none_right,
                                                         C25_merge_into_undefined
  every history keeps the std::map invariant             C25_history_wf (so the laws apply after any history)
-/
import OccaProofs.Lemmas.JsonGenTie
import OccaProofs.Lemmas.JsonPathLaws
import OccaProofs.Lemmas.JsonSplit

namespace Occa.Json.C25
open Occa Occa.Json

/-- "a/b/c": the path string of plain keys (no '/', '\', NUL; non-empty) addresses the key list -/
theorem C25_path_string (ks : List Bytes) (h : ∀ k ∈ ks, PlainKey k) : splitPath (joinPath ks) = ks :=
  splitPath_join ks h

example : splitPath [97, 47, 98, 47, 99] = [[97], [98], [99]] := by decide

/-- a read at the written path returns the written value -/
theorem C25_read_after_write (ks : List Bytes) (v j j' : Json) (h : write ks v j = .ok j') : readK ks j' = v :=
  read_after_write ks v j j' h

example : write [[97], [98]] (.str [120]) .none = .ok (.obj [([97], .obj [([98], .str [120])])]) := by rfl

/-- below the written path one reads inside the written value -/
theorem C25_read_below_write (ks r : List Bytes) (v j j' : Json) (h : write ks v j = .ok j') :
    readK (ks ++ r) j' = readK r v := by
  rw [readK_append, read_after_write ks v j j' h]

/-- writes create the missing intermediate objects: every proper prefix of the path is an object -/
theorem C25_write_creates_intermediates (ks qs : List Bytes) (v j j' : Json) (h : write ks v j = .ok j')
    (h1 : qs <+: ks) (h2 : qs ≠ ks) : (readK qs j').isObj = true :=
  inter_touchWith _ ks qs j j' h h1 h2

/-- a write changes nothing at paths that neither extend the written path nor are a prefix of it -/
theorem C25_write_frame (ks qs : List Bytes) (v j j' : Json) (h : write ks v j = .ok j')
    (h1 : ¬ ks <+: qs) (h2 : ¬ qs <+: ks) : readK qs j' = readK qs j :=
  frame_touchWith _ ks qs j j' h h1 h2

/-- a write whose path leads through a value that is not an object throws (and the caller keeps the
    old value: `step` below) -/
theorem C25_write_through_leaf_fails (k : Bytes) (ks : List Bytes) (v j : Json) (hj : j.isObj = false)
    (hn : j.isNone = false) : write (k :: ks) v j = .error .notObject := by
  unfold write
  rw [touchWith_root]
  simp only [hn, Bool.false_eq_true, if_false]
  exact touchGo_cons_nonobj _ k ks j _ hj

example : write [[97], [98]] .null (.obj [([97], .num ⟨.i32, 1, []⟩)]) = .error .notObject := by rfl

/-- reads of missing paths return the undefined value -/
theorem C25_read_missing_undefined (ks : List Bytes) (j : Json) (h : hasK ks j = false) : readK ks j = .none :=
  readK_of_not_has ks j h

/-- a path whose const read is defined is reported by has() -/
theorem C25_has_of_defined (ks : List Bytes) (j : Json) (h : readK ks j ≠ .none) : hasK ks j = true := by
  cases hh : hasK ks j
  · exact absurd (readK_of_not_has ks j hh) h
  · rfl

/-- on a value without undefined placeholders, has() is exactly "the const read is defined" -/
theorem C25_has_iff_defined (ks : List Bytes) (j : Json) (h : hasNone j = false) :
    hasK ks j = true ↔ readK ks j ≠ .none :=
  has_iff_defined ks j h

/-- the non-const operator[] used as a read: the path exists afterwards (has() reports the placeholder) … -/
theorem C25_touch_has (ks : List Bytes) (j j' : Json) (h : touch ks j = .ok j') : hasK ks j' = true :=
  has_touchWith id ks j j' h

/-- … a const read of that path still sees what it saw before (undefined if it was missing) … -/
theorem C25_touch_read (ks : List Bytes) (j j' : Json) (h : touch ks j = .ok j') : readK ks j' = readK ks j :=
  read_touch ks j j' h

/-- … unrelated paths are unchanged, and the proper prefixes have become objects -/
theorem C25_touch_frame (ks qs : List Bytes) (j j' : Json) (h : touch ks j = .ok j')
    (h1 : ¬ ks <+: qs) (h2 : ¬ qs <+: ks) : readK qs j' = readK qs j :=
  frame_touchWith id ks qs j j' h h1 h2

theorem C25_touch_creates_intermediates (ks qs : List Bytes) (j j' : Json) (h : touch ks j = .ok j')
    (h1 : qs <+: ks) (h2 : qs ≠ ks) : (readK qs j').isObj = true :=
  inter_touchWith id ks qs j j' h h1 h2

example : touch [[120], [121]] .none = .ok (.obj [([120], .obj [([121], .none)])]) := by rfl

/-- remove: the path is gone afterwards -/
theorem C25_remove_spec (ks : List Bytes) (j : Json) (hk : ks ≠ []) (hw : WFJ j) : hasK ks (removeK ks j) = false :=
  has_removeK ks j hk hw

/-- remove changes nothing at unrelated paths -/
theorem C25_remove_frame (ks qs : List Bytes) (j : Json) (h1 : ¬ ks <+: qs) (h2 : ¬ qs <+: ks) :
    readK qs (removeK ks j) = readK qs j :=
  frame_removeK ks j qs h1 h2

/-- set(key, v): the key is used literally; other members of an object are untouched; a value that is
    not an object is replaced by the one-member object -/
theorem C25_set_spec (k : Bytes) (v j : Json) :
    readK [k] (setLit k v j) = v
      ∧ (∀ (q : Bytes) (qs : List Bytes) (kvs : Obj), j = .obj kvs → q ≠ k →
          readK (q :: qs) (setLit k v j) = readK (q :: qs) j)
      ∧ (j.isObj = false → setLit k v j = .obj [(k, v)]) :=
  ⟨read_setLit k v j, fun q qs kvs hj hq => by rw [hj]; exact frame_setLit k q qs v kvs hq,
   setLit_nonobj k v j⟩

example : setLit [97, 47, 98] .null (.obj []) = .obj [([97, 47, 98], .null)] := by rfl

/-- `a += b` on objects, member by member: a key absent on the right keeps the left value; a key present
    on the right gets the right value, except that objects present on both sides are merged recursively -/
theorem C25_merge_spec (akvs bkvs : Obj) (hb : Sorted bkvs) (k : Bytes) :
    add (.obj akvs) (.obj bkvs) = .ok (.obj (mergeObj akvs bkvs))
      ∧ lookup k (mergeObj akvs bkvs) =
          match lookup k bkvs with
          | Option.none => lookup k akvs
          | some vb => some (mergeVal (lookup k akvs) vb) :=
  ⟨rfl, lookup_mergeObj bkvs akvs hb k⟩

/-- the recursion of the merge: right wins unless both sides are objects -/
theorem C25_mergeVal_spec (old : Option Json) (v : Json) :
    (v.isObj = false → mergeVal old v = v)
      ∧ (∀ akvs bkvs, old = some (.obj akvs) → v = .obj bkvs → mergeVal old v = .obj (mergeObj akvs bkvs))
      ∧ (∀ o bkvs, old = some o → o.isObj = false → v = .obj bkvs → mergeVal old v = v)
      ∧ (old = Option.none → mergeVal old v = v) :=
  ⟨mergeVal_nonobj old v,
   fun akvs bkvs ho hv => by rw [ho, hv]; exact mergeVal_obj_obj akvs bkvs,
   fun o bkvs ho hi hv => by rw [ho, hv]; exact mergeVal_obj_nonobj o bkvs hi,
   fun ho => by rw [ho]; exact mergeVal_none v⟩

example : add (.obj [([97], .obj [([120], .null)]), ([98], .null)]) (.obj [([97], .obj [([121], .str [])]), ([98], .obj [])])
    = .ok (.obj [([97], .obj [([120], .null), ([121], .str [])]), ([98], .obj [])]) := by rfl

/-- the members of a merge are the members of either side, and the result is again ordered -/
theorem C25_merge_keys (akvs bkvs : Obj) (ha : Sorted akvs) (hb : Sorted bkvs) (k : Bytes) :
    Sorted (mergeObj akvs bkvs)
      ∧ (lookup k (mergeObj akvs bkvs)).isSome = ((lookup k akvs).isSome || (lookup k bkvs).isSome) :=
  ⟨sorted_mergeObj bkvs akvs ha, has_mergeObj akvs bkvs hb k⟩

/-- an undefined right-hand side changes nothing; an undefined left-hand side becomes the right-hand
    object -/
theorem C25_merge_none_right (j : Json) : add j .none = .ok j := by
  cases j <;> rfl

theorem C25_merge_into_undefined (bkvs : Obj) (hb : Sorted bkvs) : add .none (.obj bkvs) = .ok (.obj bkvs) := by
  simp only [add]
  rw [mergeObj_empty bkvs hb]

/-- size(): inserting a member grows an object by one exactly when the key was absent -/
theorem C25_size_insert (k : Bytes) (v : Json) (kvs : Obj) (h : Sorted kvs) :
    size (.obj (insert k v kvs)) = if (lookup k kvs).isSome then size (.obj kvs) else size (.obj kvs) + 1 := by
  simp only [size]
  exact length_insert k v h

/-- histories: every operation of the property (an operation that throws leaves the value unchanged)
    keeps every object of the value ordered like std::map, so all laws above apply after any history -/
theorem C25_history_wf (ops : List Op) (j : Json) (hj : WFJ j) (ho : ∀ op ∈ ops, op.Wf) : WFJ (run j ops) :=
  wfj_run ops j hj ho

example : run .none [.write [[97], [98]] .null, .touch [[99]], .set [97, 47, 98] (.str []), .remove [[97], [98]], .merge (.obj [([97], .obj [([120], .null)])])]
    = .obj [([97], .obj [([120], .null)]), ([97, 47, 98], .str []), ([99], .none)] := by rfl

end Occa.Json.C25
