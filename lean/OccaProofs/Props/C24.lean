import OccaModel.Json
namespace Occa.Json.C24
theorem C24_dump_deterministic (ind cur : Bytes) (v w : Json) (h : v = w) : dump ind cur v = dump ind cur w := by
  rw [h]
end Occa.Json.C24
