/-
C24 — JSON dump and parse round-trip every value.

Model: OccaModel/Json.lean (dumpToString with every indentation, the recursive-descent loader on a
NUL-terminated byte list, primitive::toString / primitive::load), of the repaired code (fixes F28, FJ1, FJ5).
Statement of the property, clause by clause:
  (a) parsing the dumped text yields a value equal to the original, for any indentation
        C24_string_roundtrip, C24_number_roundtrip, C24_number_value_preserved (the leaf lemmas), C24_roundtrip_load (any
        whitespace as indentation, any delimiter after the value), C24_roundtrip (json::dump(indent)
        followed by json::parse), C24_fuel_suffices, C24_fuel_never_exhausted (the model's recursion budget is never the reason, for dumped
        text and for every input text),
        C24_reparse_same_text (the value read back prints the same text and has the same hash)
  (b) the full quantifier of the property also contains NUL bytes, NaN/Inf and empty keys, for which
      the statement is false of the code: C24_roundtrip_full, C24_roundtrip_full_fails,
      C24_roundtrip_partial (= (a), the strongest restriction that is proved)
  (c) dumping is deterministic: the text is a function of the value (dump is a function in the
      model), and the value does not remember the order in which members were inserted
        C24_obj_canonical, C24_insert_commutes, C24_dump_deterministic, C24_hash_deterministic
Float-typed numbers and numbers that carry source text are outside `Covered` and are checked by the
correspondence run only (DESIGN section 3: floating point is never reasoned about).
-/
import OccaProofs.Lemmas.JsonGenTie
import OccaProofs.Lemmas.JsonRoundtrip
import OccaProofs.Lemmas.JsonReparse
import OccaProofs.Lemmas.JsonFuel
import OccaModel.Hash

namespace Occa.Json.C24
open Occa Occa.Json

/-- the values the proof covers: no `none_` node, every number of bool or integer type built through
    the API (no source text, value in the range of its type), every key non-empty, objects ordered
    like std::map; strings and keys are arbitrary byte strings -/
abbrev Covered (v : Json) : Prop := RT v

/-- no string value and no key contains a NUL byte -/
abbrev NulFree (v : Json) : Prop := NoNul v

/-- string escape lemma: for every byte string `s` (NUL included) and every continuation `r`,
    reading the dumped string after its opening quote returns `s` and stops at `r` -/
theorem C24_string_roundtrip (s r : Bytes) :
    loadStr cQuote false ((dumpStr s).drop 1 ++ r) [] = .ok (s, r) := by
  simpa [dumpStr] using loadStr_escBytes s r []

example : loadStr cQuote false ((dumpStr [34, 92, 10, 0, 255]).drop 1 ++ [44]) [] = .ok ([34, 92, 10, 0, 255], [44]) := by rfl

/-- number lemma: the text primitive::toString prints for a number of any integer type
    (int8 … uint64, extremes included), followed by a delimiter, is read back by primitive::load as
    a number that json::operator== (primitive::equal) accepts as equal; the reader stops at the
    delimiter and remembers the text as its source -/
theorem C24_number_roundtrip (fuel : Nat) (p : Prim) (h : p.IsInt) (rest : Bytes) (hr : Delim rest) :
    ∃ p', loadPrim (fuel + 1) (p.toStr ++ rest) = (p', rest) ∧ primEq p p' = true ∧ p'.src = p.toStr :=
  loadPrim_toStr fuel p h rest hr

/-- beyond `==`: the number read back has the same mathematical value, typed int32 if it fits and the
    text has no `L`, else int64, else uint64; the single exception is INT64_MIN, which comes back as the
    uint64 2^63 (same bits) -/
theorem C24_number_value_preserved (fuel : Nat) (p : Prim) (h : p.IsInt) (rest : Bytes) (hr : Delim rest) :
    ∃ p', loadPrim (fuel + 1) (p.toStr ++ rest) = (p', rest)
      ∧ (p'.val = p.val ∨ (p.ty = .i64 ∧ p.val = -9223372036854775808 ∧ p'.ty = .u64 ∧ p'.val = 9223372036854775808)) := by
  have hm := isInt_natAbs_lt h
  have hT := toStr_isInt h
  have hsuf : (if p.ty.isLong then [76] else ([] : Bytes)) = [] ∨ (if p.ty.isLong then [76] else ([] : Bytes)) = [76] := by
    cases p.ty.isLong <;> simp
  have hneg : decide (p.val < 0) = true → 1 ≤ p.val.natAbs := by intro hh; have := of_decide_eq_true hh; omega
  have hl := loadPrim_int fuel (decide (p.val < 0)) p.val.natAbs _ rest hsuf hr hm hneg
  have hsel : (if (if p.ty.isLong then [76] else ([] : Bytes)) = [] then 0 else 1) = (if p.ty.isLong then 1 else 0) := by
    cases p.ty.isLong <;> simp
  simp only [decide_eq_true_eq, hsel] at hl
  refine ⟨_, by rw [hT]; exact hl, ?_⟩
  rcases reload_value p h with hv | ⟨h1, h2, h3⟩
  · exact Or.inl hv
  · right
    refine ⟨h1, h2, ?_, ?_⟩
    · show (reloaded p.val.natAbs (if p.ty.isLong then 1 else 0) (decide (p.val < 0))).1 = _; rw [h3]
    · show (reloaded p.val.natAbs (if p.ty.isLong then 1 else 0) (decide (p.val < 0))).2 = _; rw [h3]

example : (⟨.u64, 18446744073709551615, []⟩ : Prim).IsInt := isInt_of_isIntB (by decide)
example : (⟨.i8, -128, []⟩ : Prim).IsInt := isInt_of_isIntB (by decide)

/-- round trip at the level of json::load: for every covered value, every indentation string and
    current indentation made of whitespace, every delimiter-initial continuation and every budget
    at least `need v`, loading the dumped text gives a value == the original and leaves the
    continuation -/
theorem C24_roundtrip_load (v : Json) (hv : Covered v) (ind cur rest : Bytes) (n : Nat)
    (hi : AllWs ind) (hc : AllWs cur) (hr : Delim rest) (hn : need v ≤ n) :
    ∃ v', load n (dump ind cur v ++ rest) = .ok (v', rest) ∧ jsonEq v v' = true :=
  rt_val v hv ind cur rest n hi hc hr hn

/-- the recursion budget `parse` uses is enough for every dumped covered value -/
theorem C24_fuel_suffices (v : Json) (hv : Covered v) (ind cur : Bytes) :
    need v ≤ parseFuel (dump ind cur v).length :=
  fuel_suffices v hv ind cur

/-- for EVERY input text the model's recursion budget is enough: the `fuel` outcome of the model never
    occurs, so every error the model reports is one of the C++ exceptions -/
theorem C24_fuel_never_exhausted (s : Bytes) : parse s ≠ .error .fuel :=
  parse_never_fuel s

/-- clause (a): `json::parse(v.dump(indent))` succeeds and is == v, for every indentation
    (negative = the default 2) and every covered value without NUL bytes -/
theorem C24_roundtrip (v : Json) (hv : Covered v) (hn : NulFree v) (indent : Int) :
    ∃ v', parse (dumpI indent v) = .ok v' ∧ jsonEq v v' = true := by
  unfold dumpI
  exact parse_dump v hv hn _ (allWs_replicate _)

example : Covered (.obj [([97, 34, 98], .arr [.num ⟨.u32, 4294967295, []⟩, .str [92, 0], .null]), ([98], .num ⟨.bool, 1, []⟩)]) :=
  rt_of_coveredB _ (by decide)

/-- the value read back prints the same text again at every indentation, hence has the same hash:
    "equal values produce equal text and equal hashes" across a round trip -/
theorem C24_reparse_same_text (v : Json) (hv : Covered v) (hn : NulFree v) (indent : Int) :
    ∃ v', parse (dumpI indent v) = .ok v' ∧ jsonEq v v' = true
      ∧ (∀ i : Int, dumpI i v' = dumpI i v) ∧ hashText v' = hashText v := by
  unfold dumpI
  obtain ⟨v', hp, he, hs⟩ := parse_dump_same v hv hn _ (allWs_replicate _)
  exact ⟨v', hp, he, fun i => hs _ _, hs _ _⟩

/-- clause (a) at the strength of the property text: every value built through the API (`wf`: members
    ordered like std::map) without `none_` nodes — strings and keys containing any bytes, numbers of
    every primitive type — round-trips at every indentation -/
def C24_roundtrip_full : Prop :=
  ∀ (v : Json) (indent : Int), v.wf = true → hasNone v = false →
    ∃ v', parse (dumpI indent v) = .ok v' ∧ jsonEq v v' = true

/-- false of the code: a NUL byte inside a string cuts the text the parser sees (finding F29a) -/
theorem C24_roundtrip_full_fails : ¬ C24_roundtrip_full := by
  intro h
  obtain ⟨v', hp, _⟩ := h (.str [97, 0, 98]) 0 (by decide) (by decide)
  have e : parse (dumpI 0 (.str [97, 0, 98])) = .error .unclosedString := by rfl
  rw [e] at hp
  cases hp

/-- the other two recorded findings are witnesses as well: +Inf is printed as `inf` (F29b), an
    empty key is rejected by the loader (FJ4) -/
example : parse (dumpI 0 (.num ⟨.f64, 0x7ff0000000000000, []⟩)) = .error .cannotLoad := by rfl
example : parse (dumpI 2 (.obj [([], .null)])) = .error .keyEmpty := by rfl

/-- the strongest restriction that is proved, with decidable guards: NUL-free strings and keys,
    non-empty keys, numbers of bool or integer type without source text (float-typed numbers are
    covered by the correspondence run only) -/
theorem C24_roundtrip_partial (v : Json) (indent : Int) (hc : coveredB v = true) (hn : nulFreeB v = true) :
    ∃ v', parse (dumpI indent v) = .ok v' ∧ jsonEq v v' = true :=
  C24_roundtrip v (rt_of_coveredB v hc) (noNul_of_nulFreeB v hn) indent

example : coveredB (.obj [([34, 92], .arr [.num ⟨.i64, -9223372036854775808, []⟩, .str [255, 10]]), ([97], .obj [])]) = true
    ∧ nulFreeB (.obj [([34, 92], .arr [.num ⟨.i64, -9223372036854775808, []⟩, .str [255, 10]]), ([97], .obj [])]) = true := by decide

/-! ### clause (c): determinism -/

/-- a std::map is determined by its contents: two ordered member lists with the same lookups are
    the same list, so the dumped text cannot depend on the order of insertion -/
theorem C24_obj_canonical (a b : Obj) (ha : Sorted a) (hb : Sorted b) (h : ∀ k, lookup k a = lookup k b) : a = b :=
  sorted_ext ha hb h

/-- inserting two different keys in either order gives the same object -/
theorem C24_insert_commutes (k1 k2 : Bytes) (v1 v2 : Json) (l : Obj) (hl : Sorted l) (hk : k1 ≠ k2) :
    insert k1 v1 (insert k2 v2 l) = insert k2 v2 (insert k1 v1 l) := by
  apply sorted_ext (sorted_insert _ _ (sorted_insert _ _ hl)) (sorted_insert _ _ (sorted_insert _ _ hl))
  intro k
  by_cases h1 : k = k1
  · subst h1
    rw [lookup_insert_self, lookup_insert_ne hk, lookup_insert_self]
  · by_cases h2 : k = k2
    · subst h2
      rw [lookup_insert_ne h1, lookup_insert_self, lookup_insert_self]
    · rw [lookup_insert_ne h1, lookup_insert_ne h2, lookup_insert_ne h2, lookup_insert_ne h1]

example : insert [98] .null (insert [97] (.str []) []) = insert [97] (.str []) (insert [98] .null []) := by rfl

/-- the text is a function of the value and the indentation alone: equal values, equal text -/
theorem C24_dump_deterministic (v w : Json) (indent : Int) (h : v = w) : dumpI indent v = dumpI indent w := by
  rw [h]

/-- json::hash() hashes the indent-free text (occa::hash of C27): equal values, equal hashes -/
theorem C24_hash_deterministic (v w : Json) (h : hashText v = hashText w) :
    Hash.hashBytes ((hashText v).map (·.toNat)) = Hash.hashBytes ((hashText w).map (·.toNat)) := by
  rw [h]

end Occa.Json.C24
