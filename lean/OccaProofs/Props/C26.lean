/-
C26 — Mode-specific properties override generic ones only for their mode.

Model: OccaModel/Props.lean (getModeSpecificProps, getObjectSpecificProps, initialObjectProps, device::setup,
device::kernel/memory/streamProperties(extra), occa::settings()) as compositions of the JSON operations of C25.
Statements are member by member (`memberOf j k` / `lookup k kvs`), for property trees whose layers are
dictionary-like (`DictLike`: undefined or an object — a layer that is a number or a string makes the C++ throw
"Cannot apply operator + with different JSON types", which the model reproduces and the harness checks).
`over lower upper` is one layer over another for one member: the upper layer wins, objects present in both
are merged recursively (C25_mergeVal_spec).  Priority, lowest first:
   settings[obj]  settings[obj/modes/M]  settings[modes/M/obj]  user[obj]  user[obj/modes/M]  user[modes/M/obj]
   then per call:  stored  extra  extra[modes/M]
  generic entries overridden by the entries of the device's own mode     C26_mode_layering, C26_object_layering
  user-supplied properties override global settings                       C26_initial_layering, C26_device_layering
  per-call properties override the stored ones                            C26_percall_layering
  a leaf entry of a higher layer simply wins                              C26_higher_leaf_wins
  no "modes" member survives                                              C26_no_modes_key
  entries for other modes never take effect                               C26_other_modes_inert_mode / _top / _object / _device
-/
import OccaProofs.Lemmas.JsonGenTie
import OccaProofs.Lemmas.PropsLaws

namespace Occa.Json.C26
open Occa Occa.Json

/-- getModeSpecificProps(M, props): generic members overridden by the members of props["modes/M"];
    the "modes" member itself is dropped -/
theorem C26_mode_layering (mode : Bytes) (props : Json) (hm : PlainKey mode) (hp : DictLike props)
    (hM : DictLike (readK [sModes, mode] props)) :
    ∃ r, modeSpecific mode props = .ok r ∧ DictLike r
      ∧ ∀ k, memberOf r k = if k = sModes then Option.none
          else over (memberOf props k) (memberOf (readK [sModes, mode] props) k) := by
  obtain ⟨r, h1, h2, _, h3⟩ := modeSpecific_dict mode props hm hp hM
  exact ⟨r, h1, h2, h3⟩

example : modeSpecific sSerial (.obj [([120], .num ⟨.i32, 1, []⟩), (sModes, .obj [(sOpenMP, .obj [([120], .num ⟨.i32, 3, []⟩)]), (sSerial, .obj [([120], .num ⟨.i32, 2, []⟩)])])])
    = .ok (.obj [([120], .num ⟨.i32, 2, []⟩)]) := by rfl

/-- getObjectSpecificProps(M, obj, props): props[obj] < props[obj/modes/M] < props[modes/M/obj] -/
theorem C26_object_layering (mode object : Bytes) (props : Json) (hm : PlainKey mode) (ho : PlainKey object)
    (h1 : DictLike (layer1 object props)) (h2 : DictLike (layer2 mode object props))
    (h3 : DictLike (layer3 mode object props)) :
    ∃ r, objectSpecific mode object props = .ok r ∧ DictLike r
      ∧ ∀ k, memberOf r k = if k = sModes then Option.none else objMember mode object props k :=
  objectSpecific_dict mode object props hm ho h1 h2 h3

/-- initialObjectProps: the three settings layers below the three user layers; `mode` is set last -/
theorem C26_initial_layering (settings props : Json) (mode object : Bytes) (hm : PlainKey mode) (ho : PlainKey object)
    (s1 : DictLike (layer1 object settings)) (s2 : DictLike (layer2 mode object settings))
    (s3 : DictLike (layer3 mode object settings))
    (u1 : DictLike (layer1 object props)) (u2 : DictLike (layer2 mode object props))
    (u3 : DictLike (layer3 mode object props)) :
    ∃ kvs, initialObject settings mode object props = .ok (.obj kvs) ∧ Sorted kvs
      ∧ ∀ k, lookup k kvs =
          if k = sMode then some (.str mode)
          else if k = sModes then Option.none
          else over (objMember mode object settings k) (objMember mode object props k) :=
  initialObject_dict settings props mode object hm ho s1 s2 s3 u1 u2 u3

/-- device::setup: `device.properties()` = settings' device layers below (user < user[modes/M]); the
    kernel / memory / stream members are the initialObjectProps of C26_initial_layering; `mode` is the
    registered spelling of the mode found in the assembled properties -/
theorem C26_device_layering (settings : Json) (P : Obj) (mode : Bytes) (hP : Sorted P) (hm : PlainKey mode)
    (hmode : lookup sMode P = some (.str mode)) (L : DevLayers settings (.obj P) mode) :
    ∃ kvs ko me st, deviceProps settings (.obj P) = .ok (.obj kvs) ∧ Sorted kvs
      ∧ initialObject settings mode sKernel (.obj P) = .ok ko
      ∧ initialObject settings mode sMemory (.obj P) = .ok me
      ∧ initialObject settings mode sStream (.obj P) = .ok st
      ∧ ∀ k, lookup k kvs =
          if k = sMode then
            some (.str (canonicalMode (toStringJ ((over (objMember mode sDevice settings sMode)
              (over (some (.str mode)) (memberOf (readK [sModes, mode] (.obj P)) sMode))).getD .none))))
          else if k = sStream then some st
          else if k = sMemory then some me
          else if k = sKernel then some ko
          else if k = sModes then Option.none
          else over (objMember mode sDevice settings k)
                 (over (lookup k P) (memberOf (readK [sModes, mode] (.obj P)) k)) :=
  deviceProps_dict settings P mode hP hm hmode L

/-- kernelProperties(extra) etc.: the stored properties of the object below extra below extra[modes/M],
    M being the registered mode of the device -/
theorem C26_percall_layering (D : Obj) (mode object : Bytes) (extra : Json) (hm : PlainKey mode) (ho : PlainKey object)
    (hmode : lookup sMode D = some (.str mode)) (hs : DictLike (readK [object] (.obj D)))
    (he : DictLike extra) (hM : DictLike (readK [sModes, mode] extra)) :
    ∃ r, perCall (.obj D) object extra = .ok r ∧ DictLike r
      ∧ ∀ k, memberOf r k = over (memberOf (readK [object] (.obj D)) k)
          (if k = sModes then Option.none else over (memberOf extra k) (memberOf (readK [sModes, mode] extra) k)) := by
  have hmd : toStringJ (readP sMode (.obj D)) = mode := by
    unfold readP
    rw [splitPath1 sMode plain_sMode, readK_cons_obj, hmode]
    rfl
  obtain ⟨r, hr, hd, hmem⟩ := perCall_dict mode (readK [object] (.obj D)) extra hm hs he hM
  refine ⟨r, ?_, hd, hmem⟩
  unfold perCall
  simp only [hmd]
  unfold readP
  rw [splitPath1 object ho]
  cases hms : modeSpecific mode extra with
  | error e => rw [hms] at hr; cases hr
  | ok m => rw [hms] at hr; exact hr

/-- a member that a higher layer defines with a value that is not an object is exactly that value,
    whatever the lower layers hold ("the first defined entry wins", in priority order) -/
theorem C26_higher_leaf_wins (lower : Option Json) (v : Json) (h : v.isObj = false) :
    over lower (some v) = some v ∧ over lower Option.none = lower :=
  ⟨over_leaf lower v h, rfl⟩

/-- no "modes" member survives in what getModeSpecificProps / getObjectSpecificProps /
    initialObjectProps return -/
theorem C26_no_modes_key (settings props : Json) (mode object : Bytes) (hm : PlainKey mode) (ho : PlainKey object)
    (hp : DictLike props) (hM : DictLike (readK [sModes, mode] props))
    (s1 : DictLike (layer1 object settings)) (s2 : DictLike (layer2 mode object settings))
    (s3 : DictLike (layer3 mode object settings))
    (u1 : DictLike (layer1 object props)) (u2 : DictLike (layer2 mode object props))
    (u3 : DictLike (layer3 mode object props)) :
    (∃ r, modeSpecific mode props = .ok r ∧ memberOf r sModes = Option.none)
      ∧ (∃ r, objectSpecific mode object props = .ok r ∧ memberOf r sModes = Option.none)
      ∧ (∃ r, initialObject settings mode object props = .ok r ∧ memberOf r sModes = Option.none) := by
  obtain ⟨r1, h1, _, _, m1⟩ := modeSpecific_dict mode props hm hp hM
  obtain ⟨r2, h2, _, m2⟩ := objectSpecific_dict mode object props hm ho u1 u2 u3
  obtain ⟨k3, h3, _, m3⟩ := initialObject_dict settings props mode object hm ho s1 s2 s3 u1 u2 u3
  refine ⟨⟨r1, h1, by rw [m1]; simp⟩, ⟨r2, h2, by rw [m2]; simp⟩, ⟨.obj k3, h3, ?_⟩⟩
  show lookup sModes k3 = Option.none
  rw [m3]
  have : sModes ≠ sMode := by decide
  simp [this]

/-- entries for other modes never take effect (1): whatever is written under `modes/<M'>`, M' ≠ M,
    getModeSpecificProps(M, ·) returns the same value -/
theorem C26_other_modes_inert_mode (mode m' : Bytes) (x : Json) (P : Obj) (j' : Json) (hP : Sorted P)
    (hm : PlainKey mode) (hne : m' ≠ mode) (hw : write [sModes, m'] x (.obj P) = .ok j')
    (hM : DictLike (readK [sModes, mode] (.obj P))) :
    modeSpecific mode j' = modeSpecific mode (.obj P) :=
  modeSpecific_inert mode m' x P j' hP hm hne hw hM

/-- (2): whatever is written under `modes/<M'>`, getObjectSpecificProps(M, obj, ·) and hence
    initialObjectProps return the same value -/
theorem C26_other_modes_inert_top (settings : Json) (mode m' object : Bytes) (x j j' : Json) (hm : PlainKey mode)
    (ho : PlainKey object) (hos : object ≠ sModes) (hne : m' ≠ mode) (hw : write [sModes, m'] x j = .ok j') :
    objectSpecific mode object j' = objectSpecific mode object j
      ∧ initialObject settings mode object j' = initialObject settings mode object j := by
  have h := objectSpecific_inert_top mode m' object x j j' hm ho hos hne hw
  exact ⟨h, by unfold initialObject; rw [h]⟩

/-- (3): whatever is written under `<obj>/modes/<M'>`, initialObjectProps returns the same value -/
theorem C26_other_modes_inert_object (settings : Json) (mode m' object : Bytes) (x : Json) (P : Obj) (j' : Json)
    (hP : Sorted P) (hPw : WFO P) (hm : PlainKey mode) (ho : PlainKey object) (hos : object ≠ sModes) (hne : m' ≠ mode)
    (hw : write [object, sModes, m'] x (.obj P) = .ok j')
    (s1 : DictLike (layer1 object settings)) (s2 : DictLike (layer2 mode object settings))
    (s3 : DictLike (layer3 mode object settings))
    (u1 : DictLike (layer1 object (.obj P))) (u2 : DictLike (layer2 mode object (.obj P)))
    (u3 : DictLike (layer3 mode object (.obj P))) :
    initialObject settings mode object j' = initialObject settings mode object (.obj P) :=
  initialObject_inert_obj settings mode m' object x P j' hP hPw hm ho hos hne hw s1 s2 s3 u1 u2 u3

/-- (4): at the level of the device: whatever is written under `modes/<M'>` of the user properties,
    device::setup assembles the same `device.properties()` -/
theorem C26_other_modes_inert_device (settings : Json) (P : Obj) (mode m' : Bytes) (x j' : Json) (hP : Sorted P)
    (hm : PlainKey mode) (hne : m' ≠ mode) (hmode : lookup sMode P = some (.str mode))
    (L : DevLayers settings (.obj P) mode) (hw : write [sModes, m'] x (.obj P) = .ok j') :
    deviceProps settings j' = deviceProps settings (.obj P) :=
  deviceProps_inert_top settings P mode m' x j' hP hm hne hmode L hw

example : initialObject (.obj [(sKernel, .obj [([120], .num ⟨.i32, 1, []⟩)])]) sSerial sKernel
      (.obj [(sKernel, .obj [(sModes, .obj [(sOpenMP, .obj [([120], .num ⟨.i32, 8, []⟩)]), (sSerial, .obj [([121], .num ⟨.i32, 7, []⟩)])])])])
    = .ok (.obj [(sMode, .str sSerial), ([120], .num ⟨.i32, 1, []⟩), ([121], .num ⟨.i32, 7, []⟩)]) := by rfl

end Occa.Json.C26
