/-
C12 — The tokenizer never crashes and re-reads its own token spellings.

Model: OccaModel/Lex.lean (the repaired tokenizer: fix F16, FL1..FL6) over the generated
OccaGen/Operators.lean (operator table of getOperators) and OccaGen/Charsets.lean (character sets,
encoding bits, source-shape flags).  Lemmas: OccaProofs/Lemmas/Lex*.lean.

Clauses of the property:
  (1) tokenizing any byte string terminates without crashing or reading out of bounds
        C12_total_no_trap, C12_getToken_consumes (progress = the termination argument),
        C12_skip_in_bounds, C12_getHeader_in_bounds
  (2) operators are split by longest match
        C12_operator_longest, C12_operator_exact, C12_operator_never_fails
  (3) printed tokens are read back as themselves
        C12_unescape_escape, C12_escape_scans (strings/chars, fix F16), C12_string_value_in_range,
        C12_char_value_in_range (the scanners' ranges),
        C12_reread_identifier, C12_reread_operator, C12_reread_number, C12_reread_string,
        C12_reread_rawstring, C12_reread_char, C12_reread_line_comment, C12_reread_block_comment,
        C12_roundtrip, C12_roundtrip_tokens
      The well-formedness predicates (what the property calls "C/OKL tokens") are IdentWF, OpWF, NumWF,
      StrWF, RawWF, ChrWF, LineCommentWF, BlockCommentWF, collected in TokWF; separators are non-empty
      strings over charcodes::whitespace (ItemWF), a line comment being followed by a newline.
  (T) the source still has the statement shapes the model was written after
        C12_source_shape
-/
import OccaProofs.Lemmas.LexRound

namespace Occa.Lex.C12
open Occa Occa.Gen Occa.Lex

/-- (T) every statement shape the model relies on (including the repairs F16, FL1..FL6) is present in the
    current source; the flags are recomputed from the C++ on every run. -/
theorem C12_source_shape : ∀ p ∈ sourceShape, p.2 = true := by decide

example : sourceShape.length = 19 := by decide

/-- (1) Tokenizing any byte string returns: no read or pointer step beyond the terminating NUL (`Trap.oob`)
    and no non-termination of the token loop (`Trap.fuel`). -/
theorem C12_total_no_trap (s : Str) : ∃ res, tokenizeBytes s = .ok res :=
  tokenize_total (cstr s) (cstr_noNul s)

example : tokenizeBytes [DQ, 'a', 'b', 'c'] = .ok ⟨[], 1⟩ := by decide
example : tokenizeBytes ['R', DQ, 'a'] = .ok ⟨[.str 1 [] []], 1⟩ := by decide

/-- (1) progress: on every position that is not the end of the source, `getToken` returns and has consumed
    at least one character — the measure that bounds the `isEmpty()` loop. -/
theorem C12_getToken_consumes (r : Str) (hn : NoNul r) (hr : r ≠ []) :
    ∃ t e r', getToken r = .ok (t, e, r') ∧ Suffix r' r ∧ r'.length < r.length :=
  getToken_progress r hn hr

example : NoNul ['\'', 'a'] ∧ ['\'', 'a'] ≠ [] := by decide

/-- (1) the skip loops (`skipTo`, `skipFrom`, whitespace) stay inside the buffer for every stop test:
    the look-ahead `fp.start[1]` after a backslash and the step `+= 1 + (fp.start[1] != 0)` are in bounds. -/
theorem C12_skip_in_bounds (stop : Char → Bool) (r : Str) : ∃ r', skipUntil stop r = .ok r' ∧ Suffix r' r :=
  skipUntil_ok stop r

example : skipUntil (· == 'x') ['a', '\\'] = .ok [] := by decide

/-- (1) `getHeader` (the `#include` path of the same file, repaired together with FL1) stays inside the buffer -/
theorem C12_getHeader_in_bounds (r : Str) (hn : NoNul r) : ∃ v e r', getHeader r = .ok (v, e, r') ∧ Suffix r' r :=
  getHeader_ok r hn

example : getHeader ['<', 'a', 'b'] = .ok ([], 1, []) := by decide

/-- (2) `getLongest`: the operator found is a registered spelling that is a prefix of the input and no
    registered spelling that is a prefix of the input is longer. -/
theorem C12_operator_longest {r : Str} {id len : Nat} (h : longestOp r = some (id, len)) :
    ∃ sp, registered[id]? = some sp ∧ sp.isPrefixOf r = true ∧ len = sp.length ∧ 0 < len ∧
      ∀ sp' ∈ registered, sp'.isPrefixOf r = true → sp'.length ≤ len :=
  longestOp_some h

example : longestOp ['<', '<', '=', '='] = some (31, 3) := by decide
example : longestOp ['+', '+', '+'] = some (2, 2) := by decide

/-- (2) an operator spelling followed by a character with which no registered spelling continues is
    recognised as exactly that operator (ids are unique: the spellings are pairwise distinct). -/
theorem C12_operator_exact {id : Nat} {sp : Str} (hid : registered[id]? = some sp) (c : Char) (r : Str)
    (hext : ∀ sp' ∈ registered, (sp ++ [c]).isPrefixOf sp' = false) :
    longestOp (sp ++ c :: r) = some (id, sp.length) :=
  longestOp_exact hid c r hext

example : registered[20]? = some ['<', '<'] ∧ ∀ sp' ∈ registered, (['<', '<'] ++ ['>']).isPrefixOf sp' = false := by
  decide

/-- (2) `peekForOperator` cannot fail: a character that starts a registered operator is an operator itself -/
theorem C12_operator_never_fails (r : Str) (h : operatorCharcodes.contains (hd r) = true) : longestOp r ≠ none := by
  have key : ∀ c ∈ operatorCharcodes, [c] ∈ registered := by decide +kernel
  intro hn
  have hc : hd r ∈ operatorCharcodes := by simpa using h
  have hm := key _ hc
  cases r with
  | nil => exact absurd hc (by decide)
  | cons c t =>
    have := longestOp_none hn [c] hm (by simp)
    exact absurd this (by simp)

example : operatorCharcodes.contains (hd ['.', 'x']) = true := by decide

/-- (3) strings and chars: `unescape` undoes `escape` on every value the scanners can produce
    (`ValUnits q`: plain characters — the delimiter included — and pairs `\x`, `x ≠ q`); holds at index 0
    because of fix F16. -/
theorem C12_unescape_escape {q : Char} (hq : q ≠ '\\') (hn : q ≠ NUL) {v : Str} (h : ValUnits q v) :
    unescape q (escape q v) = v :=
  unescape_escape hq hn h

example : ValUnits DQ [DQ, 'a', '\\', '\\', DQ] :=
  Units.plain (by decide) (by decide) (Units.plain (by decide) (by decide)
    (Units.pair (by decide) (Units.plain (by decide) (by decide) Units.nil)))

/-- (3) the printed body of a string or char literal is crossed completely by the scanner's `skipTo`, which
    stops exactly at the closing delimiter -/
theorem C12_escape_scans {q : Char} (hq : q ≠ '\\') (hn : q ≠ NUL) {v : Str} (h : ValUnits q v) (r : Str) :
    skipTo [q, '\n'] (escape q v ++ q :: r) = .ok (q :: r) := by
  have hu := escape_units hq hn h
  have hu' : Units (fun c => ([q, '\n'].contains c) = false) (fun x => x ≠ NUL) (escape q v) :=
    hu.mono (fun c hc => by simp [hc.1, hc.2]) (fun _ h => h)
  unfold skipTo
  rw [skipUntil_units _ hu']
  exact skipUntil_stop r hq (by simp)

/-- (3) the well-formedness predicate of string values is exactly the scanner's range: every value that
    `getString` produces from NUL-free text lies in `ValUnits` (and therefore, by C12_reread_string,
    survives printing and re-reading) -/
theorem C12_string_value_in_range {r : Str} (hn : NoNul r) {v : Str} {e : Nat} {r' : Str}
    (h : getString 0 (DQ :: r) = .ok (v, true, e, r')) : ValUnits DQ v :=
  getString_range hn h

example : getString 0 [DQ, 'a', '\\', DQ, DQ, 'x'] = .ok (['a', DQ], true, 0, ['x']) := by decide

/-- (3) the same for character literals -/
theorem C12_char_value_in_range {r : Str} (hn : NoNul r) {v udf : Str} {e : Nat} {r' : Str}
    (h : getCharToken 0 ('\'' :: r) = .ok (some (.chr 0 v udf), e, r')) : ValUnits '\'' v :=
  getCharToken_range hn h

example : getCharToken 0 ['\'', '\\', '\'', '\'', '_', 'x'] = .ok (some (.chr 0 ['\''] ['_', 'x']), 0, []) := by decide

/-! ### per-kind re-read theorems: a printed token followed by a separator character `c` (any of
    `charcodes::whitespace`) is read back by `getToken` as exactly that token, with no error, leaving the
    position on `c` -/

/-- (3) identifiers (not operator words, not `true`/`false`; `true1`, `L`, `u8` are fine: FL2, FL3) -/
theorem C12_reread_identifier {w : Str} (hw : IdentWF w) {c : Char} (hc : IsWs c) (r : Str) :
    getToken (w ++ c :: r) = .ok (some (.ident w), 0, c :: r) :=
  getToken_ident hw hc r

example : IdentWF ['t', 'r', 'u', 'e', '1'] := ⟨by decide, by decide, by decide, by decide, by decide⟩
example : IdentWF ['L'] := ⟨by decide, by decide, by decide, by decide, by decide⟩

/-- (3) every registered operator other than the two comment openers, including the word operators
    (`sizeof`, `sizeof...`, `new`, …) -/
theorem C12_reread_operator {id : Nat} {sp : Str} (h : OpWF id sp) {c : Char} (hc : IsWs c) (r : Str) :
    getToken (sp ++ c :: r) = .ok (some (.op id), 0, c :: r) :=
  getToken_op h hc r

example : OpWF 55 ['s', 'i', 'z', 'e', 'o', 'f', '.', '.', '.'] := ⟨by decide, by decide, by decide⟩
example : ∀ id, id < registered.length → id ≠ lineCommentId → id ≠ blockCommentId → ∃ sp, OpWF id sp :=
  fun id h h1 h2 => ⟨registered[id], ⟨by simp [h], h1, h2⟩⟩

/-- (3) numeric literals: `true`/`false`, binary, hexadecimal, decimal/octal/floating with exponents and
    any run of u/l/f suffix letters (a superset of the C grammar's suffixes) -/
theorem C12_reread_number {w : Str} (h : NumWF w) {c : Char} (hc : IsWs c) (r : Str) :
    getToken (w ++ c :: r) = .ok (some (.prim w), 0, c :: r) :=
  getToken_prim h hc r

example : NumWF ['1', '.', '5', 'e', '-', '3', 'f'] :=
  NumWF.dec (m := ['1', '.', '5']) (by decide) ⟨'1', by decide, by decide⟩
    (DecTail.exp (s1 := []) (e := 'e') (sg := ['-']) (ds := ['3']) (s2 := ['f'])
      (by decide) (by decide) (by decide) (by decide) (by decide) (by decide))
example : NumWF ['0', 'x', '1', 'F', 'u', 'L'] :=
  NumWF.hex (ds := ['1', 'F']) (suf := ['u', 'L']) (Or.inl rfl) (by decide) (by decide) (by decide)

/-- (3) string literals with prefix none/u8/u/U/L, escapes and udf -/
theorem C12_reread_string {enc : Nat} {v udf : Str} (h : StrWF enc v udf) {c : Char} (hc : IsWs c) (r : Str) :
    getToken (printTok (.str enc v udf) ++ c :: r) = .ok (some (.str enc v udf), 0, c :: r) :=
  getToken_str h hc r

example : StrWF encu8 [DQ, 'a'] ['_', 'k', 'm'] :=
  ⟨Or.inr (by decide), Units.plain (by decide) (by decide) (Units.plain (by decide) (by decide) Units.nil),
   Or.inr ⟨['k', 'm'], rfl, by decide⟩⟩

/-- (3) raw string literals R / u8R / uR / UR / LR with any NUL-free value (printed with a delimiter, FL6) -/
theorem C12_reread_rawstring {enc : Nat} {v udf : Str} (h : RawWF enc v udf) {c : Char} (hc : IsWs c) (r : Str) :
    getToken (printTok (.str enc v udf) ++ c :: r) = .ok (some (.str enc v udf), 0, c :: r) :=
  getToken_rawstr h hc r

example : RawWF encR ['a', ')', DQ, 'b'] [] := ⟨by decide, by decide, Or.inl rfl⟩
example : printTok (.str encR ['a', ')', '"', 'b'] []) = ['R', '"', '_', '(', 'a', ')', '"', 'b', ')', '_', '"'] := by
  decide

/-- (3) character literals with prefix none/u/U/L, escapes and udf -/
theorem C12_reread_char {enc : Nat} {v udf : Str} (h : ChrWF enc v udf) {c : Char} (hc : IsWs c) (r : Str) :
    getToken (printTok (.chr enc v udf) ++ c :: r) = .ok (some (.chr enc v udf), 0, c :: r) :=
  getToken_chr h hc r

example : ChrWF 0 ['\''] [] := ⟨Or.inl rfl, Units.plain (by decide) (by decide) Units.nil, Or.inl rfl⟩

/-- (3) line comments, followed by the newline that ends them -/
theorem C12_reread_line_comment {w : Str} (h : LineCommentWF w) (r : Str) :
    getToken (w ++ '\n' :: r) = .ok (some (.comment w), 0, '\n' :: r) :=
  getToken_lineComment h r

example : LineCommentWF ['/', '/', ' ', 'a', '\\', '\n', 'b'] :=
  ⟨⟨[' ', 'a', '\\', '\n', 'b'], rfl, Units.plain (by decide) (by decide) (Units.plain (by decide) (by decide)
    (Units.pair (by decide) (Units.plain (by decide) (by decide) Units.nil)))⟩⟩

/-- (3) block comments (`/*/ … */` and `/* \*/` included: FL4, FL5), followed by anything -/
theorem C12_reread_block_comment {w : Str} (h : BlockCommentWF w) (r : Str) :
    getToken (w ++ r) = .ok (some (.comment w), 0, r) :=
  getToken_blockComment h r

example : BlockCommentWF ['/', '*', '/', ' ', '\\', '*', '/'] := ⟨⟨['/', ' ', '\\'], rfl, by decide, by decide⟩⟩

/-- (3) The round trip: a list of well-formed tokens, each followed by a separator — a character of
    `charcodes::whitespace` (a newline after a line comment), then any whitespace characters and line
    continuations (backslash newline) — printed by the token printers and tokenized, gives back exactly those
    tokens, no errors, plus one newline token per newline of the separators that is not part of a continuation
    (and the end-of-source newline when the text ends in blanks). -/
theorem C12_roundtrip {l : List (Tok × Str)} (h : ∀ p ∈ l, ItemWF p) :
    tokenizeBytes (printSeq l) = .ok ⟨expectSeq l, 0⟩ :=
  roundtrip_tokenize h

/-- (3) … in particular the tokens other than newlines are the originals, in order -/
theorem C12_roundtrip_tokens {l : List (Tok × Str)} (h : ∀ p ∈ l, ItemWF p) :
    ∃ res, tokenizeBytes (printSeq l) = .ok res ∧ res.errors = 0 ∧
      res.toks.filter (· != .newline) = l.map (·.1) := by
  refine ⟨_, roundtrip_tokenize h, rfl, ?_⟩
  have hmid : ∀ s : Str, (sepMid s).filter (· != .newline) = [] := by
    intro s; fun_induction sepMid s <;> (try simp_all) <;> (try assumption)
  have hend : ∀ s : Str, (sepEnd s).filter (· != .newline) = [] := by
    intro s; fun_induction sepEnd s <;> (try simp_all) <;> (try assumption)
  have hnn : ∀ t, TokWF t → (t != .newline) = true := by
    intro t ht; cases ht <;> simp
  induction l with
  | nil => rfl
  | cons p l ih =>
    obtain ⟨t, sep⟩ := p
    have ht := (h (t, sep) (by simp)).tok
    have ih' := ih (fun q hq => h q (by simp [hq]))
    cases l with
    | nil => simp [expectSeq, hnn t ht, hend]
    | cons q l' => simp only [expectSeq] at ih' ⊢; simp [hnn t ht, hmid, ih']

example : ItemWF (.comment ['/', '/', 'x'], ['\n', '\\', '\n', ' ']) :=
  ⟨TokWF.lineComment ⟨⟨['x'], rfl, Units.plain (by decide) (by decide) Units.nil⟩⟩,
   SepWF.ws (by decide) (SepWF.cont (SepWF.ws (by decide) SepWF.nil)), by decide, fun _ => rfl⟩
example : tokenizeBytes (printSeq [(.ident ['a'], [' ']), (.op 2, ['\n', '\t'])]) =
    .ok ⟨[.ident ['a'], .op 2, .newline, .newline], 0⟩ := by decide

end Occa.Lex.C12
