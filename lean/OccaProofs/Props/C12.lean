/-
C12 — The tokenizer never crashes and re-reads its own token spellings.

Model: OccaModel/Lex.lean (the repaired tokenizer: fix F16, FL1..FL6) over the generated
OccaGen/Operators.lean (operator table of getOperators) and OccaGen/Charsets.lean (character sets,
encoding bits, source-shape flags).  Lemmas: OccaProofs/Lemmas/Lex*.lean.

Clauses of the property:
  (1) tokenizing any byte string terminates without crashing or reading out of bounds
        C12_total_no_trap, C12_getToken_consumes (progress = the termination argument),
        C12_skip_in_bounds
  (2) operators are split by longest match
        C12_operator_longest, C12_operator_exact, C12_operator_never_fails
  (3) printed tokens are read back as themselves
        C12_unescape_escape, C12_escape_scans (strings/chars, fix F16) …
  (T) the source still has the statement shapes the model was written after
        C12_source_shape
-/
import OccaProofs.Lemmas.LexProgress

namespace Occa.Lex.C12
open Occa Occa.Gen Occa.Lex

/-- (T) every statement shape the model relies on (including the repairs F16, FL1..FL6) is present in the
    current source; the flags are recomputed from the C++ on every run. -/
theorem C12_source_shape : ∀ p ∈ sourceShape, p.2 = true := by decide

example : sourceShape.length = 18 := by decide

/-- (1) Tokenizing any byte string returns: no read or pointer step beyond the terminating NUL (`Trap.oob`)
    and no non-termination of the token loop (`Trap.fuel`). -/
theorem C12_total_no_trap (s : Str) : ∃ res, tokenizeBytes s = .ok res :=
  tokenize_total (cstr s) (cstr_noNul s)

example : tokenizeBytes ['"', 'a', 'b', 'c'] = .ok ⟨[], 1⟩ := by decide
example : tokenizeBytes ['R', '"', 'a'] = .ok ⟨[.str 1 [] []], 1⟩ := by decide

/-- (1) progress: on every position that is not the end of the source, `getToken` returns and has consumed
    at least one character — the measure that bounds the `isEmpty()` loop. -/
theorem C12_getToken_consumes (r : Str) (hn : NoNul r) (hr : r ≠ []) :
    ∃ t e r', getToken r = .ok (t, e, r') ∧ Suffix r' r ∧ r'.length < r.length :=
  getToken_progress r hn hr

example : NoNul ['\'', 'a'] ∧ ['\'', 'a'] ≠ [] := by decide

/-- (1) the skip loops (`skipTo`, `skipFrom`, whitespace) stay inside the buffer for every stop test:
    the look-ahead `fp.start[1]` after a backslash and the step `+= 1 + (fp.start[1] != 0)` are in bounds. -/
theorem C12_skip_in_bounds (stop : Char → Bool) (r : Str) : ∃ r', skipUntil stop r = .ok r' ∧ Suffix r' r :=
  skipUntil_ok stop r

example : skipUntil (· == 'x') ['a', '\\'] = .ok [] := by decide

/-- (2) `getLongest`: the operator found is a registered spelling that is a prefix of the input and no
    registered spelling that is a prefix of the input is longer. -/
theorem C12_operator_longest {r : Str} {id len : Nat} (h : longestOp r = some (id, len)) :
    ∃ sp, registered[id]? = some sp ∧ sp.isPrefixOf r = true ∧ len = sp.length ∧ 0 < len ∧
      ∀ sp' ∈ registered, sp'.isPrefixOf r = true → sp'.length ≤ len :=
  longestOp_some h

example : longestOp ['<', '<', '=', '='] = some (31, 3) := by decide
example : longestOp ['+', '+', '+'] = some (2, 2) := by decide

/-- (2) an operator spelling followed by a character with which no registered spelling continues is
    recognised as exactly that operator (ids are unique: the spellings are pairwise distinct). -/
theorem C12_operator_exact {id : Nat} {sp : Str} (hid : registered[id]? = some sp) (c : Char) (r : Str)
    (hext : ∀ sp' ∈ registered, (sp ++ [c]).isPrefixOf sp' = false) :
    longestOp (sp ++ c :: r) = some (id, sp.length) :=
  longestOp_exact hid c r hext

example : registered[20]? = some ['<', '<'] ∧ ∀ sp' ∈ registered, (['<', '<'] ++ ['>']).isPrefixOf sp' = false := by
  decide

/-- (2) `peekForOperator` cannot fail: a character that starts a registered operator is an operator itself -/
theorem C12_operator_never_fails (r : Str) (h : operatorCharcodes.contains (hd r) = true) : longestOp r ≠ none := by
  have key : ∀ c ∈ operatorCharcodes, [c] ∈ registered := by decide +kernel
  intro hn
  have hc : hd r ∈ operatorCharcodes := by simpa using h
  have hm := key _ hc
  cases r with
  | nil => exact absurd hc (by decide)
  | cons c t =>
    have := longestOp_none hn [c] hm (by simp)
    exact absurd this (by simp)

example : operatorCharcodes.contains (hd ['.', 'x']) = true := by decide

/-- (3) strings and chars: `unescape` undoes `escape` on every value the scanners can produce
    (`ValUnits q`: plain characters — the delimiter included — and pairs `\x`, `x ≠ q`); holds at index 0
    because of fix F16. -/
theorem C12_unescape_escape {q : Char} (hq : q ≠ '\\') (hn : q ≠ NUL) {v : Str} (h : ValUnits q v) :
    unescape q (escape q v) = v :=
  unescape_escape hq hn h

example : ValUnits '"' ['"', 'a', '\\', '\\', '"'] :=
  Units.plain (by decide) (by decide) (Units.plain (by decide) (by decide)
    (Units.pair (by decide) (Units.plain (by decide) (by decide) Units.nil)))

/-- (3) the printed body of a string or char literal is crossed completely by the scanner's `skipTo`, which
    stops exactly at the closing delimiter -/
theorem C12_escape_scans {q : Char} (hq : q ≠ '\\') (hn : q ≠ NUL) {v : Str} (h : ValUnits q v) (r : Str) :
    skipTo [q, '\n'] (escape q v ++ q :: r) = .ok (q :: r) := by
  have hu := escape_units hq hn h
  have hu' : Units (fun c => ([q, '\n'].contains c) = false) (fun x => x ≠ NUL) (escape q v) :=
    hu.mono (fun c hc => by simp [hc.1, hc.2]) (fun _ h => h)
  unfold skipTo
  rw [skipUntil_units _ hu']
  exact skipUntil_stop r hq (by simp)

end Occa.Lex.C12
