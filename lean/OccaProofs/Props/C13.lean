/-
C13 — Preprocessing agrees with the C preprocessor on the supported subset.

Models: OccaModel/CppCond.lean (status machine + nested-group reference), OccaModel/CppEval.lean
(`#if` evaluation + C reference), OccaModel/CppExpand.lean (macro expansion + hide-set reference),
over the generated OccaGen/PpStatus.lean (flag values, shape of processElif / lineIsTrue /
binaryOpNode::evaluate / macroArgument::expand, operator precedences).

Clauses of the property:
  (a) "keeps exactly the lines ... that the C preprocessor does", "#elif conditions after a taken group
      never cause an error or a crash"                    C13_lines, C13_stack_balanced,
                                                          C13_lines_needs_F17 (the pinned code fails it)
  (b) robustness on ANY directive sequence                 C13_never_pops_base, C13_stray_directive_is_error
  (c) "the skipped side of &&, || or ?: never causes an error or a crash"
                                                          C13_no_trap_guarded, C13_eager_and_traps
                                                          C13_eval_agrees_with_C (value agreement on the
                                                          class S64; outside it: checked by the run)
  (d) "produces exactly the token sequence"                C13_expand_fuel_monotone,
                                                          C13_expand_terminates_full / _full_fails / _partial,
                                                          C13_expand_agrees_full / _full_fails / _partial
  tie                                                      C13_flags_are_distinct_bits, C13_tree_is_repaired
-/
import OccaProofs.Lemmas.CppCond
import OccaProofs.Lemmas.CppExpand
import OccaProofs.Lemmas.CppObj
import OccaProofs.Lemmas.CppObjAgree
import OccaProofs.Lemmas.CppEvalAgree
import OccaModel.Cpp

namespace Occa.Cpp.C13
open Occa Occa.Cpp

/-! ### tie to the source -/

/-- the five ppStatus flags are distinct single bits: the record of booleans represents `int status`
    exactly (re-checked against the constants regenerated from preprocessor.cpp) -/
theorem C13_flags_are_distinct_bits :
    ∀ r i f e n r' i' f' e' n' : Bool,
      (Status.mk r i f e n).word = (Status.mk r' i' f' e' n').word →
      r = r' ∧ i = i' ∧ f = f' ∧ e = e' ∧ n = n' := by
  decide

/-- the tree under test contains the repairs the full-strength theorems are about: processElif looks at
    the state first (F17), lineIsTrue does not push (F17), && / || short-circuit (F18, C14's),
    __VA_ARGS__ keeps its commas (F61), `defined X` without parentheses works (F64).  On a tree without them this obligation fails and the
    canonical replays of the corpus give the concrete failing inputs. -/
theorem C13_tree_is_repaired : Cfg.current = Cfg.repaired := by
  decide

/-! ### (a) kept lines -/

/-- For every well-nested directive list (the flattening of a tree of if-sections, any depth) in which the
    conditions that the C standard EVALUATES are clean — all others may be malformed or crash when
    evaluated — the status machine keeps exactly the lines of the nested-group rule, evaluates exactly
    the conditions the standard evaluates, and ends in its initial state. -/
theorem C13_lines (cfg : Cfg) (hcfg : cfg.elifFirst = true) (it : Items) (hcl : it.evalClean true = true) :
    runLines cfg CM.init it.flatten = ⟨CM.init, it.keepRef true, it.evalRef true⟩ := by
  have h := items_ok cfg hcfg it CM.init true [] (by simp [CM.init]) (by simp [CM.init]) (by simp [CM.init]) hcl
  simp only [List.append_nil] at h
  rw [h]
  simp [runLines, Run.pre]

example : (Items.sect (.expr .tt) (.text 0 .nil) (.elif .trap (.text 1 .nil) (.else_ (.text 2 .nil))) (.text 3 .nil)).evalClean true = true := by
  decide

/-- the machine ends with the stack it started with (only the entry pushed by init()), without errors
    and without having crashed -/
theorem C13_stack_balanced (cfg : Cfg) (hcfg : cfg.elifFirst = true) (it : Items) (hcl : it.evalClean true = true) :
    let m := (runLines cfg CM.init it.flatten).m
    m.stack = CM.init.stack ∧ m.errors = 0 ∧ m.crashed = false ∧ m.status = CM.init.status := by
  intro m
  have h : m = CM.init := by simp [m, C13_lines cfg hcfg it hcl]
  rw [h]
  simp [CM.init]

/-- the same statement is FALSE for the order of tests in the pinned code (`#if 1 / #elif <crash>`):
    this is defect F17 -/
theorem C13_lines_needs_F17 :
    ¬ (∀ it : Items, it.evalClean true = true →
        runLines Cfg.original CM.init it.flatten = ⟨CM.init, it.keepRef true, it.evalRef true⟩) := by
  intro h
  have := h (.sect (.expr .tt) (.text 0 .nil) (.elif .trap (.text 1 .nil) .endif) .nil) (by decide)
  revert this
  decide

/-- in the pinned code a malformed `#elif` condition (even an evaluated one) also unbalanced the stack -/
theorem C13_original_elif_error_pushes :
    (runLines Cfg.original CM.init
      [.dir (.if_ .ff), .dir (.elif .err), .dir .endif]).m.stack.length = 2 := by
  decide

/-! ### (b) arbitrary directive sequences -/

/-- For ANY sequence of conditional directives with ANY evaluation results (malformed sequences
    included) and either variant of the code: popStatus() is never executed on an empty stack, the entry
    pushed by init() (the uninitialised member) is never popped into `status`, and exactly one of
    reading / ignoring is set. -/
theorem C13_never_pops_base (cfg : Cfg) (ds : List Dir) :
    let m := ds.foldl (fun a d => (a.step cfg d).1) CM.init
    m.pops0 = 0 ∧ m.popsBase = 0 ∧ 1 ≤ m.stack.length ∧ m.status.reading = !m.status.ignoring := by
  have h := inv_run cfg ds CM.init inv_init
  exact ⟨h.pops0, h.popsBase, h.nonempty, h.xor⟩

example : ([Dir.endif, .else_, .elif .tt, .if_ .tt, .else_, .else_, .endif, .endif].foldl
    (fun a d => (a.step Cfg.repaired d).1) CM.init).errors = 5 := by decide

/-- a stray `#elif` / `#else` / `#endif` (no open #if) is reported and changes nothing else -/
theorem C13_stray_directive_is_error (cfg : Cfg) (m : CM) (d : Dir) (hc : m.crashed = false)
    (hf : m.status.foundIf = false) (hd : (∃ c, d = .elif c) ∨ d = .else_ ∨ d = .endif) :
    (m.step cfg d).1 = { m with errors := m.errors + 1 } := by
  rcases hd with ⟨c, rfl⟩ | rfl | rfl <;>
    simp [CM.step, CM.doElif, CM.doElse, CM.doEndif, hc, hf]

example : (CM.init.step Cfg.repaired .endif).1 = { CM.init with errors := 1 } :=
  C13_stray_directive_is_error Cfg.repaired CM.init .endif rfl rfl (Or.inr (Or.inr rfl))

/-! ### (c) evaluation -/

/-- With short-circuit evaluation the right operand of `&&` (left false), of `||` (left true) and the
    unselected arm of `?:` are never evaluated: the result does not depend on that operand at all, in
    particular not on whether evaluating it would crash (`1/0`). -/
theorem C13_no_trap_guarded (a x y : Expr) (p : PVal) (ha : eval true a = .val p) :
    (p.truth = false → eval true (.bin .land a x) = .val (ofBool false)) ∧
    (p.truth = true → eval true (.bin .lor a x) = .val (ofBool true)) ∧
    (p.truth = true → eval true (.tern a y x) = eval true y) ∧
    (p.truth = false → eval true (.tern a x y) = eval true y) := by
  refine ⟨?_, ?_, ?_, ?_⟩ <;> intro h <;> simp [eval, ha, h]

example : eval true (.bin .land (.lit false 0) (.bin .div (.lit false 1) (.lit false 0))) = .val (ofBool false) := by
  decide

/-- the pinned evaluator (both operands first) crashes on `0 && 1/0`: defect F18 -/
theorem C13_eager_and_traps :
    eval false (.bin .land (.lit false 0) (.bin .div (.lit false 1) (.lit false 0))) = .trap ∧
    eval false (.bin .lor (.lit false 1) (.bin .mod (.lit false 1) (.lit false 0))) = .trap := by
  decide

/-- On the class `S64` (unary + - ~ applied to 64-bit integer operands; arithmetic, bitwise and relational
    operators with at least one 64-bit integer operand, the other may be a bool-typed result like `a < b`;
    bool-typed results otherwise feed `!`, `&&`, `||`, `?:`; no shifts; both arms of `?:` of the same kind and
    signedness) OCCA's evaluator with the repairs F60 (intmax_t/uintmax_t literals) and F18
    (short-circuit) computes exactly what C computes: whenever C gives the expression a value (no signed
    overflow, no division by zero in an EVALUATED operand), `evaluate()` does not crash and returns that
    value; hence the `#if` takes the same branch.  Outside the class the counter-examples are the recorded
    findings (F66: `~bool`, `bool & bool`, `?:` with mixed signedness; shifts: C14's F20). -/
theorem C13_eval_agrees_with_C (e : Expr) (hs : S64 e = true) (c : CVal) (hc : evalC e = .val c) :
    (∃ p, eval true e = .val p ∧ p.v = c.v) ∧ evalCR true (some e) = evalCCR (some e) := by
  obtain ⟨p, hp, hv, _, _⟩ := eval_agrees e hs c hc
  refine ⟨⟨p, hp, hv⟩, ?_⟩
  simp only [evalCR, evalCCR, hp, hc, PVal.truth, hv]
  by_cases h0 : c.v = 0 <;> simp [h0]

example : S64 (.bin .eq (.bin .add (.bin .lt (.lit false 1) (.lit false 2)) (.lit true 1)) (.lit false 2)) = true := by
  decide

example : S64 (.bin .land (.bin .gt (.bin .add (.lit false 2147483647) (.lit false 1)) (.lit false 0))
                          (.un .not (.bin .div (.lit true 7) (.lit false 2)))) = true := by decide

/-- projections used by the examples -/
def okToks : Res (List Tok × PP) → Option (List Tok)
  | .ok (a, _) => some a
  | _ => none
def okRef : RRes (List HTok) → Option (List Tok)
  | .ok r => some (r.map (·.tok))
  | _ => none

/-! ### (d) macro expansion

`expandLine` is OCCA's algorithm (fuel-indexed), `refExpand` the C standard's (hide sets).  What is
PROVED here: fuel is only a proof device (monotonicity: a result, once reached, is the result for every
larger amount); the expansion does NOT always terminate (finding F63, with the translation unit); OCCA and
the standard do NOT always agree (finding F62, with the translation unit).  Agreement on the generated
class (acyclic tables; self-reference without macro names in arguments) is CHECKED by the three-way
differential run, not proved.  -/

/-- if the expansion of a line finishes with `n` units of fuel it finishes with the same result for every
    larger amount: "terminates" and "the result" are properties of the table and the line alone -/
theorem C13_expand_fuel_monotone (vc : XCfg) (s : PP) (toks : List Tok) (n k : Nat) (r : Res (List Tok × PP))
    (h : expandLine vc n s toks = r) (hne : r ≠ .outOfFuel) : expandLine vc (n + k) s toks = r :=
  expandLine_mono_le vc s toks r hne n k h

/-- FULL statement (termination): for every macro table and every source line some amount of fuel suffices -/
def C13_expand_terminates_full : Prop :=
  ∀ (vc : XCfg) (tbl : List Macro) (toks : List Tok), ∃ n, expandLine vc n { table := tbl } toks ≠ .outOfFuel

/-- it is false: with `#define f(x) g(x)` / `#define g(x) f(x)` the line `f(1)` is expanded for ever
    (the `)` that ends f's expansion is consumed as the end of g's argument list, which re-enables f
    before g's expansion is re-scanned).  Finding F63; the harness observes the hang on the real code. -/
theorem C13_expand_terminates_full_fails : ¬ C13_expand_terminates_full := by
  intro h
  obtain ⟨n, hn⟩ := h ⟨true, true⟩ tblFG [tId "f", tOp "(", tNum "1", tOp ")"]
  exact hn (expand_fg_diverges ⟨true, true⟩ n)

/-- PARTIAL (the strongest termination statement proved): on every table of OBJECT-LIKE macros — whatever
    they refer to: chains, cycles, self-reference, empty bodies — every line is expanded with finitely much
    fuel.  (Measure: the sum over the pending tokens of their complete-expansion weight relative to the
    macros enabled when they will be processed; it drops by one per expansion.)  Function-like macros are
    excluded by the counter-example above; `defined` is excluded because that identifier is a built-in
    function-like macro. -/
theorem C13_expand_terminates_partial (vc : XCfg) (tbl : List Macro) (toks : List Tok) (hobj : ObjTable tbl)
    (hnd : NoDefined vc tbl) (ht : ∀ t ∈ toks, t.text ≠ "defined") :
    ∃ n, expandLine vc n { table := tbl } toks ≠ .outOfFuel := by
  obtain ⟨n, r, h⟩ := expandLine_obj_terminates vc tbl toks hobj hnd ht
  exact ⟨n, by rw [h]; simp⟩

example : ObjTable [⟨"A", false, 0, false, [.raw (tId "B"), .raw (tId "A")], false⟩,
                    ⟨"B", false, 0, false, [.raw (tId "A")], false⟩] ∧
          NoDefined ⟨true, true⟩ [⟨"A", false, 0, false, [.raw (tId "B"), .raw (tId "A")], false⟩,
                          ⟨"B", false, 0, false, [.raw (tId "A")], false⟩] := by
  constructor
  · intro m hm; simp at hm; rcases hm with rfl | rfl <;> simp
  · intro m hm t ht; simp at hm; rcases hm with rfl | rfl <;> simp [objBody, subst] at ht <;>
      (rcases ht with rfl | rfl <;> decide) <;> (subst ht; decide)

/-- FULL statement (agreement): whenever both algorithms finish they produce the same tokens -/
def C13_expand_agrees_full : Prop :=
  ∀ (tbl : List Macro) (toks : List Tok) (n : Nat) (o : List Tok) (s' : PP) (r : List Tok),
    expandLine ⟨true, true⟩ n { table := tbl } toks = .ok (o, s') → refExpand n tbl toks = .ok r →
    o.filter (fun t => !t.isNl) = r

/-- it is false: `#define A A B`, `#define f(x) x`, `f(A)`: OCCA gives `A B B`, the standard `A B`
    (the `A` that was left alone inside its own expansion is expanded when f's expansion is re-scanned:
    no "blue paint").  Finding F62. -/
theorem C13_expand_agrees_full_fails : ¬ C13_expand_agrees_full := by
  intro h
  have := h [⟨"A", false, 0, false, [.raw (tId "A"), .raw (tId "B")], false⟩,
             ⟨"f", true, 1, false, [.arg 0], false⟩]
            [tId "f", tOp "(", tId "A", tOp ")"] 16
            [tId "A", tId "B", tId "B", nlTok]
            { table := [⟨"A", false, 0, false, [.raw (tId "A"), .raw (tId "B")], false⟩,
                        ⟨"f", true, 1, false, [.arg 0], false⟩] }
            [tId "A", tId "B"] (by decide +kernel) (by decide +kernel)
  revert this
  decide

/-- PARTIAL (the strongest agreement statement proved): on every table of OBJECT-LIKE macros — chains,
    cycles, self-reference, empty bodies, redefinition order irrelevant — whenever both algorithms finish,
    OCCA's disable-until-end-marker expansion of a line produces exactly the tokens of the C standard's
    hide-set expansion of the same tokens (the newline token included, it is an ordinary token for the
    reference).  Simulation invariant: a macro is in the hide set of a pending token iff it will be disabled
    when OCCA processes that token.  Function-like macros are excluded by the two counter-examples above. -/
theorem C13_expand_agrees_partial (vc : XCfg) (tbl : List Macro) (toks : List Tok) (hobj : ObjTable tbl)
    (hnd : NoDefined vc tbl) (ht : ∀ t ∈ toks, t.text ≠ "defined")
    (n n' : Nat) (o : List Tok) (s' : PP) (r : List HTok)
    (h1 : expandLine vc n { table := tbl } toks = .ok (o, s'))
    (h2 : expandR n' tbl ((toks ++ [nlTok]).map (fun t => (⟨t, []⟩ : HTok))) = .ok r) :
    o = r.map (·.tok) :=
  expandLine_obj_agrees vc tbl toks hobj hnd ht n n' o s' r h1 h2

/-- the hypotheses are satisfiable with a cyclic table: `#define A B A`, `#define B A`, line `A x B`: both
    algorithms finish and give `A A x B A` -/
example :
    okToks (expandLine ⟨true, true⟩ 40 { table := [⟨"A", false, 0, false, [.raw (tId "B"), .raw (tId "A")], false⟩,
                                           ⟨"B", false, 0, false, [.raw (tId "A")], false⟩] }
        [tId "A", tId "x", tId "B"]) = some [tId "A", tId "A", tId "x", tId "B", tId "A", nlTok] ∧
    okRef (expandR 40 [⟨"A", false, 0, false, [.raw (tId "B"), .raw (tId "A")], false⟩,
                 ⟨"B", false, 0, false, [.raw (tId "A")], false⟩]
        (([tId "A", tId "x", tId "B"] ++ [nlTok]).map (fun t => (⟨t, []⟩ : HTok)))) =
      some [tId "A", tId "A", tId "x", tId "B", tId "A", nlTok] := by
  decide +kernel

end Occa.Cpp.C13
