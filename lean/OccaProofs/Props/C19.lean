/-
C19 — @dim array access computes the documented linear index.

Model: OccaModel/Dim.lean (`codeIndex`: the loop of dim::applyCodeTransformations on numbers, `linear`:
the documented mixed-radix value, `orderValid`: dimOrder::isValid), OccaModel/LoopExpr.lean
(`dimIndexExpr`: the tree, after fix F26).
Clauses of the property:
  (a) the rewrite computes the documented mixed-radix index, for every arity and every order
                                                                  C19_code_is_formula, C19_index_expr_value
  (b) every index and dimension argument is evaluated as a complete expression whatever operators it
      contains                                                    C19_index_expr_faithful (+ C19_old_misread:
                                                                  the tree built before fix F26)
  (c) for in-range indices the index is a bijection onto [0, D0*…*Dk)
                                                                  C19_in_range, C19_injective, C19_surjective
  (d) @dimOrder accepts exactly the permutations of 0..k          C19_order_valid
  The arity is unbounded (the property's "up to 4" is a special case).
-/
import OccaProofs.Lemmas.Dim
import OccaProofs.Lemmas.ExprGroup
import OccaProofs.Lemmas.ExprGrammar

namespace Occa.Dim.C19
open Occa Occa.Dim Occa.LoopExpr

/-- (a) The loop `index = a[o_k]; index = a[o_i] + D[o_i] * index` computes the documented mixed-radix
    value `a[o_0] + D[o_0] * (a[o_1] + D[o_1] * (… a[o_k]))`, for every arity and every order list. -/
theorem C19_code_is_formula (D ix : List Int) (ord : List Nat) : codeIndex D ix ord = linear D ix ord :=
  codeIndex_eq_linear D ix ord

example : codeIndex [2, 3] [1, 2] [1, 0] = 2 + 3 * 1 := by decide   -- docs: yx(1,2) with @dimOrder(1,0) -> 2 + (1 * 3)

/-- (a) The tree built by the rewrite evaluates to that value for index and dimension *expressions*. -/
theorem C19_index_expr_value (env : String → Int) (dims args : List Expr) (order : List Nat) :
    eval env (dimIndexExpr dims args order) = linear (dims.map (eval env)) (args.map (eval env)) order := by
  rw [dimIndexExpr_value, codeIndex_eq_linear]

/-- (b) Its text is derived by the C expression grammar (`Derives`, Lemmas/ExprGrammar.lean) as the very tree that
    was built, for index and dimension arguments of every operator class (each only has to be grouped itself,
    as everything the OKL parser produced is): every argument is read as a complete expression. -/
theorem C19_index_expr_faithful (dims args : List Expr) (order : List Nat)
    (hd : ∀ e ∈ dims, Grouped e) (ha : ∀ e ∈ args, Grouped e) :
    ∃ ts : List Tok, renderAll ts = print (dimIndexExpr dims args order) ∧
      Derives 16 ts (dimIndexExpr dims args order) :=
  grouped_reads _ (dimIndexExpr_grouped dims args order hd ha)

example : Grouped (dimIndexExpr [.lit 3, .lit 5] [.bin "&" (.var "a") (.var "b"), .tern (.var "j") (.lit 1) (.lit 2)] [0, 1]) := by
  decide

/-- (b) Before fix F26 `x(a & b, j)` with `@dim(3, 5)` was printed `x[a & b + (3 * j)]`: the grammar derives
    that text as `a & (b + (3 * j))`, whose value (a = 1, b = 2, j = 1: 1) is not the index (3). -/
theorem C19_old_misread :
    let args : List Expr := [.bin "&" (.var "a") (.var "b"), .var "j"]
    let dims : List Expr := [.lit 3, .lit 5]
    let r : Expr := .bin "&" (.var "a") (.bin "+" (.var "b") (.paren (.bin "*" (.lit 3) (.var "j"))))
    let env : String → Int := fun n => if n = "a" then 1 else if n = "b" then 2 else 1
    (∃ ts, renderAll ts = print (dimIndexExprOld dims args [0, 1]) ∧ Derives 16 ts r) ∧ eval env r = 1 ∧
      linear (dims.map (eval env)) (args.map (eval env)) [0, 1] = 3 := by
  refine ⟨?_, by decide, by decide⟩
  obtain ⟨ts, h1, h2⟩ := grouped_reads
    (.bin "&" (.var "a") (.bin "+" (.var "b") (.paren (.bin "*" (.lit 3) (.var "j"))))) (by decide)
  exact ⟨ts, by rw [h1]; decide, h2⟩

/-- (c) In-range indices give an index inside the array: `0 ≤ linear < D0 * … * Dk`, for every
    permutation order. -/
theorem C19_in_range (D ix : List Int) (ord : List Nat) (hp : ord.Perm (List.range D.length))
    (hr : InRange D ix) : 0 ≤ linear D ix ord ∧ linear D ix ord < prod D := by
  have h := mixed_range _ (digitsOk_order D ix ord hp hr)
  rw [List.map_map] at h
  have e : (Prod.snd ∘ fun o => (ix.getD o 0, D.getD o 0)) = fun o => D.getD o 0 := rfl
  rw [e, prod_order D ord hp] at h
  exact h

example : [2, 0, 1].Perm (List.range [4, 5, 6].length) ∧ InRange [4, 5, 6] [3, 0, 5] ∧ linear [4, 5, 6] [3, 0, 5] [2, 0, 1] = 5 + 6 * (3 + 4 * 0) := by
  decide

/-- (c) Different in-range index tuples get different linear indices. -/
theorem C19_injective (D ix ix' : List Int) (ord : List Nat) (hp : ord.Perm (List.range D.length))
    (hr : InRange D ix) (hr' : InRange D ix') (he : linear D ix ord = linear D ix' ord) : ix = ix' := by
  have hm := mixed_inj _ _ (by simp [List.map_map, Function.comp_def])
    (digitsOk_order D ix ord hp hr) (digitsOk_order D ix' ord hp hr') he
  simp only [List.map_map, Function.comp_def, List.map_inj_left] at hm
  apply List.ext_getElem (by rw [hr.1, hr'.1])
  intro i h1 h2
  have hi : i < D.length := by rw [← hr.1]; exact h1
  have := hm i ((mem_order D ord hp i).mpr hi)
  simp only [List.getD_eq_getElem?_getD, List.getElem?_eq_getElem h1, List.getElem?_eq_getElem h2,
             Option.getD_some] at this
  exact this

/-- (c) Every position of the array is hit: onto `[0, D0 * … * Dk)`. -/
theorem C19_surjective (D : List Int) (ord : List Nat) (hp : ord.Perm (List.range D.length))
    (hpos : ∀ d ∈ D, 0 < d) (v : Int) (h0 : 0 ≤ v) (h1 : v < prod D) :
    ∃ ix, InRange D ix ∧ linear D ix ord = v := by
  have hnd : ord.Nodup := (hp.nodup_iff).mpr List.nodup_range
  have hlen : ord.length = D.length := by rw [hp.length_eq]; simp
  let ds := ord.map fun o => D.getD o 0
  have hds : ∀ d ∈ ds, 0 < d := by
    intro d hd
    obtain ⟨o, ho, rfl⟩ := List.mem_map.mp hd
    have ho' := (mem_order D ord hp o).mp ho
    rw [List.getD_eq_getElem?_getD, List.getElem?_eq_getElem ho']
    exact hpos _ (List.getElem_mem ho')
  have hv : v < prod ds := by rw [prod_order D ord hp]; exact h1
  obtain ⟨ok, val⟩ := mixed_digits ds v hds h0 hv
  let dg := digits ds v
  have hdg : dg.length = ord.length := by simp [dg, digits_length, ds]
  let ix : List Int := (List.range D.length).map fun i => dg.getD (ord.idxOf i) 0
  have hix : ∀ o, o < D.length → ix.getD o 0 = dg.getD (ord.idxOf o) 0 := by
    intro o ho
    simp [ix, List.getD_eq_getElem?_getD, ho]
  -- the digit list in dimension order is exactly (dg zip ds)
  have hzip : (ord.map fun o => (ix.getD o 0, D.getD o 0)) = dg.zip ds := by
    apply List.ext_getElem
    · simp [hdg, ds]
    · intro j g1 g2
      have gj : j < ord.length := by simpa using g1
      simp only [List.getElem_map, List.getElem_zip, ds]
      have ho : ord[j] < D.length := (mem_order D ord hp _).mp (List.getElem_mem gj)
      rw [hix _ ho, hnd.idxOf_getElem j gj, List.getD_eq_getElem?_getD,
          List.getElem?_eq_getElem (by omega : j < dg.length)]
      rfl
  refine ⟨ix, ⟨by simp [ix], ?_⟩, ?_⟩
  · intro i hi
    -- digit i sits at position idxOf i of the in-order list, which is DigitsOk
    have hmem : i ∈ ord := (mem_order D ord hp i).mpr hi
    have hj : ord.idxOf i < ord.length := List.idxOf_lt_length_of_mem hmem
    have hok : DigitsOk (ord.map fun o => (ix.getD o 0, D.getD o 0)) := by rw [hzip]; exact ok
    have : ∀ (l : List (Int × Int)), DigitsOk l → ∀ j (hj : j < l.length), 0 ≤ l[j].1 ∧ l[j].1 < l[j].2 := by
      intro l
      induction l with
      | nil => intro _ j hj; simp at hj
      | cons a t ih =>
        intro h j hj
        obtain ⟨x, d⟩ := a
        obtain ⟨a0, a1, ar⟩ := h
        cases j with
        | zero => exact ⟨a0, a1⟩
        | succ j => exact ih ar j (by simpa using hj)
    have := this _ hok (ord.idxOf i) (by simpa using hj)
    simp only [List.getElem_map, List.getElem_idxOf] at this
    exact this
  · show mixed (ord.map fun o => (ix.getD o 0, D.getD o 0)) = v
    rw [hzip]; exact val

example : ∃ ix, InRange [2, 3, 4] ix ∧ linear [2, 3, 4] ix [2, 0, 1] = 17 := ⟨[0, 2, 1], by decide, by decide⟩

/-- (d) `dimOrder::isValid` (range check + duplicate flags) accepts exactly the non-empty argument lists
    that are a permutation of `0 … k`. -/
theorem C19_order_valid (args : List Int) :
    orderValid args = true ↔
      args ≠ [] ∧ (∀ a ∈ args, 0 ≤ a) ∧ (args.map Int.toNat).Perm (List.range args.length) := by
  unfold orderValid
  simp only [Bool.and_eq_true, Bool.not_eq_true', List.isEmpty_eq_false_iff]
  rw [orderValidGo_iff]
  constructor
  · intro ⟨hne, hr, hnd, _⟩
    refine ⟨hne, fun a ha => (hr a ha).1, ?_⟩
    have := perm_range_of_nodup (args.map Int.toNat) hnd (by
      intro x hx
      obtain ⟨a, ha, rfl⟩ := List.mem_map.mp hx
      have := hr a ha
      simp only [List.length_map]
      omega)
    simpa using this
  · intro ⟨hne, hnn, hp⟩
    refine ⟨hne, ?_, (hp.nodup_iff).mpr List.nodup_range, by simp⟩
    intro a ha
    have : a.toNat ∈ List.range args.length := hp.subset (List.mem_map.mpr ⟨a, ha, rfl⟩)
    have := List.mem_range.mp this
    have := hnn a ha
    omega

example : orderValid [2, 0, 1] = true ∧ orderValid [0, 0] = false ∧ orderValid [0, 2] = false ∧ orderValid [-1, 0] = false := by
  decide

end Occa.Dim.C19
