/-
C05 — Device memory accounting returns to zero and tracks live allocations.

Model: OccaModel/Pool.lean (`State`: the device counters `Dev` with a ghost trace of every value
`bytesAllocated` takes, the live device buffers `bufs` with their `counted = !isWrapped` flag, the
memory objects `mems` over them, up to two pools), instantiated with the statement variants of the
current source (`Gen.poolCfg`).
Clauses:
  memoryAllocated() = bytes of live malloc/clone allocations + bytes of live pool buffers,
     wrapped memory counting nothing                                   C05_allocated_is_sum
  the buffers in that sum are exactly the live ones                    C05_buffers_are_live
  maxMemoryAllocated() = largest value memoryAllocated() has taken     C05_max_is_running_max
  everything released => memoryAllocated() = 0                         C05_zero_when_released,
                                                                       C05_freeall_returns_to_zero
Histories: arbitrary `ops : List Op` — malloc, malloc with source, use_host_pointer with/without
own_host_pointer, wrapMemory, clone, slices, releases, pools created, grown, shrunk, re-aligned, freed.
-/
import OccaProofs.Lemmas.PoolKeep
import OccaGen.PoolConsts

namespace Occa.Pool.C05
open Occa Occa.Pool

/-- tie: the source currently contains every repaired statement the proofs rely on -/
theorem C05_source_is_repaired : Gen.poolCfg.Fixed := by decide

/-- memoryAllocated() is the sum of the sizes of the live non-wrapped buffers and of the live
    pools' backing buffers, after every operation of every history -/
theorem C05_allocated_is_sum (ops : List Op) :
    (run Gen.poolCfg ops).dev.alloc =
      countedBytes (run Gen.poolCfg ops).bufs + poolSize ((run Gen.poolCfg ops).pool 0) +
        poolSize ((run Gen.poolCfg ops).pool 1) :=
  (run_inv C05_source_is_repaired ops).account

/-- wrapped memory counts nothing, a counted buffer counts its size -/
example (d : List Byte) : countedBytes [⟨0, 40, true, d⟩, ⟨1, 16, false, d⟩] = 40 := rfl

example : ∃ ops, (run Gen.poolCfg ops).dev.alloc = 4 + 128 ∧ (run Gen.poolCfg ops).dev.maxAlloc = 4 + 128 + 256 :=
  ⟨[.mallochost 0 4 false 7, .wrap 1 4 9, .pool 0, .reserve 0 2 100, .reserve 0 3 100, .release 2, .release 3,
    .resize 0 100], by decide, by decide⟩

/-- the buffers that enter the sum are exactly the allocations some live memory object refers to
    (a buffer disappears, and is subtracted, when its last memory object is released) -/
theorem C05_buffers_are_live (ops : List Op) :
    (∀ b ∈ (run Gen.poolCfg ops).bufs, ∃ m ∈ (run Gen.poolCfg ops).mems, m.buf = b.id) ∧
    ((run Gen.poolCfg ops).bufs.map (·.id)).Nodup :=
  ⟨(run_inv C05_source_is_repaired ops).bufLive, (run_inv C05_source_is_repaired ops).bufIds⟩

/-- maxMemoryAllocated() is the maximum of all values bytesAllocated has taken (the ghost trace
    gets a new entry at every `+=` and `-=` of the counter, including the moment at which a pool
    holds its old and its new buffer), and the trace ends with the current value -/
theorem C05_max_is_running_max (ops : List Op) :
    (run Gen.poolCfg ops).dev.maxAlloc = maxOf (run Gen.poolCfg ops).dev.trace ∧
    (run Gen.poolCfg ops).dev.alloc = (run Gen.poolCfg ops).dev.trace.headD 0 ∧
    (run Gen.poolCfg ops).dev.alloc ≤ (run Gen.poolCfg ops).dev.maxAlloc :=
  ⟨(run_inv C05_source_is_repaired ops).dev.max_eq, (run_inv C05_source_is_repaired ops).dev.cur,
   (run_inv C05_source_is_repaired ops).dev.le⟩

/-- the trace really is the history of the counter: `+=` and `-=` extend it by the new value -/
theorem C05_trace_records (d : Dev) (n : Nat) :
    (d.add n).trace = (d.add n).alloc :: d.trace ∧ (d.sub n).trace = (d.sub n).alloc :: d.trace := ⟨rfl, rfl⟩

/-- once every memory object and pool is released, memoryAllocated() is 0 -/
theorem C05_zero_when_released (ops : List Op) (hm : (run Gen.poolCfg ops).mems = [])
    (h0 : (run Gen.poolCfg ops).pool 0 = none) (h1 : (run Gen.poolCfg ops).pool 1 = none) :
    (run Gen.poolCfg ops).dev.alloc = 0 :=
  alloc_zero_of_released (run_inv C05_source_is_repaired ops) hm h0 h1

/-- and that situation is reached by actually releasing everything: after `freeall` (every memory
    object released one by one, then both pools freed) nothing is live and memoryAllocated() is 0,
    whatever the history before -/
theorem C05_freeall_returns_to_zero (ops : List Op) :
    (step Gen.poolCfg (run Gen.poolCfg ops) .freeall).1.mems = [] ∧
    (step Gen.poolCfg (run Gen.poolCfg ops) .freeall).1.pool 0 = none ∧
    (step Gen.poolCfg (run Gen.poolCfg ops) .freeall).1.pool 1 = none ∧
    (step Gen.poolCfg (run Gen.poolCfg ops) .freeall).1.dev.alloc = 0 :=
  step_freeall C05_source_is_repaired (run_inv C05_source_is_repaired ops)

/-- a slot names one memory object: device memories have distinct slots, none of which is the slot
    of a pool reservation (so `release k` releases exactly one object) -/
theorem C05_slot_names_one_object (ops : List Op) :
    ((run Gen.poolCfg ops).mems.map (·.slot)).Nodup ∧
    ∀ m ∈ (run Gen.poolCfg ops).mems, ∀ i p, (run Gen.poolCfg ops).pool i = some p → findSlot m.slot p.resv = none :=
  ⟨(run_inv C05_source_is_repaired ops).memSlots, (run_inv C05_source_is_repaired ops).cross⟩

example : ∃ ops, (run Gen.poolCfg ops).mems = [] ∧ (run Gen.poolCfg ops).pool 0 = none ∧
    (run Gen.poolCfg ops).dev.maxAlloc = 18 :=
  ⟨[.mallochost 0 4 true 7, .pool 0, .align 0 4, .reserve 0 1 6, .clone 2 1, .freeall], by decide, by decide, by decide⟩

/-! ### why the F08 repair is needed -/

def cfgNoF08 : Cfg := { Gen.poolCfg with hostPtrCounted := false }

/-- F08 as a model trace: malloc(40, ptr, use_host_pointer), release: the counter stays at 40 -/
theorem C05_zero_fails_without_F08 :
    ¬ ∀ (ops : List Op), (run cfgNoF08 ops).mems = [] → (run cfgNoF08 ops).pool 0 = none →
      (run cfgNoF08 ops).pool 1 = none → (run cfgNoF08 ops).dev.alloc = 0 := by
  intro h
  have := h [.mallochost 0 40 false 7, .release 0] rfl rfl rfl
  exact absurd this (by decide)

end Occa.Pool.C05
