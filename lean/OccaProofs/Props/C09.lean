/-
C09 — Concurrent builds of the same kernel all succeed and agree.

Model: OccaModel/BuildFS.lean.  Events carry the id of the process that performs them; a trace of several
processes is any interleaving of their steps.  The discipline `accepts` is about the WHOLE interleaved
trace: it records the owner of every temp name, rejects the re-use of a temp name by anybody and every
access to another process's temp name ("temp names of different processes are distinct").
  every intermediate state of every interleaving is Good; every read of a final name sees a
  complete file                                                         C09_interleaving_good
  the same from per-process acceptance: any interleaving of traces that are
  accepted process by process, with pairwise distinct created names     C09_interleaving_of_accepted
  nothing a process published is taken away again (no rmrf)             C09_published_stays
  a later build re-uses the cache without recompiling                   C09_reuse_without_recompile
  whatever the other processes do in between, a build returns normally
  with its binary in place (no process fails because of another one's
  in-progress build)                                                    C09_build_succeeds_under_interference
  ALL of it for the modelled build program itself: any number of processes
  running `buildProg`, any schedule                                      C09_all_schedules, C09_reuse_after_schedule
The `rmrf`-on-failure path (device::buildKernel removes the hash directory when the mode returns a null
kernel, i.e. when the OKL source does not parse and `silent` is set) is part of the model and is excluded
by the explicit hypotheses `noRmrf t` / `c.parseOk = true`: a failing build running concurrently with a
succeeding one of the same key can delete the other's files; with a deterministic parser both fail alike.
-/
import OccaProofs.Lemmas.BuildFSSched
import OccaProofs.Lemmas.BuildFSExamples

namespace Occa.BuildFS.C09
open Occa Occa.BuildFS Occa.BuildFS.Examples

/-- Any number of processes, any interleaving `t` of their steps that obeys the discipline: after every
    prefix all final-named files are complete and correct, and every step that opens a final name sees
    nothing or a complete correct file. -/
theorem C09_interleaving_good (S : Spec) (hS : S.Coherent) (fs0 : FS) (t : Trace)
    (hG : Good S fs0) (ha : accepts S t = true) (hf : FreshOuts fs0 t) :
    (∀ t1 t2, t = t1 ++ t2 → Good S (apply S t1 fs0)) ∧
    (∀ t1 t2 e p, t = t1 ++ e :: t2 → e.op = .openRead p → p.tmp = none →
      ∀ f, (apply S t1 fs0).files p = some f → f.closed = true ∧ S.valid p f.bytes = true) := by
  have h1 : ∀ t1 t2, t = t1 ++ t2 → Good S (apply S t1 fs0) := by
    intro t1 t2 ht
    subst ht
    unfold accepts at ha
    rw [acceptsFrom_append] at ha
    cases h1 : acceptsFrom S AS.empty t1 with
    | none => rw [h1] at ha; cases ha
    | some st1 =>
      exact (trace_preserves hS fs0 t1 fs0 AS.empty st1 (Inv_empty S fs0) hG h1
        (fun e he => hf e (List.mem_append_left _ he))).2
  exact ⟨h1, fun t1 t2 e p ht _ hp f hfp => h1 t1 (e :: t2) ht p f hp hfp⟩

/-- The statement in per-process form: `t` is ANY interleaving of per-process traces (`t.filter pid = i`), each
    of which obeys the discipline on its own, and the names created by different processes are pairwise
    distinct.  Then the interleaved trace obeys the global discipline and every intermediate state is Good. -/
theorem C09_interleaving_of_accepted (S : Spec) (hS : S.Coherent) (fs0 : FS) (t : Trace) (hG : Good S fs0)
    (hloc : ∀ i, accepts S (t.filter (fun x => x.pid == i)) = true)
    (hdis : CreatedDisjoint AS.empty t) (hf : FreshOuts fs0 t) :
    accepts S t = true ∧ ∀ t1 t2, t = t1 ++ t2 → Good S (apply S t1 fs0) := by
  have ha : accepts S t = true :=
    accepts_interleave t AS.empty (fun i => by rw [proj_empty]; exact hloc i) hdis
  exact ⟨ha, (C09_interleaving_good S hS fs0 t hG ha hf).1⟩

/-- Without the rmrf-on-failure path nothing that has been published disappears again: a final-named file
    present at some point of an accepted interleaving is present ever after. -/
theorem C09_published_stays (S : Spec) : ∀ (t : Trace) (st st' : AS) (fs : FS),
    acceptsFrom S st t = some st' → noRmrf t = true → ∀ p, p.tmp = none → fs.present p = true →
    (apply S t fs).present p = true := by
  intro t
  induction t with
  | nil => intro st st' fs _ _ p _ h; exact h
  | cons e t ih =>
    intro st st' fs ha hn p hp h
    simp only [acceptsFrom] at ha
    cases hstep : acceptStep S st e with
    | none => rw [hstep] at ha; cases ha
    | some st1 =>
      rw [hstep] at ha
      simp only [noRmrf, List.all_cons, Bool.and_eq_true] at hn
      rw [apply_cons]
      exact ih st1 st' _ ha (by simpa [noRmrf] using hn.2) p hp (step_keeps_finals S st st1 e fs hstep hn.1 p hp h)

/-- A follow-up build on a cache that holds the artefacts (`needed c`: the kernel binary, and for OpenMP the
    results of the two compiler probes) returns the kernel without starting a compiler — alone or with other
    builds going on. -/
theorem C09_reuse_without_recompile (S : Spec) (c : Config) (pid : Nat) (fs : FS)
    (hp : ∀ q ∈ needed c, fs.present q = true) :
    (run S pid (buildProg c) fs).1 = some true ∧ noExec (buildSteps S pid c fs) = true := by
  obtain ⟨a, fs', t, es', h1, ha, hE⟩ :=
    triple_buildProg_warm (S := S) (pid := pid) (c := c) (E := fun o => isExec o = false) (fun _ h => h)
      [] fs (EnvOK.nil S c _ fs) hp
  have hrun : run S pid (buildProg c) fs = (some a, fs', t) := by rw [run_eq_runE, h1]
  unfold buildSteps
  rw [hrun]
  refine ⟨by rw [ha], ?_⟩
  simp only [noExec, List.all_eq_true]
  intro e he
  simp [hE e he]

/-- No process fails because of another process's in-progress build: whatever the other processes do between
    the steps of this build — as long as they never remove a final-named file and never touch this
    process's temp names (`Rely`, checked along the run by `EnvOK`; both follow from the discipline without
    rmrf) — the build returns normally, with every artefact a later build needs in place. -/
theorem C09_build_succeeds_under_interference (S : Spec) (c : Config) (hinj : ∀ i j, c.toks i = c.toks j → i = j)
    (hpo : c.parseOk = true) (pid : Nat) (es : List (FS → FS)) (fs : FS) (hes : EnvOK S c (buildProg c) es fs) :
    ∃ fs' t es', runE S pid (buildProg c) es fs = (some true, fs', t, es') ∧ ∀ q ∈ needed c, fs'.present q = true := by
  obtain ⟨a, fs', t, es', h1, ⟨ha, hb⟩, _⟩ :=
    triple_buildProg (S := S) (pid := pid) (c := c) (E := fun _ => True) (fun _ _ => trivial) hinj
      (fun _ _ => trivial) hpo es fs hes (fun _ h => by cases h)
  subst ha
  exact ⟨fs', t, es', h1, hb⟩

/-- The whole property for the modelled build: any number of processes (process `i` builds configuration
    `cfgs i`; the same kernel or different ones, Serial or OpenMP, from a string or a file), pairwise distinct
    temp tokens, any schedule `sch` (= any interleaving, cut anywhere).  Then
    (1) the interleaved trace obeys the discipline, (2) after every prefix — so at every instant — all
    final-named files are complete and correct, (3) no process has raised an exception, (4) every process that
    has finished got its kernel, and everything a later build needs is in the cache. -/
theorem C09_all_schedules (S : Spec) (hS : S.Coherent) (cfgs : Nat → Config)
    (hc : ∀ i, CfgOK S (cfgs i)) (hpo : ∀ i, (cfgs i).parseOk = true)
    (hd : ∀ i j, i ≠ j → ∀ x, IsTok (cfgs i) x → ¬ IsTok (cfgs j) x)
    (fs0 : FS) (hG : Good S fs0) (hfresh : ∀ i, TokFresh (cfgs i) fs0) (sch : List Nat) :
    accepts S (runSched S sch (fun i => buildProg (cfgs i)) fs0).2.2 = true ∧
    (∀ t1 t2, (runSched S sch (fun i => buildProg (cfgs i)) fs0).2.2 = t1 ++ t2 → Good S (apply S t1 fs0)) ∧
    (∀ i, (runSched S sch (fun i => buildProg (cfgs i)) fs0).1 i ≠ .fail) ∧
    (∀ i b, (runSched S sch (fun i => buildProg (cfgs i)) fs0).1 i = .ret b →
      b = true ∧ ∀ q ∈ needed (cfgs i), (runSched S sch (fun i => buildProg (cfgs i)) fs0).2.1.present q = true) := by
  have hacc0 : AccInv S cfgs (fun i => buildProg (cfgs i)) AS.empty :=
    ⟨fun i => by rw [proj_empty]; exact safe_buildProg (hc i), fun q j ts h => by simp [AS.empty] at h⟩
  obtain ⟨st', ha, _, htr⟩ := runSched_accepts hpo hd sch _ fs0 AS.empty hacc0
  have hsys0 : SysInv S cfgs (fun i => buildProg (cfgs i)) fs0 :=
    ⟨fun i => succ_of_triple (triple_buildProg (E := fun _ => True) (fun _ _ => trivial) (hc i).toks_inj (fun _ _ => trivial) (hpo i))
        (fun _ h => by cases h),
     fun i => safe_guar _ _ _ (safe_buildProg (pid := i) (hc i))⟩
  have hsys := runSched_inv hpo hd sch _ fs0 hsys0
  have haccepts : accepts S (runSched S sch (fun i => buildProg (cfgs i)) fs0).2.2 = true := by
    unfold accepts; rw [ha]; rfl
  have hfo : FreshOuts fs0 (runSched S sch (fun i => buildProg (cfgs i)) fs0).2.2 :=
    fun e he x hx => hfresh e.pid x ((htr e he).2 x hx)
  refine ⟨haccepts, (C09_interleaving_good S hS fs0 _ hG haccepts hfo).1, ?_, ?_⟩
  · intro i hfail
    have := hsys.succ i
    rw [hfail] at this
    exact succ_fail this
  · intro i b hb
    have := hsys.succ i
    rw [hb] at this
    exact succ_ret this

/-- ... and the cache is left in a state that later builds reuse without recompiling: once process `i` has
    finished, a follow-up build of its configuration — by any process, at any later point of any schedule —
    returns the kernel without starting a compiler. -/
theorem C09_reuse_after_schedule (S : Spec) (hS : S.Coherent) (cfgs : Nat → Config)
    (hc : ∀ i, CfgOK S (cfgs i)) (hpo : ∀ i, (cfgs i).parseOk = true)
    (hd : ∀ i j, i ≠ j → ∀ x, IsTok (cfgs i) x → ¬ IsTok (cfgs j) x)
    (fs0 : FS) (hG : Good S fs0) (hfresh : ∀ i, TokFresh (cfgs i) fs0) (sch : List Nat) (i : Nat) (b : Bool)
    (hfin : (runSched S sch (fun i => buildProg (cfgs i)) fs0).1 i = .ret b) (pid : Nat) :
    (run S pid (buildProg (cfgs i)) (runSched S sch (fun i => buildProg (cfgs i)) fs0).2.1).1 = some true ∧
    noExec (buildSteps S pid (cfgs i) (runSched S sch (fun i => buildProg (cfgs i)) fs0).2.1) = true :=
  C09_reuse_without_recompile S (cfgs i) pid _
    ((C09_all_schedules S hS cfgs hc hpo hd fs0 hG hfresh sch).2.2.2 i b hfin).2

/-! ### the hypotheses are satisfiable by a non-trivial value -/

example : accepts exSpec9 exTrace = true := by decide
example : noRmrf exTrace = true := by decide
example : accepts exSpec9 (exTrace.filter (fun x => x.pid == 1)) = true := by decide
example : accepts exSpec9 (exTrace.filter (fun x => x.pid == 2)) = true := by decide
/-- the same steps with process 2 writing straight to the final name are rejected -/
example : accepts exSpec9 [⟨1, .creat ta, true⟩, ⟨2, .creat fin, true⟩] = false := by decide
/-- and so is touching the other process's temp name -/
example : accepts exSpec9 [⟨1, .creat ta, true⟩, ⟨2, .append ta [1], true⟩] = false := by decide

/-! any number of processes building the same OpenMP kernel from a string, any schedule -/

example (sch : List Nat) :
    accepts spec2 (runSched spec2 sch (fun i => buildProg (cfgsEx i)) FS.empty).2.2 = true ∧
    (∀ i, (runSched spec2 sch (fun i => buildProg (cfgsEx i)) FS.empty).1 i ≠ .fail) := by
  have h := C09_all_schedules spec2 spec2_coherent cfgsEx cfgsEx_ok (fun _ => rfl) cfgsEx_disj FS.empty
    (fun p f _ h => by simp [FS.empty] at h) (fun _ _ _ => rfl) sch
  exact ⟨h.1, h.2.2.1⟩
end Occa.BuildFS.C09
