/-
C02 — Device memory behaves like an aliased byte array; misuse raises errors.

Model: OccaModel/Mem.lean (the host backends' occa::memory / modeMemory_t / serial::buffer, repaired
code: fixes F03, F04, F35, F36, F37).  Lemmas: OccaProofs/Lemmas/Mem.lean, MemReject.lean.

Tie (T): C02_guards_as_modelled — the regenerated guard table of the C++ equals the transcribed one.

Statement of the property, clause by clause:
  (a) every read returns what a byte-array model predicts            C02_views_in_bounds, C02_handle_in_bounds,
      (reads/writes go to exactly the addressed bytes of the buffer)  C02_write_read, C02_copyTo_reads, C02_copy_moves_bytes,
                                                                      C02_writes_confined
  (b) slices and casts share their parent's bytes                     C02_slice_within_parent, C02_slice_alias, C02_cast_alias,
                                                                      C02_slice_write_parent_read, C02_parent_write_slice_read,
                                                                      C02_alias_persistent, C02_wrap_shares_host
  (c) clones do not                                                   C02_clone_fresh, C02_clone_isolated, C02_malloc_fresh
  (d) out-of-range / negative / uninitialised requests raise          C02_rejects_exactly_partial (full statement:
                                                                      C02_rejects_exactly_full, refuted by F05)
  (e) ... without modifying any memory                                C02_err_frame
  (f) ... and without crashing                                        C02_no_trap
-/
import OccaProofs.Lemmas.Mem
import OccaProofs.Lemmas.MemReject
import OccaProofs.Lemmas.MemAlias
import OccaProofs.Lemmas.MemGuards
import OccaProofs.Lemmas.MemConfined

namespace Occa.Mem.C02
open Occa.Mem

/-! ### tie: the model's guards are the guards of the current source -/

/-- The guard events (early returns, initialisation asserts, byte/offset computations, OCCA_ERROR
    conditions, memcpy/memmove) of every memory function, regenerated from /repo's current sources,
    are exactly — and in exactly the order — those the model was transcribed from; the OpenMP
    device still inherits the serial memory code. -/
theorem C02_guards_as_modelled :
    Occa.Gen.memGuards = guardsModelled ∧ Occa.Gen.ompUsesSerialMemory = true := by decide

/-! ### (a) every view stays inside its buffer, over all histories -/

/-- Invariant over all histories: every `modeMemory_t` lies inside its buffer, every handle points
    to an existing `modeMemory_t`, the wrapped host arrays keep their length. -/
theorem C02_views_in_bounds (ops : List Op) : Inv (run init ops) := run_inv init_inv ops

/-- The same, read at a handle: whatever an initialised handle addresses is inside its buffer. -/
theorem C02_handle_in_bounds (ops : List Op) (x : Nat) (p : View) (h : view? (run init ops) x = some p) :
    ∃ b, (run init ops).bufs[p.buf]? = some b ∧ p.off + p.size ≤ b.length :=
  (C02_views_in_bounds ops).viewOk h

example : view? (run init [.malloc 0 4 4 none, .slice 1 0 1 2]) 1 = some ⟨2, 4, 8, 4⟩ := by decide

/-! ### (e) a request that raises (or would trap) modifies nothing -/

/-- Error results leave the whole state (all buffers, all views, all handles) unchanged. -/
theorem C02_err_frame (s : State) (op : Op) (e : Err) (h : (step s op).2 = .err e) : (step s op).1 = s :=
  step_frame (fun o ho => by rw [h] at ho; cases ho)

example : (step (run init [.malloc 0 4 4 none]) (.slice 1 0 3 2)).2 = .err .range := by decide

/-! ### (f) no history crashes -/

/-- No operation of any history traps, provided the caller's raw host pointers address arrays as
    long as the (in-range part of the) request — the only thing the API cannot check. -/
theorem C02_no_trap (ops : List Op) (hc : ContractAll init ops) : Res.trap ∉ results init ops :=
  results_noTrap init_inv hc

/-- One step, from any state satisfying the invariant. -/
theorem C02_no_trap_step (s : State) (h : Inv s) (op : Op) (hc : Contract s op) : (step s op).2 ≠ .trap :=
  step_noTrap h hc

example : ContractAll init [.malloc 0 4 4 none, .copyFromMem 0 1 1 0 0, .copyToMem 0 1 1 0 0, .slice 2 0 (-1) 1] :=
  ⟨trivial, trivial, trivial, trivial, trivial⟩

/-! ### (a) reads and writes address exactly the requested bytes of the buffer -/

/-- A successful `copyFrom(host pointer, count, offset)` through an initialised handle overwrites
    exactly the bytes `[offset, offset+count)` (in elements of the handle's dtype) of the handle's
    range with the host data; as seen through ANY view `q` (the handle itself, a parent, a slice,
    a cast, an unrelated memory) every other byte is unchanged. -/
theorem C02_write_read {s s' : State} (h : Inv s) {v : Nat} {p : View} {data : List UInt8} {cnt off : Int}
    {o : Option (List Byte)} (hp : view? s v = some p) (hs : step s (.copyFromHost v data cnt off) = (s', .ok o)) :
    ((p.esz : Int) * off).toNat + (countBytes p cnt).toNat ≤ p.size ∧
    ∀ (q : View) (j : Nat), byteAt s' q j =
      if q.buf = p.buf ∧ p.off + ((p.esz : Int) * off).toNat ≤ q.off + j ∧
          q.off + j < p.off + ((p.esz : Int) * off).toNat + (countBytes p cnt).toNat
      then (data[q.off + j - (p.off + ((p.esz : Int) * off).toNat)]?).map some else byteAt s q j :=
  let r := copyFromHost_spec h hp hs
  ⟨r.2.2.1, r.2.2.2.2.2.2⟩

example : (step (run init [.malloc 0 4 1 none, .slice 1 0 1 2]) (.copyFromHost 1 [7, 8] 2 0)).2 = .ok none := by decide

/-- A successful `copyTo(host pointer, count, offset)` changes nothing and returns exactly the
    bytes `[offset, offset+count)` of the handle's range. -/
theorem C02_copyTo_reads {s s' : State} (h : Inv s) {v cap : Nat} {p : View} {cnt off : Int}
    {o : Option (List Byte)} (hp : view? s v = some p) (hs : step s (.copyToHost v cap cnt off) = (s', .ok o)) :
    s' = s ∧ ∃ out, o = some out ∧ out.length = (countBytes p cnt).toNat ∧
      ((p.esz : Int) * off).toNat + out.length ≤ p.size ∧
      ∀ k, k < out.length → out[k]? = byteAt s p (((p.esz : Int) * off).toNat + k) := by
  obtain ⟨h1, _, _, h4, out, h5, h6, h7⟩ := copyToHost_spec h hp hs
  exact ⟨h1, out, h5, h6, by omega, fun k hk => h7 k (by omega)⟩

example : (step (run init [.malloc 0 2 1 (some [5, 6]), .slice 1 0 1 1]) (.copyToHost 1 1 1 0)).2 = .ok (some [some 6]) := by
  decide

/-- A successful device-to-device `d.copyFrom(src, count, destOffset, srcOffset)` moves the bytes the
    source range held before the call into the destination range (also when the two ranges overlap
    inside one buffer) and changes no other byte of any view. -/
theorem C02_copy_moves_bytes {s : State} (h : Inv s) {d src : Nat} {cnt doff soff : Int} {dv sv : View}
    {o : Option (List Byte)} (hd : view? s d = some dv) (hsv : view? s src = some sv)
    (hok : (step s (.copyFromMem d src cnt doff soff)).2 = .ok o) :
    ((sv.esz : Int) * soff).toNat + (countBytes dv cnt).toNat ≤ sv.size ∧
    ((dv.esz : Int) * doff).toNat + (countBytes dv cnt).toNat ≤ dv.size ∧
    ∀ (q : View) (j : Nat), byteAt (step s (.copyFromMem d src cnt doff soff)).1 q j =
      if q.buf = dv.buf ∧ dv.off + ((dv.esz : Int) * doff).toNat ≤ q.off + j ∧
          q.off + j < dv.off + ((dv.esz : Int) * doff).toNat + (countBytes dv cnt).toNat
      then byteAt s sv (((sv.esz : Int) * soff).toNat + (q.off + j - (dv.off + ((dv.esz : Int) * doff).toNat)))
      else byteAt s q j := by
  simp only [step, doCopyFromMem, hd, hsv] at hok ⊢
  cases hcg : copyGuards dv dv sv cnt doff soff with
  | error e => rw [hcg] at hok; cases hok
  | ok t =>
    obtain ⟨bytes, dOff, sOff⟩ := t
    simp only []
    obtain ⟨e1, e2, e3, g1, g2⟩ := copyGuards_ok hcg
    have b1 : bytes = (countBytes dv cnt).toNat := by omega
    have b2 : dOff = ((dv.esz : Int) * doff).toNat := by omega
    have b3 : sOff = ((sv.esz : Int) * soff).toNat := by omega
    subst b1 b2 b3
    exact ⟨g1, g2, fun q j => copyBytes_spec (h.viewOk hd) (h.viewOk hsv) g1 g2 q j⟩

example : results init [.malloc 0 4 1 (some [1, 2, 3, 4]), .copyFromMem 0 0 3 1 0, .copyToHost 0 4 (-1) 0] =
    [.ok none, .ok none, .ok (some [some 1, some 1, some 2, some 3])] := by decide

/-- Memory safety of the model, for EVERY operation: a byte of an existing buffer that lies outside
    the range of the handle written through (`Dest`: the receiver of `copyFrom`, the destination of a
    device-to-device copy; no handle at all for every other operation) keeps its value.  So neither a
    copy nor slice / cast / clone / malloc / free / setDtype can modify memory it was not pointed at. -/
theorem C02_writes_confined {s : State} (h : Inv s) (op : Op) (hop : ∀ hb off data, op ≠ .hostWrite hb off data)
    (q : View) (j : Nat) (hq : q.buf < s.bufs.length)
    (hout : ∀ p, Dest s op = some p → q.buf ≠ p.buf ∨ q.off + j < p.off ∨ p.off + p.size ≤ q.off + j) :
    byteAt (step s op).1 q j = byteAt s q j :=
  step_writes_confined h op hop q j hq hout

example : Dest (run init [.malloc 0 4 1 none, .malloc 1 4 1 none]) (.copyFromMem 1 0 4 0 0) = some ⟨3, 0, 4, 1⟩ := by decide

/-! ### (b) slices, offsets and casts share their parent's bytes -/

/-- A successful `d = src.slice(off, cnt)` (or `src + off`, `cnt = -1`) yields a view of the same
    buffer, `off` whole elements into the parent, and INSIDE the handle it was taken from — never
    before its start (F04), never past its end. -/
theorem C02_slice_within_parent {s : State} {d src : Nat} {off cnt : Int} {p : View} {o : Option (List Byte)}
    (hp : view? s src = some p) (hok : (step s (.slice d src off cnt)).2 = .ok o) :
    ∃ c, view? (step s (.slice d src off cnt)).1 d = some c ∧ c.buf = p.buf ∧ c.esz = p.esz ∧ 0 ≤ off ∧
      (c.off : Int) = p.off + (p.esz : Int) * off ∧ p.off ≤ c.off ∧ c.off + c.size ≤ p.off + p.size ∧
      (c.size : Int) = (p.esz : Int) * (if cnt = -1 then p.len - off else cnt) := by
  simp only [step, doSlice, sliceExpr, hp] at hok ⊢
  cases hsv : sliceView p off cnt with
  | error e => rw [hsv] at hok; cases hok
  | ok c =>
    simp only [assignTo]
    obtain ⟨h1, h2, h3, h4, h5, h6⟩ := sliceView_ok hsv
    have : 0 ≤ (p.esz : Int) * off := Int.mul_nonneg (Int.natCast_nonneg _) h3
    exact ⟨c, view?_pushMem_new, h1, h2, h3, h4, by omega, h5, h6⟩

/-- ... and therefore reads the parent's bytes: in EVERY state, byte `j` of the slice is byte
    `esz*off + j` of the parent (a write through one is read through the other, both ways). -/
theorem C02_slice_alias {s : State} {d src : Nat} {off cnt : Int} {p : View} {o : Option (List Byte)}
    (hp : view? s src = some p) (hok : (step s (.slice d src off cnt)).2 = .ok o) :
    ∃ c, view? (step s (.slice d src off cnt)).1 d = some c ∧
      ∀ (t : State) (j : Nat), byteAt t c j = byteAt t p (((p.esz : Int) * off).toNat + j) := by
  obtain ⟨c, hc, hb, _, h0, ho, _, _, _⟩ := C02_slice_within_parent hp hok
  have : 0 ≤ (p.esz : Int) * off := Int.mul_nonneg (Int.natCast_nonneg _) h0
  exact ⟨c, hc, fun t j => byteAt_alias t hb (by omega) j⟩

example : view? (step (run init [.malloc 0 8 2 none, .slice 1 0 2 5]) (.slice 2 1 1 (-1))).1 2 = some ⟨2, 6, 8, 2⟩ := by
  decide

/-- End to end: take a slice `d = src.slice(off, cnt)`, write `k` elements at element `i` through the
    slice, then read `k` elements at element `off + i` through the PARENT: the read succeeds and
    returns exactly the bytes written. -/
theorem C02_slice_write_parent_read {s s1 s2 : State} (h : Inv s) {d src cap : Nat} {off cnt k i : Int} {p : View}
    {data : List UInt8} {o1 o2 : Option (List Byte)}
    (hp : view? s src = some p) (hne : src ≠ d) (hk : k ≠ -1)
    (h1 : step s (.slice d src off cnt) = (s1, .ok o1))
    (h2 : step s1 (.copyFromHost d data k i) = (s2, .ok o2))
    (hcap : ((p.esz : Int) * k).toNat ≤ cap) :
    step s2 (.copyToHost src cap k (off + i)) =
      (s2, .ok (some ((data.take ((p.esz : Int) * k).toNat).map some))) := by
  have hok1 : (step s (.slice d src off cnt)).2 = .ok o1 := by rw [h1]
  obtain ⟨c, hc, hb, he, h0, ho, hle, hin, _⟩ := C02_slice_within_parent hp hok1
  have hs1 : (step s (.slice d src off cnt)).1 = s1 := by rw [h1]
  rw [hs1] at hc
  have hi1 : Inv s1 := by rw [← hs1]; exact step_inv h _
  -- the parent handle is untouched by the assignment to d
  have hp1 : view? s1 src = some p := by
    rw [← hs1]
    simp only [step, doSlice, sliceExpr, hp]
    cases hsv : sliceView p off cnt with
    | error e => simp only [step, doSlice, sliceExpr, hp, hsv, assignTo] at hok1; cases hok1
    | ok v => simp only [assignTo]; rw [view?_pushMem_old h hne]; exact hp
  obtain ⟨w0, w1, w2, w3, wm, wv, wspec⟩ := copyFromHost_spec hi1 hc h2
  have hi2 : Inv s2 := by
    have := step_inv hi1 (.copyFromHost d data k i); rw [h2] at this; exact this
  have hp2 : view? s2 src = some p := by rw [view_of_same wm wv]; exact hp1
  have hcb : countBytes c k = (p.esz : Int) * k := by unfold countBytes; rw [if_neg hk, he]
  have hcbp : countBytes p k = (p.esz : Int) * k := by unfold countBytes; rw [if_neg hk]
  rw [he] at w1 w2
  rw [hcb] at w0 w2 w3 wspec
  -- run the read
  obtain ⟨b2, hb2, hb2l⟩ := hi2.viewOk hp2
  have hoff : (p.esz : Int) * (off + i) = (p.esz : Int) * off + (p.esz : Int) * i := Int.mul_add _ _ _
  have hoff0 : 0 ≤ (p.esz : Int) * off := Int.mul_nonneg (Int.natCast_nonneg _) h0
  simp only [step, doCopyToHost, hp2, hcbp]
  rw [if_neg (by omega), if_neg (by omega)]
  have hu : udimLe ((p.esz : Int) * k + (p.esz : Int) * (off + i)) p.size = true := by
    simp only [udimLe, Bool.and_eq_true, decide_eq_true_eq]; omega
  rw [if_neg (by simp [hu]), if_neg (by omega), hb2]
  simp only [Prod.mk.injEq, Res.ok.injEq, Option.some.injEq, true_and]
  -- compare byte by byte
  apply List.ext_getElem?
  intro n
  by_cases hn : n < ((p.esz : Int) * k).toNat
  · rw [getElem?_readAt hn]
    have := wspec p (((p.esz : Int) * (off + i)).toNat + n)
    unfold byteAt at this
    rw [hb2] at this
    simp only [Option.bind_some] at this
    have hcond : p.buf = c.buf ∧ c.off + ((p.esz : Int) * i).toNat ≤ p.off + (((p.esz : Int) * (off + i)).toNat + n) ∧
        p.off + (((p.esz : Int) * (off + i)).toNat + n) < c.off + ((p.esz : Int) * i).toNat + ((p.esz : Int) * k).toNat :=
      ⟨hb.symm, by omega, by omega⟩
    rw [he] at this
    rw [if_pos hcond] at this
    have hidx : p.off + (((p.esz : Int) * (off + i)).toNat + n) - (c.off + ((p.esz : Int) * i).toNat) = n := by omega
    rw [hidx] at this
    have e1 : p.off + ((p.esz : Int) * (off + i)).toNat + n = p.off + (((p.esz : Int) * (off + i)).toNat + n) := by omega
    rw [e1, this]
    simp only [List.getElem?_map, List.getElem?_take, hn, if_true]
  · have l1 : (readAt b2 (p.off + ((p.esz : Int) * (off + i)).toNat) ((p.esz : Int) * k).toNat).length = ((p.esz : Int) * k).toNat :=
      readAt_length (by omega)
    have l2 : ((data.take ((p.esz : Int) * k).toNat).map some).length = ((p.esz : Int) * k).toNat := by
      simp only [List.length_map, List.length_take]; omega
    rw [List.getElem?_eq_none (by omega), List.getElem?_eq_none (by omega)]

example : results init [.malloc 0 4 2 (some [1, 2, 3, 4, 5, 6, 7, 8]), .slice 1 0 1 2, .copyFromHost 1 [9, 9] 1 1, .copyToHost 0 2 1 2] =
    [.ok none, .ok none, .ok none, .ok (some [some 9, some 9])] := by decide

/-- ... and the other way round: write `k` elements at element `off + i` through the PARENT, read `k`
    elements at element `i` through the slice: a successful read returns exactly the bytes written. -/
theorem C02_parent_write_slice_read {s s1 s2 s3 : State} (h : Inv s) {d src cap : Nat} {off cnt k i : Int} {p : View}
    {data : List UInt8} {o1 o2 o3 : Option (List Byte)}
    (hp : view? s src = some p) (hne : src ≠ d) (hk : k ≠ -1)
    (h1 : step s (.slice d src off cnt) = (s1, .ok o1))
    (h2 : step s1 (.copyFromHost src data k (off + i)) = (s2, .ok o2))
    (h3 : step s2 (.copyToHost d cap k i) = (s3, .ok o3)) :
    o3 = some ((data.take ((p.esz : Int) * k).toNat).map some) := by
  have hok1 : (step s (.slice d src off cnt)).2 = .ok o1 := by rw [h1]
  obtain ⟨c, hc, hb, he, h0, ho, hle, hin, _⟩ := C02_slice_within_parent hp hok1
  have hs1 : (step s (.slice d src off cnt)).1 = s1 := by rw [h1]
  rw [hs1] at hc
  have hi1 : Inv s1 := by rw [← hs1]; exact step_inv h _
  have hp1 : view? s1 src = some p := by
    rw [← hs1]
    simp only [step, doSlice, sliceExpr, hp]
    cases hsv : sliceView p off cnt with
    | error e => simp only [step, doSlice, sliceExpr, hp, hsv, assignTo] at hok1; cases hok1
    | ok v => simp only [assignTo]; rw [view?_pushMem_old h hne]; exact hp
  obtain ⟨w0, w1, w2, w3, wm, wv, wspec⟩ := copyFromHost_spec hi1 hp1 h2
  have hi2 : Inv s2 := by
    have := step_inv hi1 (.copyFromHost src data k (off + i)); rw [h2] at this; exact this
  have hc2 : view? s2 d = some c := by rw [view_of_same wm wv]; exact hc
  obtain ⟨_, r0, r1, r2, out, ro, rl, rspec⟩ := copyToHost_spec hi2 hc2 h3
  have hcb : countBytes c k = (p.esz : Int) * k := by unfold countBytes; rw [if_neg hk, he]
  have hcbp : countBytes p k = (p.esz : Int) * k := by unfold countBytes; rw [if_neg hk]
  simp only [hcb, he] at r0 r1 r2 rl rspec
  simp only [hcbp] at w0 w2 w3 wspec
  have hoff : (p.esz : Int) * (off + i) = (p.esz : Int) * off + (p.esz : Int) * i := Int.mul_add _ _ _
  have hoff0 : 0 ≤ (p.esz : Int) * off := Int.mul_nonneg (Int.natCast_nonneg _) h0
  rw [ro]
  congr 1
  apply List.ext_getElem?
  intro n
  by_cases hn : n < ((p.esz : Int) * k).toNat
  · rw [rspec n hn, wspec c (((p.esz : Int) * i).toNat + n)]
    have hcond : c.buf = p.buf ∧ p.off + ((p.esz : Int) * (off + i)).toNat ≤ c.off + (((p.esz : Int) * i).toNat + n) ∧
        c.off + (((p.esz : Int) * i).toNat + n) < p.off + ((p.esz : Int) * (off + i)).toNat + ((p.esz : Int) * k).toNat :=
      ⟨hb, by omega, by omega⟩
    rw [if_pos hcond]
    have hidx : c.off + (((p.esz : Int) * i).toNat + n) - (p.off + ((p.esz : Int) * (off + i)).toNat) = n := by omega
    rw [hidx]
    simp only [List.getElem?_map, List.getElem?_take, hn, if_true]
  · have l2 : ((data.take ((p.esz : Int) * k).toNat).map some).length = ((p.esz : Int) * k).toNat := by
      simp only [List.length_map, List.length_take]; omega
    rw [List.getElem?_eq_none (by omega), List.getElem?_eq_none (by omega)]

/-- A successful `d = src.cast(dtype)` yields a view of the same bytes (the whole elements of the
    source dtype), only the element size differs. -/
theorem C02_cast_alias {s : State} {d src e : Nat} {p : View} {o : Option (List Byte)}
    (hp : view? s src = some p) (hok : (step s (.cast d src e)).2 = .ok o) :
    ∃ c, view? (step s (.cast d src e)).1 d = some c ∧ c.buf = p.buf ∧ c.off = p.off ∧ c.esz = e ∧
      (c.size : Int) = (p.esz : Int) * p.len ∧ c.size ≤ p.size ∧
      ∀ (t : State) (j : Nat), byteAt t c j = byteAt t p j := by
  simp only [step, doCast, castExpr, hp] at hok ⊢
  cases hsv : sliceView p 0 (-1) with
  | error er => rw [hsv] at hok; cases hok
  | ok c =>
    simp only [assignTo]
    obtain ⟨h1, h2, h3, h4, h5, h6⟩ := sliceView_ok hsv
    simp only [if_true, Int.mul_zero, Int.add_zero, Int.sub_zero] at h4 h6
    have ho : c.off = p.off := by omega
    refine ⟨{ c with esz := e }, view?_pushMem_new, h1, ho, rfl, h6, by simp only []; omega, ?_⟩
    intro t j
    have := byteAt_alias t (c := { c with esz := e }) (p := p) (k := 0) h1 (by simp only []; omega) j
    simpa using this

example : view? (step (run init [.malloc 0 10 1 none, .cast 1 0 4]) (.cast 2 1 1)).1 2 = some ⟨2, 0, 8, 1⟩ := by decide

/-- `modeMemory_t` objects are never moved or resized: an aliasing relation between two of them
    (same buffer, `k` bytes apart) holds after every later history, whatever happens to the handle
    variables, dtypes and contents. -/
theorem C02_alias_persistent {s : State} {mc mp : Nat} {c p : View} {k : Nat}
    (hc : s.mems[mc]? = some c) (hp : s.mems[mp]? = some p) (hb : c.buf = p.buf) (ho : c.off = p.off + k)
    (ops : List Op) :
    ∃ c' p', (run s ops).mems[mc]? = some c' ∧ (run s ops).mems[mp]? = some p' ∧
      c'.size = c.size ∧ p'.size = p.size ∧
      ∀ j, byteAt (run s ops) c' j = byteAt (run s ops) p' (k + j) := by
  obtain ⟨c', hc', e1, e2, e3⟩ := run_memsLe s ops mc c hc
  obtain ⟨p', hp', f1, f2, f3⟩ := run_memsLe s ops mp p hp
  exact ⟨c', p', hc', hp', e3, f3, fun j => byteAt_alias _ (by rw [e1, f1, hb]) (by rw [e2, f2, ho]) j⟩

/-! ### (c) clones do not share -/

/-- A successful `d = src.clone()` of a non-empty memory yields a view that sits alone in a FRESH
    buffer (no existing `modeMemory_t` refers to it), has the source's size and dtype, holds a copy
    of the source's bytes, and leaves every byte of every older buffer as it was. -/
theorem C02_clone_fresh {s : State} (h : Inv s) {d src : Nat} {p : View} {o : Option (List Byte)}
    (hp : view? s src = some p) (hz : p.size ≠ 0) (hok : (step s (.clone d src)).2 = .ok o) :
    ∃ c, view? (step s (.clone d src)).1 d = some c ∧ c.buf = s.bufs.length ∧ c.off = 0 ∧
      c.size = p.size ∧ c.esz = p.esz ∧
      (∀ (m : Nat) (v : View), s.mems[m]? = some v → v.buf ≠ c.buf) ∧
      (∀ j, j < p.size → byteAt (step s (.clone d src)).1 c j = byteAt s p j) ∧
      (∀ (q : View), q.buf < s.bufs.length → ∀ j, byteAt (step s (.clone d src)).1 q j = byteAt s q j) := by
  simp only [step, doClone, cloneExpr, hp, if_neg hz] at hok ⊢
  have hg := mallocFromExpr_good h (p.size : Int) 1 src
  cases hmf : mallocFromExpr s (p.size : Int) 1 src with
  | err er => rw [hmf] at hok; cases hok
  | trap => rw [hmf] at hok; cases hok
  | val s1 om =>
    rw [hmf] at hok hg
    cases om with
    | none => cases hok
    | some m =>
      obtain ⟨hm, hmems, _, hA, hB⟩ := mallocFromExpr_spec h (by decide) hp hz hmf
      have hroot : s1.mems[m]? = some (rootView s (p.size : Int) 1) := by rw [hmems, hm]; simp
      simp only [hroot, assignTo]
      have hsz : ((p.size : Int) * ((1 : Nat) : Int)).toNat = p.size := by omega
      refine ⟨{ rootView s (p.size : Int) 1 with esz := p.esz }, ?_, rfl, rfl, hsz, rfl, ?_, ?_, ?_⟩
      · rw [view?_assign, if_pos rfl]
        have hlt : m < s1.mems.length := hg.2 m rfl
        simp [List.getElem?_set_self hlt]
      · intro k v hv hb
        obtain ⟨b, hb1, _⟩ := h.views _ _ hv
        have : v.buf < s.bufs.length := (List.getElem?_eq_some_iff.mp hb1).1
        have hb' : v.buf = s.bufs.length := hb
        omega
      · intro j hj
        have := hA j (by omega)
        exact this
      · intro q hq j
        exact hB q hq j

example : results init [.malloc 0 2 2 (some [1, 2, 3, 4]), .clone 1 0, .copyFromHost 0 [9, 9] 1 0, .copyToHost 1 4 (-1) 0] =
    [.ok none, .ok none, .ok none, .ok (some [some 1, some 2, some 3, some 4])] := by decide

/-- Consequently writes do not cross between a clone and its source (or anything else): a write
    through a handle whose buffer differs from a view's buffer leaves every byte of that view. -/
theorem C02_clone_isolated {s s' : State} (h : Inv s) {v : Nat} {p c : View} {data : List UInt8} {cnt off : Int}
    {o : Option (List Byte)} (hp : view? s v = some p) (hne : c.buf ≠ p.buf)
    (hs : step s (.copyFromHost v data cnt off) = (s', .ok o)) (j : Nat) : byteAt s' c j = byteAt s c j := by
  rw [(copyFromHost_spec h hp hs).2.2.2.2.2.2 c j, if_neg (fun hx => hne hx.1)]

/-! ### fresh allocations and wrapped host arrays -/

/-- A successful non-empty `malloc(n, dtype, ptr)` yields a view that sits alone in a fresh buffer
    holding the caller's `n·esz` initial bytes (indeterminate bytes when no pointer is given); no
    older buffer changes. -/
theorem C02_malloc_fresh {s : State} (h : Inv s) {v : Nat} {n : Int} {e : Nat} {data : Option (List UInt8)}
    {o : Option (List Byte)} (hn : n ≠ 0) (hok : (step s (.malloc v n e data)).2 = .ok o) :
    ∃ c, view? (step s (.malloc v n e data)).1 v = some c ∧ c.buf = s.bufs.length ∧ c.off = 0 ∧
      (c.size : Int) = n * (e : Int) ∧ c.esz = e ∧
      (∀ (m : Nat) (w : View), s.mems[m]? = some w → w.buf ≠ c.buf) ∧
      (data = none → bytesOf (step s (.malloc v n e data)).1 c = List.replicate c.size none) ∧
      (∀ dt, data = some dt → bytesOf (step s (.malloc v n e data)).1 c = (dt.take c.size).map some) ∧
      (∀ (q : View), q.buf < s.bufs.length → ∀ j, byteAt (step s (.malloc v n e data)).1 q j = byteAt s q j) := by
  simp only [step, doMalloc] at hok ⊢
  cases hme : mallocExpr s n e data with
  | err er => rw [hme] at hok; cases hok
  | trap => rw [hme] at hok; cases hok
  | val s1 om =>
    cases om with
    | none => exact absurd (mallocExpr_val_none_n hme) hn
    | some m =>
      obtain ⟨_, hnn, hm, nb, hnb, hcontent, hs1⟩ := mallocExpr_val hme
      simp only [assignTo]
      have hmems : s1.mems = s.mems ++ [rootView s n e] := by rw [hs1]; rfl
      have hbufs : s1.bufs = s.bufs ++ [nb] := by rw [hs1]
      have hbytes : bytesOf (setVar s1 v (some m)) (rootView s n e) = nb := by
        unfold bytesOf
        have : (setVar s1 v (some m)).bufs[(rootView s n e).buf]? = some nb := by
          show s1.bufs[s.bufs.length]? = some nb
          rw [hbufs]; simp
        rw [this]
        simp only []
        have hsz : (rootView s n e).size = nb.length := by rw [hnb]; rfl
        rw [hsz]
        unfold readAt
        show List.take nb.length (List.drop 0 nb) = nb
        simp
      refine ⟨rootView s n e, ?_, rfl, rfl, ?_, rfl, ?_, ?_, ?_, ?_⟩
      · rw [view?_assign, if_pos rfl, hm, hmems]; simp
      · show (((n * (e : Int)).toNat : Nat) : Int) = n * (e : Int)
        omega
      · intro k w hw hb
        obtain ⟨b, hb1, _⟩ := h.views _ _ hw
        have : w.buf < s.bufs.length := (List.getElem?_eq_some_iff.mp hb1).1
        have hb' : w.buf = s.bufs.length := hb
        omega
      · intro hd
        subst hd
        rw [hbytes, hcontent]; rfl
      · intro dt hd
        subst hd
        rw [hbytes, hcontent]; rfl
      · intro q hq j
        unfold byteAt
        show (s1.bufs[q.buf]?).bind _ = _
        rw [hbufs, List.getElem?_append_left hq]

/-- A successful `wrapMemory(ptr, n, dtype)` yields a view of the caller's own array from its first
    byte: the memory and the array are the same bytes (a `hostWrite` is read through the handle and
    a `copyFrom` through the handle is seen by the caller). -/
theorem C02_wrap_shares_host {s : State} {v hb : Nat} {n : Int} {e : Nat} {o : Option (List Byte)}
    (hok : (step s (.wrap v hb n e)).2 = .ok o) :
    ∃ c, view? (step s (.wrap v hb n e)).1 v = some c ∧ c.buf = hb ∧ c.off = 0 ∧
      (c.size : Int) = n * (e : Int) ∧ c.esz = e ∧ hb < nHostBufs := by
  simp only [step, doWrap, wrapExpr] at hok ⊢
  by_cases h1 : n * (e : Int) ≥ 0
  case neg => rw [if_pos h1] at hok; cases hok
  rw [if_neg (not_not_intro h1)] at hok ⊢
  by_cases h2 : hb < nHostBufs ∧ (n * (e : Int)).toNat ≤ hostBufSize
  case neg => rw [if_pos h2] at hok; cases hok
  rw [if_neg (not_not_intro h2)]
  simp only [assignTo]
  exact ⟨_, view?_pushMem_new, rfl, rfl, by simp only []; omega, rfl, h2.1⟩

example : view? (run init [.wrap 0 1 4 2]) 0 = some ⟨1, 0, 8, 2⟩ := by decide

/-! ### (d) exactly the invalid requests are rejected -/

/-- Full statement: an operation raises iff the request is negative, out of the range of a handle
    it names, or names an uninitialised handle. -/
def C02_rejects_exactly_full : Prop :=
  ∀ (s : State) (op : Op), Inv s → EszPos s → op.wf → (Rejected s op ↔ Invalid s op)

/-- Refuted by the current code (finding F05): `memory().slice(0, 1)` returns an uninitialised
    memory instead of raising. -/
theorem C02_rejects_exactly_full_fails : ¬ C02_rejects_exactly_full := by
  intro hf
  have := (hf init (.slice 0 1 0 1) init_inv init_eszPos trivial).mpr trivial
  obtain ⟨e, he⟩ := this
  cases he

/-- Strongest true restriction: outside the early-return shapes of F05 (`Silent`: the receiver of
    slice / + / clone / host copy is uninitialised, or both operands of a device-to-device copy are),
    an operation raises iff the request is invalid.  In particular a negative offset or count, a
    range past the end of the handle, a one-sided uninitialised copy, cast/setDtype of an
    uninitialised handle are all rejected, and nothing valid is. -/
theorem C02_rejects_exactly_partial (s : State) (op : Op) (h : Inv s) (hp : EszPos s) (hw : op.wf)
    (hs : ¬ Silent s op) : Rejected s op ↔ Invalid s op :=
  step_rejected_iff h hp hw hs

/-- The same along any history from the initial state. -/
theorem C02_rejects_exactly_history (ops : List Op) (hws : ∀ o ∈ ops, o.wf) (op : Op) (hw : op.wf)
    (hs : ¬ Silent (run init ops) op) : Rejected (run init ops) op ↔ Invalid (run init ops) op :=
  step_rejected_iff (run_inv init_inv ops) (run_eszPos init_eszPos hws) hw hs

example : ¬ Silent (run init [.malloc 0 4 4 none, .slice 1 0 2 2]) (.slice 2 1 (-1) 1) ∧
    Invalid (run init [.malloc 0 4 4 none, .slice 1 0 2 2]) (.slice 2 1 (-1) 1) := by
  constructor
  · intro h
    have h' : view? (run init [.malloc 0 4 4 none, .slice 1 0 2 2]) 1 = none := h
    revert h'; decide
  · show sliceBad _ _ _; left; decide

/-- Inside the F05 region the operation is a no-op on memory: no buffer and no `modeMemory_t`
    changes (the assigned handle, if any, becomes uninitialised). -/
theorem C02_silent_is_noop (s : State) (op : Op) (hs : Silent s op) :
    (step s op).2 = .ok none ∧ (step s op).1.bufs = s.bufs ∧ (step s op).1.mems = s.mems := by
  cases op with
  | slice d src off cnt =>
    have hv : view? s src = none := hs
    simp [step, doSlice, sliceExpr, hv, assignTo, setVar]
  | clone d src =>
    have hv : view? s src = none := hs
    simp [step, doClone, cloneExpr, hv, assignTo, setVar]
  | copyFromHost v data cnt off =>
    have hv : view? s v = none := hs
    simp [step, doCopyFromHost, hv]
  | copyToHost v cap cnt off =>
    have hv : view? s v = none := hs
    simp [step, doCopyToHost, hv]
  | copyFromMem d src cnt doff soff =>
    have hv : view? s d = none ∧ view? s src = none := hs
    simp [step, doCopyFromMem, hv.1, hv.2]
  | copyToMem src d cnt doff soff =>
    have hv : view? s src = none ∧ view? s d = none := hs
    simp [step, doCopyToMem, hv.1, hv.2]
  | malloc v n e data => exact absurd hs id
  | mallocFrom v n e src => exact absurd hs id
  | wrap v hb n e => exact absurd hs id
  | cast d src e => exact absurd hs id
  | setDtype v e => exact absurd hs id
  | assign d src => exact absurd hs id
  | free v => exact absurd hs id
  | hostWrite hb off data => exact absurd hs id
  | hostRead hb off n => exact absurd hs id

end Occa.Mem.C02
