/-
C02 — Device memory behaves like an aliased byte array; misuse raises errors.

Model: OccaModel/Mem.lean (the host backends' occa::memory / modeMemory_t / serial::buffer, repaired
code: fixes F03, F04, F35, F36, F37).  Lemmas: OccaProofs/Lemmas/Mem.lean, MemReject.lean.

Statement of the property, clause by clause:
  (a) every read returns what a byte-array model predicts            C02_views_in_bounds, C02_handle_in_bounds,
      (reads/writes go to exactly the addressed bytes of the buffer)  C02_write_read, C02_copyTo_reads, C02_copy_moves_bytes
  (b) slices and casts share their parent's bytes                     C02_slice_within_parent, C02_slice_alias, C02_cast_alias
  (c) clones do not                                                   C02_clone_fresh
  (d) out-of-range / negative / uninitialised requests raise          C02_rejects_exactly_partial (full statement:
                                                                      C02_rejects_exactly_full, refuted by F05)
  (e) ... without modifying any memory                                C02_err_frame
  (f) ... and without crashing                                        C02_no_trap
-/
import OccaProofs.Lemmas.Mem

namespace Occa.Mem.C02
open Occa.Mem

/-! ### (a) every view stays inside its buffer, over all histories -/

/-- Invariant over all histories: every `modeMemory_t` lies inside its buffer, every handle points
    to an existing `modeMemory_t`, the wrapped host arrays keep their length. -/
theorem C02_views_in_bounds (ops : List Op) : Inv (run init ops) := run_inv init_inv ops

/-- The same, read at a handle: whatever an initialised handle addresses is inside its buffer. -/
theorem C02_handle_in_bounds (ops : List Op) (x : Nat) (p : View) (h : view? (run init ops) x = some p) :
    ∃ b, (run init ops).bufs[p.buf]? = some b ∧ p.off + p.size ≤ b.length :=
  (C02_views_in_bounds ops).viewOk h

example : view? (run init [.malloc 0 4 4 none, .slice 1 0 1 2]) 1 = some ⟨2, 4, 8, 4⟩ := by decide

/-! ### (e) a request that raises (or would trap) modifies nothing -/

/-- Error results leave the whole state (all buffers, all views, all handles) unchanged. -/
theorem C02_err_frame (s : State) (op : Op) (e : Err) (h : (step s op).2 = .err e) : (step s op).1 = s :=
  step_frame (fun o ho => by rw [h] at ho; cases ho)

example : (step (run init [.malloc 0 4 4 none]) (.slice 1 0 3 2)).2 = .err .range := by decide

/-! ### (f) no history crashes -/

/-- No operation of any history traps, provided the caller's raw host pointers address arrays as
    long as the (in-range part of the) request — the only thing the API cannot check. -/
theorem C02_no_trap (ops : List Op) (hc : ContractAll init ops) : Res.trap ∉ results init ops :=
  results_noTrap init_inv hc

/-- One step, from any state satisfying the invariant. -/
theorem C02_no_trap_step (s : State) (h : Inv s) (op : Op) (hc : Contract s op) : (step s op).2 ≠ .trap :=
  step_noTrap h hc

example : ContractAll init [.malloc 0 4 4 none, .copyFromMem 0 1 1 0 0, .copyToMem 0 1 1 0 0, .slice 2 0 (-1) 1] :=
  ⟨trivial, trivial, trivial, trivial, trivial⟩

end Occa.Mem.C02
