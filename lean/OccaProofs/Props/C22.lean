/-
C22 — Every backend enforces the same OKL rules.

Model: lean/OccaModel/Okl.lean (`rulesOk`, written after okl::kernelIsValid and
oklForStatement, statement by statement).  Here: the property's rule list written declaratively
(`RulesSpec`), the proof that the procedure accepts exactly the kernels the rule list describes,
and the code-structure facts (re-extracted from the sources by translate/gen_okl.py on every run)
that make this one verdict the verdict of all seven translators.
-/
import OccaProofs.Lemmas.OklRules
import OccaGen.OklFacts

namespace Occa.Okl.C22
open Occa.Okl

/-- The OKL rules, declaratively.
  * the kernel returns `void`;
  * there is an @outer and an @inner loop, every @outer/@inner loop has a valid header, and below
    every outer-most loop all chains of nested @outer/@inner loops are `oc` @outer loops followed
    by `ic` @inner loops with the same `1 ≤ oc, ic ≤ 3` (this is: @inner inside @outer, no @outer
    inside @inner, every @outer has an @inner below it, matching nesting across branches);
  * @shared/@exclusive are declared inside an @outer loop and outside every @inner loop, @shared
    variables are arrays with compile-time sizes, @shared/@exclusive variables are only used
    inside @inner loops;
  * the statement that captures a `break`/`continue` is not an @outer/@inner loop. -/
def RulesSpec (k : Kernel) : Prop :=
  k.retVoid = true ∧
  LoopsSpec (forest k.body) ∧
  (∀ x ∈ occs [] k.body, DeclOk x) ∧
  (∀ x ∈ occs [] k.body, BreakOk x)

/-- C22, main clause: the validation procedure of okl.cpp accepts a kernel if and only if the
    kernel follows the rule list — both directions, for every kernel. -/
theorem C22_rules_iff_spec (k : Kernel) : rulesOk k = true ↔ RulesSpec k := by
  unfold rulesOk RulesSpec rulesRes
  rw [beq_iff_eq]
  simp only [Res.and_eq_ok, Res.ofBool_eq_ok, loopsOk_iff]
  have hd := declsOk_iff k.body []
  have hb := breaksOk_iff k.body []
  simp only [List.any_nil, List.map_nil] at hd hb
  rw [hd, hb]

example : ∃ k : Kernel, RulesSpec k :=
  ⟨⟨true, .node ⟨.okl true false ⟨.ok, .const 0, .ok, some .lt, .unknown, .ok, some .inc, .none, false⟩ false, []⟩
      (.node ⟨.okl false true ⟨.ok, .const 0, .ok, some .lt, .const 8, .ok, some .inc, .none, false⟩ false, []⟩
        (.node ⟨.expr false false, []⟩ .nil .nil) .nil) .nil⟩,
   (C22_rules_iff_spec _).1 (by decide)⟩

/-- C22, "is rejected with an error" is an error and never a crash of the translator: the
    validation never traps (with the repair of F60; before it a constant zero step did). -/
theorem C22_never_traps (k : Kernel) : rulesRes k ≠ .trap := by
  have hv : ∀ h : Hdr, h.verdict ≠ .trap := by
    intro h; unfold Hdr.verdict
    split
    · simp
    · split
      · simp
      · split <;> (try simp) <;> split <;> simp
  have hl : ∀ kd : Kind, kd.loopVerdict ≠ .trap := by
    intro kd; cases kd <;> simp [Kind.loopVerdict]
    rename_i o i h nb
    cases o <;> cases i <;> simp [hv]
  have happ : ∀ a b : LF, loopHdrs (a.append b) = loopHdrs a ++ loopHdrs b := by
    intro a b
    induction a with
    | nil => simp [LF.append, loopHdrs]
    | node o h k n _ ihn => simp [LF.append, loopHdrs, ihn]
  have hf : ∀ t : Tree, ∀ x ∈ loopHdrs (forest t), x.2 ≠ .trap := by
    intro t
    induction t with
    | nil => simp [forest, loopHdrs]
    | node n kids next ihk ihn =>
      intro x hx
      simp only [forest] at hx
      split at hx
      · simp only [loopHdrs, List.mem_cons, List.mem_append] at hx
        rcases hx with rfl | hx | hx
        · exact hl _
        · exact ihk x hx
        · exact ihn x hx
      · rw [happ, List.mem_append] at hx
        exact hx.elim (ihk x) (ihn x)
  have hg : ∀ attr (hs : List (Bool × Res)), (∀ x ∈ hs, x.2 ≠ .trap) → hdrsGo attr hs ≠ .trap := by
    intro attr hs
    induction hs with
    | nil => simp [hdrsGo]
    | cons x r ih =>
      intro h
      obtain ⟨o, v⟩ := x
      have hvx : v ≠ .trap := h (o, v) (by simp)
      have ih' := ih (fun y hy => h y (by simp [hy]))
      simp only [hdrsGo]
      split
      · cases v <;> simp_all [Res.and]
      · exact ih'
  have hand : ∀ (a : Res) (b : Unit → Res), a ≠ .trap → b () ≠ .trap → a.and b ≠ .trap := by
    intro a b ha hb; cases a <;> simp_all [Res.and]
  have hob : ∀ b : Bool, Res.ofBool b ≠ .trap := by intro b; cases b <;> simp [Res.ofBool]
  have hloops : loopsOk k.body ≠ .trap := by
    unfold loopsOk
    simp only
    split
    · simp
    · split
      · simp
      · exact hand _ _ (hg true _ (hf k.body)) (hand _ _ (hg false _ (hf k.body)) (hob _))
  unfold rulesRes
  exact hand _ _ (hob _) (hand _ _ hloops (hand _ _ (hob _) (hob _)))

example : ∃ h : Hdr, h.formsOk = true ∧ h.verdictUnrepaired = .trap ∧ h.verdict = .bad :=
  ⟨⟨.ok, .const 0, .ok, some .lt, .const 8, .ok, some .add, .const 0, false⟩, by decide⟩

/-! ### one direction per rule, in the words of the property -/

/-- "a non-void return type" -/
theorem C22_rejects_nonvoid (k : Kernel) (h : k.retVoid = false) : rulesOk k = false := by
  rw [Bool.eq_false_iff]; intro hk
  have := ((C22_rules_iff_spec k).1 hk).1
  simp [h] at this

/-- "no @outer or no @inner loop" -/
theorem C22_rejects_missing_loops (k : Kernel)
    (h : (∀ x ∈ loopHdrs (forest k.body), x.1 = false) ∨ (∀ x ∈ loopHdrs (forest k.body), x.1 = true)) :
    rulesOk k = false := by
  rw [Bool.eq_false_iff]; intro hk
  obtain ⟨_, ⟨⟨x, hx, hx1⟩, ⟨y, hy, hy1⟩, _, _⟩, _, _⟩ := (C22_rules_iff_spec k).1 hk
  rcases h with h | h
  · have := h x hx; simp [hx1] at this
  · have := h y hy; simp [hy1] at this

/-- "an invalid loop header" -/
theorem C22_rejects_invalid_header (k : Kernel) (h : ∃ x ∈ loopHdrs (forest k.body), x.2 ≠ .ok) :
    rulesOk k = false := by
  rw [Bool.eq_false_iff]; intro hk
  obtain ⟨_, ⟨_, _, hh, _⟩, _, _⟩ := (C22_rules_iff_spec k).1 hk
  obtain ⟨x, hx, hne⟩ := h
  exact hne (hh x hx)

/-- "@inner outside @outer": some chain of loops starts with an @inner loop -/
theorem C22_rejects_inner_outside_outer (k : Kernel)
    (h : ∃ g ∈ chains (forest k.body), ∃ l ∈ g, l.head? = some false) : rulesOk k = false := by
  rw [Bool.eq_false_iff]; intro hk
  obtain ⟨_, ⟨_, _, _, hn⟩, _, _⟩ := (C22_rules_iff_spec k).1 hk
  obtain ⟨g, hg, l, hl, hh⟩ := h
  obtain ⟨ic, oc, hw⟩ := hn g hg
  obtain ⟨he, _, _, h1, _⟩ := hw l hl
  cases oc with
  | zero => omega
  | succ n => rw [he] at hh; simp [List.replicate_succ] at hh

/-- "@outer inside @inner": some chain has an @outer loop directly below an @inner loop -/
theorem C22_rejects_outer_inside_inner (k : Kernel)
    (h : ∃ g ∈ chains (forest k.body), ∃ l ∈ g, ∃ a b, l = a ++ false :: true :: b) : rulesOk k = false := by
  rw [Bool.eq_false_iff]; intro hk
  obtain ⟨_, ⟨_, _, _, hn⟩, _, _⟩ := (C22_rules_iff_spec k).1 hk
  obtain ⟨g, hg, l, hl, a, b, hab⟩ := h
  obtain ⟨ic, oc, hw⟩ := hn g hg
  obtain ⟨he, _⟩ := hw l hl
  -- in `replicate oc true ++ replicate ic false` no `true` follows a `false`
  have key : ∀ (oc : Nat) (a : List Bool), a ++ false :: true :: b ≠ List.replicate oc true ++ List.replicate ic false := by
    intro oc
    induction oc with
    | zero =>
      intro a h
      have : true ∈ List.replicate ic false := by
        have : true ∈ a ++ false :: true :: b := by simp
        simpa [h] using this
      simp [List.mem_replicate] at this
    | succ n ih =>
      intro a h
      cases a with
      | nil => simp [List.replicate_succ] at h
      | cons x r =>
        simp only [List.cons_append, List.replicate_succ, List.cons.injEq] at h
        exact ih r h.2
  exact key oc a (hab ▸ he)

/-- "mismatched loop nesting across branches": two chains below the same outer-most loop differ -/
theorem C22_rejects_mismatched_nesting (k : Kernel)
    (h : ∃ g ∈ chains (forest k.body), ∃ l1 ∈ g, ∃ l2 ∈ g, l1 ≠ l2) : rulesOk k = false := by
  rw [Bool.eq_false_iff]; intro hk
  obtain ⟨_, ⟨_, _, _, hn⟩, _, _⟩ := (C22_rules_iff_spec k).1 hk
  obtain ⟨g, hg, l1, h1, l2, h2, hne⟩ := h
  obtain ⟨ic, oc, hw⟩ := hn g hg
  exact hne ((hw l1 h1).1.trans (hw l2 h2).1.symm)

/-- "@shared or @exclusive declared in the wrong place", "a non-array or non-constant-size @shared" -/
theorem C22_rejects_bad_declaration (k : Kernel) (h : ∃ x ∈ occs [] k.body, ¬ DeclOk x) : rulesOk k = false := by
  rw [Bool.eq_false_iff]; intro hk
  obtain ⟨x, hx, hn⟩ := h
  exact hn (((C22_rules_iff_spec k).1 hk).2.2.1 x hx)

/-- "break or continue directly in an OKL loop" -/
theorem C22_rejects_break_in_okl_loop (k : Kernel) (h : ∃ x ∈ occs [] k.body, ¬ BreakOk x) : rulesOk k = false := by
  rw [Bool.eq_false_iff]; intro hk
  obtain ⟨x, hx, hn⟩ := h
  exact hn (((C22_rules_iff_spec k).1 hk).2.2.2 x hx)

/-! ### all seven translators -/

/-- C22, "every backend": in the model of the seven translators a rule-breaking kernel is rejected
    by all of them, a rule-conforming one is accepted by all that support its attributes
    (CUDA and HIP have no translation for general @atomic regions). -/
theorem C22_backend_independent (k : Kernel) :
    (rulesOk k = false → (accepts k).2 = List.replicate 7 false) ∧
    (rulesOk k = true → (accepts k).2 =
      [true, true, !hasGeneralAtomic k.body, !hasGeneralAtomic k.body, true, true, true]) := by
  unfold rulesOk accepts
  cases h : rulesRes k <;> simp

open Occa.Gen.Okl in
/-- how a translator's `afterParsing` reaches `okl::kernelsAreValid(root)`, following the
    delegation / inheritance chain extracted from the sources -/
def reachesValidation : Nat → String → Bool
  | 0, _ => false
  | f + 1, t =>
    match validation.find? (fun x => x.1 == t) with
    | some (_, "direct", _) => true
    | some (_, _, via) => reachesValidation f via
    | none => false

/-- C22, "the same rules": the validation call is the same function in all seven translators
    (a code-structure fact, re-extracted from serial.cpp, openmp.cpp, withLauncher.cpp and the five
    launcher-based translators on every run), and it conjoins the four rule checks the model follows. -/
theorem C22_same_validator :
    (∀ t ∈ ["serial", "openmp", "cuda", "hip", "opencl", "metal", "dpcpp"], reachesValidation 4 t = true) ∧
    Occa.Gen.Okl.ruleFunctions = ["kernelHasValidReturnType", "kernelHasValidOklLoops",
      "kernelHasValidSharedAndExclusiveDeclarations", "kernelHasValidLoopBreakAndContinue"] := by
  decide

/-- the sources contain the repairs the model follows (F60 zero step, F61 continue in switch,
    F62 at most three nested loops, F63 @outer and @inner on one loop, F70 update direction) -/
theorem C22_source_has_repairs :
    Occa.Gen.Okl.zeroStepGuard = true ∧ Occa.Gen.Okl.continueSkipsSwitch = true ∧
    Occa.Gen.Okl.maxNestChecked = true ∧ Occa.Gen.Okl.bothAttrsInvalid = true ∧
    Occa.Gen.Okl.directionChecked = true := by
  decide

end Occa.Okl.C22
