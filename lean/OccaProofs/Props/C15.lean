/-
C15 — Printing a parsed program preserves its meaning and re-parses identically.

Model: OccaModel/Expr.lean (expression parser, node printers, tokenizer for printed text) and
OccaModel/ExprShape.lean (token-level shape of a C expression) over the generated
OccaGen/OpTable.lean.  Clause by clause:
  (1) for every token sequence with the shape of a C expression that the parser accepts, the
      tokens printed from the parsed tree ARE the tokens that were parsed      C15_print_parse_tokens
      hence a C++ compiler reads the printed expression as the original one ("same values")
  (2) ... and the printed tokens parse back to the identical tree               C15_roundtrip
  (1'),(2') every well-shaped sequence IS accepted (no hidden rejections)       C15_accepts_and_roundtrips
  (3) operator precedence and associativity are the C/C++ ones                  C15_table_is_cxx, C15_table_complete
  (3') the parsed tree is precedence-correct (parentheses exactly where needed) C15_parse_image
  (4) the tokenizer's operator spellings are unambiguous                        C15_registered_spellings_unique
  (5) string / character escapes are preserved                                  C15_escape_roundtrip
  (6) adjacent prefix operators are read back as the same two operators         C15_prefix_pair_relex
Statements, declarations and the text level beyond (5), (6) are covered by the harness oracles
(re-parse identity of whole programs, g++ evaluation of original vs printed) and by the
correspondence run, not by theorems.
-/
import OccaModel.Expr
import OccaProofs.Lemmas.ExprProgress

namespace Occa.Expr.C15
open Occa Occa.Gen Occa.Expr

/-! ### (1), (2) printing the parsed tree gives back the tokens -/

/-- (1) **print ∘ parse = id on tokens.**  `ts` is any sequence of tokenizer tokens (`Lexed`) with the
    token-level shape of a C expression (`CShape`: operands and operators alternate, pairs match, every
    `:` has its `?`; `+ - * & ++ -- ::` are classified by position, independently of the parser).  If the
    parser accepts it, the token sequence printed from the resulting tree is `ts` itself — so nothing
    about precedence, associativity, grouping or operator identity is lost or invented by printing. -/
theorem C15_print_parse_tokens (ts : List Tok) (e : Expr) (hshape : CShape ts = true) (hlex : Lexed ts)
    (hparse : parse ts = .ok e) : printToks e = ts :=
  printToks_parse ts e hshape hlex hparse

/-- (2) the printed tokens parse back to the structurally identical tree. -/
theorem C15_roundtrip (ts : List Tok) (e : Expr) (hshape : CShape ts = true) (hlex : Lexed ts)
    (hparse : parse ts = .ok e) : parse (printToks e) = .ok e :=
  parse_printToks ts e hshape hlex hparse

/-- (1'), (2') **no hidden rejections**: EVERY token sequence with the shape of a C expression is accepted
    by the (repaired) parser, its printed tokens are the sequence itself, and they parse back to the same
    tree.  (`C15_print_parse_tokens` alone would be vacuous for inputs the parser rejects; before the repairs
    `a - -b`, `a[i++]`, `(int) -x`, `a ? b = c : d`, `a ? b ? c : d : e` were such inputs.) -/
theorem C15_accepts_and_roundtrips (ts : List Tok) (hshape : CShape ts = true) (hlex : Lexed ts) :
    ∃ e, parse ts = .ok e ∧ printToks e = ts ∧ parse (printToks e) = .ok e := by
  obtain ⟨e, h1, h2⟩ := parse_accepts ts hshape hlex
  exact ⟨e, h1, h2, by rw [h2]; exact h1⟩

/-- (3') **the parser's image ("ParserImage")**: the tree built from a well-shaped sequence is precedence-correct
    (`canonB`): every operand binds at least as tightly as its position under its parent operator requires
    (left operands: tighter, or equal on a left-to-right level; right operands: tighter, or equal on a right-to-left
    level), so looser sub-expressions occur only inside explicit `paren` nodes, call arguments, subscripts, tuples and
    the middle operand of `?:`.  With `C15_table_is_cxx` this is the grouping a C/C++ compiler gives the same tokens. -/
theorem C15_parse_image (ts : List Tok) (e : Expr) (hshape : CShape ts = true) (hlex : Lexed ts)
    (hparse : parse ts = .ok e) : canonB e = true :=
  parse_canon ts e hshape hlex hparse

example : canonB (.bin .add (.ident "a") (.bin .mult (.ident "b") (.ident "c"))) = true ∧
          canonB (.bin .mult (.bin .add (.ident "a") (.ident "b")) (.ident "c")) = false ∧
          canonB (.bin .mult (.paren (.bin .add (.ident "a") (.ident "b"))) (.ident "c")) = true := by decide

/-- the hypotheses are satisfiable by the adjacency-critical and the nested cases:
    `a - - b * ( int ) - c ? x ++ : y [ i -- ] , f ( p , & q )` -/
example :
    let ts : List Tok := [.ident "a", .op .sub, .op .sub, .ident "b", .op .mult, .op .parenthesesStart, .vtype "int" 0,
      .op .parenthesesEnd, .op .sub, .ident "c", .op .questionMark, .ident "x", .op .leftIncrement, .op .colon,
      .ident "y", .op .bracketStart, .ident "i", .op .leftDecrement, .op .bracketEnd, .op .comma, .ident "f",
      .op .parenthesesStart, .ident "p", .op .comma, .op .bitAnd, .ident "q", .op .parenthesesEnd]
    CShape ts = true ∧ lexedB ts = true ∧ (parse ts).toOption.isSome = true := by
  decide

/-! ### (3) the operator table -/

inductive Arity | prefix | postfix | binary | ternary
  deriving DecidableEq, Repr

/-- Reference: the operator precedence table of the C++ standard (cppreference numbering), with the
    conditional operator one level above assignment as in the C grammar (6.5.15 / 6.5.16), which
    makes the levels 16, 17, 18 instead of 16, 16, 17.  `true` = right-to-left. -/
def reference : List (String × Arity × Nat × Bool) := [
  ("::", .binary, 1, false), ("::", .prefix, 1, false),
  ("++", .postfix, 2, false), ("--", .postfix, 2, false), (".", .binary, 2, false), ("->", .binary, 2, false),
  ("++", .prefix, 3, true), ("--", .prefix, 3, true), ("+", .prefix, 3, true), ("-", .prefix, 3, true),
  ("!", .prefix, 3, true), ("~", .prefix, 3, true), ("()", .prefix, 3, true), ("*", .prefix, 3, true),
  ("&", .prefix, 3, true), ("sizeof", .prefix, 3, true), ("sizeof...", .prefix, 3, true), ("new", .prefix, 3, true),
  ("delete", .prefix, 3, true), ("typeid", .prefix, 3, true), ("noexcept", .prefix, 3, true), ("alignof", .prefix, 3, true),
  (".*", .binary, 4, false), ("->*", .binary, 4, false),
  ("*", .binary, 5, false), ("/", .binary, 5, false), ("%", .binary, 5, false),
  ("+", .binary, 6, false), ("-", .binary, 6, false),
  ("<<", .binary, 7, false), (">>", .binary, 7, false),
  ("<=>", .binary, 8, false),
  ("<", .binary, 9, false), ("<=", .binary, 9, false), (">", .binary, 9, false), (">=", .binary, 9, false),
  ("==", .binary, 10, false), ("!=", .binary, 10, false),
  ("&", .binary, 11, false), ("^", .binary, 12, false), ("|", .binary, 13, false),
  ("&&", .binary, 14, false), ("||", .binary, 15, false),
  ("?", .ternary, 16, true), (":", .ternary, 16, true), ("?:", .ternary, 16, true),
  ("=", .binary, 17, true), ("+=", .binary, 17, true), ("-=", .binary, 17, true), ("*=", .binary, 17, true),
  ("/=", .binary, 17, true), ("%=", .binary, 17, true), ("&=", .binary, 17, true), ("|=", .binary, 17, true),
  ("^=", .binary, 17, true), ("<<=", .binary, 17, true), (">>=", .binary, 17, true), ("throw", .prefix, 17, true),
  (",", .binary, 18, false)]

/-- how the expression parser uses an operator -/
def arityOf (o : Op) : Option Arity :=
  if o.ty == T.questionMark || o.ty == T.colon || o.ty == T.ternary then some .ternary
  else if has o.ty T.binary then some .binary
  else if has o.ty T.rightUnary then some .postfix
  else if has o.ty T.leftUnary then some .prefix
  else none

def refLookup (s : String) (a : Arity) : Option (Nat × Bool) :=
  (reference.find? fun e => e.1 == s && e.2.1 == a).map fun e => (e.2.2.1, e.2.2.2)

/-- (3) every operator the expression parser treats as prefix, postfix, binary or ternary has the
    precedence level and the associativity of the C/C++ table. -/
theorem C15_table_is_cxx : ∀ o ∈ Op.all, ∀ a, arityOf o = some a →
    refLookup o.str a = some (o.prec, !leftAssoc o.prec) := by
  decide +kernel

/-- the table has no other rows: every reference row is an operator of the parser -/
theorem C15_table_complete : ∀ e ∈ reference, ∃ o ∈ Op.all, o.str = e.1 ∧ arityOf o = some e.2.1 := by
  decide +kernel

example : arityOf .sub = some .binary ∧ arityOf .negative = some .prefix ∧ Op.prec .sub = 6 := by decide

/-! ### (4) tokenizer spellings -/

/-- (4) no spelling is registered twice in the tokenizer's operator trie, so the longest match
    determines the operator. -/
theorem C15_registered_spellings_unique :
    ∀ a ∈ registered, ∀ b ∈ registered, a.str = b.str → a = b := by
  decide +kernel

/-! ### (5) escapes -/

private theorem unescape_escapeFrom (c : Char) (hc : c ≠ '\\') (hflag : escapeSkipsIndex0 = false) :
    ∀ (s : List Char) (i : Nat), unescape c (escapeFrom i c s) = s := by
  intro s
  induction s with
  | nil => intro i; simp [escapeFrom, unescape]
  | cons x xs ih =>
    intro i
    by_cases hx : x = c
    · subst hx
      have e : escapeFrom i x (x :: xs) = '\\' :: x :: escapeFrom (i + 1) x xs := by
        simp [escapeFrom, hflag]
      rw [e]
      have ih' := ih (i + 1)
      -- the inserted backslash is dropped, the delimiter stays
      cases hxs : escapeFrom (i + 1) x xs with
      | nil =>
        rw [hxs] at ih'
        have : xs = [] := by
          cases xs with
          | nil => rfl
          | cons y ys => simp [unescape] at ih'
        subst this
        simp [unescape]
      | cons y ys =>
        rw [hxs] at ih'
        have h1 : unescape x ('\\' :: x :: y :: ys) = unescape x (x :: y :: ys) := by
          simp [unescape]
        rw [h1]
        have h2 : unescape x (x :: y :: ys) = x :: unescape x (y :: ys) := by
          simp [unescape, hc]
        rw [h2, ih']
    · have e : escapeFrom i c (x :: xs) = x :: escapeFrom (i + 1) c xs := by
        simp [escapeFrom, hx]
      rw [e]
      have ih' := ih (i + 1)
      cases hxs : escapeFrom (i + 1) c xs with
      | nil =>
        rw [hxs] at ih'
        have : xs = [] := by
          cases xs with
          | nil => rfl
          | cons y ys => simp [unescape] at ih'
        subst this
        simp [unescape]
      | cons y ys =>
        rw [hxs] at ih'
        -- y is either a kept character or the backslash inserted before c: in both cases x stays
        have hy : ¬ (x = '\\' ∧ y = c) := by
          intro ⟨hx1, hy1⟩
          subst hy1
          -- escapeFrom never starts with the bare delimiter
          cases xs with
          | nil => simp [escapeFrom] at hxs
          | cons z zs =>
            by_cases hz : z = y
            · subst hz; simp [escapeFrom, hflag] at hxs; exact hc hxs.1.symm
            · simp [escapeFrom, hz] at hxs
        have h2 : unescape c (x :: y :: ys) = x :: unescape c (y :: ys) := by
          by_cases h : x = '\\' <;> by_cases h' : y = c <;> simp_all [unescape]
        rw [h2, ih']

/-- (5) what `stringNode::print` / `charNode::print` write between the quotes is read back by the
    tokenizer's `unescape` as the same value, for every value (delimiter `"` or `'`). -/
theorem C15_escape_roundtrip (c : Char) (hc : c ≠ '\\') (s : List Char) :
    unescape c (escape c s) = s :=
  unescape_escapeFrom c hc (by decide) s 0

example : escape '"' "\"abc".toList = "\\\"abc".toList := by decide

/-! ### (6) adjacent prefix operators -/

/-- the spelling a prefix operator is read back from -/
def prefixOps : List Op := Op.all.filter fun o => has o.ty T.leftUnary && !has o.ty T.special && o.prec == 3

def relexOk (o1 o2 : Op) : Bool :=
  match lex (toStr (.lu o1 (.lu o2 (.ident "x")))) with
  | .ok [.op a, .op b, .ident "x"] => a.str == o1.str && b.str == o2.str
  | _ => false

/-- (6) for every two prefix operators `o1 o2`, the text `leftUnaryOpNode::print` writes for
    `o1 (o2 x)` is read back as a token spelled `o1`, a token spelled `o2` and `x`
    (so `- -x` is not read back as `--x`). -/
theorem C15_prefix_pair_relex : ∀ o1 ∈ prefixOps, ∀ o2 ∈ prefixOps, relexOk o1 o2 = true := by
  decide +kernel

example : toStr (.lu .negative (.lu .negative (.ident "x"))) = "- -x".toList := by decide

end Occa.Expr.C15
