/-
Helper lemmas for C19: mixed-radix numbers, permutations of the dimension order.
-/
import OccaModel.Dim
import Mathlib.Tactic.Ring
import Mathlib.Tactic.Linarith
import Batteries.Data.List.Perm

namespace Occa.Dim

instance (D ix : List Int) : Decidable (InRange D ix) := by unfold InRange; exact inferInstance

/-! ### the loop is the mixed-radix formula -/

theorem mixed_append_last (f : Nat → Int × Int) (l : List Nat) (last : Nat) :
    mixed ((l ++ [last]).map f) = l.foldr (fun o idx => (f o).1 + (f o).2 * idx) (f last).1 := by
  induction l with
  | nil => simp [mixed]
  | cons a t ih =>
    simp only [List.cons_append, List.map_cons, List.foldr_cons]
    rw [← ih]
    rfl

theorem codeIndex_eq_linear (D ix : List Int) (ord : List Nat) : codeIndex D ix ord = linear D ix ord := by
  unfold codeIndex linear
  cases hrev : ord.reverse with
  | nil =>
    have : ord = [] := by simpa using hrev
    subst this; rfl
  | cons last restRev =>
    have hord : ord = restRev.reverse ++ [last] := by
      have := congrArg List.reverse hrev
      simpa using this
    rw [hord, mixed_append_last (fun o => (ix.getD o 0, D.getD o 0))]
    simp only
    rw [List.foldr_reverse]

/-! ### mixed radix: range, injectivity, surjectivity -/

/-- digits in range: `0 ≤ x < d` for every pair -/
def DigitsOk : List (Int × Int) → Prop
  | [] => True
  | (x, d) :: r => 0 ≤ x ∧ x < d ∧ DigitsOk r

theorem mixed_range : ∀ l : List (Int × Int), DigitsOk l → 0 ≤ mixed l ∧ mixed l < prod (l.map Prod.snd)
  | [], _ => by simp [mixed, prod]
  | (x, d) :: r, h => by
    obtain ⟨h0, h1, hr⟩ := h
    obtain ⟨m0, m1⟩ := mixed_range r hr
    simp only [mixed, List.map_cons, prod]
    have hd : 0 < d := by omega
    constructor
    · have := Int.mul_nonneg (Int.le_of_lt hd) m0
      omega
    · have : d * (mixed r + 1) ≤ d * prod (r.map Prod.snd) :=
        Int.mul_le_mul_of_nonneg_left (by omega) (Int.le_of_lt hd)
      have e : d * (mixed r + 1) = d * mixed r + d := by ring
      omega

theorem mixed_inj : ∀ (l l' : List (Int × Int)), l.map Prod.snd = l'.map Prod.snd → DigitsOk l → DigitsOk l' →
    mixed l = mixed l' → l.map Prod.fst = l'.map Prod.fst
  | [], [], _, _, _, _ => rfl
  | [], _ :: _, h, _, _, _ => by simp at h
  | _ :: _, [], h, _, _, _ => by simp at h
  | (x, d) :: r, (x', d') :: r', hd, h, h', he => by
    simp only [List.map_cons, List.cons.injEq] at hd
    obtain ⟨hdd, hrr⟩ := hd
    subst hdd
    obtain ⟨a0, a1, ar⟩ := h
    obtain ⟨b0, b1, br⟩ := h'
    simp only [mixed] at he
    have hx : x = x' := by
      have e1 : (x + d * mixed r) % d = x := by
        rw [Int.add_mul_emod_self_left]; exact Int.emod_eq_of_lt a0 a1
      have e2 : (x' + d * mixed r') % d = x' := by
        rw [Int.add_mul_emod_self_left]; exact Int.emod_eq_of_lt b0 b1
      rw [← e1, ← e2, he]
    subst hx
    have hm : mixed r = mixed r' := by
      have : d * mixed r = d * mixed r' := by omega
      exact Int.eq_of_mul_eq_mul_left (by omega) this
    simp only [List.map_cons, List.cons.injEq, true_and]
    exact mixed_inj r r' hrr ar br hm

/-- decoding: the digits of `v` for the given radices -/
def digits : List Int → Int → List Int
  | [], _ => []
  | d :: r, v => v % d :: digits r (v / d)

theorem digits_length : ∀ (ds : List Int) (v : Int), (digits ds v).length = ds.length
  | [], _ => rfl
  | _ :: r, v => by simp [digits, digits_length r]

theorem mixed_digits : ∀ (ds : List Int) (v : Int), (∀ d ∈ ds, 0 < d) → 0 ≤ v → v < prod ds →
    DigitsOk ((digits ds v).zip ds) ∧ mixed ((digits ds v).zip ds) = v
  | [], v, _, h0, h1 => by
    simp only [prod] at h1
    have : v = 0 := by omega
    simp [digits, DigitsOk, mixed, this]
  | d :: r, v, hpos, h0, h1 => by
    have hd : 0 < d := hpos d (by simp)
    simp only [prod] at h1
    have hq0 : 0 ≤ v / d := Int.ediv_nonneg h0 (Int.le_of_lt hd)
    have hq1 : v / d < prod r := by
      apply Int.ediv_lt_of_lt_mul hd
      rw [Int.mul_comm]; exact h1
    obtain ⟨ok, val⟩ := mixed_digits r (v / d) (fun x hx => hpos x (by simp [hx])) hq0 hq1
    simp only [digits, List.zip_cons_cons, DigitsOk, mixed, val]
    refine ⟨⟨Int.emod_nonneg _ (Int.ne_of_gt hd), Int.emod_lt_of_pos _ hd, ok⟩, ?_⟩
    have := Int.emod_add_mul_ediv v d
    omega

/-! ### permutations -/

theorem prod_perm {l₁ l₂ : List Int} (h : l₁.Perm l₂) : prod l₁ = prod l₂ := by
  induction h with
  | nil => rfl
  | cons x _ ih => simp [prod, ih]
  | swap x y l => simp only [prod]; ring
  | trans _ _ ih1 ih2 => rw [ih1, ih2]

theorem map_getD_range (D : List Int) : (List.range D.length).map (fun o => D.getD o 0) = D := by
  apply List.ext_getElem
  · simp
  · intro i h1 h2
    simp only [List.getElem_map, List.getElem_range]
    rw [List.getD_eq_getElem?_getD, List.getElem?_eq_getElem h2]
    rfl

/-- the radices visited in dimension order have the same product as `D` -/
theorem prod_order (D : List Int) (ord : List Nat) (hp : ord.Perm (List.range D.length)) :
    prod (ord.map fun o => D.getD o 0) = prod D := by
  rw [prod_perm (hp.map _), map_getD_range]

/-- a duplicate-free list of `n` numbers below `n` is a permutation of `0 … n-1` -/
theorem perm_range_of_nodup (l : List Nat) (hn : l.Nodup) (hlt : ∀ x ∈ l, x < l.length) :
    l.Perm (List.range l.length) := by
  have hsub : l ⊆ List.range l.length := fun x hx => List.mem_range.mpr (hlt x hx)
  exact (List.subperm_of_subset hn hsub).perm_of_length_le (by simp)

/-! ### the index tuple in dimension order -/

theorem digitsOk_map (f : Nat → Int × Int) : ∀ l : List Nat, (∀ o ∈ l, 0 ≤ (f o).1 ∧ (f o).1 < (f o).2) → DigitsOk (l.map f)
  | [], _ => trivial
  | a :: r, h => by
    have ha := h a (by simp)
    exact ⟨ha.1, ha.2, digitsOk_map f r (fun o ho => h o (by simp [ho]))⟩

theorem mem_order (D : List Int) (ord : List Nat) (hp : ord.Perm (List.range D.length)) (o : Nat) :
    o ∈ ord ↔ o < D.length := by
  rw [hp.mem_iff, List.mem_range]

theorem digitsOk_order (D ix : List Int) (ord : List Nat) (hp : ord.Perm (List.range D.length)) (hr : InRange D ix) :
    DigitsOk (ord.map fun o => (ix.getD o 0, D.getD o 0)) :=
  digitsOk_map _ ord (fun o ho => hr.2 o ((mem_order D ord hp o).mp ho))

/-! ### dimOrder::isValid -/

theorem orderValidGo_iff (n : Nat) : ∀ (args : List Int) (seen : List Nat),
    orderValidGo n args seen = true ↔
      (∀ a ∈ args, 0 ≤ a ∧ a < n) ∧ (args.map Int.toNat).Nodup ∧ (∀ a ∈ args, a.toNat ∉ seen)
  | [], seen => by simp [orderValidGo]
  | a :: r, seen => by
    unfold orderValidGo
    by_cases h1 : a < 0 ∨ (n : Int) ≤ a
    · have : (a < 0 || (n : Int) ≤ a) = true := by simpa using h1
      simp only [this, if_true]
      constructor
      · intro h; cases h
      · intro ⟨h, _, _⟩
        have := h a (by simp)
        omega
    · have hf : (a < 0 || (n : Int) ≤ a) = false := by
        simp only [Bool.or_eq_false_iff, decide_eq_false_iff_not]
        omega
      simp only [hf, Bool.false_eq_true, if_false]
      by_cases h2 : seen.contains a.toNat = true
      · simp only [h2, if_true]
        constructor
        · intro h; cases h
        · intro ⟨_, _, h⟩
          have := h a (by simp)
          simp only [List.contains_iff_mem] at h2
          exact absurd h2 this
      · simp only [h2, Bool.false_eq_true, if_false]
        rw [orderValidGo_iff n r (a.toNat :: seen)]
        simp only [List.contains_iff_mem] at h2
        constructor
        · intro ⟨g1, g2, g3⟩
          refine ⟨?_, ?_, ?_⟩
          · intro x hx
            rcases List.mem_cons.mp hx with rfl | hx
            · omega
            · exact g1 x hx
          · simp only [List.map_cons, List.nodup_cons]
            refine ⟨?_, g2⟩
            intro hm
            obtain ⟨y, hy, hye⟩ := List.mem_map.mp hm
            have := g3 y hy
            simp only [List.mem_cons, not_or] at this
            exact this.1 hye
          · intro x hx
            rcases List.mem_cons.mp hx with rfl | hx
            · exact h2
            · have := g3 x hx
              simp only [List.mem_cons, not_or] at this
              exact this.2
        · intro ⟨g1, g2, g3⟩
          simp only [List.map_cons, List.nodup_cons] at g2
          refine ⟨fun x hx => g1 x (by simp [hx]), g2.2, ?_⟩
          intro x hx
          simp only [List.mem_cons, not_or]
          refine ⟨?_, g3 x (by simp [hx])⟩
          intro he
          apply g2.1
          rw [← he]
          exact List.mem_map.mpr ⟨x, hx, rfl⟩

end Occa.Dim
