/-
Helper lemmas for C29 (value layer): union members, constructors, primitive conversions,
little-endian bytes, json paths and arrays.
-/
import OccaModel.CApi

namespace Occa.CApi
open Occa.Gen.CTypes

set_option linter.unusedSimpArgs false

/-! ### the union -/

theorem readField_writeField (c : CTy) (g v : Nat) : readField c (writeField c g v) = v % 2 ^ c.bits := by
  unfold readField writeField
  rw [Nat.add_comm, Nat.add_mul_mod_self_right, Nat.mod_mod]

/-- the member written by `newOccaType<c>` has the width of `c` (generated table) -/
theorem field_bits : ∀ c : CTy, ((ctorSpec c).2.2.1).bits = c.bits := by
  intro c; cases c <;> rfl

theorem spec_bytes : ∀ c : CTy, (ctorSpec c).2.1 = c.bytes := by
  intro c; cases c <;> rfl

theorem spec_needsFree : ∀ c : CTy, (ctorSpec c).2.2.2 = false := by
  intro c; cases c <;> rfl

theorem spec_tag_injective : ∀ c c' : CTy, (ctorSpec c).1 = (ctorSpec c').1 → c = c' := by
  intro c c'; cases c <;> cases c' <;> simp [ctorSpec]

theorem argBits_lt (c : CTy) (v : Nat) : argBits c v < 2 ^ c.bits := by
  cases c <;> simp only [argBits, CTy.bits] <;> first | (split <;> omega) | exact Nat.mod_lt _ (by decide)

theorem argBits_idem (c : CTy) (v : Nat) : argBits c (argBits c v) = argBits c v := by
  cases c <;> simp only [argBits, CTy.bits, Nat.mod_mod]
  split <;> simp

theorem ctorTarget_eq : ∀ k : Ctor, ctorTarget k = some k.cParam := by
  intro k; cases k <;> rfl

theorem fromOcca_ofScalar (c : CTy) (g v : Nat) : fromOcca c (ofScalar c g v) = argBits c v := by
  have hb := field_bits c
  have hl := argBits_lt c v
  show readField (ctorSpec c).2.2.1 (writeField (ctorSpec c).2.2.1 g (argBits c v)) = argBits c v
  rw [readField_writeField, hb]
  exact Nat.mod_eq_of_lt hl

/-! ### primitive conversions -/

/-- converting a primitive to its own type returns the same bits (integers: exact arithmetic;
    float/double: the C++ cast is the identity and so is the model, by definition) -/
theorem convTo_self (c : CTy) (x : Nat) (hc : c ≠ .bool) : convTo c c x = x % 2 ^ c.bits := by
  cases c
  · exact absurd rfl hc
  all_goals
    simp only [convTo, CTy.isFloat, intVal, CTy.bits, CTy.isSigned, Bool.false_eq_true, if_false, if_true, Bool.true_and,
      Bool.false_and, decide_eq_true_eq, Nat.reducePow, Nat.reduceSub]
  all_goals first
    | omega
    | (split <;> omega)

theorem convTo_self_bool (v : Nat) : convTo .bool .bool (argBits .bool v) = argBits .bool v := by
  simp only [convTo, CTy.isFloat, intVal, CTy.bits, argBits, Bool.false_eq_true, if_false]
  split <;> simp

theorem convTo_self_arg (c : CTy) (v : Nat) : convTo c c (argBits c v) = argBits c v := by
  by_cases hc : c = .bool
  · subst hc; exact convTo_self_bool v
  · rw [convTo_self c _ hc]; exact Nat.mod_eq_of_lt (argBits_lt c v)

/-! ### integer conversions keep the mathematical value when it fits -/

/-- smallest / largest value of an integer C type -/
def CTy.lo (c : CTy) : Int := if c.isSigned then -(2 ^ (c.bits - 1) : Nat) else 0
def CTy.hi (c : CTy) : Int := if c.isSigned then (2 ^ (c.bits - 1) : Nat) - 1 else (2 ^ c.bits : Nat) - 1

theorem convTo_int_eq (dst src : CTy) (raw : Nat) (hs : src.isFloat = false) (hd : dst.isFloat = false) (hdb : dst ≠ .bool) :
    convTo dst src raw = (intVal src raw % ((2 ^ dst.bits : Nat) : Int)).toNat := by
  unfold convTo
  simp only [hs, Bool.false_eq_true, if_false]
  cases dst <;> first | exact absurd rfl hdb | rfl | (simp [CTy.isFloat] at hd)

private theorem c7 : ((128 : Nat) : Int) = 128 := rfl
private theorem c8 : ((256 : Nat) : Int) = 256 := rfl
private theorem c15 : ((32768 : Nat) : Int) = 32768 := rfl
private theorem c16 : ((65536 : Nat) : Int) = 65536 := rfl
private theorem c31 : ((2147483648 : Nat) : Int) = 2147483648 := rfl
private theorem c32 : ((4294967296 : Nat) : Int) = 4294967296 := rfl
private theorem c63 : ((9223372036854775808 : Nat) : Int) = 9223372036854775808 := rfl
private theorem c64 : ((18446744073709551616 : Nat) : Int) = 18446744073709551616 := rfl

theorem intVal_wrap (dst : CTy) (n : Int) (hd : dst.isFloat = false) (hdb : dst ≠ .bool)
    (hfit : dst.lo ≤ n ∧ n ≤ dst.hi) : intVal dst ((n % ((2 ^ dst.bits : Nat) : Int)).toNat) = n := by
  cases dst <;> first | exact absurd rfl hdb | (simp [CTy.isFloat] at hd; done) | skip
  all_goals
    simp only [CTy.lo, CTy.hi, CTy.bits, CTy.isSigned, Bool.false_eq_true, if_false, if_true, Nat.reducePow, Nat.reduceSub,
      c7, c8, c15, c16, c31, c32, c63, c64] at hfit
    simp only [intVal, CTy.bits, CTy.isSigned, Bool.true_and, Bool.false_and, Bool.false_eq_true, if_false,
      Nat.reducePow, Nat.reduceSub, c8, c16, c32, c64]
    first
      | omega
      | (split <;> rename_i h <;> first
          | (have h' := of_decide_eq_true h; omega)
          | (have h' := of_decide_eq_false (Bool.eq_false_iff.mpr h); omega))

theorem convTo_int_value (dst src : CTy) (raw : Nat) (hs : src.isFloat = false) (hd : dst.isFloat = false)
    (hdb : dst ≠ .bool) (hfit : dst.lo ≤ intVal src raw ∧ intVal src raw ≤ dst.hi) :
    intVal dst (convTo dst src raw) = intVal src raw := by
  rw [convTo_int_eq dst src raw hs hd hdb]
  exact intVal_wrap dst _ hd hdb hfit
/-! ### little-endian bytes -/

def fromLE : List Nat → Nat
  | [] => 0
  | b :: r => b + 256 * fromLE r

theorem leBytes_length (n v : Nat) : (leBytes n v).length = n := by
  induction n generalizing v with
  | zero => rfl
  | succ n ih => simp [leBytes, ih]

theorem leBytes_lt (n v : Nat) : ∀ b ∈ leBytes n v, b < 256 := by
  induction n generalizing v with
  | zero => intro b hb; simp [leBytes] at hb
  | succ n ih =>
    intro b hb
    simp only [leBytes, List.mem_cons] at hb
    rcases hb with rfl | hb
    · exact Nat.mod_lt _ (by decide)
    · exact ih _ b hb

theorem fromLE_leBytes (n v : Nat) : fromLE (leBytes n v) = v % 256 ^ n := by
  induction n generalizing v with
  | zero => simp [leBytes, fromLE, Nat.mod_one]
  | succ n ih =>
    simp only [leBytes, fromLE, ih]
    rw [Nat.pow_succ, Nat.mul_comm (256 ^ n) 256, Nat.mod_mul]

/-! ### json objects -/

theorem lookup_upsert_same (k : Key) (v : J) (kv : List (Key × J)) : lookup k (upsert k v kv) = some v := by
  induction kv with
  | nil => simp [upsert, lookup]
  | cons a r ih =>
    obtain ⟨k', v'⟩ := a
    simp only [upsert]
    split
    · simp [lookup]
    · split
      · simp [lookup]
      · rename_i h _
        simp [lookup, h, ih]

theorem lookup_upsert_other (k k' : Key) (v : J) (kv : List (Key × J)) (h : k' ≠ k) :
    lookup k' (upsert k v kv) = lookup k' kv := by
  induction kv with
  | nil => simp [upsert, lookup, h]
  | cons a r ih =>
    obtain ⟨k2, v2⟩ := a
    simp only [upsert]
    split
    · rename_i h2
      subst h2
      simp [lookup, h]
    · split
      · simp [lookup, h]
      · simp only [lookup]
        split
        · rfl
        · exact ih

/-- the two paths separate at some position (neither is a prefix of the other) -/
def diverge : List Key → List Key → Bool
  | k :: r, k' :: r' => if k = k' then diverge r r' else true
  | _, _ => false

theorem diverge_symm (a b : List Key) : diverge a b = diverge b a := by
  induction a generalizing b with
  | nil => cases b <;> rfl
  | cons k r ih =>
    cases b with
    | nil => rfl
    | cons k' r' =>
      simp only [diverge]
      by_cases h : k = k'
      · subst h; simp [ih]
      · have h' : ¬ k' = k := fun e => h e.symm
        simp [h, h']

theorem diverge_irrefl (a : List Key) : diverge a a = false := by
  induction a with
  | nil => rfl
  | cons k r ih => simp [diverge, ih]

/-- reading back the path just written returns the value written -/
theorem getPath_setPath (ks : List Key) (v j j' : J) (h : setPath ks v j = .ok j') : getPath ks j' = some v := by
  induction ks generalizing j j' with
  | nil =>
    simp only [setPath] at h
    cases h
    rfl
  | cons k ks ih =>
    cases j with
    | none =>
      simp only [setPath] at h
      split at h
      · rename_i c hc
        cases h
        simp only [getPath, lookup, if_true, Option.bind]
        exact ih _ _ hc
      · cases h
    | obj kv =>
      simp only [setPath] at h
      split at h
      · rename_i c hc
        cases h
        simp only [getPath, lookup_upsert_same, Option.bind]
        exact ih _ _ hc
      · cases h
    | null => simp [setPath] at h
    | num p => simp [setPath] at h
    | str s => simp [setPath] at h
    | arr a => simp [setPath] at h

theorem getPath_none_cons (k : Key) (ks : List Key) : getPath (k :: ks) .none = Option.none := rfl

/-- a write leaves every path that separates from the written one as it was -/
theorem getPath_setPath_frame (ks ks' : List Key) (v j j' : J) (h : setPath ks v j = .ok j')
    (hd : diverge ks ks' = true) : getPath ks' j' = getPath ks' j := by
  induction ks generalizing j j' ks' with
  | nil => simp [diverge] at hd
  | cons k ks ih =>
    cases ks' with
    | nil => simp [diverge] at hd
    | cons k' ks' =>
      simp only [diverge] at hd
      cases j with
      | none =>
        simp only [setPath] at h
        split at h
        · rename_i c hc
          cases h
          by_cases hk : k = k'
          · subst hk
            simp only [if_true] at hd
            have := ih ks' .none c hc hd
            simp only [getPath, lookup, if_true, Option.bind, this]
            cases ks' with
            | nil => cases ks <;> simp [diverge] at hd
            | cons _ _ => rfl
          · have hk' : ¬ k' = k := fun e => hk e.symm
            simp [getPath, lookup, hk']
        · cases h
      | obj kv =>
        simp only [setPath] at h
        split at h
        · rename_i c hc
          cases h
          by_cases hk : k = k'
          · subst hk
            simp only [if_true] at hd
            have := ih ks' _ c hc hd
            simp only [getPath, lookup_upsert_same, Option.bind, this]
            cases hl : lookup k kv with
            | none =>
              simp only [Option.getD, Option.bind]
              cases ks' with
              | nil => cases ks <;> simp [diverge] at hd
              | cons _ _ => rfl
            | some x => simp [Option.getD]
          · have hk' : k' ≠ k := fun e => hk e.symm
            simp only [getPath, lookup_upsert_other k k' c kv hk']
        · cases h
      | null => simp [setPath] at h
      | num p => simp [setPath] at h
      | str s => simp [setPath] at h
      | arr a => simp [setPath] at h

/-! ### histories of writes -/

/-- a sequence of `j[path] = value` assignments; stops at the first error -/
def applySets : List (List Key × J) → J → Res J
  | [], j => .ok j
  | (ks, v) :: r, j =>
    match setPath ks v j with
    | .ok j1 => applySets r j1
    | .err => .err

/-- the value of the last assignment to exactly this path -/
def lastWrite (ks : List Key) : List (List Key × J) → Option J
  | [] => Option.none
  | (ks', v) :: r =>
    match lastWrite ks r with
    | some x => some x
    | Option.none => if ks' = ks then some v else Option.none

theorem lastWrite_none (ks : List Key) (ws : List (List Key × J)) (h : lastWrite ks ws = Option.none) :
    ∀ w ∈ ws, w.1 ≠ ks := by
  induction ws with
  | nil => intro w hw; cases hw
  | cons a r ih =>
    obtain ⟨ks', v⟩ := a
    simp only [lastWrite] at h
    split at h
    · cases h
    · rename_i hr
      intro w hw
      simp only [List.mem_cons] at hw
      rcases hw with rfl | hw
      · intro e; simp only [] at e; simp [e] at h
      · exact ih hr w hw

theorem applySets_frame (ws : List (List Key × J)) (ks : List Key) (j j' : J) (h : applySets ws j = .ok j')
    (hd : ∀ w ∈ ws, diverge w.1 ks = true) : getPath ks j' = getPath ks j := by
  induction ws generalizing j with
  | nil => simp only [applySets] at h; cases h; rfl
  | cons a r ih =>
    obtain ⟨ks', v⟩ := a
    simp only [applySets] at h
    split at h
    · rename_i j1 h1
      rw [ih j1 h (fun w hw => hd w (List.mem_cons_of_mem _ hw))]
      exact getPath_setPath_frame ks' ks v j j1 h1 (hd (ks', v) (List.mem_cons_self))
    · cases h

/-! ### handles into a document (paths of keys and positions) -/

theorem resolve_keys (ks : List Key) (j : J) : resolve (ks.map .key) j = getPath ks j := by
  induction ks generalizing j with
  | nil => rfl
  | cons k ks ih =>
    cases j <;> simp only [List.map_cons, resolve, getPath]
    rename_i kv
    cases lookup k kv with
    | none => rfl
    | some c => simp only [Option.bind]; exact ih c

theorem resolve_append (p q : List Step) (j : J) : resolve (p ++ q) j = (resolve p j).bind (resolve q) := by
  induction p generalizing j with
  | nil => simp [resolve]
  | cons s p ih =>
    cases s with
    | key k =>
      cases j <;> simp only [List.cons_append, resolve, Option.bind]
      rename_i kv
      cases lookup k kv with
      | none => rfl
      | some c => simp only; exact ih c
    | idx n =>
      cases j <;> simp only [List.cons_append, resolve, Option.bind]
      rename_i a
      cases a[n]? with
      | none => rfl
      | some c => simp only; exact ih c

/-- replacing the node a handle designates: the handle then designates the new node -/
theorem resolve_modifyAt (p : List Step) (f : J → J) (j j' : J) (h : modifyAt p f j = some j') :
    resolve p j' = (resolve p j).map f := by
  induction p generalizing j j' with
  | nil => simp only [modifyAt] at h; cases h; rfl
  | cons s p ih =>
    cases s with
    | key k =>
      cases j <;> simp only [modifyAt] at h <;> try (cases h)
      rename_i kv
      split at h
      · rename_i c hc
        cases hm : modifyAt p f c with
        | none => simp [hm] at h
        | some c' =>
          simp only [hm, Option.map] at h
          cases h
          simp only [resolve, lookup_upsert_same, hc, Option.bind]
          exact ih c c' hm
      · cases h
    | idx n =>
      cases j <;> simp only [modifyAt] at h <;> try (cases h)
      rename_i a
      split at h
      · rename_i c hc
        cases hm : modifyAt p f c with
        | none => simp [hm] at h
        | some c' =>
          simp only [hm, Option.map] at h
          cases h
          have hn : n < a.length := by
            rcases Nat.lt_or_ge n a.length with h1 | h1
            · exact h1
            · rw [List.getElem?_eq_none h1] at hc; cases hc
          simp only [resolve, hc, Option.bind, List.getElem?_set_self hn]
          exact ih c c' hm
      · cases h
/-! ### json arrays -/

theorem growTo_get (a : List J) (n i : Nat) (h : i < a.length) : (growTo a n)[i]? = a[i]? := by
  unfold growTo
  split
  · rfl
  · rw [List.append_assoc, List.getElem?_append_left h]

theorem growTo_target (a : List J) (n : Nat) (h : a.length ≤ n) : (growTo a n)[n]? = some .none := by
  unfold growTo
  have : ¬ n < a.length := by omega
  simp only [this, if_false]
  have hl : (a ++ List.replicate (n - a.length) J.null).length = n := by simp; omega
  rw [List.getElem?_append_right (by omega)]
  simp [hl]

theorem insertAt_get (a : List J) (i : Nat) (v : J) (h : i ≤ a.length) : (insertAt a i v)[i]? = some v := by
  unfold insertAt
  have hl : (a.take i).length = i := by simp; omega
  rw [List.getElem?_append_right (by omega)]
  simp [hl]

theorem insertAt_before (a : List J) (i k : Nat) (v : J) (h : k < i) (hi : i ≤ a.length) :
    (insertAt a i v)[k]? = a[k]? := by
  unfold insertAt
  have hl : (a.take i).length = i := by simp; omega
  rw [List.getElem?_append_left (by omega)]
  simp [List.getElem?_take, h]

theorem insertAt_after (a : List J) (i k : Nat) (v : J) (h : i ≤ k) (hi : i ≤ a.length) :
    (insertAt a i v)[k + 1]? = a[k]? := by
  unfold insertAt
  have hl : (a.take i).length = i := by simp; omega
  rw [List.getElem?_append_right (by omega), hl]
  have : k + 1 - i = (k - i) + 1 := by omega
  rw [this, List.getElem?_cons_succ, List.getElem?_drop]
  congr 1
  omega

end Occa.CApi
