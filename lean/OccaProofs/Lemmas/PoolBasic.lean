/-
Arithmetic of the rounding expressions, list-of-bytes lemmas (memcpy / readAt) and the small
list functions of OccaModel/Pool.lean.  Helper lemmas for C03/C04/C05.
-/
import OccaModel.Pool

namespace Occa.Pool

/-! ### rounding -/

theorem rdn_le (a x : Nat) : rdn a x ≤ x := Nat.div_mul_le_self x a

theorem rdn_dvd (a x : Nat) : a ∣ rdn a x := ⟨x / a, Nat.mul_comm _ _⟩
theorem rup_dvd (a x : Nat) : a ∣ rup a x := ⟨(x + a - 1) / a, Nat.mul_comm _ _⟩

theorem lt_rdn_add {a : Nat} (h : 0 < a) (x : Nat) : x < rdn a x + a := by
  unfold rdn
  have h1 := Nat.div_add_mod x a
  have h2 := Nat.mod_lt x h
  have h3 : x / a * a = a * (x / a) := Nat.mul_comm _ _
  omega

theorem le_rup {a : Nat} (h : 0 < a) (x : Nat) : x ≤ rup a x := by
  unfold rup
  have h1 := Nat.div_add_mod (x + a - 1) a
  have h2 := Nat.mod_lt (x + a - 1) h
  have h3 : (x + a - 1) / a * a = a * ((x + a - 1) / a) := Nat.mul_comm _ _
  omega

theorem rup_lt_add {a : Nat} (h : 0 < a) (x : Nat) : rup a x < x + a := by
  unfold rup
  have h1 := Nat.div_add_mod (x + a - 1) a
  have h3 : (x + a - 1) / a * a = a * ((x + a - 1) / a) := Nat.mul_comm _ _
  omega

theorem rdn_mono (a : Nat) {x y : Nat} (h : x ≤ y) : rdn a x ≤ rdn a y :=
  Nat.mul_le_mul_right a (Nat.div_le_div_right h)

theorem rup_mono (a : Nat) {x y : Nat} (h : x ≤ y) : rup a x ≤ rup a y :=
  Nat.mul_le_mul_right a (Nat.div_le_div_right (by omega))

theorem rdn_add_of_dvd {a o : Nat} (h : 0 < a) (hd : a ∣ o) (y : Nat) : rdn a (o + y) = o + rdn a y := by
  obtain ⟨k, rfl⟩ := hd
  unfold rdn
  rw [Nat.mul_add_div h, Nat.add_mul, Nat.mul_comm k a]

theorem rup_add_of_dvd {a o : Nat} (h : 0 < a) (hd : a ∣ o) (y : Nat) : rup a (o + y) = o + rup a y := by
  obtain ⟨k, rfl⟩ := hd
  unfold rup
  have e : a * k + y + a - 1 = a * k + (y + a - 1) := by omega
  rw [e, Nat.mul_add_div h, Nat.add_mul, Nat.mul_comm k a]

theorem rdn_of_dvd {a x : Nat} (h : 0 < a) (hd : a ∣ x) : rdn a x = x := by
  have := rdn_add_of_dvd h hd 0
  simpa [rdn] using this

theorem rup_of_dvd {a x : Nat} (h : 0 < a) (hd : a ∣ x) : rup a x = x := by
  have := rup_add_of_dvd h hd 0
  have z : rup a 0 = 0 := by
    unfold rup
    have : (0 + a - 1) / a = 0 := Nat.div_eq_of_lt (by omega)
    rw [this]; simp
  rw [z] at this
  simpa using this

theorem rdn_lt_of_lt {a x h : Nat} (hx : x < h) : rdn a x < h := by
  have := rdn_le a x; omega

/-- a multiple of `a` that is `≥ x` is `≥ rup a x` -/
theorem rup_le_of_dvd {a x m : Nat} (ha : 0 < a) (hd : a ∣ m) (hx : x ≤ m) : rup a x ≤ m := by
  have := rup_mono a hx
  rwa [rup_of_dvd ha hd] at this

/-- a multiple of `a` that is `≤ x` is `≤ rdn a x` -/
theorem le_rdn_of_dvd {a x m : Nat} (ha : 0 < a) (hd : a ∣ m) (hx : m ≤ x) : m ≤ rdn a x := by
  have := rdn_mono a hx
  rwa [rdn_of_dvd ha hd] at this

theorem rup_sub_of_dvd {a lo hi : Nat} (ha : 0 < a) (hd : a ∣ lo) (h : lo ≤ hi) :
    rup a (hi - lo) = rup a hi - lo := by
  have e : hi = lo + (hi - lo) := by omega
  have := rup_add_of_dvd ha hd (hi - lo)
  rw [← e] at this
  omega

theorem rdn_sub_of_dvd {a lo x : Nat} (ha : 0 < a) (hd : a ∣ lo) (h : lo ≤ x) :
    rdn a (x - lo) = rdn a x - lo := by
  have e : x = lo + (x - lo) := by omega
  have := rdn_add_of_dvd ha hd (x - lo)
  rw [← e] at this
  omega

theorem rup_max (a x y : Nat) : rup a (max x y) = max (rup a x) (rup a y) := by
  rcases Nat.le_total x y with h | h
  · have := rup_mono a h
    rw [Nat.max_eq_right h, Nat.max_eq_right this]
  · have := rup_mono a h
    rw [Nat.max_eq_left h, Nat.max_eq_left this]

theorem rdn_sub_self_lt {a : Nat} (ha : 0 < a) (x : Nat) : x - rdn a x < a := by
  have := lt_rdn_add ha x; have := rdn_le a x; omega

theorem rdn_eq_zero_of_lt {a x : Nat} (h : x < a) : rdn a x = 0 := by
  unfold rdn; rw [Nat.div_eq_of_lt h]; simp

/-! ### bytes -/

theorem length_zeros (n : Nat) : (zeros n).length = n := by simp [zeros]

theorem length_memcpy (dst : List Byte) (d : Nat) (src : List Byte) (s n : Nat)
    (hd : d + n ≤ dst.length) (hs : s + n ≤ src.length) : (memcpy dst d src s n).length = dst.length := by
  simp [memcpy]; omega

theorem getElem?_memcpy (dst : List Byte) (d : Nat) (src : List Byte) (s n : Nat)
    (hd : d + n ≤ dst.length) (hs : s + n ≤ src.length) (i : Nat) :
    (memcpy dst d src s n)[i]? = if d ≤ i ∧ i < d + n then src[s + (i - d)]? else dst[i]? := by
  unfold memcpy
  by_cases h1 : i < d
  · have : ¬ (d ≤ i ∧ i < d + n) := by omega
    rw [if_neg this, List.getElem?_append_left (by simp; omega), List.getElem?_take_of_lt h1]
  · rw [List.getElem?_append_right (by simp; omega)]
    have l1 : (dst.take d).length = d := by simp; omega
    rw [l1]
    by_cases h2 : i < d + n
    · rw [if_pos ⟨by omega, h2⟩, List.getElem?_append_left (by simp; omega),
          List.getElem?_take_of_lt (by omega), List.getElem?_drop]
    · have : ¬ (d ≤ i ∧ i < d + n) := by omega
      rw [if_neg this, List.getElem?_append_right (by simp; omega)]
      have l2 : ((src.drop s).take n).length = n := by simp; omega
      rw [l2, List.getElem?_drop]
      congr 1; omega

theorem length_readAt (b : List Byte) (off n : Nat) (h : off + n ≤ b.length) : (readAt b off n).length = n := by
  simp [readAt]; omega

theorem getElem?_readAt (b : List Byte) (off n i : Nat) :
    (readAt b off n)[i]? = if i < n then b[off + i]? else none := by
  unfold readAt
  by_cases h : i < n
  · rw [if_pos h, List.getElem?_take_of_lt h, List.getElem?_drop]
  · rw [if_neg h, List.getElem?_take_eq_none (by omega)]

/-- two windows are equal when they agree position by position -/
theorem readAt_eq_of_forall (b b' : List Byte) (off off' n : Nat)
    (h : ∀ i, i < n → b'[off' + i]? = b[off + i]?) : readAt b' off' n = readAt b off n := by
  apply List.ext_getElem?
  intro i
  rw [getElem?_readAt, getElem?_readAt]
  by_cases hi : i < n
  · rw [if_pos hi, if_pos hi, h i hi]
  · rw [if_neg hi, if_neg hi]

/-! ### reservation lists -/

theorem mem_insertResv (m x : Resv) (l : List Resv) : x ∈ insertResv m l ↔ x = m ∨ x ∈ l := by
  induction l with
  | nil => simp [insertResv]
  | cons y ys ih =>
    unfold insertResv
    split
    · simp [ih, or_left_comm]
    · simp

theorem insertResv_perm (m : Resv) (l : List Resv) : (insertResv m l).Perm (m :: l) := by
  induction l with
  | nil => simp [insertResv]
  | cons y ys ih =>
    unfold insertResv
    split
    · exact (List.Perm.cons y ih).trans (List.Perm.swap m y ys)
    · exact List.Perm.refl _

theorem length_insertResv (m : Resv) (l : List Resv) : (insertResv m l).length = l.length + 1 := by
  simpa using (insertResv_perm m l).length_eq

/-- sorted by offset -/
def OffSorted (l : List Resv) : Prop := l.Pairwise (fun x y => x.off ≤ y.off)

theorem offSorted_insertResv (m : Resv) (l : List Resv) (h : OffSorted l) : OffSorted (insertResv m l) := by
  induction l with
  | nil => simp [insertResv, OffSorted]
  | cons y ys ih =>
    unfold OffSorted at h ⊢
    rw [List.pairwise_cons] at h
    unfold insertResv
    split
    · rename_i hk
      rw [List.pairwise_cons]
      refine ⟨?_, ih h.2⟩
      intro z hz
      rcases (mem_insertResv m z ys).1 hz with rfl | hz
      · unfold keyLe at hk; omega
      · exact h.1 z hz
    · rename_i hk
      rw [List.pairwise_cons, List.pairwise_cons]
      refine ⟨?_, h⟩
      intro z hz
      have hmy : m.off ≤ y.off := by unfold keyLe at hk; omega
      rcases List.mem_cons.1 hz with rfl | hz
      · exact hmy
      · exact Nat.le_trans hmy (h.1 z hz)

theorem mem_eraseSlot {k : Nat} {x : Resv} {l : List Resv} (h : x ∈ eraseSlot k l) : x ∈ l := by
  induction l with
  | nil => simp [eraseSlot] at h
  | cons y ys ih =>
    unfold eraseSlot at h
    split at h
    · exact List.mem_cons_of_mem _ h
    · rcases List.mem_cons.1 h with rfl | h
      · exact List.mem_cons_self
      · exact List.mem_cons_of_mem _ (ih h)

theorem eraseSlot_sublist (k : Nat) (l : List Resv) : (eraseSlot k l).Sublist l := by
  induction l with
  | nil => simp [eraseSlot]
  | cons y ys ih =>
    unfold eraseSlot
    split
    · exact List.sublist_cons_self y ys
    · exact ih.cons_cons y

theorem findSlot_some {k : Nat} {l : List Resv} {r : Resv} (h : findSlot k l = some r) : r ∈ l ∧ r.slot = k := by
  induction l with
  | nil => simp [findSlot] at h
  | cons y ys ih =>
    unfold findSlot at h
    split at h
    · rename_i hy
      cases h
      exact ⟨List.mem_cons_self, hy⟩
    · exact ⟨List.mem_cons_of_mem _ (ih h).1, (ih h).2⟩

theorem findSlot_none {k : Nat} {l : List Resv} (h : findSlot k l = none) : ∀ r ∈ l, r.slot ≠ k := by
  induction l with
  | nil => simp
  | cons y ys ih =>
    unfold findSlot at h
    split at h
    · cases h
    · rename_i hy
      intro r hr
      rcases List.mem_cons.1 hr with rfl | hr
      · exact hy
      · exact ih h r hr

/-- erasing the (unique) element with slot `k`: the list is a permutation of `r :: rest` -/
theorem eraseSlot_perm {k : Nat} {l : List Resv} {r : Resv} (h : findSlot k l = some r) :
    l.Perm (r :: eraseSlot k l) := by
  induction l with
  | nil => simp [findSlot] at h
  | cons y ys ih =>
    unfold findSlot at h
    unfold eraseSlot
    split at h
    · rename_i hy
      cases h
      rw [if_pos hy]
    · rename_i hy
      rw [if_neg hy]
      exact (List.Perm.cons y (ih h)).trans (List.Perm.swap r y _)

end Occa.Pool
