/-
The block sweep of resize()/setAlignment() (`sweepGo`, `sweep`, `applyCopies`): every reservation is
moved rigidly together with the block copy that contains it, the block copies are ordered and
pairwise disjoint in the old and in the new buffer, so every reservation reads back the same
bytes and two byte positions coincide after packing iff they coincided before.
-/
import OccaProofs.Lemmas.PoolBasic
import Mathlib.Data.List.Forall2

namespace Occa.Pool

/-- `m'` is `m` moved together with one of the block copies -/
def Moved (cps : List Copy) (m m' : Resv) : Prop :=
  m'.slot = m.slot ∧ m'.size = m.size ∧ m'.fam = m.fam ∧
  ∃ c ∈ cps, c.src ≤ m.off ∧ m.off + m.size ≤ c.src + c.len ∧ m'.off = c.dst + (m.off - c.src)

theorem Moved.mono {cps cps' : List Copy} {m m' : Resv} (h : Moved cps m m') (hs : ∀ c ∈ cps, c ∈ cps') :
    Moved cps' m m' := by
  obtain ⟨h1, h2, h3, c, hc, h4⟩ := h
  exact ⟨h1, h2, h3, c, hs c hc, h4⟩

/-- block copies go left to right, in both buffers, without overlap -/
def CopiesOrdered (cps : List Copy) : Prop :=
  cps.Pairwise (fun c c' => c.src + c.len ≤ c'.src ∧ c.dst + c.len ≤ c'.dst)

/-- assumptions on the block-start function -/
structure StOK (st : Nat → Nat) : Prop where
  le : ∀ x, st x ≤ x
  mono : ∀ x y, x ≤ y → st x ≤ st y

theorem stOK_id : StOK id := ⟨fun _ => Nat.le_refl _, fun _ _ h => h⟩
theorem stOK_rdn (a : Nat) : StOK (rdn a) := ⟨rdn_le a, fun _ _ h => rdn_mono a h⟩

structure GoSpec (lo hi offset : Nat) (ms : List Resv) (r : SweepOut) : Prop where
  head : ∃ c0 rest, r.copies = c0 :: rest ∧ c0.dst = offset ∧ c0.src = lo ∧ hi - lo ≤ c0.len
  lower : ∀ c ∈ r.copies, lo ≤ c.src ∧ offset ≤ c.dst
  ordered : CopiesOrdered r.copies
  bound : ∀ c ∈ r.copies, c.dst + c.len ≤ offset + r.total
  moved : List.Forall₂ (Moved r.copies) ms r.resv

theorem sweepGo_spec {a : Nat} (ha : 0 < a) {st : Nat → Nat} (hst : StOK st) :
    ∀ (ms : List Resv) (lo hi offset : Nat), lo ≤ hi → (∀ m ∈ ms, lo ≤ st m.off) → OffSorted ms →
      GoSpec lo hi offset ms (sweepGo a st lo hi offset ms) := by
  intro ms
  induction ms with
  | nil =>
    intro lo hi offset hlh _ _
    unfold sweepGo
    refine ⟨⟨_, [], rfl, rfl, rfl, Nat.le_refl _⟩, ?_, ?_, ?_, List.Forall₂.nil⟩
    · intro c hc; simp at hc; subst hc; exact ⟨Nat.le_refl _, Nat.le_refl _⟩
    · simp [CopiesOrdered]
    · intro c hc; simp at hc; subst hc
      have := le_rup ha (hi - lo)
      show offset + (hi - lo) ≤ offset + rup a (hi - lo)
      omega
  | cons m ms ih =>
    intro lo hi offset hlh hlow hsort
    have hsort' : OffSorted ms := (List.pairwise_cons.1 hsort).2
    have hmle : ∀ x ∈ ms, m.off ≤ x.off := (List.pairwise_cons.1 hsort).1
    have hlom : lo ≤ st m.off := hlow m List.mem_cons_self
    have hstm : st m.off ≤ m.off := hst.le m.off
    unfold sweepGo
    split
    · -- a new block starts at `m`
      rename_i hnew
      have hrec := ih (st m.off) (m.off + m.size) (offset + rup a (hi - lo)) (by omega)
        (fun x hx => hst.mono _ _ (hmle x hx)) hsort'
      obtain ⟨c0, rest, hc0, hd0, hs0, hl0⟩ := hrec.head
      have hrup := le_rup ha (hi - lo)
      refine ⟨⟨_, _, rfl, rfl, rfl, Nat.le_refl _⟩, ?_, ?_, ?_, ?_⟩
      · intro c hc
        rcases List.mem_cons.1 hc with rfl | hc
        · exact ⟨Nat.le_refl _, Nat.le_refl _⟩
        · have := hrec.lower c hc
          exact ⟨by omega, by omega⟩
      · unfold CopiesOrdered
        rw [List.pairwise_cons]
        refine ⟨?_, hrec.ordered⟩
        intro c hc
        have := hrec.lower c hc
        show lo + (hi - lo) ≤ c.src ∧ offset + (hi - lo) ≤ c.dst
        exact ⟨by omega, by omega⟩
      · intro c hc
        rcases List.mem_cons.1 hc with rfl | hc
        · show offset + (hi - lo) ≤ offset + (rup a (hi - lo) + _)
          omega
        · have := hrec.bound c hc
          show c.dst + c.len ≤ offset + (rup a (hi - lo) + _)
          omega
      · refine List.Forall₂.cons ?_ (hrec.moved.imp fun _ _ h => h.mono fun c hc => List.mem_cons_of_mem _ hc)
        refine ⟨rfl, rfl, rfl, c0, List.mem_cons_of_mem _ (by rw [hc0]; exact List.mem_cons_self), ?_, ?_, ?_⟩
        · omega
        · omega
        · show offset + rup a (hi - lo) + (m.off - st m.off) = c0.dst + (m.off - c0.src)
          rw [hd0, hs0]
    · -- `m` joins the current block
      rename_i hjoin
      have hrec := ih lo (max hi (m.off + m.size)) offset (by omega)
        (fun x hx => Nat.le_trans hlom (hst.mono _ _ (hmle x hx))) hsort'
      obtain ⟨c0, rest, hc0, hd0, hs0, hl0⟩ := hrec.head
      refine ⟨⟨c0, rest, hc0, hd0, hs0, by omega⟩, hrec.lower, hrec.ordered, hrec.bound, ?_⟩
      refine List.Forall₂.cons ?_ hrec.moved
      refine ⟨rfl, rfl, rfl, c0, by rw [hc0]; exact List.mem_cons_self, ?_, ?_, ?_⟩
      · omega
      · omega
      · show offset + (m.off - lo) = c0.dst + (m.off - c0.src)
        rw [hd0, hs0]

structure SweepSpec (l : List Resv) (r : SweepOut) : Prop where
  ordered : CopiesOrdered r.copies
  bound : ∀ c ∈ r.copies, c.dst + c.len ≤ r.total
  moved : List.Forall₂ (Moved r.copies) l r.resv

theorem sweep_spec {a : Nat} (ha : 0 < a) {st : Nat → Nat} (hst : StOK st) (m : Resv) (ms : List Resv)
    (hsort : OffSorted (m :: ms)) : SweepSpec (m :: ms) (sweep a st m ms) := by
  have hsort' : OffSorted ms := (List.pairwise_cons.1 hsort).2
  have hmle : ∀ x ∈ ms, m.off ≤ x.off := (List.pairwise_cons.1 hsort).1
  have hstm : st m.off ≤ m.off := hst.le m.off
  have hrec := sweepGo_spec ha hst ms (st m.off) (m.off + m.size) 0 (by omega)
    (fun x hx => hst.mono _ _ (hmle x hx)) hsort'
  obtain ⟨c0, rest, hc0, hd0, hs0, hl0⟩ := hrec.head
  unfold sweep
  refine ⟨hrec.ordered, ?_, ?_⟩
  · intro c hc
    have := hrec.bound c hc
    show c.dst + c.len ≤ (sweepGo a st (st m.off) (m.off + m.size) 0 ms).total
    omega
  · refine List.Forall₂.cons ?_ hrec.moved
    refine ⟨rfl, rfl, rfl, c0, by rw [hc0]; exact List.mem_cons_self, ?_, ?_, ?_⟩
    · omega
    · omega
    · show 0 + (m.off - st m.off) = c0.dst + (m.off - c0.src)
      rw [hd0, hs0]

/-! ### order of the rebased list -/

theorem sweepGo_sorted {a : Nat} (ha : 0 < a) {st : Nat → Nat} (hst : StOK st) :
    ∀ (ms : List Resv) (lo hi offset b : Nat), lo ≤ b → b ≤ hi → (∀ m ∈ ms, b ≤ m.off) →
      (∀ m ∈ ms, lo ≤ st m.off) → OffSorted ms →
      OffSorted (sweepGo a st lo hi offset ms).resv ∧
      ∀ r ∈ (sweepGo a st lo hi offset ms).resv, offset + (b - lo) ≤ r.off := by
  intro ms
  induction ms with
  | nil =>
    intro lo hi offset b _ _ _ _ _
    unfold sweepGo
    simp [OffSorted]
  | cons m ms ih =>
    intro lo hi offset b hlb hbh hb hlow hsort
    have hsort' : OffSorted ms := (List.pairwise_cons.1 hsort).2
    have hmle : ∀ x ∈ ms, m.off ≤ x.off := (List.pairwise_cons.1 hsort).1
    have hlom : lo ≤ st m.off := hlow m List.mem_cons_self
    have hstm : st m.off ≤ m.off := hst.le m.off
    have hbm : b ≤ m.off := hb m List.mem_cons_self
    unfold sweepGo
    split
    · rename_i hnew
      have hrec := ih (st m.off) (m.off + m.size) (offset + rup a (hi - lo)) m.off hstm (by omega) hmle
        (fun x hx => hst.mono _ _ (hmle x hx)) hsort'
      have hrup := le_rup ha (hi - lo)
      constructor
      · show OffSorted (_ :: _)
        unfold OffSorted
        rw [List.pairwise_cons]
        exact ⟨fun r hr => hrec.2 r hr, hrec.1⟩
      · intro r hr
        rcases List.mem_cons.1 hr with rfl | hr
        · show offset + (b - lo) ≤ offset + rup a (hi - lo) + (m.off - st m.off)
          omega
        · have := hrec.2 r hr
          omega
    · rename_i hjoin
      have hrec := ih lo (max hi (m.off + m.size)) offset m.off (by omega) (by omega) hmle
        (fun x hx => Nat.le_trans hlom (hst.mono _ _ (hmle x hx))) hsort'
      constructor
      · show OffSorted (_ :: _)
        unfold OffSorted
        rw [List.pairwise_cons]
        exact ⟨fun r hr => hrec.2 r hr, hrec.1⟩
      · intro r hr
        rcases List.mem_cons.1 hr with rfl | hr
        · show offset + (b - lo) ≤ offset + (m.off - lo)
          omega
        · have := hrec.2 r hr
          omega

theorem sweep_sorted {a : Nat} (ha : 0 < a) {st : Nat → Nat} (hst : StOK st) (m : Resv) (ms : List Resv)
    (hsort : OffSorted (m :: ms)) : OffSorted (sweep a st m ms).resv := by
  have hsort' : OffSorted ms := (List.pairwise_cons.1 hsort).2
  have hmle : ∀ x ∈ ms, m.off ≤ x.off := (List.pairwise_cons.1 hsort).1
  have hstm : st m.off ≤ m.off := hst.le m.off
  have hrec := sweepGo_sorted ha hst ms (st m.off) (m.off + m.size) 0 m.off hstm (by omega) hmle
    (fun x hx => hst.mono _ _ (hmle x hx)) hsort'
  unfold sweep
  show OffSorted (_ :: _)
  unfold OffSorted
  rw [List.pairwise_cons]
  exact ⟨fun r hr => hrec.2 r hr, hrec.1⟩

/-! ### the bytes -/

theorem applyCopies_cons (old : List Byte) (c : Copy) (cs : List Copy) (init : List Byte) :
    applyCopies old (c :: cs) init = applyCopies old cs (memcpy init c.dst old c.src c.len) := rfl

theorem applyCopies_length (old : List Byte) :
    ∀ (cps : List Copy) (init : List Byte),
      (∀ c ∈ cps, c.dst + c.len ≤ init.length ∧ c.src + c.len ≤ old.length) →
      (applyCopies old cps init).length = init.length := by
  intro cps
  induction cps with
  | nil => intro init _; rfl
  | cons c cs ih =>
    intro init h
    have hc := h c List.mem_cons_self
    have hl := length_memcpy init c.dst old c.src c.len hc.1 hc.2
    rw [applyCopies_cons, ih _ (fun x hx => by rw [hl]; exact h x (List.mem_cons_of_mem _ hx)), hl]

/-- positions to the left of every remaining copy keep their value -/
theorem applyCopies_untouched (old : List Byte) :
    ∀ (cps : List Copy) (init : List Byte) (j : Nat),
      (∀ c ∈ cps, c.dst + c.len ≤ init.length ∧ c.src + c.len ≤ old.length) →
      (∀ c ∈ cps, j < c.dst) → (applyCopies old cps init)[j]? = init[j]? := by
  intro cps
  induction cps with
  | nil => intro init j _ _; rfl
  | cons c cs ih =>
    intro init j h hj
    have hc := h c List.mem_cons_self
    have hl := length_memcpy init c.dst old c.src c.len hc.1 hc.2
    rw [applyCopies_cons, ih _ j (fun x hx => by rw [hl]; exact h x (List.mem_cons_of_mem _ hx))
      (fun x hx => hj x (List.mem_cons_of_mem _ hx)), getElem?_memcpy _ _ _ _ _ hc.1 hc.2]
    have := hj c List.mem_cons_self
    rw [if_neg (by omega)]

theorem applyCopies_get (old : List Byte) :
    ∀ (cps : List Copy) (init : List Byte), CopiesOrdered cps →
      (∀ c ∈ cps, c.dst + c.len ≤ init.length ∧ c.src + c.len ≤ old.length) →
      ∀ c ∈ cps, ∀ i, i < c.len → (applyCopies old cps init)[c.dst + i]? = old[c.src + i]? := by
  intro cps
  induction cps with
  | nil => intro _ _ _ c hc; simp at hc
  | cons c0 cs ih =>
    intro init hord h c hc i hi
    have hc0 := h c0 List.mem_cons_self
    have hl := length_memcpy init c0.dst old c0.src c0.len hc0.1 hc0.2
    have hord' := List.pairwise_cons.1 hord
    have h' : ∀ x ∈ cs, x.dst + x.len ≤ (memcpy init c0.dst old c0.src c0.len).length ∧ x.src + x.len ≤ old.length :=
      fun x hx => by rw [hl]; exact h x (List.mem_cons_of_mem _ hx)
    rw [applyCopies_cons]
    rcases List.mem_cons.1 hc with rfl | hc
    · rw [applyCopies_untouched old cs _ (c.dst + i) h' (fun x hx => by have := (hord'.1 x hx).2; omega),
        getElem?_memcpy _ _ _ _ _ hc0.1 hc0.2, if_pos ⟨by omega, by omega⟩]
      congr 1; omega
    · exact ih _ hord'.2 h' c hc i hi

/-- two members of an ordered copy list are the same copy or lie strictly one after the other -/
theorem copies_trichotomy {cps : List Copy} (hord : CopiesOrdered cps) :
    ∀ c ∈ cps, ∀ c' ∈ cps, c = c' ∨ (c.src + c.len ≤ c'.src ∧ c.dst + c.len ≤ c'.dst) ∨
      (c'.src + c'.len ≤ c.src ∧ c'.dst + c'.len ≤ c.dst) := by
  induction cps with
  | nil => intro c hc; simp at hc
  | cons x xs ih =>
    have hord' := List.pairwise_cons.1 hord
    intro c hc c' hc'
    rcases List.mem_cons.1 hc with h1 | h1
    · rcases List.mem_cons.1 hc' with h2 | h2
      · exact Or.inl (h1.trans h2.symm)
      · exact Or.inr (Or.inl (h1 ▸ hord'.1 c' h2))
    · rcases List.mem_cons.1 hc' with h2 | h2
      · exact Or.inr (Or.inr (h2 ▸ hord'.1 c h1))
      · exact ih hord'.2 c h1 c' h2

/-- contents: a moved reservation reads back the same bytes from the new buffer -/
theorem moved_reads_same {old : List Byte} {cps : List Copy} {init : List Byte} {m m' : Resv}
    (hord : CopiesOrdered cps)
    (hin : ∀ c ∈ cps, c.dst + c.len ≤ init.length ∧ c.src + c.len ≤ old.length)
    (hm : Moved cps m m') :
    readAt (applyCopies old cps init) m'.off m'.size = readAt old m.off m.size := by
  obtain ⟨_, hsz, _, c, hc, h1, h2, h3⟩ := hm
  rw [hsz]
  apply readAt_eq_of_forall
  intro i hi
  have := applyCopies_get old cps init hord hin c hc (m.off - c.src + i) (by omega)
  rw [h3]
  have e1 : c.dst + (m.off - c.src) + i = c.dst + (m.off - c.src + i) := by omega
  have e2 : c.src + (m.off - c.src + i) = m.off + i := by omega
  rw [e1, this, e2]

/-- aliasing: byte `i` of `m₁` and byte `j` of `m₂` are the same byte after packing iff they
    were the same byte before -/
theorem moved_same_position {cps : List Copy} {m₁ m₁' m₂ m₂' : Resv} (hord : CopiesOrdered cps)
    (h₁ : Moved cps m₁ m₁') (h₂ : Moved cps m₂ m₂') (i j : Nat) (hi : i < m₁.size) (hj : j < m₂.size) :
    m₁'.off + i = m₂'.off + j ↔ m₁.off + i = m₂.off + j := by
  obtain ⟨_, _, _, c₁, hc₁, a1, a2, a3⟩ := h₁
  obtain ⟨_, _, _, c₂, hc₂, b1, b2, b3⟩ := h₂
  rcases copies_trichotomy hord c₁ hc₁ c₂ hc₂ with rfl | h | h
  · omega
  · omega
  · omega

end Occa.Pool
