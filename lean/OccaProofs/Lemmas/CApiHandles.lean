/-
Helper lemmas for C29 (handle table): the ownership discipline on variable names (PState) simulates
the pointer-level machine (HState) without ever reaching a trap, and released groups account for
every allocated object.
-/
import OccaModel.CApiHandles

namespace Occa.CApi
open Occa.Gen.CTypes

@[simp] theorem setSlot_slots (h : HState) (s : Nat) (v : HSlot) (x : Nat) :
    (h.setSlot s v).slots x = if x = s then some v else h.slots x := rfl
@[simp] theorem setSlot_alloc (h : HState) (s : Nat) (v : HSlot) : (h.setSlot s v).alloc = h.alloc := rfl
@[simp] theorem setSlot_next (h : HState) (s : Nat) (v : HSlot) : (h.setSlot s v).next = h.next := rfl
@[simp] theorem setAlloc_slots (h : HState) (o : Nat) (b : Bool) : (h.setAlloc o b).slots = h.slots := rfl
@[simp] theorem setAlloc_alloc (h : HState) (o : Nat) (b : Bool) (x : Nat) :
    (h.setAlloc o b).alloc x = if x = o then b else h.alloc x := rfl
@[simp] theorem setAlloc_next (h : HState) (o : Nat) (b : Bool) : (h.setAlloc o b).next = h.next := rfl
@[simp] theorem setVar_vars (p : PState) (s : Nat) (v : PVar) (x : Nat) :
    (p.setVar s v).vars x = if x = s then some v else p.vars x := rfl
@[simp] theorem setVar_retired (p : PState) (s : Nat) (v : PVar) : (p.setVar s v).retired = p.retired := rfl
@[simp] theorem setVar_released (p : PState) (s : Nat) (v : PVar) : (p.setVar s v).released = p.released := rfl

theorem live_some {p : PState} {s : Nat} {v : PVar} (h : p.live s = some v) : p.vars s = some v ∧ p.retired s = false := by
  unfold PState.live at h
  split at h
  · rename_i w hw
    split at h
    · cases h
    · rename_i hr
      cases h
      exact ⟨hw, by simpa using hr⟩
  · cases h

/-- the simulation invariant between the discipline (names) and the machine (pointers) -/
structure Inv (p : PState) (h : HState) : Prop where
  unassigned : ∀ s, p.vars s = none → h.slots s = none ∧ p.retired s = false ∧ p.released s = false
  assigned : ∀ s v, p.vars s = some v → ∃ sl, h.slots s = some sl ∧ sl.tag = v.tag ∧
      v.owning = releases sl.tag sl.needsFree ∧ sl.obj < h.next ∧
      ∃ vg slg, p.vars v.group = some vg ∧ vg.group = v.group ∧ h.slots v.group = some slg ∧ slg.obj = sl.obj
  live : ∀ s v sl, p.vars s = some v → h.slots s = some sl → p.retired s = false →
      sl.hdrOk = true ∧ h.alloc sl.obj = true ∧ p.released v.group = false
  rootsInj : ∀ g g' vg vg' slg slg', p.vars g = some vg → vg.group = g → p.vars g' = some vg' → vg'.group = g' →
      h.slots g = some slg → h.slots g' = some slg' → slg.obj = slg'.obj → g = g'
  allocd : ∀ o, h.alloc o = true → ∃ g vg slg, p.vars g = some vg ∧ vg.group = g ∧ h.slots g = some slg ∧
      slg.obj = o ∧ p.released g = false

theorem inv_init : Inv PState.init HState.init := by
  constructor
  · intro s _; exact ⟨rfl, rfl, rfl⟩
  · intro s v h; cases h
  · intro s v sl h; cases h
  · intro g g' vg vg' slg slg' h; cases h
  · intro o h; cases h

/-- two assigned variables designate the same object iff they are in the same group -/
theorem Inv.same_obj {p : PState} {h : HState} (I : Inv p h) {s s' : Nat} {v v' : PVar} {sl sl' : HSlot}
    (hv : p.vars s = some v) (hv' : p.vars s' = some v') (hs : h.slots s = some sl) (hs' : h.slots s' = some sl')
    (ho : sl.obj = sl'.obj) : v.group = v'.group := by
  obtain ⟨sl1, h1, _, _, _, vg, slg, hvg, hgg, hsg, hog⟩ := I.assigned s v hv
  obtain ⟨sl2, h2, _, _, _, vg', slg', hvg', hgg', hsg', hog'⟩ := I.assigned s' v' hv'
  rw [hs] at h1; cases h1
  rw [hs'] at h2; cases h2
  exact I.rootsInj _ _ vg vg' slg slg' hvg hgg hvg' hgg' hsg hsg' (by rw [hog, hog', ho])

theorem inv_create {p p' : PState} {h : HState} (I : Inv p h) (s tag : Nat) (nf : Bool)
    (hp : p.step (.create s tag nf) = some p') :
    Inv p' (h.step (.create s tag nf)).1 ∧ (h.step (.create s tag nf)).2 = .ok := by
  simp only [PState.step] at hp
  split at hp
  · cases hp
  · rename_i hnone
    cases hp
    have hs : p.vars s = none := by simpa using hnone
    obtain ⟨hsl, hret, hrel⟩ := I.unassigned s hs
    refine ⟨?_, by first | rfl | trivial⟩
    simp only [HState.step]
    constructor
    · intro x hx
      simp only [setVar_vars] at hx
      split at hx
      · cases hx
      · rename_i hne
        have := I.unassigned x hx
        simp [hne, this]
    · intro x v hx
      simp only [setVar_vars] at hx
      split at hx
      · rename_i he
        cases hx
        subst he
        exact ⟨⟨true, tag, h.next, nf⟩, by simp, rfl, rfl, by simp, ⟨x, releases tag nf, tag⟩, ⟨true, tag, h.next, nf⟩,
          by simp, rfl, by simp, rfl⟩
      · rename_i hne
        obtain ⟨sl, h1, h2, h3, h4, vg, slg, h5, h6, h7, h8⟩ := I.assigned x v hx
        have hg : v.group ≠ s := fun e => by rw [e, hs] at h5; cases h5
        exact ⟨sl, by simp [hne, h1], h2, h3, by simp; omega, vg, slg, by simp [hg, h5], h6, by simp [hg, h7], h8⟩
    · intro x v sl hx hsx hr
      simp only [setVar_vars] at hx
      simp only [setSlot_slots] at hsx
      simp only [setVar_retired] at hr
      split at hx
      · rename_i he
        cases hx
        simp only [he, if_true] at hsx
        cases hsx
        simp [hrel]
      · rename_i hne
        simp only [hne, if_false, setAlloc_slots] at hsx
        obtain ⟨a, b, c⟩ := I.live x v sl hx hsx hr
        refine ⟨a, ?_, by simpa using c⟩
        simp only [setSlot_alloc, setAlloc_alloc]
        split <;> simp [b]
    · intro g g' vg vg' slg slg' h1 h2 h3 h4 h5 h6 h7
      simp only [setVar_vars] at h1 h3
      simp only [setSlot_slots, setAlloc_slots] at h5 h6
      by_cases e : g = s <;> by_cases e' : g' = s
      · rw [e, e']
      · exfalso
        simp only [e, if_true] at h5
        simp only [e', if_false] at h3 h6
        cases h5
        obtain ⟨sl, a, _, _, b, _⟩ := I.assigned g' vg' h3
        rw [h6] at a; cases a
        simp only at h7
        omega
      · exfalso
        simp only [e', if_true] at h6
        simp only [e, if_false] at h1 h5
        cases h6
        obtain ⟨sl, a, _, _, b, _⟩ := I.assigned g vg h1
        rw [h5] at a; cases a
        simp only at h7
        omega
      · simp only [e, e', if_false] at h1 h3 h5 h6
        exact I.rootsInj g g' vg vg' slg slg' h1 h2 h3 h4 h5 h6 h7
    · intro o ho
      simp only [setSlot_alloc, setAlloc_alloc] at ho
      split at ho
      · rename_i he
        exact ⟨s, ⟨s, releases tag nf, tag⟩, ⟨true, tag, h.next, nf⟩, by simp, rfl, by simp, he.symm, by simpa using hrel⟩
      · obtain ⟨g, vg, slg, a, b, c, d, e⟩ := I.allocd o ho
        have hg : g ≠ s := fun e => by rw [e, hs] at a; cases a
        exact ⟨g, vg, slg, by simp [hg, a], b, by simp [hg, c], d, by simpa using e⟩

/-- assigning a copy / borrowed handle of a live variable to a fresh variable -/
theorem inv_alias {p : PState} {h : HState} (I : Inv p h) (s' s : Nat) (v : PVar) (sl : HSlot) (nf : Bool)
    (hv : p.vars s = some v) (hr : p.retired s = false) (hsl : h.slots s = some sl) (hfresh : p.vars s' = none) :
    Inv (p.setVar s' ⟨v.group, releases v.tag nf, v.tag⟩) (h.setSlot s' ⟨true, sl.tag, sl.obj, nf⟩) := by
  obtain ⟨sl0, a0, htag, hown, hlt, vg, slg, hvg, hgg, hsg, hog⟩ := I.assigned s v hv
  rw [hsl] at a0; cases a0
  obtain ⟨lh, la, lr⟩ := I.live s v sl hv hsl hr
  obtain ⟨u1, u2, u3⟩ := I.unassigned s' hfresh
  have hgs' : v.group ≠ s' := fun e => by rw [e, hfresh] at hvg; cases hvg
  constructor
  · intro x hx
    simp only [setVar_vars] at hx
    split at hx
    · cases hx
    · rename_i hne
      have := I.unassigned x hx
      simp [hne, this]
  · intro x w hx
    simp only [setVar_vars] at hx
    split at hx
    · rename_i he
      cases hx
      exact ⟨⟨true, sl.tag, sl.obj, nf⟩, by simp [he], htag, by simp [htag], by simpa using hlt, vg, slg,
        by simp [hgs', hvg], hgg, by simp [hgs', hsg], hog⟩
    · rename_i hne
      obtain ⟨slx, h1, h2, h3, h4, vgx, slgx, h5, h6, h7, h8⟩ := I.assigned x w hx
      have hg : w.group ≠ s' := fun e => by rw [e, hfresh] at h5; cases h5
      exact ⟨slx, by simp [hne, h1], h2, h3, by simpa using h4, vgx, slgx, by simp [hg, h5], h6, by simp [hg, h7], h8⟩
  · intro x w slx hx hsx hrx
    simp only [setVar_vars] at hx
    simp only [setSlot_slots] at hsx
    simp only [setVar_retired] at hrx
    split at hx
    · rename_i he
      cases hx
      simp only [he, if_true] at hsx
      cases hsx
      exact ⟨rfl, by simpa using la, by simpa using lr⟩
    · rename_i hne
      simp only [hne, if_false] at hsx
      have := I.live x w slx hx hsx hrx
      simpa using this
  · intro g g' wg wg' sg sg' h1 h2 h3 h4 h5 h6 h7
    simp only [setVar_vars] at h1 h3
    simp only [setSlot_slots] at h5 h6
    have e : g ≠ s' := by
      intro e
      simp only [e, if_true] at h1
      cases h1
      exact hgs' (by simpa using h2.trans e)
    have e' : g' ≠ s' := by
      intro e
      simp only [e, if_true] at h3
      cases h3
      exact hgs' (by simpa using h4.trans e)
    simp only [e, e', if_false] at h1 h3 h5 h6
    exact I.rootsInj g g' wg wg' sg sg' h1 h2 h3 h4 h5 h6 h7
  · intro o ho
    simp only [setSlot_alloc] at ho
    obtain ⟨g, wg, sg, a, b, c, d, e⟩ := I.allocd o ho
    have hg : g ≠ s' := fun e => by rw [e, hfresh] at a; cases a
    exact ⟨g, wg, sg, by simp [hg, a], b, by simp [hg, c], d, by simpa using e⟩

theorem deref_live {p : PState} {h : HState} (I : Inv p h) {s : Nat} {v : PVar} {sl : HSlot}
    (hv : p.vars s = some v) (hr : p.retired s = false) (hsl : h.slots s = some sl) : h.deref sl = .ok := by
  obtain ⟨lh, la, _⟩ := I.live s v sl hv hsl hr
  simp [HState.deref, lh, la]

theorem inv_copy {p p' : PState} {h : HState} (I : Inv p h) (s' s : Nat)
    (hp : p.step (.copy s' s) = some p') :
    Inv p' (h.step (.copy s' s)).1 ∧ (h.step (.copy s' s)).2 = .ok := by
  simp only [PState.step] at hp
  split at hp
  · rename_i v hl
    obtain ⟨hv, hr⟩ := live_some hl
    split at hp
    · cases hp
    · rename_i hf
      cases hp
      have hfresh : p.vars s' = none := by simpa using hf
      obtain ⟨sl, hsl, htag, hown, _⟩ := I.assigned s v hv
      simp only [HState.step, hsl]
      refine ⟨?_, by first | rfl | trivial⟩
      have := inv_alias I s' s v sl sl.needsFree hv hr hsl hfresh
      have e1 : (⟨v.group, releases v.tag sl.needsFree, v.tag⟩ : PVar) = v := by
        cases v with
        | mk g o t => simp only at htag hown ⊢; subst htag; subst hown; rfl
      have e2 : (⟨true, sl.tag, sl.obj, sl.needsFree⟩ : HSlot) = sl := by
        obtain ⟨lh, _, _⟩ := I.live s v sl hv hsl hr
        cases sl with
        | mk a b c d => simp only at lh; subst lh; rfl
      rw [e1, e2] at this
      exact this
  · cases hp

theorem inv_borrow {p p' : PState} {h : HState} (I : Inv p h) (s' s : Nat)
    (hp : p.step (.borrow s' s) = some p') :
    Inv p' (h.step (.borrow s' s)).1 ∧ (h.step (.borrow s' s)).2 = .ok := by
  simp only [PState.step] at hp
  split at hp
  · rename_i v hl
    obtain ⟨hv, hr⟩ := live_some hl
    split at hp
    · cases hp
    · rename_i hf
      cases hp
      have hfresh : p.vars s' = none := by simpa using hf
      obtain ⟨sl, hsl, htag, hown, _⟩ := I.assigned s v hv
      have hd := deref_live I hv hr hsl
      simp only [HState.step, hsl, hd]
      exact ⟨inv_alias I s' s v sl false hv hr hsl hfresh, by first | rfl | trivial⟩
  · cases hp

theorem inv_use {p p' : PState} {h : HState} (I : Inv p h) (s : Nat)
    (hp : p.step (.use s) = some p') :
    Inv p' (h.step (.use s)).1 ∧ (h.step (.use s)).2 = .ok := by
  simp only [PState.step] at hp
  split at hp
  · rename_i hl
    cases hp
    cases hl' : p.live s with
    | none => simp [hl'] at hl
    | some v =>
      obtain ⟨hv, hr⟩ := live_some hl'
      obtain ⟨sl, hsl, _⟩ := I.assigned s v hv
      simp only [HState.step, hsl]
      exact ⟨I, deref_live I hv hr hsl⟩
  · cases hp

theorem inv_free {p p' : PState} {h : HState} (I : Inv p h) (s : Nat)
    (hp : p.step (.free s) = some p') :
    Inv p' (h.step (.free s)).1 ∧ (h.step (.free s)).2 = .ok := by
  simp only [PState.step] at hp
  split at hp
  · rename_i v hl
    obtain ⟨hv, hr⟩ := live_some hl
    obtain ⟨sl, hsl, htag, hown, hlt, vg, slg, hvg, hgg, hsg, hog⟩ := I.assigned s v hv
    obtain ⟨lh, la, lr⟩ := I.live s v sl hv hsl hr
    split at hp
    · -- owning: the object is released, the whole group retires
      rename_i hown'
      cases hp
      have hrel : releases sl.tag sl.needsFree = true := by rw [← hown]; exact hown'
      simp only [HState.step, hsl, lh, hrel, la, Bool.not_true, Bool.false_eq_true, if_false, if_true]
      refine ⟨?_, by first | rfl | trivial⟩
      constructor
      · intro x hx
        replace hx : p.vars x = none := hx
        obtain ⟨a, b, c⟩ := I.unassigned x hx
        have hxs : x ≠ s := fun e => by rw [e, hv] at hx; cases hx
        have hxg : x ≠ v.group := fun e => by rw [e, hvg] at hx; cases hx
        simp [hxs, a, b, c, hx, hxg]
      · intro x w hx
        replace hx : p.vars x = some w := hx
        obtain ⟨slx, h1, h2, h3, h4, vgx, slgx, h5, h6, h7, h8⟩ := I.assigned x w hx
        by_cases e : x = s
        · subst e
          rw [hsl] at h1; cases h1
          refine ⟨{ sl with hdrOk := false }, by simp, h2, h3, by simpa using h4, vgx, ?_⟩
          by_cases eg : w.group = x
          · exact ⟨{ sl with hdrOk := false }, h5, h6, by simp [eg], rfl⟩
          · exact ⟨slgx, h5, h6, by simp [eg, h7], h8⟩
        · refine ⟨slx, by simp [e, h1], h2, h3, by simpa using h4, vgx, ?_⟩
          by_cases eg : w.group = s
          · rw [eg, hsl] at h7; cases h7
            exact ⟨{ sl with hdrOk := false }, h5, h6, by simp [eg], h8⟩
          · exact ⟨slgx, h5, h6, by simp [eg, h7], h8⟩
      · intro x w slx hx hsx hrx
        replace hx : p.vars x = some w := hx
        simp only [Bool.or_eq_false_iff] at hrx
        obtain ⟨hrx1, hrx2⟩ := hrx
        simp only [hx, beq_eq_false_iff_ne] at hrx2
        have hxs : x ≠ s := by
          intro e; subst e; rw [hv] at hx; cases hx; exact hrx2 rfl
        simp only [setSlot_slots, hxs, if_false, setAlloc_slots] at hsx
        obtain ⟨a, b, c⟩ := I.live x w slx hx hsx hrx1
        have hobj : slx.obj ≠ sl.obj := fun e => hrx2 (I.same_obj hx hv hsx hsl e)
        refine ⟨a, by simp [hobj, b], ?_⟩
        simp [c, hrx2]
      · intro g g' wg wg' sg sg' h1 h2 h3 h4 h5 h6 h7
        replace h1 : p.vars g = some wg := h1
        replace h3 : p.vars g' = some wg' := h3
        simp only [setSlot_slots, setAlloc_slots] at h5 h6
        have key : ∀ (x : Nat) (sx : HSlot), (if x = s then some { sl with hdrOk := false } else h.slots x) = some sx →
            ∃ sx', h.slots x = some sx' ∧ sx'.obj = sx.obj := by
          intro x sx hx
          split at hx
          · rename_i e; cases hx; exact ⟨sl, by rw [e, hsl], rfl⟩
          · exact ⟨sx, hx, rfl⟩
        obtain ⟨t, ht, hto⟩ := key g sg h5
        obtain ⟨t', ht', hto'⟩ := key g' sg' h6
        exact I.rootsInj g g' wg wg' t t' h1 h2 h3 h4 ht ht' (by rw [hto, hto', h7])
      · intro o ho
        simp only [setSlot_alloc, setAlloc_alloc] at ho
        split at ho
        · cases ho
        · rename_i hne
          obtain ⟨g, wg, sg, a, b, c, d, e⟩ := I.allocd o ho
          have hg : g ≠ v.group := by
            intro eg
            rw [eg, hsg] at c; cases c
            exact hne (by rw [← d, hog])
          by_cases es : g = s
          · rw [es, hsl] at c; cases c
            exact ⟨g, wg, { sl with hdrOk := false }, a, b, by simp [es], d, by simp [e, hg]⟩
          · exact ⟨g, wg, sg, a, b, by simp [es, c], d, by simp [e, hg]⟩
    · -- borrowed: only this variable retires, nothing is released
      rename_i hown'
      cases hp
      have hrel : releases sl.tag sl.needsFree = false := by rw [← hown]; simpa using hown'
      simp only [HState.step, hsl, lh, hrel, Bool.not_true, Bool.false_eq_true, if_false]
      refine ⟨?_, by first | rfl | trivial⟩
      constructor
      · intro x hx
        replace hx : p.vars x = none := hx
        obtain ⟨a, b, c⟩ := I.unassigned x hx
        have hxs : x ≠ s := fun e => by rw [e, hv] at hx; cases hx
        simp [hxs, a, b, c]
      · intro x w hx
        replace hx : p.vars x = some w := hx
        obtain ⟨slx, h1, h2, h3, h4, vgx, slgx, h5, h6, h7, h8⟩ := I.assigned x w hx
        by_cases e : x = s
        · subst e
          rw [hsl] at h1; cases h1
          refine ⟨{ sl with hdrOk := false }, by simp, h2, h3, by simpa using h4, vgx, ?_⟩
          by_cases eg : w.group = x
          · exact ⟨{ sl with hdrOk := false }, h5, h6, by simp [eg], rfl⟩
          · exact ⟨slgx, h5, h6, by simp [eg, h7], h8⟩
        · refine ⟨slx, by simp [e, h1], h2, h3, by simpa using h4, vgx, ?_⟩
          by_cases eg : w.group = s
          · rw [eg, hsl] at h7; cases h7
            exact ⟨{ sl with hdrOk := false }, h5, h6, by simp [eg], h8⟩
          · exact ⟨slgx, h5, h6, by simp [eg, h7], h8⟩
      · intro x w slx hx hsx hrx
        replace hx : p.vars x = some w := hx
        simp only [Bool.or_eq_false_iff, beq_eq_false_iff_ne] at hrx
        obtain ⟨hrx1, hxs⟩ := hrx
        simp only [setSlot_slots, hxs, if_false] at hsx
        have := I.live x w slx hx hsx hrx1
        simpa using this
      · intro g g' wg wg' sg sg' h1 h2 h3 h4 h5 h6 h7
        replace h1 : p.vars g = some wg := h1
        replace h3 : p.vars g' = some wg' := h3
        simp only [setSlot_slots] at h5 h6
        have key : ∀ (x : Nat) (sx : HSlot), (if x = s then some { sl with hdrOk := false } else h.slots x) = some sx →
            ∃ sx', h.slots x = some sx' ∧ sx'.obj = sx.obj := by
          intro x sx hx
          split at hx
          · rename_i e; cases hx; exact ⟨sl, by rw [e, hsl], rfl⟩
          · exact ⟨sx, hx, rfl⟩
        obtain ⟨t, ht, hto⟩ := key g sg h5
        obtain ⟨t', ht', hto'⟩ := key g' sg' h6
        exact I.rootsInj g g' wg wg' t t' h1 h2 h3 h4 ht ht' (by rw [hto, hto', h7])
      · intro o ho
        simp only [setSlot_alloc] at ho
        obtain ⟨g, wg, sg, a, b, c, d, e⟩ := I.allocd o ho
        by_cases es : g = s
        · rw [es, hsl] at c; cases c
          exact ⟨g, wg, { sl with hdrOk := false }, a, b, by simp [es], d, e⟩
        · exact ⟨g, wg, sg, a, b, by simp [es, c], d, e⟩
  · cases hp

theorem inv_step {p p' : PState} {h : HState} (I : Inv p h) (op : HOp) (hp : p.step op = some p') :
    Inv p' (h.step op).1 ∧ (h.step op).2 = .ok := by
  cases op with
  | create s tag nf => exact inv_create I s tag nf hp
  | copy s' s => exact inv_copy I s' s hp
  | borrow s' s => exact inv_borrow I s' s hp
  | use s => exact inv_use I s hp
  | free s => exact inv_free I s hp

theorem run_ok {p : PState} {h : HState} (I : Inv p h) (ops : List HOp) (hw : p.wf ops = true) :
    ∀ o ∈ (h.run ops).2, o = .ok := by
  induction ops generalizing p h with
  | nil => intro o ho; simp [HState.run] at ho
  | cons op ops ih =>
    simp only [PState.wf] at hw
    split at hw
    · rename_i p' hp
      obtain ⟨I', hok⟩ := inv_step I op hp
      intro o ho
      simp only [HState.run, List.mem_cons] at ho
      rcases ho with rfl | ho
      · exact hok
      · exact ih I' hw o ho
    · cases hw

theorem run_inv {p p' : PState} {h : HState} (I : Inv p h) (ops : List HOp) (hr : p.runP ops = some p') :
    Inv p' (h.run ops).1 := by
  induction ops generalizing p h with
  | nil => simp only [PState.runP] at hr; cases hr; exact I
  | cons op ops ih =>
    simp only [PState.runP] at hr
    cases hp : p.step op with
    | none => simp [hp] at hr
    | some p1 =>
      simp only [hp, Option.bind] at hr
      obtain ⟨I', _⟩ := inv_step I op hp
      simp only [HState.run]
      exact ih I' hr

end Occa.CApi
